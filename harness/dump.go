package main

import (
	"bufio"
	"encoding/hex"
	"fmt"
	"sort"
	"strings"

	"github.com/shivasurya/code-pathfinder/sourcecode-parser/graph"
	"github.com/shivasurya/code-pathfinder/sourcecode-parser/model"
	sitter "github.com/smacker/go-tree-sitter"
)

func hx(s string) string { return "x" + hex.EncodeToString([]byte(s)) }

func hxl(l []string) string {
	q := make([]string, len(l))
	for i, s := range l {
		q[i] = hx(s)
	}
	return "[" + strings.Join(q, ",") + "]"
}

func b01(b bool) string {
	if b {
		return "1"
	}
	return "0"
}

// dumpCST writes the tree in pre-order, one node per line.
func dumpCST(w *bufio.Writer, n *sitter.Node, field string) {
	f := "~"
	if field != "" {
		f = hx(field)
	}
	cnt := int(n.ChildCount())
	fmt.Fprintf(w, "N %s %s %s %s %d %d %d %d %d\n", hx(n.Type()), b01(n.IsNamed()), b01(n.IsMissing()), f,
		n.StartByte(), n.EndByte(), n.StartPoint().Row, n.StartPoint().Column, cnt)
	for i := 0; i < cnt; i++ {
		dumpCST(w, n.Child(i), n.FieldNameForChild(i))
	}
}

func exprS(e *model.Expr) string {
	if e == nil {
		return "~"
	}
	return hx(e.NodeString)
}

func docS(d *model.Javadoc) string {
	if d == nil {
		return "~"
	}
	tags := make([]string, len(d.Tags))
	for i, t := range d.Tags {
		tags[i] = fmt.Sprintf("(%s,%s,%s)", hx(t.TagName), hx(t.Text), hx(t.DocType))
	}
	return fmt.Sprintf("{tags=[%s];author=%s;version=%s;nlines=%d;commented=%s}", strings.Join(tags, ","),
		hx(d.Author), hx(d.Version), d.NumberOfCommentLines, hx(d.CommentedCodeElements))
}

func stmtS(n *graph.Node) string {
	var parts []string
	if s := n.IfStmt; s != nil {
		parts = append(parts, fmt.Sprintf("if(%s,%s,%s)", exprS(s.Condition), hx(s.Then.NodeString), hx(s.Else.NodeString)))
	}
	if s := n.WhileStmt; s != nil {
		parts = append(parts, fmt.Sprintf("while(%s)", exprS(s.Condition)))
	}
	if s := n.DoStmt; s != nil {
		parts = append(parts, fmt.Sprintf("do(%s)", exprS(s.Condition)))
	}
	if s := n.ForStmt; s != nil {
		parts = append(parts, fmt.Sprintf("for(%s,%s,%s)", exprS(s.Init), exprS(s.Condition), exprS(s.Increment)))
	}
	if s := n.BreakStmt; s != nil {
		parts = append(parts, fmt.Sprintf("break(%s)", hx(s.Label)))
	}
	if s := n.ContinueStmt; s != nil {
		parts = append(parts, fmt.Sprintf("continue(%s)", hx(s.Label)))
	}
	if s := n.YieldStmt; s != nil {
		parts = append(parts, fmt.Sprintf("yield(%s)", hx(s.Value.NodeString)))
	}
	if s := n.AssertStmt; s != nil {
		parts = append(parts, fmt.Sprintf("assert(%s,%s)", hx(s.Expr.NodeString), exprS(s.Message)))
	}
	if s := n.ReturnStmt; s != nil {
		parts = append(parts, fmt.Sprintf("return(%s)", exprS(s.Result)))
	}
	if s := n.BlockStmt; s != nil {
		l := make([]string, len(s.Stmts))
		for i, st := range s.Stmts {
			l[i] = st.NodeString
		}
		parts = append(parts, fmt.Sprintf("block(%s)", hxl(l)))
	}
	if len(parts) == 0 {
		return "~"
	}
	return strings.Join(parts, "+") // more than one payload never matches the model's single payload
}

// nodeS is the canonical one-line projection of a graph.Node (all fields the model tracks).
func nodeS(n *graph.Node) string {
	bin := "~"
	if b := n.BinaryExpr; b != nil {
		bin = fmt.Sprintf("(%s,%s,%s)", hx(b.Op), exprS(b.LeftOperand), exprS(b.RightOperand))
	}
	nw := "~"
	if c := n.ClassInstanceExpr; c != nil {
		args := make([]string, len(c.Args))
		for i, a := range c.Args {
			args[i] = fmt.Sprintf("(%s,%s)", hx(a.Type), hx(a.NodeString))
		}
		nw = fmt.Sprintf("(%s,[%s])", hx(c.ClassName), strings.Join(args, ","))
	}
	return fmt.Sprintf("NODE id=%s type=%s name=%s snippet=%s line=%d ext=%s mod=%s ret=%s argt=%s argv=%s super=%s iface=%s dtype=%s scope=%s value=%s access=%s file=%s isjava=%s throws=%s annot=%s doc=%s bin=%s new=%s stmt=%s",
		n.ID, hx(n.Type), hx(n.Name), hx(n.CodeSnippet), n.LineNumber, b01(n.IsExternal), hx(n.Modifier), hx(n.ReturnType),
		hxl(n.MethodArgumentsType), hxl(n.MethodArgumentsValue), hx(n.SuperClass), hxl(n.Interface), hx(n.DataType),
		hx(n.Scope), hx(n.VariableValue), b01(n.VerifHasAccess()), hx(n.File), b01(n.VerifIsJavaSourceFile()),
		hxl(n.ThrowsExceptions), hxl(n.Annotation), docS(n.JavaDoc), bin, nw, stmtS(n))
}

// graphLines: sorted NODE lines and sorted EDGE lines of a graph.
func graphLines(g *graph.CodeGraph) []string {
	var nodes, edges []string
	for id, n := range g.Nodes {
		if id != n.ID {
			nodes = append(nodes, "KEYMISMATCH "+id+" "+n.ID)
		}
		nodes = append(nodes, nodeS(n))
	}
	for _, e := range g.Edges {
		edges = append(edges, "EDGE "+e.From.ID+" "+e.To.ID)
	}
	sort.Strings(nodes)
	sort.Strings(edges)
	return append(nodes, edges...)
}
