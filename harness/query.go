package main

import (
	"bufio"
	"fmt"
	"os"
	"strings"
	"sync"

	parser "github.com/shivasurya/code-pathfinder/sourcecode-parser/antlr"
	"github.com/shivasurya/code-pathfinder/sourcecode-parser/cmd"
	"github.com/shivasurya/code-pathfinder/sourcecode-parser/graph"
)

func init() {
	commands["init-dump"] = cmdInitDump
	commands["queries"] = cmdQueries
}

// init-dump <dir> <out>: graph.Initialize(dir), canonical dump of the merged graph
func cmdInitDump(args []string) int {
	out, _ := os.Create(args[1])
	defer out.Close()
	w := bufio.NewWriter(out)
	defer w.Flush()
	stdout := os.Stdout
	devnull, _ := os.OpenFile(os.DevNull, os.O_WRONLY, 0)
	os.Stdout = devnull
	g := graph.Initialize(args[0])
	os.Stdout = stdout
	for _, l := range graphLines(g) {
		fmt.Fprintln(w, l)
	}
	return 0
}

// parsedLine: what parser.ParseQuery recovers from the query (C11) and the expanded condition (C13/C14)
func parsedLine(id, q string) (line string) {
	defer func() {
		if r := recover(); r != nil {
			line = fmt.Sprintf("PARSED %s panic %s", id, hx(fmt.Sprint(r)))
		}
	}()
	types, _, lexErr := parser.VerifTokens(q)
	ts := make([]string, len(types))
	for i, t := range types {
		ts[i] = fmt.Sprint(t)
	}
	toks := strings.Join(ts, ".")
	if lexErr {
		toks = "!" + toks
	}
	pq, err := parser.ParseQuery(q)
	if err != nil {
		return fmt.Sprintf("PARSED %s reject toks=%s", id, toks)
	}
	var from, sel, preds []string
	for _, s := range pq.SelectList {
		from = append(from, hx(s.Entity)+":"+hx(s.Alias))
	}
	for _, s := range pq.SelectOutput {
		switch s.Type {
		case "variable":
			sel = append(sel, "variable:"+hx(s.SelectEntity))
		case "string":
			sel = append(sel, "string:"+hx(s.SelectEntity))
		default:
			sel = append(sel, s.Type)
		}
	}
	for _, p := range pq.Predicate {
		var ps []string
		for _, a := range p.Parameter {
			ps = append(ps, hx(a.Type)+":"+hx(a.Name))
		}
		preds = append(preds, hx(p.PredicateName)+"("+strings.Join(ps, ";")+")")
	}
	cond, cerr := parser.ExpandedCondition(q)
	c := hx(cond)
	if cerr != nil {
		c = "!"
	}
	return fmt.Sprintf("PARSED %s accept toks=%s from=%s select=%s preds=%s cond=%s", id, toks, strings.Join(from, ","), strings.Join(sel, ","), strings.Join(preds, ","), c)
}

func runOne(q string, g *graph.CodeGraph, mode string) (res string, err error, panicked string) {
	defer func() {
		if r := recover(); r != nil {
			panicked = fmt.Sprint(r)
		}
	}()
	res, err = cmd.VerifProcessQuery(q, g, mode)
	return
}

// queries <project-dir|-> <queries-file> <out> [mode] [start]
// queries-file: "<id> <hex query>" per line.  Output per query, flushed immediately:
//   BEGIN <id>            (written before evaluation, so a process exit is attributable)
//   RESULT <id> ok|err|panic <hex payload>
// After all queries: GRAPH lines (canonical dump) so the caller can see whether evaluation mutated the graph.
func cmdQueries(args []string) int {
	mode := "json"
	if len(args) > 3 {
		mode = args[3]
	}
	start := 0
	if len(args) > 4 {
		fmt.Sscan(args[4], &start)
	}
	data, err := os.ReadFile(args[1])
	if err != nil {
		fmt.Fprintln(os.Stderr, err)
		return 2
	}
	out, _ := os.OpenFile(args[2], os.O_APPEND|os.O_CREATE|os.O_WRONLY, 0o644)
	defer out.Close()
	stdout := os.Stdout
	devnull, _ := os.OpenFile(os.DevNull, os.O_WRONLY, 0)
	os.Stdout = devnull
	g := graph.NewCodeGraph()
	if args[0] != "-" {
		g = graph.Initialize(args[0])
	}
	lines := strings.Split(strings.TrimSpace(string(data)), "\n")
	for i, line := range lines {
		if i < start || line == "" {
			continue
		}
		w := strings.SplitN(line, " ", 2)
		qb, _ := hexDecode(w[1])
		fmt.Fprintf(out, "BEGIN %s\n", w[0])
		fmt.Fprintf(out, "%s\n", parsedLine(w[0], string(qb)))
		res, err, p := runOne(string(qb), g, mode)
		switch {
		case p != "":
			fmt.Fprintf(out, "RESULT %s panic %s\n", w[0], hx(p))
		case err != nil:
			fmt.Fprintf(out, "RESULT %s err %s\n", w[0], hx(err.Error()))
		default:
			fmt.Fprintf(out, "RESULT %s ok %s\n", w[0], hx(res))
		}
	}
	os.Stdout = stdout
	for _, l := range graphLines(g) {
		fmt.Fprintf(out, "GRAPH %s\n", l)
	}
	fmt.Fprintf(out, "DONE\n")
	return 0
}

// init-dump-mutate <dir> <out> <plan>: like init-dump, but files change on disk at the moment a worker is about to read
// them (between discovery and reading).  Plan lines: "<hex path> rewrite <hex content>" | "<hex path> remove".
func cmdInitDumpMutate(args []string) int {
	plan := map[string][]string{}
	pf, err := os.Open(args[2])
	if err != nil {
		fmt.Fprintln(os.Stderr, err)
		return 2
	}
	sc := bufio.NewScanner(pf)
	sc.Buffer(make([]byte, 0, 1<<20), 1<<30)
	for sc.Scan() {
		f := strings.Fields(sc.Text())
		if len(f) >= 2 {
			p, _ := hexDecode(f[0])
			plan[string(p)] = f[1:]
		}
	}
	pf.Close()
	var mu sync.Mutex
	graph.VerifBeforeFile = func(path string) {
		mu.Lock()
		defer mu.Unlock()
		act, ok := plan[path]
		if !ok {
			return
		}
		delete(plan, path)
		switch act[0] {
		case "rewrite":
			c, _ := hexDecode(act[1])
			_ = os.WriteFile(path, c, 0o644)
		case "remove":
			_ = os.Remove(path)
		}
	}
	defer func() { graph.VerifBeforeFile = nil }()
	return cmdInitDump(args[:2])
}

func init() { commands["init-dump-mutate"] = cmdInitDumpMutate }
