module verif/harness

go 1.22.0

require (
	github.com/shivasurya/code-pathfinder/sourcecode-parser v0.0.0
	github.com/smacker/go-tree-sitter v0.0.0-20240625050157-a31a98a7c0f6
)

require (
	github.com/antlr4-go/antlr/v4 v4.13.1 // indirect
	github.com/expr-lang/expr v1.16.9 // indirect
	github.com/fatih/color v1.17.0 // indirect
	github.com/google/uuid v1.6.0 // indirect
	github.com/joho/godotenv v1.5.1 // indirect
	github.com/mattn/go-colorable v0.1.13 // indirect
	github.com/mattn/go-isatty v0.0.20 // indirect
	github.com/owenrumney/go-sarif/v2 v2.3.3 // indirect
	github.com/posthog/posthog-go v1.2.20 // indirect
	github.com/spf13/cobra v1.8.1 // indirect
	github.com/spf13/pflag v1.0.5 // indirect
	golang.org/x/exp v0.0.0-20240823005443-9b4947da3948 // indirect
	golang.org/x/sys v0.18.0 // indirect
)

replace github.com/shivasurya/code-pathfinder/sourcecode-parser => /repo/sourcecode-parser
