package main

import (
	"bufio"
	"context"
	"fmt"
	"os"
	"strings"
	"time"

	"github.com/shivasurya/code-pathfinder/sourcecode-parser/graph"
	sitter "github.com/smacker/go-tree-sitter"
	"github.com/smacker/go-tree-sitter/java"
)

func init() { commands["scan-dump"] = cmdScanDump }

// how long one file may take in the builder before it is called a stall
const stallAfter = 40 * time.Second

// buildOne runs the real builder on one (path, bytes) with panic recovery.
func buildOne(root *sitter.Node, src []byte, path string) (g *graph.CodeGraph, panicked string) {
	defer func() {
		if r := recover(); r != nil {
			panicked = fmt.Sprint(r)
		}
	}()
	g = graph.NewCodeGraph()
	graph.VerifBuildGraphFromAST(root, src, g, path)
	return g, ""
}

// scan-dump <list-file> <cases-out> <impl-out>
// list-file: one line per case: "<id> <reported-path-hex> <file-on-disk>"
func cmdScanDump(args []string) int {
	if len(args) != 3 {
		fmt.Fprintln(os.Stderr, "usage: scan-dump <list> <cases-out> <impl-out>")
		return 2
	}
	lf, err := os.ReadFile(args[0])
	if err != nil {
		fmt.Fprintln(os.Stderr, err)
		return 2
	}
	cf, _ := os.Create(args[1])
	defer cf.Close()
	cw := bufio.NewWriterSize(cf, 1<<20)
	defer cw.Flush()
	imf, _ := os.Create(args[2])
	defer imf.Close()
	iw := bufio.NewWriterSize(imf, 1<<20)
	defer iw.Flush()

	parser := sitter.NewParser()
	defer parser.Close()
	parser.SetLanguage(java.GetLanguage())
	for _, line := range strings.Split(strings.TrimSpace(string(lf)), "\n") {
		if line == "" {
			continue
		}
		w := strings.SplitN(line, " ", 3)
		id, pathHex, disk := w[0], w[1], w[2]
		pb, err := hexDecode(pathHex)
		if err != nil {
			fmt.Fprintln(os.Stderr, "bad path hex", line)
			return 2
		}
		path := string(pb)
		src, err := os.ReadFile(disk)
		if err != nil {
			fmt.Fprintln(os.Stderr, err)
			return 2
		}
		tree, err := parser.ParseCtx(context.TODO(), nil, src)
		if err != nil {
			fmt.Fprintln(os.Stderr, "parse error", err)
			return 2
		}
		root := tree.RootNode()
		fmt.Fprintf(cw, "CASE %s\nPATH %s\nSRC %s\n", id, hx(path), hx(string(src)))
		dumpCST(cw, root, "")
		t0 := time.Now()
		// a builder that does not come back within the deadline is reported as a stall; the remaining cases are
		// then skipped (the goroutine cannot be stopped): the caller runs them in a new process
		type built struct {
			g *graph.CodeGraph
			p string
		}
		ch := make(chan built, 1)
		go func() { g_, p_ := buildOne(root, src, path); ch <- built{g_, p_} }()
		var g *graph.CodeGraph
		var p string
		select {
		case b := <-ch:
			g, p = b.g, b.p
		case <-time.After(stallAfter):
			fmt.Fprintf(iw, "CASE %s\nTIME %d\nOUTCOME stall\nENDCASE\nSTALLED %s\n", id, time.Since(t0).Milliseconds(), id)
			iw.Flush()
			cw.Flush()
			os.Exit(3)
		}
		fmt.Fprintf(iw, "CASE %s\n", id)
		fmt.Fprintf(iw, "TIME %d\n", time.Since(t0).Milliseconds())
		if p != "" {
			fmt.Fprintf(iw, "OUTCOME panic\n")
		} else {
			fmt.Fprintf(iw, "OUTCOME ok\n")
			for _, l := range graphLines(g) {
				fmt.Fprintln(iw, l)
			}
		}
		fmt.Fprintf(iw, "ENDCASE\n")
		tree.Close()
	}
	return 0
}

func graphGetFiles(dir string) ([]string, error) { return graph.VerifGetFiles(dir) }
