package main

import (
	"fmt"
	"os"
)

var commands = map[string]func(args []string) int{}

func main() {
	if len(os.Args) < 2 {
		fmt.Fprintln(os.Stderr, "usage: harness <command> [args]")
		os.Exit(2)
	}
	f, ok := commands[os.Args[1]]
	if !ok {
		fmt.Fprintln(os.Stderr, "unknown command", os.Args[1])
		os.Exit(2)
	}
	os.Exit(f(os.Args[2:]))
}
