package main

import (
	"context"
	"fmt"
	"os"
	"strings"

	sitter "github.com/smacker/go-tree-sitter"
	"github.com/smacker/go-tree-sitter/java"
)

func init() { commands["cst-show"] = cmdCstShow }

func showNode(n *sitter.Node, src []byte, field string, depth int) {
	txt := n.Content(src)
	if len(txt) > 40 {
		txt = txt[:40] + "..."
	}
	txt = strings.ReplaceAll(txt, "\n", "\\n")
	f := ""
	if field != "" {
		f = field + ": "
	}
	nm := ""
	if !n.IsNamed() {
		nm = " (anon)"
	}
	if n.IsMissing() {
		nm += " MISSING"
	}
	fmt.Printf("%s%s%s%s [%d:%d] %q\n", strings.Repeat("  ", depth), f, n.Type(), nm, n.StartPoint().Row, n.StartPoint().Column, txt)
	for i := 0; i < int(n.ChildCount()); i++ {
		showNode(n.Child(i), src, n.FieldNameForChild(i), depth+1)
	}
}

func cmdCstShow(args []string) int {
	src, err := os.ReadFile(args[0])
	if err != nil {
		fmt.Println(err)
		return 2
	}
	p := sitter.NewParser()
	p.SetLanguage(java.GetLanguage())
	tree, _ := p.ParseCtx(context.TODO(), nil, src)
	showNode(tree.RootNode(), src, "", 0)
	return 0
}
