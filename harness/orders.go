package main

import (
	"bufio"
	"crypto/sha256"
	"encoding/hex"
	"fmt"
	"math/rand"
	"os"
	"runtime"
	"sort"
	"strings"
	"sync"
	"time"

	"github.com/shivasurya/code-pathfinder/sourcecode-parser/graph"
)

func init() { commands["orders"] = cmdOrders }

func localFile(g *graph.CodeGraph) string {
	for _, n := range g.Nodes {
		return n.File
	}
	return ""
}

// runForced scans dir forcing the per-file results to arrive in the given order (files missing from
// rank are unconstrained). Returns the observed arrival order (files of non-empty local graphs),
// the local graphs in arrival order and the final graph.
func runForced(dir string, order []string, jitter *rand.Rand, silent map[string]bool) (observed []string, locals [][]string, final *graph.CodeGraph, timedOut bool, hung bool) {
	rank := map[string]int{}
	for i, f := range order {
		rank[f] = i
	}
	var mu sync.Mutex
	cond := sync.NewCond(&mu)
	merged := 0 // number of ranked files merged so far
	released := false
	graph.VerifBeforeFile = func(path string) {
		if jitter != nil {
			mu.Lock()
			d := time.Duration(jitter.Intn(3000)) * time.Microsecond
			mu.Unlock()
			time.Sleep(d)
			return
		}
		r, ok := rank[path]
		if !ok {
			return
		}
		mu.Lock()
		for merged < r && !released {
			cond.Wait()
		}
		if silent[path] {
			// an entry that cannot be read is skipped without any merge event: it counts as done once taken up
			merged++
			cond.Broadcast()
		}
		mu.Unlock()
	}
	graph.VerifOnMerge = func(local *graph.CodeGraph) {
		f := localFile(local)
		mu.Lock()
		observed = append(observed, f)
		locals = append(locals, graphLines(local))
		if _, ok := rank[f]; ok || f == "" {
			merged++
		}
		cond.Broadcast()
		mu.Unlock()
	}
	done := make(chan struct{})
	go func() {
		select {
		case <-done:
		case <-time.After(4 * time.Second):
			mu.Lock()
			released, timedOut = true, true
			cond.Broadcast()
			mu.Unlock()
		}
	}()
	final, hung = initWithDeadline(dir, 25*time.Second)
	close(done)
	if !hung {
		graph.VerifBeforeFile, graph.VerifOnMerge = nil, nil
	}
	return
}

// initWithDeadline runs graph.Initialize; hung = it did not return within d (its goroutines are then abandoned;
// the caller reports and exits)
func initWithDeadline(dir string, d time.Duration) (*graph.CodeGraph, bool) {
	ch := make(chan *graph.CodeGraph, 1)
	go func() { ch <- graph.Initialize(dir) }()
	select {
	case g := <-ch:
		return g, false
	case <-time.After(d):
		return graph.NewCodeGraph(), true
	}
}

func hashLines(l []string) string {
	h := sha256.Sum256([]byte(strings.Join(l, "\n")))
	return hex.EncodeToString(h[:8])
}

func permutations(a []string) [][]string {
	if len(a) <= 1 {
		return [][]string{append([]string{}, a...)}
	}
	var out [][]string
	for i := range a {
		rest := append(append([]string{}, a[:i]...), a[i+1:]...)
		for _, p := range permutations(rest) {
			out = append(out, append([]string{a[i]}, p...))
		}
	}
	return out
}

// orders <dir> <out> <nruns> <seed>
// For <= 4 .java files with entities: every permutation; otherwise nruns sampled window orders
// (position i is drawn from the first i+5 files in walk order not yet chosen), then nruns runs with
// random per-file delays, each under GOMAXPROCS in {1,2,4,16}. Writes per run a RUN line and, once,
// the final graph (FINAL lines) and per-arrival local graphs of the first run (LOCAL / L lines).
func cmdOrders(args []string) int {
	dir := args[0]
	out, _ := os.Create(args[1])
	defer out.Close()
	w := bufio.NewWriter(out)
	defer w.Flush()
	nruns := 10
	fmt.Sscan(args[2], &nruns)
	var seed int64 = 1
	fmt.Sscan(args[3], &seed)
	rng := rand.New(rand.NewSource(seed))
	stdout := os.Stdout
	devnull, _ := os.OpenFile(os.DevNull, os.O_WRONLY, 0)
	os.Stdout = devnull
	defer func() { os.Stdout = stdout }()

	files, err := graph.VerifGetFiles(dir)
	if err != nil {
		fmt.Fprintf(w, "ERROR getFiles %v\n", err)
		return 0
	}
	// files that yield at least one entity (an empty local graph carries no file name)
	probe, phung := initWithDeadline(dir, 25*time.Second)
	if phung {
		fmt.Fprintf(w, "RUN kind=probe procs=%d timeout=false hang=true want=x observed=x hash=x nodes=0 edges=0\n", runtime.GOMAXPROCS(0))
		w.Flush()
		os.Exit(0)
	}
	has := map[string]bool{}
	for _, n := range probe.Nodes {
		has[n.File] = true
	}
	// every discovered entry is ranked: files with entities are counted when merged, readable files without
	// entities arrive as an anonymous empty graph, unreadable entries (dangling links ...) are skipped silently
	silent := map[string]bool{}
	var ranked []string
	for _, f := range files {
		if _, err := os.ReadFile(f); err != nil {
			silent[f] = true
		}
		ranked = append(ranked, f)
	}
	var orders [][]string
	if len(ranked) <= 4 {
		orders = permutations(ranked)
	} else {
		for k := 0; k < nruns; k++ {
			var o []string
			chosen := map[string]bool{}
			for i := 0; i < len(ranked); i++ {
				hi := i + 5
				if hi > len(ranked) {
					hi = len(ranked)
				}
				var avail []string
				for _, f := range ranked[:hi] {
					if !chosen[f] {
						avail = append(avail, f)
					}
				}
				f := avail[rng.Intn(len(avail))]
				chosen[f] = true
				o = append(o, f)
			}
			orders = append(orders, o)
		}
	}
	procs := []int{1, 2, 4, 16}
	first := true
	emit := func(kind string, want []string, obs []string, locals [][]string, final *graph.CodeGraph, to bool, p int, hung bool) {
		if hung {
			fmt.Fprintf(w, "RUN kind=%s procs=%d timeout=%v hang=true want=%s observed=x hash=x nodes=0 edges=0\n", kind, p, to, hx(strings.Join(want, "\x00")))
			w.Flush()
			os.Exit(0)
		}
		lines := graphLines(final)
		var nonEmpty []string
		for _, f := range obs {
			if f != "" {
				nonEmpty = append(nonEmpty, f)
			}
		}
		var wantEnt []string
		for _, f := range want {
			if has[f] {
				wantEnt = append(wantEnt, f)
			}
		}
		fmt.Fprintf(w, "RUN kind=%s procs=%d timeout=%v hang=false want=%s observed=%s hash=%s nodes=%d edges=%d\n", kind, p, to,
			hx(strings.Join(wantEnt, "\x00")), hx(strings.Join(nonEmpty, "\x00")), hashLines(lines), len(final.Nodes), len(final.Edges))
		if first {
			first = false
			for _, l := range lines {
				fmt.Fprintf(w, "FINAL %s\n", l)
			}
			for _, loc := range locals {
				fmt.Fprintf(w, "LOCAL\n")
				for _, l := range loc {
					fmt.Fprintf(w, "L %s\n", l)
				}
			}
			fmt.Fprintf(w, "ENDLOCALS\n")
		}
	}
	for i, o := range orders {
		p := procs[i%len(procs)]
		runtime.GOMAXPROCS(p)
		obs, locals, final, to, hung := runForced(dir, o, nil, silent)
		emit("forced", o, obs, locals, final, to, p, hung)
	}
	for k := 0; k < nruns; k++ {
		p := procs[k%len(procs)]
		runtime.GOMAXPROCS(p)
		obs, locals, final, to, hung := runForced(dir, nil, rng, silent)
		emit("jitter", nil, obs, locals, final, to, p, hung)
	}
	sort.Strings(files)
	fmt.Fprintf(w, "FILES %d ranked=%d\n", len(files), len(ranked))
	return 0
}
