package main

import (
	"encoding/hex"
	"strings"
)

func hexDecode(s string) ([]byte, error) { return hex.DecodeString(strings.TrimPrefix(s, "x")) }
