package main

import (
	"bufio"
	"bytes"
	"fmt"
	"io"
	"net/http"
	"os"
	"strconv"
	"strings"

	parser "github.com/shivasurya/code-pathfinder/sourcecode-parser/antlr"
	"github.com/shivasurya/code-pathfinder/sourcecode-parser/cmd"
)

func init() {
	commands["rules"] = cmdRules
	commands["bundle-load"] = cmdBundleLoad
}

func tokLine(q string) string {
	types, texts, lexErr := parser.VerifTokens(q)
	parts := make([]string, len(types))
	for i := range types {
		parts[i] = fmt.Sprintf("%d:%s", types[i], hx(texts[i]))
	}
	s := strings.Join(parts, ",")
	if lexErr {
		s = "!" + s
	}
	return s
}

// rules <list> <out>: list lines "<id> <rule-file-path> <original-query-hex>"
// Output per rule: RULE <id> id= desc= sev= impact= provider= ciq=<hex> fileq=<hex> citoks= filetoks= origtoks=
func cmdRules(args []string) int {
	data, err := os.ReadFile(args[0])
	if err != nil {
		fmt.Fprintln(os.Stderr, err)
		return 2
	}
	out, _ := os.Create(args[1])
	defer out.Close()
	w := bufio.NewWriter(out)
	defer w.Flush()
	stdout := os.Stdout
	devnull, _ := os.OpenFile(os.DevNull, os.O_WRONLY, 0)
	os.Stdout = devnull
	defer func() { os.Stdout = stdout }()
	for _, line := range strings.Split(strings.TrimSpace(string(data)), "\n") {
		if line == "" {
			continue
		}
		f := strings.SplitN(line, " ", 3)
		text, err := os.ReadFile(f[1])
		if err != nil {
			fmt.Fprintln(os.Stderr, err)
			return 2
		}
		orig, _ := hexDecode(f[2])
		r := cmd.ParseQuery(string(text))
		fq, ferr := cmd.ExtractQueryFromFile(f[1])
		fe := ""
		if ferr != nil {
			fe = " fileerr=" + hx(ferr.Error())
		}
		fmt.Fprintf(w, "RULE %s id=%s desc=%s sev=%s impact=%s provider=%s ciq=%s fileq=%s citoks=%s filetoks=%s origtoks=%s%s\n", f[0],
			hx(r.ID), hx(r.Description), hx(r.Severity), hx(r.Impact), hx(r.RuleProvider), hx(r.Query), hx(fq),
			tokLine(r.Query), tokLine(fq), tokLine(string(orig)), fe)
	}
	return 0
}

type stubTransport struct{ body []byte }

func (s stubTransport) RoundTrip(req *http.Request) (*http.Response, error) {
	return &http.Response{StatusCode: 200, Status: "200 OK", Body: io.NopCloser(bytes.NewReader(s.body)),
		Header: http.Header{"Content-Type": []string{"application/json"}}, Request: req, ContentLength: int64(len(s.body))}, nil
}

// bundle-load <bundle.json|-> <rules-dir> <out>: the rules as `ci --ruleset cpf/<name>` loads them
// (http.DefaultTransport replaced by a stub serving the bundle) and as `--ruleset <dir>` loads them.
func cmdBundleLoad(args []string) int {
	out, _ := os.Create(args[2])
	defer out.Close()
	w := bufio.NewWriter(out)
	defer w.Flush()
	stdout := os.Stdout
	devnull, _ := os.OpenFile(os.DevNull, os.O_WRONLY, 0)
	os.Stdout = devnull
	defer func() { os.Stdout = stdout }()
	if args[0] != "-" {
		body, err := os.ReadFile(args[0])
		if err != nil {
			fmt.Fprintf(w, "HOSTED error %s\n", hx(err.Error()))
		} else {
			http.DefaultTransport = stubTransport{body}
			rules, err := cmd.VerifLoadRules("cpf/bundle", true)
			if err != nil {
				fmt.Fprintf(w, "HOSTED error %s\n", hx(err.Error()))
			} else {
				fmt.Fprintf(w, "HOSTED ok %s\n", hxl(rules))
			}
		}
	} else {
		fmt.Fprintf(w, "HOSTED none\n")
	}
	rules, err := cmd.VerifLoadRules(args[1], false)
	if err != nil {
		fmt.Fprintf(w, "LOCAL error %s\n", hx(err.Error()))
	} else {
		fmt.Fprintf(w, "LOCAL ok %s\n", hxl(rules))
	}
	return 0
}

func init() { commands["getfiles"] = cmdGetFiles }

// getfiles <dir> <out>: graph.getFiles(dir) — the walked .java paths in walk order, or the error
func cmdGetFiles(args []string) int {
	out, _ := os.Create(args[1])
	defer out.Close()
	files, err := graphGetFiles(args[0])
	if err != nil {
		fmt.Fprintf(out, "ERROR %s\n", hx(err.Error()))
		return 0
	}
	fmt.Fprintf(out, "FILES %s\n", hxl(files))
	return 0
}

// a transport whose FIRST response breaks off with a read error after `cut` bytes; later responses are complete
type faultyTransport struct {
	body []byte
	cut  int
	n    *int
}

type cutReader struct {
	r    *bytes.Reader
	left int
}

func (c *cutReader) Read(p []byte) (int, error) {
	if c.left <= 0 {
		return 0, fmt.Errorf("connection reset by peer")
	}
	if len(p) > c.left {
		p = p[:c.left]
	}
	n, err := c.r.Read(p)
	c.left -= n
	if err == io.EOF {
		return n, fmt.Errorf("unexpected EOF (connection reset)")
	}
	return n, err
}

func (s faultyTransport) RoundTrip(req *http.Request) (*http.Response, error) {
	*s.n++
	var body io.Reader = bytes.NewReader(s.body)
	if *s.n == 1 {
		body = &cutReader{bytes.NewReader(s.body), s.cut}
	}
	return &http.Response{StatusCode: 200, Status: "200 OK", Body: io.NopCloser(body),
		Header: http.Header{"Content-Type": []string{"application/json"}}, Request: req, ContentLength: -1}, nil
}

// bundle-load-faulty <bundle.json> <out> <cut>: the hosted load with the first response cut after <cut> bytes; a load
// that reports an error is simply tried again (as a user would)
func cmdBundleLoadFaulty(args []string) int {
	out, _ := os.Create(args[1])
	defer out.Close()
	stdout := os.Stdout
	devnull, _ := os.OpenFile(os.DevNull, os.O_WRONLY, 0)
	os.Stdout = devnull
	defer func() { os.Stdout = stdout }()
	body, err := os.ReadFile(args[0])
	if err != nil {
		fmt.Fprintf(out, "HOSTED error %s\n", hx(err.Error()))
		return 0
	}
	cut, _ := strconv.Atoi(args[2])
	n := 0
	http.DefaultTransport = faultyTransport{body, cut, &n}
	for try := 0; try < 3; try++ {
		rules, err := cmd.VerifLoadRules("cpf/bundle", true)
		if err == nil {
			fmt.Fprintf(out, "HOSTED ok %s\nTRIES %d REQUESTS %d\n", hxl(rules), try+1, n)
			return 0
		}
	}
	fmt.Fprintf(out, "HOSTED error x\n")
	return 0
}

func init() { commands["bundle-load-faulty"] = cmdBundleLoadFaulty }
