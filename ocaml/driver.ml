(* model driver: reads cases on stdin, prints canonical results on stdout *)
open Model
open Conv

let read_line_opt () = try Some (input_line stdin) with End_of_file -> None
let words s = String.split_on_char ' ' s

(* ---- CST reader: pre-order lines
   N <type> <named> <missing> <field|~> <sb> <eb> <row> <col> <nkids> ---- *)
let rec read_cst () : cst =
  match read_line_opt () with
  | None -> failwith "cst: eof"
  | Some l ->
    (match words l with
     | ["N"; ty; named; missing; field; sb; eb; row; col; nk] ->
       let k = int_of_string nk in
       let kids = ref [] in
       for _ = 1 to k do kids := read_cst () :: !kids done;
       Cst (bytes_of_hex ty, named = "1", missing = "1",
            (if field = "~" then None else Some (bytes_of_hex field)),
            n_of_int (int_of_string sb), n_of_int (int_of_string eb),
            n_of_int (int_of_string row), n_of_int (int_of_string col), List.rev !kids)
     | _ -> failwith ("cst: bad line " ^ l))

let pr_doc (d : javadoc) : string =
  Printf.sprintf "{tags=[%s];author=%s;version=%s;nlines=%d;commented=%s}"
    (String.concat "," (List.map (fun t -> Printf.sprintf "(%s,%s,%s)" (hexb t.t_name) (hexb t.t_text) (hexb t.t_doc)) d.d_tags))
    (hexb d.d_author) (hexb d.d_version) (int_of_nat d.d_nlines) (hexb d.d_commented)

let pr_stmt (s : stmt) : string =
  match s with
  | SIf (c, t, e) -> Printf.sprintf "if(%s,%s,%s)" (opt hexb c) (hexb t) (hexb e)
  | SWhile c -> Printf.sprintf "while(%s)" (opt hexb c)
  | SDo c -> Printf.sprintf "do(%s)" (opt hexb c)
  | SFor (i, c, u) -> Printf.sprintf "for(%s,%s,%s)" (opt hexb i) (opt hexb c) (opt hexb u)
  | SBreak l -> Printf.sprintf "break(%s)" (hexb l)
  | SContinue l -> Printf.sprintf "continue(%s)" (hexb l)
  | SYield v -> Printf.sprintf "yield(%s)" (hexb v)
  | SAssert (e, m) -> Printf.sprintf "assert(%s,%s)" (hexb e) (opt hexb m)
  | SReturn r -> Printf.sprintf "return(%s)" (opt hexb r)
  | SBlock l -> Printf.sprintf "block(%s)" (hexlist l)

let pr_node (n : node) : string =
  Printf.sprintf "NODE idpre=%s type=%s name=%s snippet=%s line=%d ext=%s mod=%s ret=%s argt=%s argv=%s super=%s iface=%s dtype=%s scope=%s value=%s access=%s file=%s isjava=%s throws=%s annot=%s doc=%s bin=%s new=%s stmt=%s"
    (hexb n.n_idpre) (hexb n.n_type) (hexb n.n_name) (hexb n.n_snippet) (int_of_n n.n_line) (b01 n.n_ext)
    (hexb n.n_mod) (hexb n.n_ret) (hexlist n.n_argt) (hexlist n.n_argv) (hexb n.n_super) (hexlist n.n_iface)
    (hexb n.n_dtype) (hexb n.n_scope) (hexb n.n_value) (b01 n.n_access) (hexb n.n_file) (b01 n.n_isjava)
    (hexlist n.n_throws) (hexlist n.n_annot) (opt pr_doc n.n_doc)
    (opt (fun ((o, l), r) -> Printf.sprintf "(%s,%s,%s)" (hexb o) (hexb l) (hexb r)) n.n_bin)
    (opt (fun (c, args) -> Printf.sprintf "(%s,[%s])" (hexb c)
            (String.concat "," (List.map (fun (t, s) -> Printf.sprintf "(%s,%s)" (hexb t) (hexb s)) args))) n.n_new)
    (opt pr_stmt n.n_stmt)

let cmd_build () =
  let rec loop () =
    match read_line_opt () with
    | None -> ()
    | Some l ->
      (match words l with
       | ["CASE"; id] ->
         let path = (match read_line_opt () with Some p -> (match words p with ["PATH"; h] -> bytes_of_hex h | _ -> failwith "PATH") | None -> failwith "eof") in
         let src = (match read_line_opt () with Some p -> (match words p with ["SRC"; h] -> bytes_of_hex h | _ -> failwith "SRC") | None -> failwith "eof") in
         let t = read_cst () in
         Printf.printf "CASE %s\n" id;
         Printf.printf "WF %s\n" (b01 (cst_wfb src t));
         (match build_file path src t with
          | Ok g ->
            print_string "OUTCOME ok\n";
            List.iter (fun (_, n) -> print_string (pr_node n); print_char '\n') g.g_nodes;
            List.iter (fun (a, b) -> Printf.printf "EDGE %s %s\n" (hexb a) (hexb b)) g.g_edges
          | Panic site -> Printf.printf "OUTCOME panic %s\n" (hexb site));
         (* decoder specification (Scan/Decode.v) on every node with a recognised shape *)
         let rec walk (prev : cst option) (n : cst) =
           let sh = shape_of n in
           (match n with Cst (ty, _, _, _, sb, eb, row, _, kids) ->
              if sh <> [] then begin
                let attrs = (match decode_node src prev n with
                    | Some l -> String.concat ";" (List.map (fun (k, vs) -> string_of_bytes k ^ ":" ^ hexlist vs) l)
                    | None -> "~") in
                Printf.printf "DEC shape=%s type=%s line=%d snippet=%s attrs=%s\n" (string_of_bytes sh) (hexb ty)
                  (int_of_n row + 1) (hexb (content src n)) attrs
              end;
              let rec go p = function [] -> () | k :: r -> walk p k; go (Some k) r in
              go None kids) in
         walk None t;
         (match census src path None t with
          | Ok es -> List.iter (fun n -> Printf.printf "ENT idpre=%s type=%s line=%d snippet=%s name=%s\n"
                                  (hexb n.n_idpre) (hexb n.n_type) (int_of_n n.n_line) (hexb n.n_snippet) (hexb n.n_name)) es
          | Panic _ -> ());
         print_string "ENDCASE\n";
         loop ()
       | [""] -> loop ()
       | _ -> failwith ("build: bad line " ^ l))
  in loop ()

(* ---------------- query engine ---------------- *)
let kv_of_line (l : string) : (string * string) list =
  List.filter_map (fun w -> match String.index_opt w '=' with
      | Some i -> Some (String.sub w 0 i, String.sub w (i + 1) (String.length w - i - 1))
      | None -> None) (words l)

(* hex tokens inside a composite value like "(x61,x62,~)" *)
let hex_tokens (s : string) : string option list =
  let out = ref [] and i = ref 0 and n = String.length s in
  while !i < n do
    (match s.[!i] with
     | '~' -> out := None :: !out; incr i
     | 'x' ->
       let j = ref (!i + 1) in
       while !j < n && (match s.[!j] with '0'..'9' | 'a'..'f' -> true | _ -> false) do incr j done;
       out := Some (unhex (String.sub s !i (!j - !i))) :: !out; i := !j
     | _ -> incr i)
  done; List.rev !out

let hexlist_of (s : string) : byte list list =
  List.filter_map (function Some x -> Some (bytes_of_string x) | None -> None) (hex_tokens s)

let dummy_doc = { d_tags = []; d_author = []; d_version = []; d_nlines = O; d_commented = [] }

(* a NODE line of the implementation's canonical dump -> node (the fields the engine reads) *)
let node_of_line (l : string) : node =
  let kv = kv_of_line l in
  let g k = try List.assoc k kv with Not_found -> failwith ("node: missing " ^ k) in
  let hb k = bytes_of_hex (g k) in
  { n_idpre = bytes_of_string (g "id"); n_type = hb "type"; n_name = hb "name"; n_snippet = hb "snippet";
    n_line = n_of_int (int_of_string (g "line")); n_ext = (g "ext" = "1"); n_mod = hb "mod"; n_ret = hb "ret";
    n_argt = hexlist_of (g "argt"); n_argv = hexlist_of (g "argv"); n_super = hb "super"; n_iface = hexlist_of (g "iface");
    n_dtype = hb "dtype"; n_scope = hb "scope"; n_value = hb "value"; n_access = (g "access" = "1"); n_file = hb "file";
    n_isjava = (g "isjava" = "1"); n_throws = hexlist_of (g "throws"); n_annot = hexlist_of (g "annot");
    n_doc = (if g "doc" = "~" then None else Some dummy_doc);
    n_bin = (if g "bin" = "~" then None else
               match hex_tokens (g "bin") with
               | [Some o; Some a; Some b] -> Some ((bytes_of_string o, bytes_of_string a), bytes_of_string b)
               | _ -> Some (([], []), []));
    n_new = (if g "new" = "~" then None else
               match hex_tokens (g "new") with
               | Some c :: _ -> Some (bytes_of_string c, [])
               | _ -> Some ([], []));
    n_stmt = (if g "stmt" = "~" then None else Some (SBreak [])) }

let rec pr_val (v : val0) : string =
  match v with
  | VS s -> "S" ^ hexb s
  | VI z -> "I" ^ (let rec zs = function Z0 -> 0 | Zpos p -> int_of_pos p | Zneg p -> - (int_of_pos p) in string_of_int (zs z))
  | VB b -> "B" ^ b01 b
  | VNil -> "N"
  | VL l -> "L[" ^ String.concat "," (List.map pr_val l) ^ "]"
  | _ -> "?"

let pr_entity (n : node) : string = Printf.sprintf "%s:%d:%s" (hexb n.n_file) (int_of_n n.n_line) (hexb n.n_snippet)

(* ANTLR token type numbers of Query.g4 *)
let tok_num (t : token) : int =
  match t with
  | TLParen -> 1 | TRParen -> 2 | TLBrace -> 3 | TRBrace -> 4 | TComma -> 5 | TOrOr -> 6 | TAndAnd -> 7
  | TEqEq -> 8 | TNeq -> 9 | TLt -> 10 | TGt -> 11 | TLe -> 12 | TGe -> 13 | TIn -> 14 | TPlus -> 15
  | TMinus -> 16 | TStar -> 17 | TSlash -> 18 | TBang -> 19 | TDot -> 20 | TLBrack -> 21 | TRBrack -> 22
  | TLike -> 23 | TInWord -> 24 | TString _ -> 25 | TNumber _ -> 27 | TPredicate -> 28 | TFrom -> 29
  | TWhere -> 30 | TAs -> 31 | TSelect -> 32 | TIdent _ -> 33

(* query <graph-file> : queries on stdin as "<id> <hex query>" *)
let cmd_query (graph_file : string) =
  let ic = open_in graph_file in
  let nodes = ref [] in
  (try while true do
       let l = input_line ic in
       if String.length l > 5 && String.sub l 0 5 = "NODE " then nodes := node_of_line l :: !nodes
     done with End_of_file -> ());
  close_in ic;
  let g = List.rev !nodes in
  let rec loop () =
    match read_line_opt () with
    | None -> ()
    | Some l when l = "" -> loop ()
    | Some l ->
      (match words l with
       | [id; qh] ->
         let s = bytes_of_hex qh in
         Printf.printf "QUERY %s\n" id;
         (match lex_query s with
          | None -> print_string "LEX !\n"
          | Some ts -> Printf.printf "LEX %s\n" (String.concat "." (List.map (fun t -> string_of_int (tok_num t)) ts)));
         (match parse_query s with
          | None -> print_string "PARSE reject\n"
          | Some aq ->
            let q = flatten_query aq in
            print_string "PARSE accept\n";
            Printf.printf "FROM %s\n" (String.concat "," (List.map (fun (k, a) -> hexb k ^ ":" ^ hexb a) q.q_from));
            Printf.printf "SELECT %s\n" (String.concat "," (List.map (function
                | SelVar x -> "variable:" ^ hexb x
                | SelChain (_, _) -> "method_chain"
                | SelStr t -> "string:" ^ hexb t) q.q_select));
            Printf.printf "PREDS %s\n" (String.concat "," (List.map (fun d ->
                hexb d.pd_name ^ "(" ^ String.concat ";" (List.map (fun (t, n) -> hexb t ^ ":" ^ hexb n) d.pd_params) ^ ")") q.q_preds));
            Printf.printf "COND %s\n" (hexb (expanded_condition q));
            Printf.printf "INFRAG %s\n" (b01 (in_fragment q g));
            (* do the hypotheses of C01_complete / C02_sound_spec hold?  wf_query (predicate calls only in the boolean skeleton:
               a call as an operand of == has no meaning in seval) and the specification not Unknown on any candidate *)
            Printf.printf "SPECDEF %s\n" (b01 (wf_query q && List.for_all (fun t -> match spec_accepted q t with Unknown -> false | _ -> true) (candidates q g)));
            let rs = results q g in
            let sp = spec_results q g in
            Printf.printf "SPECSAME %s\n" (b01 (List.length rs = List.length sp && List.for_all2 (fun a b -> List.for_all2 (fun (x : node) (y : node) -> x.n_idpre = y.n_idpre) a b) rs sp));
            List.iter (fun t -> Printf.printf "SPECTUPLE %s\n" (String.concat "|" (List.map pr_entity t))) sp;
            List.iter (fun t ->
                Printf.printf "TUPLE %s\n" (String.concat "|" (List.map pr_entity t));
                Printf.printf "ROW %s\n" (String.concat "|" (List.map (function Some v -> pr_val v | None -> "?") (row q t)))) rs);
         print_string "ENDQUERY\n";
         loop ()
       | _ -> failwith ("query: bad line " ^ l))
  in loop ()

(* render <graph-file>: stdin lines "<id> <hex query> <hex key>,<hex key>,..." where the keys are the
   implementation's reported combinations in ITS order ("file:line:snippet|..." as pr_entity prints them, "-" for none).
   Prints the JSON document for the model's results put in that order, and the text block of every combination. *)
let cmd_render (graph_file : string) =
  let ic = open_in graph_file in
  let nodes = ref [] in
  (try while true do
       let l = input_line ic in
       if String.length l > 5 && String.sub l 0 5 = "NODE " then nodes := node_of_line l :: !nodes
     done with End_of_file -> ());
  close_in ic;
  let g = List.rev !nodes in
  let rec loop () =
    match read_line_opt () with
    | None -> ()
    | Some l when l = "" -> loop ()
    | Some l ->
      (match words l with
       | [id; qh; keys] ->
         let s = bytes_of_hex qh in
         (match process_query s g with
          | SyntaxError -> Printf.printf "RENDER %s reject\n" id
          | Answer a ->
            let pairs = List.combine a.a_results a.a_rows in
            let key t = String.concat "|" (List.map pr_entity t) in
            let want = if keys = "-" then [] else List.map unhex (String.split_on_char ',' keys) in
            (* reorder: for each wanted key the first unused model combination with that key *)
            let pool = ref (List.map (fun (t, r) -> (key t, (t, r), ref false)) pairs) in
            let ok = ref (List.length want = List.length pairs) in
            let ordered = List.filter_map (fun k ->
                match List.find_opt (fun (k', _, used) -> k' = k && not !used) !pool with
                | Some (_, p, used) -> used := true; Some p
                | None -> ok := false; None) want in
            if not !ok then Printf.printf "RENDER %s mismatch\n" id
            else begin
              let rs = List.map fst ordered and rows = List.map snd ordered in
              Printf.printf "RENDER %s json=%s text=%s\n" id (opt hexb (render_json rs rows)) (opt hexb (render_text rs rows))
            end;
            List.iter (fun (t, r) ->
                match text_rows [r] with
                | Some [tr] -> Printf.printf "RBLOCK %s %s\n" id (hexb (text_tuple t tr))
                | _ -> Printf.printf "RBLOCK %s ~\n" id) pairs);
         loop ()
       | _ -> failwith ("render: bad line " ^ l))
  in loop ()

(* skel <nmax>: for every number of files 0..nmax and every assignment of {readable, readFile fails,
   ParseCtx fails} to the files: ALL configurations of pool_program (the skeleton the translator extracted from
   graph.Initialize) reachable under the generic semantics Scan/SkelSem.v; checks that Scan/SkelAbs.abs is a
   simulation onto Pool.step (every generic step is silent or a Pool step), that its image covers exactly Pool's
   transitions from the abstract states met, that no configuration panics and only finished ones are stuck. *)
let cmd_skel (nmax : int) (wi : int) =
  let key x = Marshal.to_string x [Marshal.No_sharing] in
  let w = nat_of_int wi in
  (* the number of workers is a constant of the source (5); smaller pools are explored by overriding it *)
  let pool_program = List.map (fun (g, body) -> (g, List.map (function SConst (x, v) when string_of_bytes v = "5" -> SConst (x, bytes_of_string (string_of_int wi)) | st -> st) body)) pool_program in
  (* self-test of the exploration: SKEL_MUTATE=swapclose closes statusChan before resultChan,
     SKEL_MUTATE=nojoin drops the wait for the status goroutine; both must be reported *)
  let pool_program = match Sys.getenv_opt "SKEL_MUTATE" with
    | Some "swapclose" -> List.map (fun (g, body) -> (g, (match body with
        | [SWgWait; SClose a; SClose b; c] -> [SWgWait; SClose b; SClose a; c] | b -> b))) pool_program
    | Some "nojoin" -> List.map (fun (g, body) -> (g, List.filter (function SRecv _ -> false | _ -> true) body)) pool_program
    | _ -> pool_program in
  let total_cfg = ref 0 and total_abs = ref 0 and total_edges = ref 0 and problems = ref 0 in
  let problem fmt = Printf.ksprintf (fun m -> incr problems; if !problems <= 5 then Printf.printf "PROBLEM %s\n" m) fmt in
  for n = 0 to nmax do
    let files = List.init n (fun i -> nat_of_int (i + 1)) in
    let rec assignments k = if k = 0 then [[]] else List.concat_map (fun r -> [0 :: r; 1 :: r; 2 :: r]) (assignments (k - 1)) in
    List.iter (fun modes ->
        let mode x = List.nth modes (int_of_nat x - 1) in
        let fails fn x = let f = string_of_bytes fn in (f = "readFile" && mode x = 1) || (f = "parser.ParseCtx" && mode x = 2) in
        let readable x = mode x = 0 in
        let tag = Printf.sprintf "n=%d modes=%s" n (String.concat "" (List.map string_of_int modes)) in
        let s0 = sk_init pool_program in
        if key (abs files w s0) <> key (init files w) then problem "%s: abs of the initial configuration is not Pool.init" tag;
        let seen = Hashtbl.create 100000 and absseen = Hashtbl.create 10000 and edges = Hashtbl.create 10000 in
        let q = Queue.create () in
        Hashtbl.replace seen (key s0) (); Queue.add s0 q;
        while not (Queue.is_empty q) do
          let s = Queue.pop q in
          let a = abs files w s in
          let ka = key a in
          if not (Hashtbl.mem absseen ka) then Hashtbl.replace absseen ka a;
          if s.s_panic then problem "%s: a configuration panics (send on / close of a closed channel, negative wait group)" tag;
          if not (flags_agree s) then problem "%s: closed flags differ from the closer's program counter" tag;
          let succs = sk_steps pool_program files fails s in
          let psuccs = enabled_steps (nat_of_int n) w readable a in
          if succs = [] then begin
            if not (finished s) then problem "%s: a configuration is stuck with a goroutine still running" tag;
            if psuccs <> [] then problem "%s: a stuck configuration maps to a Pool state that can step" tag
          end;
          List.iter (fun s' ->
              let a' = abs files w s' in
              let ka' = key a' in
              if ka' <> ka then begin
                if not (List.exists (fun t -> key t = ka') psuccs) then
                  problem "%s: a step of the generic semantics is neither silent nor a step of Pool.v" tag;
                Hashtbl.replace edges (ka ^ ka') ()
              end;
              let ks' = key s' in
              if not (Hashtbl.mem seen ks') then (Hashtbl.replace seen ks' (); Queue.add s' q)) succs
        done;
        (* coverage: every Pool transition out of an abstract state met is the image of some generic step *)
        Hashtbl.iter (fun ka a ->
            List.iter (fun t -> if not (Hashtbl.mem edges (ka ^ key t)) then
                          problem "%s: Pool.v has a transition that no configuration of the program can make" tag)
              (enabled_steps (nat_of_int n) w readable a)) absseen;
        total_cfg := !total_cfg + Hashtbl.length seen; total_abs := !total_abs + Hashtbl.length absseen;
        total_edges := !total_edges + Hashtbl.length edges) (assignments n)
  done;
  Printf.printf "SKEL workers=%d nmax=%d configurations=%d pool_states=%d pool_edges=%d problems=%d\n" wi nmax !total_cfg !total_abs !total_edges !problems

(* collect: local graphs in arrival order on stdin ("LOCAL" then "L <line>" ...), merged graph on stdout *)
let cmd_collect () =
  let locals = ref [] and cur_n = ref [] and cur_e = ref [] and started = ref false in
  let flush () = if !started then locals := (List.rev !cur_n, List.rev !cur_e) :: !locals; cur_n := []; cur_e := [] in
  (try while true do
       let l = input_line stdin in
       if l = "LOCAL" then (flush (); started := true)
       else if String.length l > 7 && String.sub l 0 7 = "L NODE " then begin
         let body = String.sub l 2 (String.length l - 2) in
         let kv = kv_of_line body in
         cur_n := (bytes_of_string (List.assoc "id" kv), body) :: !cur_n end
       else if String.length l > 7 && String.sub l 0 7 = "L EDGE " then cur_e := String.sub l 2 (String.length l - 2) :: !cur_e
     done with End_of_file -> ());
  flush ();
  let (ns, es) = collect (List.rev !locals) in
  List.iter (fun (_, body) -> print_string body; print_char '\n') ns;
  List.iter (fun e -> print_string e; print_char '\n') es

(* rules: stdin lines "<id> <hex rule text>" -> what parse_ci / extract_file give *)
let cmd_rules () =
  let rec loop () =
    match read_line_opt () with
    | None -> ()
    | Some l when l = "" -> loop ()
    | Some l ->
      (match words l with
       | [id; th] ->
         let t = bytes_of_hex th in
         let r = parse_ci t in
         Printf.printf "RULE %s id=%s desc=%s sev=%s impact=%s provider=%s ciq=%s fileq=%s\n" id
           (hexb r.r_id) (hexb r.r_desc) (hexb r.r_severity) (hexb r.r_impact) (hexb r.r_provider) (hexb r.r_query) (hexb (extract_file t));
         loop ()
       | _ -> failwith ("rules: bad line " ^ l))
  in loop ()

(* ci <graph>: stdin lines "<hex rule text>" in ruleset order -> per rule its entry and the SARIF results *)
let cmd_ci (graph_file : string) =
  let ic = open_in graph_file in
  let nodes = ref [] in
  (try while true do
       let l = input_line ic in
       if String.length l > 5 && String.sub l 0 5 = "NODE " then nodes := node_of_line l :: !nodes
     done with End_of_file -> ());
  close_in ic;
  let g = List.rev !nodes in
  let rules = ref [] in
  (try while true do let l = input_line stdin in if l <> "" then rules := bytes_of_hex l :: !rules done with End_of_file -> ());
  let rules = List.rev !rules in
  List.iteri (fun i e ->
      Printf.printf "ENTRY %d id=%s query=%s infrag=%s outcome=%s\n" i (hexb e.e_rule.r_id) (hexb e.e_rule.r_query)
        (match parse_query e.e_rule.r_query with Some aq -> b01 (in_fragment (flatten_query aq) g) | None -> "1")
        (match e.e_outcome with
         | SyntaxError -> "syntaxerror"
         | Answer a -> "answer:" ^ String.concat ";" (List.map (fun t -> String.concat "|" (List.map pr_entity t)) a.a_results)))
    (ci_run rules g);
  List.iter (fun s -> Printf.printf "SARIF file=%s line=%d rule=%s level=%s message=%s\n"
                (hexb s.s_file) (int_of_n s.s_line) (hexb s.s_rule) (hexb s.s_level) (hexb s.s_message)) (ci_sarif rules g)

(* bundle <dirname-hex>: stdin lines "<hex name> <hex content>" (directory entries in lexical order) *)
let cmd_bundle (dirname : string) =
  let es = ref [] in
  (try while true do
       let l = input_line stdin in
       match words l with [n; c] -> es := (bytes_of_hex n, bytes_of_hex c) :: !es | _ -> ()
     done with End_of_file -> ());
  let es = List.rev !es in
  (match produce (bytes_of_hex dirname) es with
   | None -> print_string "PRODUCE none\n"
   | Some b ->
     Printf.printf "PRODUCE %s\n" (hexb b);
     (match consume b with
      | None -> print_string "CONSUME none\n"
      | Some l -> Printf.printf "CONSUME %s\n" (hexlist l)));
  Printf.printf "LOCAL %s\n" (hexlist (load_local es))

(* walk <root-hex>: the tree on stdin, pre-order: "F <name-hex>" | "D <name-hex> <readable01> <nkids>" *)
let cmd_walk (root : string) =
  let rec rd () : fsnode =
    match read_line_opt () with
    | None -> failwith "walk: eof"
    | Some l ->
      (match words l with
       | ["F"; n] -> FFile (bytes_of_hex n)
       | ["D"; n; r; k] ->
         let kids = ref [] in
         for _ = 1 to int_of_string k do kids := rd () :: !kids done;
         FDir (bytes_of_hex n, r = "1", List.rev !kids)
       | _ -> failwith ("walk: bad line " ^ l)) in
  let t = rd () in
  match get_files (bytes_of_hex root) t with
  | None -> print_string "ERROR\n"
  | Some l -> Printf.printf "FILES %s\n" (hexlist l)

let () =
  match Array.to_list Sys.argv with
  | [_; "build"] -> cmd_build ()
  | [_; "walk"; r] -> cmd_walk r
  | [_; "rules"] -> cmd_rules ()
  | [_; "ci"; g] -> cmd_ci g
  | [_; "bundle"; d] -> cmd_bundle d
  | [_; "collect"] -> cmd_collect ()
  | [_; "query"; g] -> cmd_query g
  | [_; "render"; g] -> cmd_render g
  | [_; "skel"; n; w] -> cmd_skel (int_of_string n) (int_of_string w)
  | _ -> prerr_endline "usage: model build < cases | model query <graph> < queries"; exit 2
