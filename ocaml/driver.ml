(* model driver: reads cases on stdin, prints canonical results on stdout *)
open Model
open Conv

let read_line_opt () = try Some (input_line stdin) with End_of_file -> None
let words s = String.split_on_char ' ' s

(* ---- CST reader: pre-order lines
   N <type> <named> <missing> <field|~> <sb> <eb> <row> <col> <nkids> ---- *)
let rec read_cst () : cst =
  match read_line_opt () with
  | None -> failwith "cst: eof"
  | Some l ->
    (match words l with
     | ["N"; ty; named; missing; field; sb; eb; row; col; nk] ->
       let k = int_of_string nk in
       let kids = ref [] in
       for _ = 1 to k do kids := read_cst () :: !kids done;
       Cst (bytes_of_hex ty, named = "1", missing = "1",
            (if field = "~" then None else Some (bytes_of_hex field)),
            n_of_int (int_of_string sb), n_of_int (int_of_string eb),
            n_of_int (int_of_string row), n_of_int (int_of_string col), List.rev !kids)
     | _ -> failwith ("cst: bad line " ^ l))

let pr_doc (d : javadoc) : string =
  Printf.sprintf "{tags=[%s];author=%s;version=%s;nlines=%d;commented=%s}"
    (String.concat "," (List.map (fun t -> Printf.sprintf "(%s,%s,%s)" (hexb t.t_name) (hexb t.t_text) (hexb t.t_doc)) d.d_tags))
    (hexb d.d_author) (hexb d.d_version) (int_of_nat d.d_nlines) (hexb d.d_commented)

let pr_stmt (s : stmt) : string =
  match s with
  | SIf (c, t, e) -> Printf.sprintf "if(%s,%s,%s)" (opt hexb c) (hexb t) (hexb e)
  | SWhile c -> Printf.sprintf "while(%s)" (opt hexb c)
  | SDo c -> Printf.sprintf "do(%s)" (opt hexb c)
  | SFor (i, c, u) -> Printf.sprintf "for(%s,%s,%s)" (opt hexb i) (opt hexb c) (opt hexb u)
  | SBreak l -> Printf.sprintf "break(%s)" (hexb l)
  | SContinue l -> Printf.sprintf "continue(%s)" (hexb l)
  | SYield v -> Printf.sprintf "yield(%s)" (hexb v)
  | SAssert (e, m) -> Printf.sprintf "assert(%s,%s)" (hexb e) (opt hexb m)
  | SReturn r -> Printf.sprintf "return(%s)" (opt hexb r)
  | SBlock l -> Printf.sprintf "block(%s)" (hexlist l)

let pr_node (n : node) : string =
  Printf.sprintf "NODE idpre=%s type=%s name=%s snippet=%s line=%d ext=%s mod=%s ret=%s argt=%s argv=%s super=%s iface=%s dtype=%s scope=%s value=%s access=%s file=%s isjava=%s throws=%s annot=%s doc=%s bin=%s new=%s stmt=%s"
    (hexb n.n_idpre) (hexb n.n_type) (hexb n.n_name) (hexb n.n_snippet) (int_of_n n.n_line) (b01 n.n_ext)
    (hexb n.n_mod) (hexb n.n_ret) (hexlist n.n_argt) (hexlist n.n_argv) (hexb n.n_super) (hexlist n.n_iface)
    (hexb n.n_dtype) (hexb n.n_scope) (hexb n.n_value) (b01 n.n_access) (hexb n.n_file) (b01 n.n_isjava)
    (hexlist n.n_throws) (hexlist n.n_annot) (opt pr_doc n.n_doc)
    (opt (fun ((o, l), r) -> Printf.sprintf "(%s,%s,%s)" (hexb o) (hexb l) (hexb r)) n.n_bin)
    (opt (fun (c, args) -> Printf.sprintf "(%s,[%s])" (hexb c)
            (String.concat "," (List.map (fun (t, s) -> Printf.sprintf "(%s,%s)" (hexb t) (hexb s)) args))) n.n_new)
    (opt pr_stmt n.n_stmt)

let cmd_build () =
  let rec loop () =
    match read_line_opt () with
    | None -> ()
    | Some l ->
      (match words l with
       | ["CASE"; id] ->
         let path = (match read_line_opt () with Some p -> (match words p with ["PATH"; h] -> bytes_of_hex h | _ -> failwith "PATH") | None -> failwith "eof") in
         let src = (match read_line_opt () with Some p -> (match words p with ["SRC"; h] -> bytes_of_hex h | _ -> failwith "SRC") | None -> failwith "eof") in
         let t = read_cst () in
         Printf.printf "CASE %s\n" id;
         Printf.printf "WF %s\n" (b01 (cst_wfb src t));
         (match build_file path src t with
          | Ok g ->
            print_string "OUTCOME ok\n";
            List.iter (fun (_, n) -> print_string (pr_node n); print_char '\n') g.g_nodes;
            List.iter (fun (a, b) -> Printf.printf "EDGE %s %s\n" (hexb a) (hexb b)) g.g_edges
          | Panic site -> Printf.printf "OUTCOME panic %s\n" (hexb site));
         (match census src path None t with
          | Ok es -> List.iter (fun n -> Printf.printf "ENT idpre=%s type=%s line=%d snippet=%s name=%s\n"
                                  (hexb n.n_idpre) (hexb n.n_type) (int_of_n n.n_line) (hexb n.n_snippet) (hexb n.n_name)) es
          | Panic _ -> ());
         print_string "ENDCASE\n";
         loop ()
       | [""] -> loop ()
       | _ -> failwith ("build: bad line " ^ l))
  in loop ()

let () =
  match Array.to_list Sys.argv with
  | [_; "build"] -> cmd_build ()
  | _ -> prerr_endline "usage: model build < cases"; exit 2
