(* glue between OCaml values and the extracted Coq datatypes (trusted, hand-written) *)
open Model

let byte_of_char (c : char) : byte = Obj.magic (Char.code c)
let char_of_byte (b : byte) : char = Char.chr (Obj.magic b : int)

let bytes_of_string (s : string) : byte list =
  let r = ref [] in
  for i = String.length s - 1 downto 0 do r := byte_of_char s.[i] :: !r done; !r

let string_of_bytes (l : byte list) : string =
  let b = Buffer.create 64 in
  List.iter (fun x -> Buffer.add_char b (char_of_byte x)) l; Buffer.contents b

let rec pos_of_int (i : int) : positive =
  if i = 1 then XH else if i land 1 = 0 then XO (pos_of_int (i lsr 1)) else XI (pos_of_int (i lsr 1))
let n_of_int (i : int) : n = if i = 0 then N0 else Npos (pos_of_int i)
let rec int_of_pos = function XH -> 1 | XO p -> 2 * int_of_pos p | XI p -> 2 * int_of_pos p + 1
let int_of_n = function N0 -> 0 | Npos p -> int_of_pos p
let rec int_of_nat = function O -> 0 | S n -> 1 + int_of_nat n
let rec nat_of_int i = if i <= 0 then O else S (nat_of_int (i - 1))

let hex_of_string (s : string) : string =
  let b = Buffer.create (2 * String.length s + 1) in
  Buffer.add_char b 'x';
  String.iter (fun c -> Buffer.add_string b (Printf.sprintf "%02x" (Char.code c))) s;
  Buffer.contents b

let hexb (l : byte list) : string = hex_of_string (string_of_bytes l)

let unhex (s : string) : string =
  (* "x6162" -> "ab" *)
  if String.length s = 0 || s.[0] <> 'x' then failwith ("unhex: " ^ s);
  let n = (String.length s - 1) / 2 in
  String.init n (fun i -> Char.chr (int_of_string ("0x" ^ String.sub s (1 + 2 * i) 2)))

let bytes_of_hex (s : string) : byte list = bytes_of_string (unhex s)

let hexlist (l : byte list list) : string = "[" ^ String.concat "," (List.map hexb l) ^ "]"
let opt f = function None -> "~" | Some x -> f x
let b01 b = if b then "1" else "0"
