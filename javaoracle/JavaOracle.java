import com.sun.source.util.JavacTask;
import javax.tools.*;
import java.io.File;
import java.util.*;

/** Parse-only validation of generated Java files with the JDK compiler's own parser (no attribution).
 *  usage: java JavaOracle <file>... ; prints "OK <file>" or "SYNTAX <file> <first message>"; exit 1 if any SYNTAX. */
public class JavaOracle {
    public static void main(String[] args) throws Exception {
        JavaCompiler compiler = ToolProvider.getSystemJavaCompiler();
        int bad = 0;
        for (String path : args) {
            DiagnosticCollector<JavaFileObject> diags = new DiagnosticCollector<>();
            StandardJavaFileManager fm = compiler.getStandardFileManager(diags, null, null);
            Iterable<? extends JavaFileObject> units = fm.getJavaFileObjectsFromFiles(Collections.singletonList(new File(path)));
            JavacTask task = (JavacTask) compiler.getTask(null, fm, diags, Arrays.asList("-proc:none", "--release", "17"), null, units);
            task.parse();
            String err = null;
            for (Diagnostic<? extends JavaFileObject> d : diags.getDiagnostics()) {
                if (d.getKind() == Diagnostic.Kind.ERROR) { err = d.getLineNumber() + ": " + d.getMessage(null); break; }
            }
            if (err == null) System.out.println("OK " + path);
            else { System.out.println("SYNTAX " + path + " " + err.replace('\n', ' ')); bad++; }
            fm.close();
        }
        System.exit(bad == 0 ? 0 : 1);
    }
}
