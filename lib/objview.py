"""C05/C06 at the level a user sees them: the attributes of model objects (statement parts, object-creation
arguments, binary-expression parts, Javadoc tags) read THROUGH QUERIES (`x.getIfStmt().GetCondition().NodeString`
...) must be the attributes of the entity (the Node dump, which the other oracles compare with the source).
Catches changes in model/*.go getters and in the Env getters that hand the objects out."""
import json, os, re, subprocess
from collections import Counter
from common import *
import qrun, scan

_hex = re.compile(r'x[0-9a-f]*|~')


def _toks(s):
    return [None if t == '~' else bytes.fromhex(t[1:]).decode('utf-8', 'replace') for t in _hex.findall(s)]


def _payload(st, head):
    """'if(xA,xB,xC)' -> [A,B,C] when st starts with head"""
    if not st.startswith(head + '('):
        return None
    return _toks(st[len(head):])


def _doc(d):
    if d == '~':
        return None
    m = re.match(r'\{tags=\[(.*)\];author=(x[0-9a-f]*);version=(x[0-9a-f]*);nlines=(\d+);', d)
    t = _toks(m.group(1))
    tags = [(t[i], t[i + 1]) for i in range(0, len(t), 3)]
    return dict(tags=tags, author=_toks(m.group(2))[0], version=_toks(m.group(3))[0], nlines=int(m.group(4)))


def _first(tags, name):
    for n, x in tags:
        if n == name:
            return x
    return ''


# kind -> list of (SELECT expression over alias x, expected value from the dumped node)
def views(pid):
    s = lambda n, head, i: (lambda p: (p[i] if p and p[i] is not None else ''))(_payload(n['stmt'], head))
    v = {}
    if pid == 'C06':
        v['IfStmt'] = [('x.getIfStmt().GetCondition().NodeString', lambda n: s(n, 'if', 0)), ('x.getIfStmt().GetThen().NodeString', lambda n: s(n, 'if', 1)),
                       ('x.getIfStmt().GetElse().NodeString', lambda n: s(n, 'if', 2))]
        v['WhileStmt'] = [('x.getWhileStmt().GetCondition().NodeString', lambda n: s(n, 'while', 0))]
        v['DoStmt'] = [('x.getDoStmt().Condition.NodeString', lambda n: s(n, 'do', 0))]
        v['ForStmt'] = [('x.getForStmt().GetAnInit().NodeString', lambda n: s(n, 'for', 0)), ('x.getForStmt().GetCondition().NodeString', lambda n: s(n, 'for', 1)),
                        ('x.getForStmt().GetAnUpdate().NodeString', lambda n: s(n, 'for', 2))]
        v['BreakStmt'] = [('x.getBreakStmt().GetLabel()', lambda n: s(n, 'break', 0))]
        v['ContinueStmt'] = [('x.getContinueStmt().GetLabel()', lambda n: s(n, 'continue', 0))]
        v['YieldStmt'] = [('x.getYieldStmt().GetValue().NodeString', lambda n: s(n, 'yield', 0))]
        v['AssertStmt'] = [('x.getAssertStmt().GetExpr().NodeString', lambda n: s(n, 'assert', 0)), ('x.getAssertStmt().GetMessage().NodeString', lambda n: s(n, 'assert', 1))]
        v['ReturnStmt'] = [('x.getReturnStmt().GetResult().NodeString', lambda n: s(n, 'return', 0))]
        blk = lambda n: _payload(n['stmt'], 'block') or []
        v['BlockStmt'] = [('x.getBlockStmt().GetNumStmt()', lambda n: len(blk(n))), ('x.getBlockStmt().GetStmt(0).NodeString', lambda n: (blk(n) or [''])[0]),
                          ('x.getBlockStmt().GetLastStmt().NodeString', lambda n: (blk(n) or [''])[-1])]
        new = lambda n: _toks(n['new'])
        v['ClassInstanceExpr'] = [('x.getClassInstanceExpr().GetClassName()', lambda n: new(n)[0]), ('x.getClassInstanceExpr().GetNumArgs()', lambda n: (len(new(n)) - 1) // 2),
                                  ('x.getClassInstanceExpr().GetArg(0).NodeString', lambda n: new(n)[2] if len(new(n)) > 2 else '')]
        bn = lambda n: _toks(n['bin'])
        v['binary_expression'] = [('x.getLeftOperand()', lambda n: bn(n)[1]), ('x.getRightOperand()', lambda n: bn(n)[2])]
        for k in ('add_expression', 'sub_expression', 'comp_expression', 'eq_expression', 'ne_expression', 'and_expression', 'or_expression'):
            v[k] = [('x.getBinaryExpr().GetOp()', lambda n: bn(n)[0]), ('x.getBinaryExpr().GetLeftOperandString()', lambda n: bn(n)[1]),
                    ('x.getBinaryExpr().GetRightOperand().NodeString', lambda n: bn(n)[2])]
    else:
        d = lambda n: _doc(n['doc']) or dict(tags=[], author='', version='', nlines=0)
        dv = [('x.getDoc().GetCommentAuthor()', lambda n: _first(d(n)['tags'], 'author')), ('x.getDoc().GetCommentVersion()', lambda n: _first(d(n)['tags'], 'version')),
              ('x.getDoc().GetCommentSince()', lambda n: _first(d(n)['tags'], 'since')), ('x.getDoc().GetCommentSee()', lambda n: _first(d(n)['tags'], 'see')),
              ('x.getDoc().GetCommentThrows()', lambda n: _first(d(n)['tags'], 'throws')), ('x.getDoc().GetCommentReturn()', lambda n: _first(d(n)['tags'], 'return')),
              ('x.getDoc().GetCommentParam()', lambda n: [x for nm, x in d(n)['tags'] if nm == 'param']), ('x.getDoc().NumberOfCommentLines', lambda n: d(n)['nlines']),
              ('x.getDoc().Author', lambda n: d(n)['author']), ('x.getDoc().Version', lambda n: d(n)['version'])]
        v['method_declaration'] = dv
        v['class_declaration'] = dv
    return v


def check(pid, cases, work, harness):
    """-> (stats, violations as list of dict(query, detail, files))"""
    stats, bad = Counter(), []
    proj = os.path.join(work, 'objview')
    import shutil
    shutil.rmtree(proj, ignore_errors=True)
    files = []
    for c in cases:
        p = os.path.join(proj, c['id'] + '.java')
        os.makedirs(proj, exist_ok=True)
        open(p, 'wb').write(c['data'])
        files.append((c['id'] + '.java', c['data']))
    dump = os.path.join(work, 'objview_graph.txt')
    p = subprocess.run([harness, 'init-dump', proj, dump], capture_output=True, timeout=900, env=dict(os.environ, HOME=work))
    if p.returncode != 0:
        return stats, [dict(what='init-dump failed', detail=p.stderr.decode(errors='replace')[-300:])]
    by = {}
    for line in open(dump):
        if line.startswith('NODE '):
            n = scan.parse_kv(line.rstrip('\n'))
            by.setdefault((scan.unhx(n['type']).decode(), scan.unhx(n['file']).decode('utf-8', 'replace'), int(n['line']), scan.unhx(n['snippet']).decode('utf-8', 'replace')), []).append(n)
    vw = views(pid)
    queries, meta = [], {}
    for kind, items in vw.items():
        for j, (expr, f) in enumerate(items):
            qid = 'ov_%s_%d' % (kind, j)
            queries.append((qid, 'FROM %s AS x SELECT %s' % (kind, expr)))
            meta[qid] = (kind, expr, f)
    res, _ = qrun.run_queries(proj, queries, os.path.join(work, 'objview_q'))
    for qid, q in queries:
        kind, expr, f = meta[qid]
        oc, payload = res.get(qid, ('missing', ''))
        if oc != 'ok':
            bad.append(dict(what='query on a model-object accessor ended with %s' % oc, query=q, detail=payload[:200]))
            continue
        d = json.loads(payload)
        rs, rows = d.get('result_set') or [], d.get('output') or []
        stats['objview_queries'] += 1
        for e, row in zip(rs, rows):
            cands = by.get((kind, e['file'], e['line'], e['code']), [])
            if not cands or '�' in e['code']:
                continue
            stats['objview_values'] += 1
            exps = []
            for n in cands:
                try:
                    exps.append(f(n))
                except Exception:
                    pass
            got = row[0] if row else None
            if exps and got not in exps:
                bad.append(dict(what='an attribute read through a query differs from the attribute of the entity', query=q,
                                detail=dict(file=e['file'], line=e['line'], code=e['code'][:120], got=got, expected=exps[:2])))
                break
    return stats, bad


PLAIN = {'method_declaration': [('x.getName()', 'name'), ('x.getVisibility()', 'mod'), ('x.getReturnType()', 'ret'), ('x.getArgumentType()', 'argt'), ('x.getArgumentName()', 'argv'),
                                ('x.getThrowsType()', 'throws'), ('x.getAnnotation()', 'annot')],
         'class_declaration': [('x.getName()', 'name'), ('x.getVisibility()', 'mod'), ('x.getSuperClass()', 'super'), ('x.getInterface()', 'iface'), ('x.getAnnotation()', 'annot')],
         'variable_declaration': [('x.getName()', 'name'), ('x.getVisibility()', 'mod'), ('x.getVariableDataType()', 'dtype'), ('x.getVariableValue()', 'value'), ('x.getScope()', 'scope')]}


def _plain(field):
    def f(n):
        v = n[field]
        if v.startswith('['):
            return [bytes.fromhex(t[1:]).decode('utf-8', 'replace') for t in re.findall(r'x[0-9a-f]*', v)]
        return bytes.fromhex(v[1:]).decode('utf-8', 'replace')
    return f


def check_pairs(pid, cases, work, harness, npairs=8, seed=1):
    """the same attributes when TWO entities are selected together: every column must be the attribute of the entity
    bound to ITS alias in that combination (both orders of the FROM list). -> (stats, violations)"""
    import random, shutil
    stats, bad = Counter(), []
    rng = random.Random('objpairs/%s/%d' % (pid, seed))
    proj = os.path.join(work, 'objpairs')
    shutil.rmtree(proj, ignore_errors=True)
    os.makedirs(proj, exist_ok=True)
    for c in cases:
        open(os.path.join(proj, c['id'] + '.java'), 'wb').write(c['data'])
    dump = os.path.join(work, 'objpairs_graph.txt')
    p = subprocess.run([harness, 'init-dump', proj, dump], capture_output=True, timeout=900, env=dict(os.environ, HOME=work))
    if p.returncode != 0:
        return stats, [dict(what='init-dump failed', detail=p.stderr.decode(errors='replace')[-300:])]
    by, count = {}, Counter()
    for line in open(dump):
        if line.startswith('NODE '):
            n = scan.parse_kv(line.rstrip('\n'))
            k = scan.unhx(n['type']).decode()
            count[k] += 1
            by.setdefault((k, scan.unhx(n['file']).decode('utf-8', 'replace'), int(n['line']), scan.unhx(n['snippet']).decode('utf-8', 'replace')), []).append(n)
    vw = {k: list(v) for k, v in views(pid).items()}
    if pid == 'C05':
        for k, items in PLAIN.items():
            vw.setdefault(k, [])
            vw[k] = vw[k] + [(e, _plain(f)) for e, f in items]
    kinds = [k for k in vw if 0 < count[k]]
    queries, meta = [], {}
    for i in range(npairs):
        if len(kinds) < 2:
            break
        k1, k2 = rng.sample(kinds, 2)
        if count[k1] * count[k2] > 20000:
            continue
        (e1, f1), (e2, f2) = rng.choice(vw[k1]), rng.choice(vw[k2])
        a1, a2 = rng.choice([('a', 'x'), ('x', 'xa'), ('m', 'c')])
        r = lambda e, a: re.sub(r'^x\b', a, e)
        qid = 'op%d' % i
        queries.append((qid, 'FROM %s AS %s, %s AS %s SELECT %s, %s' % (k1, a1, k2, a2, r(e1, a1), r(e2, a2))))
        meta[qid] = ((k1, f1), (k2, f2))
    res, _ = qrun.run_queries(proj, queries, os.path.join(work, 'objpairs_q'))
    for qid, q in queries:
        oc, payload = res.get(qid, ('missing', ''))
        if oc != 'ok':
            bad.append(dict(what='two-entity query on accessors ended with %s' % oc, query=q, detail=payload[:200]))
            continue
        d = json.loads(payload)
        rs, rows = d.get('result_set') or [], d.get('output') or []
        if len(rs) != 2 * len(rows):
            bad.append(dict(what='rows do not line up with results', query=q, detail='%d entries, %d rows' % (len(rs), len(rows))))
            continue
        stats['objpairs_queries'] += 1
        for i, row in enumerate(rows):
            stop = False
            for pos in (0, 1):
                kind, f = meta[qid][pos]
                e = rs[2 * i + pos]
                cands = by.get((kind, e['file'], e['line'], e['code']), [])
                if not cands or '�' in e['code']:
                    continue
                exps = []
                for n in cands:
                    try:
                        exps.append(f(n))
                    except Exception:
                        pass
                stats['objpairs_values'] += 1
                if exps and row[pos] not in exps:
                    bad.append(dict(what='in a two-entity query a column is not the attribute of the entity bound to its alias', query=q,
                                    detail=dict(column=pos, file=e['file'], line=e['line'], code=e['code'][:120], got=row[pos], expected=exps[:2])))
                    stop = True
                    break
            if stop:
                break
    return stats, bad
