"""Generator of queries of the documented FROM/WHERE/SELECT language, with a small AST so that
variants (inline / rename / re-layout / reorder) can be derived for the metamorphic properties."""
import random, re

# accessor vocabulary per kind: (string-valued, list-valued, const)
KINDS = {
    'method_declaration': (['getName', 'getVisibility', 'getReturnType'], ['getAnnotation', 'getArgumentType', 'getArgumentName', 'getThrowsType'], []),
    'class_declaration': (['getName', 'getVisibility', 'getSuperClass'], ['getAnnotation', 'getInterface'], []),
    'method_invocation': (['getName'], ['getArgumentName'], []),
    'variable_declaration': (['getName', 'getVisibility', 'getVariableValue', 'getVariableDataType', 'getScope'], [], []),
    'binary_expression': (['getLeftOperand', 'getRightOperand'], [], []),
    'add_expression': ([], [], ['getOperator']),
    'comp_expression': ([], [], ['getOperator']),
    'ClassInstanceExpr': (['getName'], [], []),
    'IfStmt': ([], [], []),
    'ReturnStmt': ([], [], []),
}
ALIASES = ['m', 'md', 'mdx', 'a', 'b', 'x', 'cd', 'c', 'getName', 'name', 'e1', 'in1', 'ofrom', 'selectx', '_v', 'p', 'q']
PRED_NAMES = ['p', 'q', 'isPub', 'named', 'check', 'pred1', 'm', 'md']
RESERVED = {'predicate', 'FROM', 'WHERE', 'AS', 'SELECT', 'LIKE', 'in'}
CMP = ['==', '!=', '<', '>', '<=', '>=']


class Atom:
    """alias.acc() OP literal | literal in alias.listacc() | alias.acc() in [lits] | a.acc() OP b.acc() | call"""
    def __init__(self, kind, **kw):
        self.kind = kind
        self.__dict__.update(kw)


def lit(s):
    return '"' + s.replace('\\', '\\\\').replace('"', '\\"') + '"'


class QGen:
    def __init__(self, rng, vocab):
        """vocab: dict kind -> dict accessor -> list of observed values (strings) / list-values"""
        self.rng, self.vocab = rng, vocab

    def value_for(self, kind, acc):
        vals = self.vocab.get(kind, {}).get(acc) or []
        r = self.rng.random()
        if vals and r < 0.7:
            v = self.rng.choice(vals)
            if isinstance(v, list):
                v = self.rng.choice(v) if v else 'x'
            return v
        return self.rng.choice(['public', 'private', 'SELECT', 'WHERE x', 'foo', '', 'a"b', 'back\\slash', 'FROM a AS b', 'café', 'x', 'in',
                                'C:\\', 'ends with quote"', 'two  spaces', 'tab\there', ' lead', 'trail ', 'a \\" b   c'])

    def term(self, alias, kind):
        s, l, c = KINDS[kind]
        if s and (not c or self.rng.random() < 0.8):
            acc = self.rng.choice(s)
            return ('call', alias, acc, kind)
        if c:
            return ('const', alias, self.rng.choice(c), kind)
        return ('call', alias, 'toString', kind)

    def atom(self, scope):
        """scope: list of (alias, kind); returns an expression tree"""
        rng = self.rng
        alias, kind = rng.choice(scope)
        s, l, c = KINDS[kind]
        r = rng.random()
        if r < 0.55 or (not l and r < 0.8):
            t = self.term(alias, kind)
            op = rng.choice(CMP) if rng.random() < 0.45 else rng.choice(['==', '!='])
            if t[2] == 'toString':
                return ('cmp', '!=', t, ('lit', lit('zzz')))
            v = ('lit', lit(self.value_for(kind, t[2]))) if rng.random() < 0.93 else ('num', str(rng.randint(0, 9)))
            if rng.random() < 0.15:
                return ('cmp', op, v, t)
            return ('cmp', op, t, v)
        if r < 0.7 and l:
            acc = rng.choice(l)
            return ('cmp', ' in ', ('lit', lit(self.value_for(kind, acc))), ('call', alias, acc, kind))
        if r < 0.85 and s:
            acc = rng.choice(s)
            vals = [lit(self.value_for(kind, acc)) for _ in range(rng.randint(1, 3))]
            return ('cmp', ' in ', ('call', alias, acc, kind), ('list', vals))
        if len(scope) > 1:
            (a1, k1), (a2, k2) = rng.sample(scope, 2)
            return ('cmp', rng.choice(['==', '!=']), self.term(a1, k1), self.term(a2, k2))
        t = self.term(alias, kind)
        return ('cmp', '==', t, t)

    def formula(self, scope, depth, calls=None):
        rng = self.rng
        r = rng.random()
        if depth <= 0 or r < 0.3:
            if calls and rng.random() < 0.35:
                return rng.choice(calls)()
            return self.atom(scope)
        if r < 0.5:
            return ('and', self.formula(scope, depth - 1, calls), self.formula(scope, depth - 1, calls))
        if r < 0.7:
            return ('or', self.formula(scope, depth - 1, calls), self.formula(scope, depth - 1, calls))
        if r < 0.85:
            return ('not', self.formula(scope, depth - 1, calls))
        return ('paren', self.formula(scope, depth - 1, calls))

    def query(self, nkinds=None, npreds=None, where=True, depth=3, collide=False):
        rng = self.rng
        kinds = rng.sample([k for k in KINDS if self.vocab.get(k) is not None], nkinds or rng.choice([1, 1, 1, 2]))
        aliases = rng.sample([a for a in ALIASES if a not in KINDS], len(kinds))
        if len(kinds) == 2 and (collide or rng.random() < 0.35):
            # aliases that contain one another, in either FROM order
            pair = list(rng.choice([('c', 'mc'), ('m', 'md'), ('md', 'mdx'), ('x', 'selectx'), ('a', 'name'), ('e', 'e1'), ('p', 'pq'), ('b', 'ab')]))
            if rng.random() < 0.5:
                pair.reverse()
            aliases = pair
        frm = list(zip(kinds, aliases))
        scope = [(a, k) for k, a in frm]
        preds = []
        names = rng.sample([n for n in PRED_NAMES if n not in aliases], npreds if npreds is not None else rng.choice([0, 0, 1, 2, 3]))
        for nm in names:
            np_ = rng.choice([1, 1, 2]) if len(kinds) > 1 else 1
            pk = rng.sample(kinds, np_)
            formals = rng.sample([a for a in ['m', 'n', 'a', 'b', 'e', 'md', 'it', 'arg'] if a not in aliases and a != nm], np_)
            body = self.formula(list(zip(formals, pk)), 2)
            preds.append(dict(name=nm, params=list(zip(pk, formals)), body=body))
        calls = []
        for p in preds:
            def mk(p=p):
                args = []
                for (k, _f) in p['params']:
                    args.append([a for a, kk in scope if kk == k][0])
                return ('pcall', p['name'], args)
            calls.append(mk)
        w = self.formula(scope, depth, calls) if where else None
        sel = []
        for _ in range(rng.randint(1, 4)):
            a, k = rng.choice(scope)
            r = rng.random()
            s, l, c = KINDS[k]
            if r < 0.25:
                sel.append(('alias', a))
            elif r < 0.8 and (s or l):
                sel.append(('chain', a, rng.choice(s + l)))
            else:
                sel.append(('str', lit(rng.choice(['hello', 'a"q', 'x, y', 'SELECT', '', 'dir\\', 'wide   gap', 'q\\"  x', '100% sure', '%d', 'a%', '%!s(x)', 'tab\there', '{0}', '10\u00a0km', 'wide\u3000gap', 'thin\u2009sp', 'nel\u0085x', 'ls\u2028x', 'zw\u200bx', 'bom\ufeffx', 'Kapı', 'e\u0301']))))
        return dict(preds=preds, frm=frm, where=w, select=sel)


# ---------- rendering to tokens ----------
def expr_tokens(e):
    k = e[0]
    if k == 'cmp':
        op = 'in' if e[1] == ' in ' else e[1]
        return expr_tokens(e[2]) + [op] + expr_tokens(e[3])
    if k == 'lit' or k == 'num':
        return [e[1]]
    if k == 'list':
        out = ['[']
        for i, v in enumerate(e[1]):
            if i:
                out.append(',')
            out.append(v)
        return out + [']']
    if k == 'call':
        return [e[1], '.', e[2], '(', ')']
    if k == 'const':
        return [e[1], '.', e[2]]
    if k == 'and':
        return expr_tokens(e[1]) + ['&&'] + expr_tokens(e[2])
    if k == 'or':
        return wrap_or(e[1]) + ['||'] + wrap_or(e[2])
    if k == 'not':
        return ['!', '('] + expr_tokens(e[1]) + [')']
    if k == 'paren':
        return ['('] + expr_tokens(e[1]) + [')']
    if k == 'pcall':
        out = [e[1], '(']
        for i, a in enumerate(e[2]):
            if i:
                out.append(',')
            out.append(a)
        return out + [')']
    raise AssertionError(k)


def wrap_or(e):
    return expr_tokens(e)


def and_operand(e):
    # '&&' binds tighter than '||': parenthesise an 'or' under an 'and' to keep the tree's meaning
    return e


def norm_tree(e):
    """insert the parentheses the grammar needs so that the token sequence parses back to this tree"""
    k = e[0]
    if k == 'and':
        a, b = norm_tree(e[1]), norm_tree(e[2])
        if a[0] == 'or':
            a = ('paren', a)
        if b[0] in ('or', 'and'):
            b = ('paren', b)
        return ('and', a, b)
    if k == 'or':
        a, b = norm_tree(e[1]), norm_tree(e[2])
        if b[0] == 'or':
            b = ('paren', b)
        return ('or', a, b)
    if k == 'not':
        return ('not', norm_tree(e[1]))
    if k == 'paren':
        return ('paren', norm_tree(e[1]))
    return e


def query_tokens(q):
    t = []
    for p in q['preds']:
        t += ['predicate', p['name'], '(']
        for i, (k, f) in enumerate(p['params']):
            if i:
                t.append(',')
            t += [k, f]
        t += [')', '{'] + expr_tokens(norm_tree(p['body'])) + ['}']
    t.append('FROM')
    for i, (k, a) in enumerate(q['frm']):
        if i:
            t.append(',')
        t += [k, 'AS', a]
    if q['where'] is not None:
        t += ['WHERE'] + expr_tokens(norm_tree(q['where']))
    t.append('SELECT')
    for i, s in enumerate(q['select']):
        if i:
            t.append(',')
        if s[0] == 'alias':
            t.append(s[1])
        elif s[0] == 'chain':
            t += [s[1], '.', s[2], '(', ')']
        else:
            t.append(s[1])
    return t


_word = re.compile(r'^[A-Za-z_0-9]')


def needs_space(a, b):
    if a == 'in' or b == 'in':
        return True
    wa = bool(re.match(r'[A-Za-z_0-9]', a[-1])) if a else False
    wb = bool(re.match(r'[A-Za-z_0-9]', b[0])) if b else False
    if wa and wb:
        # a NUMBER ends where its digits end: `1SELECT`, `1x` are two tokens (a word after a word is not)
        if re.fullmatch(r'[0-9]+', a) and re.match(r'[A-Za-z_]', b[0]):
            return False
        return True
    if a[-1].isdigit() and b == '.':
        return True
    # symbol fusions
    if a in ('!', '<', '>', '=', '==', '!=', '<=', '>=') and b[0] in '=<>!':
        return True
    if a in ('&&', '||', '-', '+') and b[0] in '&|-+':
        return True
    if a == '!' and b[0] == '=':
        return True
    return False


def render(tokens, rng=None, style='plain'):
    """style: plain (single spaces) | tight (no space where allowed) | wild (random layout)"""
    out = []
    for i, t in enumerate(tokens):
        if i:
            a = tokens[i - 1]
            must = needs_space(a, t)
            if style == 'plain':
                out.append(' ')
            elif style == 'tight':
                out.append(' ' if must else '')
            elif style in ('cr', 'tab', 'lf'):
                # exactly one white-space character at every boundary that needs one, of ONE other kind than the blank
                # here and there: a query in which no other kind of white space occurs anywhere
                ch = {'cr': '\r', 'tab': '\t', 'lf': '\n'}[style]
                out.append((ch if rng.random() < 0.5 else ' ') if must or rng.random() < 0.5 else '')
            else:
                r = rng.random()
                if must or r < 0.6:
                    out.append(rng.choice([' ', ' ', '  ', '\t', '\n', '\r\n', ' \n  ', '\n\t', '\r', '\r ']))
                else:
                    out.append('')
        out.append(t)
    s = ''.join(out)
    if style == 'wild' and rng.random() < 0.3:
        s = rng.choice([' ', '\n', '\t ']) + s + rng.choice([' ', '\n', ''])
    return s


# ---------- variants for the metamorphic properties ----------
def rename(q, old, new):
    """consistently rename an alias"""
    def rn(e):
        k = e[0]
        if k in ('call', 'const'):
            return (k, new if e[1] == old else e[1]) + tuple(e[2:])
        if k == 'cmp':
            return ('cmp', e[1], rn(e[2]), rn(e[3]))
        if k in ('and', 'or'):
            return (k, rn(e[1]), rn(e[2]))
        if k in ('not', 'paren'):
            return (k, rn(e[1]))
        if k == 'pcall':
            return ('pcall', e[1], [new if a == old else a for a in e[2]])
        return e
    return dict(preds=q['preds'], frm=[(k, new if a == old else a) for k, a in q['frm']],
                where=rn(q['where']) if q['where'] is not None else None,
                select=[(s[0], new if s[0] != 'str' and s[1] == old else s[1]) + tuple(s[2:]) for s in q['select']])


def subst_body(body, mapping):
    def sb(e):
        k = e[0]
        if k in ('call', 'const'):
            return (k, mapping.get(e[1], e[1])) + tuple(e[2:])
        if k == 'cmp':
            return ('cmp', e[1], sb(e[2]), sb(e[3]))
        if k in ('and', 'or'):
            return (k, sb(e[1]), sb(e[2]))
        if k in ('not', 'paren'):
            return (k, sb(e[1]))
        if k == 'pcall':
            return ('pcall', e[1], [mapping.get(a, a) for a in e[2]])
        return e
    return sb(body)


def inline_calls(q):
    """replace every predicate call by its parenthesised body with arguments substituted"""
    decls = {p['name']: p for p in q['preds']}
    def il(e):
        k = e[0]
        if k == 'pcall':
            p = decls[e[1]]
            return ('paren', subst_body(p['body'], dict(zip([f for _, f in p['params']], e[2]))))
        if k in ('and', 'or'):
            return (k, il(e[1]), il(e[2]))
        if k in ('not', 'paren'):
            return (k, il(e[1]))
        return e
    return dict(preds=q['preds'], frm=q['frm'], where=il(q['where']) if q['where'] is not None else None, select=q['select'])


def rename_formals(q, rng):
    preds = []
    for p in q['preds']:
        used = {a for _, a in q['frm']} | {p['name']}
        fresh = [f for f in ['u', 'v', 'w', 'getNam', 'mm', 'z9'] if f not in used]
        mp = {}
        for (_k, f) in p['params']:
            mp[f] = fresh.pop(rng.randrange(len(fresh)))
        preds.append(dict(name=p['name'], params=[(k, mp[f]) for k, f in p['params']], body=subst_body(p['body'], mp)))
    return dict(preds=preds, frm=q['frm'], where=q['where'], select=q['select'])


def has_call(e):
    if e is None:
        return False
    k = e[0]
    if k == 'pcall':
        return True
    if k in ('and', 'or'):
        return has_call(e[1]) or has_call(e[2])
    if k in ('not', 'paren'):
        return has_call(e[1])
    return False
