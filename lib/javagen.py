"""Generator of a Java program family with ground truth (what each declaration / expression /
statement is, where it starts, what its source text is).  Every random choice comes from the
random.Random instance passed in, so a (seed, index) pair replays exactly."""
import random
import re

BINOPS = ['+', '-', '*', '/', '>', '<', '>=', '<=', '%', '>>', '<<', '!=', '==', '&', '&&', '||', '|', '>>>', '^']
OPKIND = {'+': 'add_expression', '-': 'sub_expression', '*': 'mul_expression', '/': 'div_expression',
          '>': 'comp_expression', '<': 'comp_expression', '>=': 'comp_expression', '<=': 'comp_expression',
          '%': 'rem_expression', '>>': 'right_shift_expression', '<<': 'left_shift_expression',
          '!=': 'ne_expression', '==': 'eq_expression', '&': 'bitwise_and_expression', '&&': 'and_expression',
          '||': 'or_expression', '|': 'bitwise_or_expression', '>>>': 'bitwise_right_shift_expression',
          '^': 'bitwise_xor_expression'}
# precedence levels (higher binds tighter), used to decide where parentheses are required
PREC = {'||': 1, '&&': 2, '|': 3, '^': 4, '&': 5, '==': 6, '!=': 6, '<': 7, '>': 7, '<=': 7, '>=': 7,
        '<<': 8, '>>': 8, '>>>': 8, '+': 9, '-': 9, '*': 10, '/': 10, '%': 10}

IDS = ['a', 'b', 'i', 'x', 'y', 'count', 'name', 'm', 'md', 'foo', 'bar', 'value', 'tmp', 'idx']
CLASSES = ['Foo', 'Bar', 'Baz', 'Widget', 'Helper', 'Node', 'Item']
METHODS = ['run', 'get', 'doIt', 'compute', 'foo', 'bar', 'getName', 'm', 'md', 'process']
TYPES_PRIM = ['int', 'long', 'boolean', 'double', 'char']
EXC = ['IOException', 'RuntimeException', 'Exception', 'IllegalStateException']
EXC_MANY = EXC + ['E%dException' % k for k in range(1, 30)]
IFACES_MANY = ['Runnable', 'Comparable', 'Closeable', 'Serializable'] + ['Iface%d' % k for k in range(1, 30)]
# list lengths around the sizes a fixed array, an inline buffer or a batch might have
LONG_LIST = [8, 9, 10, 16, 17, 33]
ANNOTS = ['@Override', '@Deprecated', '@Test', '@Nullable']
WORDS = ['the', 'value', 'of', 'item', 'returns', 'café', 'naïve', '中文', 'x<y', 'a&b', 'quote"q', 'back\\slash', 'tab\there',
         'ctl\x01x', 'del\x7fete', 'vt\x0bv', 'emoji😀', 'nel\u0085', 'ls\u2028sep']


_strlit = re.compile(r'^"(?:[^"\\\n]|\\.)*"$')


def unquote_literal(a):
    """argument text -> what the property calls 'string literals unquoted': only a single string literal loses its quotes"""
    return a[1:-1] if _strlit.match(a) else a


GO_SPACE = '\t\n\v\f\r \x85\xa0\u1680\u2000\u2001\u2002\u2003\u2004\u2005\u2006\u2007\u2008\u2009\u200a\u2028\u2029\u202f\u205f\u3000'


def go_trim(t):
    """strings.TrimSpace: Go's unicode.IsSpace set (a tag's text is the rest of its line, trimmed)"""
    return t.strip(GO_SPACE)


class Emitter:
    def __init__(self, rng, style):
        self.rng, self.style = rng, style
        self.parts, self.n, self.line, self.col = [], 0, 1, 1
        self.nl = '\r\n' if style.get('crlf') else '\n'
        self.indent = 0

    def w(self, s):
        self.parts.append(s)
        b = s.encode('utf-8')
        self.n += len(b)
        k = s.count('\n')
        if k:
            self.line += k
            self.col = len(s[s.rfind('\n') + 1:].encode('utf-8')) + 1
        else:
            self.col += len(b)

    def maybe_comment(self):
        """a comment where white space may stand: tree-sitter attaches it as a named child of whatever
        construct is being written, which shifts child positions"""
        if self.style.get('comments') and self.rng.random() < 0.07:
            self.w(self.rng.choice([' /* c */ ', ' /**/ ', ' /* x\n y */ ', ' // tail' + self.nl]))   # never glued to a `/` or `*` before it
            return True
        return False

    def sp(self):
        """mandatory white space between two word tokens"""
        if self.maybe_comment():
            self.w(' ')
            return
        r = self.rng.random()
        if not self.style.get('wild') or r < 0.7:
            self.w(' ')
        elif r < 0.8:
            self.w('\t')
        elif r < 0.9:
            self.w('  ')
        else:
            self.newline()

    def osp(self):
        """optional white space around punctuation"""
        if self.maybe_comment():
            return
        if self.style.get('wild'):
            r = self.rng.random()
            if r < 0.5:
                self.w(' ')
            elif r < 0.6:
                self.w('\t')
            elif r < 0.65:
                self.newline()
        else:
            self.w(' ')

    def tight(self):
        if self.style.get('wild') and self.rng.random() < 0.3:
            self.w(' ')

    def newline(self):
        self.w(self.nl + ('\t' if self.style.get('tabs') else '    ') * self.indent)

    def pos(self):
        return (self.n, self.line)

    def text(self):
        return ''.join(self.parts)


class Gen:
    """one compilation unit"""
    def __init__(self, rng, style=None, size=1.0, features=None):
        self.rng = rng
        self.style = style or {}
        self.e = Emitter(rng, self.style)
        self.truth = []      # list of dicts: kind, line, start, end (byte offsets), attrs...
        self.size = size
        self.loop_depth = 0
        self.labels = []
        self.f = features or {}
        self.last_kind = None

    # ---------- bookkeeping ----------
    def begin(self):
        return self.e.pos()

    def record(self, kind, start, **attrs):
        d = dict(kind=kind, start=start[0], end=self.e.n, line=start[1])
        d.update(attrs)
        self.truth.append(d)
        return d

    def src_between(self, a, b):
        return self.e.text().encode('utf-8')[a:b].decode('utf-8')

    # ---------- expressions: return source text, record truth ----------
    def literal(self):
        r = self.rng.random()
        if r < 0.35:
            return str(self.rng.randint(0, 99))
        if r < 0.55:
            w = self.rng.choice(['s', 'hello', 'a b', 'x\\"y', 'café', 'SELECT', '', 'a,b', '(p)', 'c\x01', 'd\x7f', 'e😀',
                                 'he said \\"hi\\"', '\\"', '\\"lead', 'tail\\\\', 'a\\tb'])
            return '"' + w + '"'
        if r < 0.65:
            return self.rng.choice(["'c'", "'\\n'", "'\"'"])
        if r < 0.8:
            return self.rng.choice(['true', 'false'])
        if r < 0.9:
            return 'null'
        return self.rng.choice(['1.5', '2L', '0x1F'])

    def expr(self, depth=0, want=None):
        """emits an expression; returns (text, min precedence of a top-level operator or 99)"""
        e, rng = self.e, self.rng
        r = rng.random()
        if depth >= 3 or r < 0.3:
            t = rng.choice(IDS) if rng.random() < 0.5 else self.literal()
            e.w(t)
            return t, 99
        if r < 0.62:
            return self.binary(depth)
        if r < 0.8:
            return self.call(depth)
        if r < 0.9:
            return self.new(depth)
        # parenthesised (never a lone identifier: `(a) + b` is read as a cast of +b by tree-sitter-java)
        s = self.begin()
        e.w('('); e.tight()
        self.paren_inner(depth + 1)
        e.tight(); e.w(')')
        return self.src_between(s[0], e.n), 99

    def paren_inner(self, depth):
        if depth < 3 and self.rng.random() < 0.6:
            return self.binary(depth)
        if self.rng.random() < 0.5:
            return self.call(depth)
        t = self.literal()
        self.e.w(t)
        return t, 99

    def operand(self, depth, prec, right, parent_op=None):
        """operand of a binary operator with precedence prec; parenthesise when needed"""
        e, rng = self.e, self.rng
        s = self.begin()
        r = rng.random()
        if depth >= 3 or r < 0.45:
            t = rng.choice(IDS) if rng.random() < 0.6 else self.literal()
            e.w(t)
        elif r < 0.75:
            # nested binary: choose parenthesised or by precedence
            if rng.random() < 0.5:
                e.w('('); e.tight(); self.binary(depth + 1); e.tight(); e.w(')')
            else:
                # `a < b << c` trips tree-sitter-java's generic-type lookahead: no bare shift under < >
                self.binary(depth + 1, min_prec=prec + 1, exclude=('<<', '>>', '>>>') if parent_op in ('<', '>', '<=', '>=') else ())
        elif r < 0.9:
            self.call(depth + 1)
        else:
            e.w('('); self.paren_inner(depth + 1); e.w(')')
        return self.src_between(s[0], e.n)

    def binary(self, depth, min_prec=1, exclude=()):
        e, rng = self.e, self.rng
        ops = [o for o in BINOPS if PREC[o] >= min_prec and o not in exclude]
        if self.f.get('ops'):
            ops = [o for o in ops if o in self.f['ops']] or ops
        if not ops:
            t = rng.choice(IDS); e.w(t); return t, 99
        op = rng.choice(ops)
        s = self.begin()
        left = self.operand(depth, PREC[op], False, op)
        e.osp(); e.w(op); e.osp()
        right = self.operand(depth, PREC[op], True, op)
        txt = self.src_between(s[0], e.n)
        self.record('binary', s, op=op, left=left, right=right, text=txt, opkind=OPKIND[op])
        return txt, PREC[op]

    def args(self, depth):
        e, rng = self.e, self.rng
        n = rng.choice([0, 0, 1, 1, 2, 3]) if (depth > 1 or rng.random() > 0.04) else rng.choice(LONG_LIST)
        out = []
        e.w('(')
        for i in range(n):
            if i:
                e.w(','); e.osp()
            else:
                e.tight()
            s = self.begin()
            self.expr(depth + 1)
            out.append(self.src_between(s[0], e.n))
        e.tight() if n else None
        e.w(')')
        return out

    def chain(self, depth):
        """fluent chain: head (new X(..) | this.m(..) | m(..)) followed by 1..3 links .m(..), names may repeat"""
        e, rng = self.e, self.rng
        s = self.begin()
        unq = unquote_literal
        h = rng.random()
        if h < 0.4:
            self.new(depth + 1)
        else:
            name = rng.choice(METHODS)
            if h < 0.7:
                e.w('this'); e.w('.')
            e.w(name); e.tight()
            args = self.args(depth + 1)
            self.record('call', s, name=name, args=[unq(a) for a in args], rawargs=args, text=self.src_between(s[0], e.n))
        link = rng.choice(METHODS)
        for i in range(rng.randint(1, 3)):
            if rng.random() < 0.4:
                link = rng.choice(METHODS)
            e.tight(); e.w('.'); e.tight(); e.w(link); e.tight()
            args = self.args(depth + 1)
            self.record('call', s, name=link, args=[unq(a) for a in args], rawargs=args, text=self.src_between(s[0], e.n))
        return self.src_between(s[0], e.n), 99

    def call(self, depth):
        e, rng = self.e, self.rng
        if depth < 3 and rng.random() < 0.15:
            return self.chain(depth)
        s = self.begin()
        r = rng.random()
        name = rng.choice(METHODS)
        if r < 0.45:
            e.w(name); qname = name
        elif r < 0.75:
            recv = rng.choice(IDS)
            e.w(recv); e.tight(); e.w('.'); e.tight(); e.w(name); qname = recv + '.' + name
        elif r < 0.87:
            e.w('this'); e.w('.'); e.w(name); qname = name
        else:
            a, b = rng.choice(IDS), rng.choice(IDS)
            e.w(a + '.' + b + '.' + name); qname = name
        e.tight()
        args = self.args(depth)
        unq = unquote_literal
        txt = self.src_between(s[0], e.n)
        self.record('call', s, name=qname, args=[unq(a) for a in args], rawargs=args, text=txt)
        return txt, 99

    def new(self, depth):
        e, rng = self.e, self.rng
        s = self.begin()
        e.w('new'); e.sp()
        cn = rng.choice(CLASSES)
        if rng.random() < 0.3:
            cn = rng.choice(['java.util', 'a.b', 'pkg']) + '.' + cn
        e.w(cn); e.tight()
        args = self.args(depth)
        txt = self.src_between(s[0], e.n)
        self.record('new', s, cls=cn, args=args, text=txt)
        return txt, 99

    # ---------- statements ----------
    def cond(self):
        e = self.e
        s = self.begin()
        e.w('('); e.tight()
        self.expr(1) if self.rng.random() < 0.3 else self.binary(1)
        e.tight(); e.w(')')
        return self.src_between(s[0], e.n)

    def block(self, depth, stmts=None):
        e = self.e
        s = self.begin()
        e.w('{')
        e.indent += 1
        n = stmts if stmts is not None else self.rng.choice([0, 1, 1, 2, 3])
        texts = []
        for _ in range(n):
            e.newline()
            i0, s1 = len(self.truth), self.begin()
            self.last_kind = None
            t = self.stmt(depth + 1)
            texts.append(t)
            if self.last_kind == 'call' and not self.f.get('stmts') and self.rng.random() < 0.25:
                # the same statement once more (copy and paste): every nested occurrence is an occurrence of its own
                import copy
                again = self.truth[i0:]
                e.newline()
                s2 = self.begin()
                e.w(t)
                for tr in again:
                    u = copy.deepcopy(tr)
                    u['start'] += s2[0] - s1[0]; u['end'] += s2[0] - s1[0]; u['line'] += s2[1] - s1[1]
                    self.truth.append(u)
                texts.append(t)
            self.last_kind = None
        e.indent -= 1
        e.newline()
        e.w('}')
        txt = self.src_between(s[0], e.n)
        self.record('block', s, stmts=texts, text=txt)
        return txt

    def local_var(self):
        e, rng = self.e, self.rng
        s = self.begin()
        ty = rng.choice(TYPES_PRIM + CLASSES + ['String', 'int[]', 'List<String>'])
        name = rng.choice(IDS)
        e.w(ty); e.sp(); e.w(name)
        init = None
        if rng.random() < 0.7:
            e.osp(); e.w('='); e.osp()
            a = self.begin()
            self.expr(1)
            init = self.src_between(a[0], e.n)
        e.tight(); e.w(';')
        txt = self.src_between(s[0], e.n)
        self.record('variable', s, name=name, dtype=ty, init=init, scope='local', vis='', text=txt)
        return txt

    def stmt(self, depth):
        e, rng = self.e, self.rng
        s = self.begin()
        choices = ['local', 'call', 'return', 'assert']
        if depth < 3:
            choices += ['if', 'while', 'do', 'for', 'block', 'yieldswitch']
        if depth < 2 and not self.f.get('stmts'):
            # constructs that are no entities themselves but CONTAIN entities: whatever is nested in them must be found
            choices += ['try', 'foreach', 'switch', 'throw', 'sync', 'lambda', 'ternary']
        if self.loop_depth > 0:
            choices += ['break', 'continue']
        if self.f.get('stmts'):
            choices = [c for c in choices if c in self.f['stmts']] or choices
        k = rng.choice(choices)
        if k == 'try':
            e.w('try'); e.osp(); self.block(depth + 1); e.osp(); e.w('catch'); e.osp(); e.w('('); e.w(rng.choice(EXC)); e.sp(); e.w('ex'); e.w(')'); e.osp()
            self.block(depth + 1)
            if rng.random() < 0.4:
                e.osp(); e.w('finally'); e.osp(); self.block(depth + 1)
            return self.src_between(s[0], e.n)
        if k == 'foreach':
            e.w('for'); e.osp(); e.w('('); e.w('String'); e.sp(); e.w('it'); e.sp(); e.w(':'); e.sp(); e.w(rng.choice(IDS)); e.w(')'); e.osp()
            self.loop_depth += 1
            self.block(depth + 1)
            self.loop_depth -= 1
            return self.src_between(s[0], e.n)
        if k == 'switch':
            e.w('switch'); e.osp(); e.w('('); e.w(rng.choice(IDS)); e.w(')'); e.osp(); e.w('{')
            e.indent += 1
            for lab in ('case 1:', 'case 2:', 'default:'):
                e.newline(); e.w(lab); e.sp(); self.simple_stmt()
                if rng.random() < 0.5:
                    e.sp(); self.block(depth + 1)
            e.indent -= 1
            e.newline(); e.w('}')
            return self.src_between(s[0], e.n)
        if k == 'throw':
            e.w('throw'); e.sp(); self.new(1); e.tight(); e.w(';')
            return self.src_between(s[0], e.n)
        if k == 'sync':
            e.w('synchronized'); e.osp(); e.w('('); e.w('this'); e.w(')'); e.osp(); self.block(depth + 1)
            return self.src_between(s[0], e.n)
        if k == 'lambda':
            e.w('Runnable'); e.sp(); e.w('r%d' % rng.randint(0, 99)); e.osp(); e.w('='); e.osp(); e.w('('); e.w(')'); e.osp(); e.w('->'); e.osp()
            self.block(depth + 1)
            e.tight(); e.w(';')
            return self.src_between(s[0], e.n)
        if k == 'ternary':
            e.w(rng.choice(IDS)); e.osp(); e.w('='); e.osp(); self.cond(); e.osp(); e.w('?'); e.osp(); self.call(1); e.osp(); e.w(':'); e.osp()
            e.w('('); e.w('int'); e.w(')'); e.sp(); self.call(1); e.tight(); e.w(';')
            return self.src_between(s[0], e.n)
        if k == 'local':
            return self.local_var()
        if k == 'call':
            self.call(1); e.tight(); e.w(';')
            self.last_kind = 'call'
            return self.src_between(s[0], e.n)
        if k == 'return':
            e.w('return')
            res = None
            if rng.random() < 0.7:
                e.sp()
                a = self.begin(); self.expr(1); res = self.src_between(a[0], e.n)
            e.tight(); e.w(';')
            txt = self.src_between(s[0], e.n)
            self.record('return', s, result=res, text=txt)
            return txt
        if k == 'assert':
            e.w('assert'); e.sp()
            a = self.begin(); self.binary(1); ex = self.src_between(a[0], e.n)
            msg = None
            if rng.random() < 0.5:
                e.osp(); e.w(':'); e.osp()
                msg = '"' + rng.choice(['bad', 'must hold', 'x: y']) + '"'
                e.w(msg)
            e.tight(); e.w(';')
            txt = self.src_between(s[0], e.n)
            self.record('assert', s, expr=ex, msg=msg, text=txt)
            return txt
        if k == 'if':
            e.w('if'); e.osp()
            c = self.cond(); e.osp()
            thn = self.block(depth) if rng.random() < 0.8 else self.simple_stmt()
            els = None
            if rng.random() < 0.5:
                e.osp(); e.w('else'); e.sp()
                els = self.block(depth) if rng.random() < 0.8 else self.simple_stmt()
            txt = self.src_between(s[0], e.n)
            self.record('if', s, cond=c, then=thn, els=els, text=txt)
            return txt
        if k == 'while':
            lbl = self.maybe_label()
            s2 = self.begin()
            e.w('while'); e.osp()
            c = self.cond(); e.osp()
            self.loop_depth += 1
            self.block(depth)
            self.loop_depth -= 1
            self.pop_label(lbl)
            self.record('while', s2, cond=c, text=self.src_between(s2[0], e.n))
            return self.src_between(s[0], e.n)
        if k == 'do':
            lbl = self.maybe_label()
            s2 = self.begin()
            e.w('do'); e.osp()
            self.loop_depth += 1
            self.block(depth)
            self.loop_depth -= 1
            e.osp(); e.w('while'); e.osp()
            c = self.cond(); e.tight(); e.w(';')
            self.pop_label(lbl)
            self.record('do', s2, cond=c, text=self.src_between(s2[0], e.n))
            return self.src_between(s[0], e.n)
        if k == 'for':
            lbl = self.maybe_label()
            s2 = self.begin()
            e.w('for'); e.osp(); e.w('('); e.tight()
            init = cond = upd = None
            if rng.random() < 0.75:
                a = self.begin()
                v = rng.choice(['i', 'j', 'k'])
                e.w('int'); e.sp(); e.w(v); e.osp(); e.w('='); e.osp()
                val = str(rng.randint(0, 5))
                e.w(val)
                e.tight(); e.w(';')
                init = self.src_between(a[0], e.n)
                # the initializer is the value written, not the raw text after `=` (a comment may stand between them)
                self.record('variable', a, name=v, dtype='int', init=val, scope='local', vis='', text=init)
            else:
                e.w(';')
            e.osp()
            if rng.random() < 0.75:
                a = self.begin(); self.binary(2, min_prec=6); cond = self.src_between(a[0], e.n)
            e.tight(); e.w(';'); e.osp()
            if rng.random() < 0.75:
                a = self.begin()
                e.w(rng.choice(['i', 'j', 'k']) + rng.choice(['++', '--']))
                upd = self.src_between(a[0], e.n)
            e.tight(); e.w(')'); e.osp()
            self.loop_depth += 1
            self.block(depth)
            self.loop_depth -= 1
            self.pop_label(lbl)
            self.record('for', s2, init=init, cond=cond, update=upd, text=self.src_between(s2[0], e.n))
            return self.src_between(s[0], e.n)
        if k == 'block':
            return self.block(depth)
        if k == 'break' or k == 'continue':
            e.w(k)
            lbl = ''
            if self.labels and rng.random() < 0.5:
                lbl = rng.choice(self.labels)
                if rng.random() < 0.3:
                    # a comment between the keyword and its label: the label stays the label
                    e.w(rng.choice([' /* leave */ ', ' // next' + e.nl + ' ']))
                else:
                    e.sp()
                e.w(lbl)
            e.tight(); e.w(';')
            txt = self.src_between(s[0], e.n)
            self.record(k, s, label=lbl, text=txt)
            return txt
        if k == 'yieldswitch':
            # int v = switch (x) { case 1 -> { yield E; } default -> { yield E; } };
            v = rng.choice(IDS)
            e.w('int'); e.sp(); e.w(v); e.osp(); e.w('='); e.osp()
            a = self.begin()
            saved = self.loop_depth
            self.loop_depth = 0   # break/continue may not cross a switch expression
            saved_labels, self.labels = self.labels, []
            e.w('switch'); e.osp(); e.w('('); e.w(rng.choice(IDS)); e.w(')'); e.osp(); e.w('{')
            e.indent += 1
            for lab in ['case 1', 'default']:
                e.newline(); e.w(lab); e.osp(); e.w('->'); e.osp()
                bs = self.begin()
                e.w('{'); e.osp()
                ys = self.begin()
                e.w('yield'); e.sp()
                ya = self.begin(); self.expr(2); yv = self.src_between(ya[0], e.n)
                e.tight(); e.w(';')
                ytxt = self.src_between(ys[0], e.n)
                self.record('yield', ys, value=yv, text=ytxt)
                e.osp(); e.w('}')
                self.record('block', bs, stmts=[ytxt], text=self.src_between(bs[0], e.n))
            e.indent -= 1
            e.newline(); e.w('}')
            init = self.src_between(a[0], e.n)
            e.w(';')
            self.loop_depth = saved
            self.labels = saved_labels
            txt = self.src_between(s[0], e.n)
            self.record('variable', s, name=v, dtype='int', init=init, scope='local', vis='', text=txt)
            return txt
        raise AssertionError(k)

    def simple_stmt(self):
        e = self.e
        s = self.begin()
        self.call(1); e.w(';')
        return self.src_between(s[0], e.n)

    def maybe_label(self):
        if self.rng.random() < 0.35:
            lbl = self.rng.choice(['outer', 'loop', 'L1', 'again_2'])
            if lbl in self.labels:
                return None
            self.e.w(lbl); self.e.tight(); self.e.w(':'); self.e.osp()
            self.labels.append(lbl)
            return lbl
        return None

    def pop_label(self, lbl):
        if lbl is not None:
            self.labels.remove(lbl)

    # ---------- declarations ----------
    def javadoc(self):
        """emits a Javadoc comment (or sometimes a plain block comment); returns truth tags or None"""
        e, rng = self.e, self.rng
        if rng.random() < 0.5:
            return None
        s = self.begin()
        tags = []
        oneline = rng.random() < 0.2
        kinds = ['author', 'version', 'since', 'see', 'param', 'throws', 'return', 'custom']
        if oneline:
            k = rng.choice(kinds)
            t = ' '.join(rng.sample(WORDS, rng.randint(1, 3)))
            e.w('/** @' + k + ' ' + t + ' */')
            tags.append((k, go_trim(t)))
        else:
            e.w('/**')
            e.newline(); e.w(' * ' + ' '.join(rng.sample(WORDS, 2)))
            n = rng.randint(0, 4)
            for i in range(n):
                if rng.random() < 0.25:
                    # a tag without text on its line (`@deprecated`, an empty `@return`): it carries no text, and
                    # must not swallow the line that follows
                    e.newline(); e.w(' * @' + rng.choice(['deprecated', 'hidden', 'return', 'since']) + rng.choice(['', ' ', '  ']))
                    continue
                k = rng.choice(kinds)
                t = ' '.join(rng.sample(WORDS, rng.randint(1, 3)))
                e.newline(); e.w(' * @' + k + ' ' + t)
                tags.append((k, go_trim(t)))
            if rng.random() < 0.3 and n:
                e.w(' */')     # closing delimiter on the last tag line
            else:
                e.newline(); e.w(' */')
        txt = self.src_between(s[0], e.n)
        self.record('comment', s, text=txt, tags=tags)
        e.newline()
        return dict(tags=tags, text=txt)

    def modifiers(self, allow_static=True):
        e, rng = self.e, self.rng
        annots = rng.sample(ANNOTS, rng.choice([0, 0, 1, 2]))
        vis = rng.choice(['public', 'private', 'protected', ''])
        words = list(annots)
        if vis:
            words.append(vis)
        if allow_static and rng.random() < 0.3:
            words.append('static')
        if rng.random() < 0.2:
            words.append('final')
        if rng.random() < 0.3:
            # annotations may legally follow keyword modifiers: `public @Override static void f()`
            kw = [w for w in words if not w.startswith('@')]
            an = [w for w in words if w.startswith('@')]
            words = []
            while kw or an:
                if an and (not kw or rng.random() < 0.5):
                    words.append(an.pop(0))
                else:
                    words.append(kw.pop(0))
        for w in words:
            e.w(w); e.sp()
            if w.startswith('@') and rng.random() < 0.25:
                # an annotation WITH arguments next to the marker ones: it is no marker annotation (not among the
                # annotation attributes), but the expressions in its arguments are ordinary expressions of the file
                e.w(rng.choice(['@Size', '@RequestMapping', '@Max'])); e.tight(); e.w('(')
                if rng.random() < 0.5:
                    e.w('max'); e.osp(); e.w('='); e.osp()
                self.binary(2)
                e.tight(); e.w(')'); e.sp()
        return vis, annots

    def method(self):
        e, rng = self.e, self.rng
        doc = self.javadoc()
        s = self.begin()
        vis, annots = self.modifiers()
        ret = rng.choice(['void', 'void'] + TYPES_PRIM + CLASSES + ['String', 'int[]', 'List<String>', 'java.util.Map<String, Foo>'])
        if rng.random() < 0.18:
            # a generic method: its type parameters stand between the modifiers and the return type
            tp, ret = rng.choice([('<T>', 'T'), ('<K, V>', 'java.util.Map<K, V>'), ('<T extends Comparable<T>>', 'void'), ('<E>', 'List<E>'), ('<T>', 'T[]')])
            e.w(tp); e.sp()
        name = rng.choice(METHODS)
        e.w(ret); e.sp(); e.w(name); e.tight(); e.w('(')
        np = rng.choice([0, 0, 1, 2, 3]) if rng.random() > 0.06 else rng.choice(LONG_LIST)
        ptypes, pnames = [], []
        for i in range(np):
            if i:
                e.w(','); e.osp()
            pt = rng.choice(TYPES_PRIM + CLASSES + ['String', 'int[]', 'List<String>'])
            pn = rng.choice(IDS) + str(i)
            if rng.random() < 0.15:
                e.w('final'); e.sp()
            e.w(pt); e.sp(); e.w(pn)
            ptypes.append(pt); pnames.append(pn)
        e.w(')')
        throws = []
        if rng.random() < 0.4:
            e.sp(); e.w('throws'); e.sp()
            throws = rng.sample(EXC, rng.randint(1, 3)) if rng.random() > 0.08 else rng.sample(EXC_MANY, rng.choice(LONG_LIST[:5]))
            for i, t in enumerate(throws):
                if i:
                    e.w(','); e.osp()
                e.w(t)
        e.osp()
        self.block(0, stmts=max(0, int(rng.choice([0, 1, 2, 3, 4]) * self.size)))
        txt = self.src_between(s[0], e.n)
        self.record('method', s, name=name, vis=vis, ret=ret, ptypes=ptypes, pnames=pnames, throws=throws,
                    annots=annots, doc=doc, text=txt)

    def field(self):
        e, rng = self.e, self.rng
        s = self.begin()
        vis, annots = self.modifiers()
        ty = rng.choice(TYPES_PRIM + CLASSES + ['String', 'int[]', 'List<String>'])
        name = rng.choice(IDS)
        e.w(ty); e.sp(); e.w(name)
        init = None
        if rng.random() < 0.6:
            e.osp(); e.w('='); e.osp()
            a = self.begin(); self.expr(1); init = self.src_between(a[0], e.n)
        e.tight(); e.w(';')
        txt = self.src_between(s[0], e.n)
        self.record('variable', s, name=name, dtype=ty, init=init, scope='field', vis=vis, text=txt)

    def klass(self, depth=0):
        e, rng = self.e, self.rng
        doc = self.javadoc()
        s = self.begin()
        vis, annots = self.modifiers(allow_static=depth > 0)
        name = rng.choice(CLASSES)
        e.w('class'); e.sp(); e.w(name)
        sup = ''
        if rng.random() < 0.4:
            sup = rng.choice(CLASSES)
            e.sp(); e.w('extends'); e.sp(); e.w(sup)
        ifaces = []
        if rng.random() < 0.4:
            ifaces = rng.sample(['Runnable', 'Comparable', 'Closeable', 'Serializable'], rng.randint(1, 3)) if rng.random() > 0.1 else rng.sample(IFACES_MANY, rng.choice(LONG_LIST[:5]))
            e.sp(); e.w('implements'); e.sp()
            for i, t in enumerate(ifaces):
                if i:
                    e.w(','); e.osp()
                e.w(t)
        e.osp(); e.w('{')
        e.indent += 1
        nm = max(1, int(rng.choice([1, 2, 3, 4]) * self.size))
        for _ in range(nm):
            e.newline()
            r = rng.random()
            if r < 0.3:
                self.field()
            elif r < 0.9 or depth >= 1:
                self.method()
            else:
                self.klass(depth + 1)
        e.indent -= 1
        e.newline(); e.w('}')
        txt = self.src_between(s[0], e.n)
        self.record('class', s, name=name, vis=vis, sup=sup, ifaces=ifaces, annots=annots, doc=doc, text=txt)

    def unit(self):
        e, rng = self.e, self.rng
        if rng.random() < 0.5:
            e.w('package com.example.' + rng.choice(['a', 'b', 'c']) + ';'); e.newline()
        if rng.random() < 0.5:
            e.w('import java.util.*;'); e.newline()
        if rng.random() < 0.3:
            e.w('// line comment with é and "quotes"'); e.newline()
        for _ in range(rng.choice([1, 1, 2])):
            self.klass()
            e.newline()
        return e.text(), self.truth


def gen_unit(seed, idx, size=1.0, features=None):
    rng = random.Random('%d/%d' % (seed, idx))
    style = {'wild': rng.random() < 0.4, 'crlf': rng.random() < 0.2, 'tabs': rng.random() < 0.3, 'comments': rng.random() < 0.3}
    g = Gen(rng, style, size, features)
    text, truth = g.unit()
    return text, truth, style


# ---------- token-level mutation of Java text (structure-aware malformed stream) ----------
import re
_tok = re.compile(r'"(?:[^"\\\n]|\\.)*"|\'(?:[^\'\\\n]|\\.)*\'|/\*.*?\*/|//[^\n]*|[A-Za-z_][A-Za-z_0-9]*|\d+|\s+|>>>=?|<<=?|>>=?|[-+*/%&|^!=<>]=|&&|\|\||\+\+|--|->|.', re.S)

# the shortest members of each lexical class (empty comment, empty string ...): what a slice or index
# computed from "the delimiters are there" trips over
TINY = ['/**/', '/***/', '/* */', '/** */', '/**@*/', '/**@a*/', '/**\n*/', '/** @author */', '""', "''", '//', '//\n', '0', '@', '@A', '"\\"', '/*/', '/**']


def shrink_token(t, rng):
    """a shorter token of the same lexical class, or a truncated one"""
    if t.startswith('/*') and t.endswith('*/') and len(t) >= 4:
        return rng.choice(['/**/', '/***/', t[:3] + t[-2:], t[:2] + t[-2:], t[:max(2, len(t) // 2)] + '*/', t[:-1], t[:-2]])
    if len(t) >= 2 and t[0] == t[-1] and t[0] in '"\'':
        return rng.choice([t[0] * 2, t[:-1], t[0] + t[-1:], t[:max(1, len(t) // 2)] + t[0]])
    if len(t) > 1:
        a = rng.randrange(len(t))
        b = rng.randrange(a, len(t) + 1)
        return t[:a] + t[b:]
    return ''


def tiny_variants(text, rng, per_token=2):
    """text with each minimal token inserted at a few token boundaries (one insertion per variant)"""
    toks = _tok.findall(text)
    out = []
    for tiny in TINY:
        for _ in range(per_token):
            i = rng.randrange(len(toks) + 1) if toks else 0
            out.append(''.join(toks[:i]) + tiny + ''.join(toks[i:]))
    # and every comment of the text replaced by the empty comments
    for i, t in enumerate(toks):
        if t.startswith('/*') and t.endswith('*/'):
            for tiny in ('/**/', '/***/'):
                out.append(''.join(toks[:i]) + tiny + ''.join(toks[i + 1:]))
    return out


def grid_unit(kind, rows=36, per_row=3):
    """same-kind statements at many (row, column) positions of one file, so that identities that do not
    separate row from column (or drop one of them) collide: every statement differs in its text"""
    stmt = {'if': lambda k: 'if (v%d > 0) f%d();' % (k, k), 'while': lambda k: 'while (v%d > 0) f%d();' % (k, k),
            'return': lambda k: 'if (v%d > 0) return %d;' % (k, k), 'break': lambda k: 'while (c%d) break;' % k,
            'continue': lambda k: 'while (c%d) continue;' % k, 'assert': lambda k: 'assert v%d > 0 : "m%d";' % (k, k),
            'do': lambda k: 'do f%d(); while (v%d > 0);' % (k, k), 'for': lambda k: 'for (int i%d = 0; i%d < 2; i%d++) f%d();' % (k, k, k, k),
            'block': lambda k: '{ f%d(); }' % k, 'call': lambda k: 'g.f%d(%d);' % (k, k), 'new': lambda k: 'new T%d(%d);' % (k, k),
            'comment': lambda k: '/* c%d */' % k}[kind]
    lines = ['class Grid_%s {' % kind, '  int m(int a) {']
    truth = []
    k = 0
    for r in range(rows):
        parts = []
        indent = ' ' * (1 + (r * 7) % 11)
        for j in range(per_row):
            t = stmt(k)
            ln = len(lines) + 1
            if kind == 'if':
                truth.append(dict(kind='if', line=ln, text=t, cond='(v%d > 0)' % k, then='f%d();' % k, els=None))
            elif kind == 'while':
                truth.append(dict(kind='while', line=ln, text=t, cond='(v%d > 0)' % k))
            elif kind == 'return':
                truth.append(dict(kind='return', line=ln, text='return %d;' % k, result='%d' % k))
                truth.append(dict(kind='if', line=ln, text=t, cond='(v%d > 0)' % k, then='return %d;' % k, els=None))
            elif kind == 'assert':
                truth.append(dict(kind='assert', line=ln, text=t, expr='v%d > 0' % k, msg='"m%d"' % k))
            elif kind == 'do':
                truth.append(dict(kind='do', line=ln, text=t, cond='(v%d > 0)' % k))
            elif kind == 'break':
                truth.append(dict(kind='break', line=ln, text='break;', label=''))
            elif kind == 'continue':
                truth.append(dict(kind='continue', line=ln, text='continue;', label=''))
            parts.append(t + ' ' * (1 + (r + j) % 3))
            k += 1
        lines.append(indent + ''.join(parts))
    lines += ['    return 0;', '  }', '}', '']
    return '\n'.join(lines), truth


def deep_unit(depth):
    """constructs nested `depth` levels deep (what generated code and long concatenations look like): a left-leaning
    chain of additions on one line and an if / else-if chain, with the truth of every level"""
    ops = ['a%d' % k for k in range(depth + 1)]
    lines = ['class Deep%d {' % depth, '  int sum(int v) {']
    truth = []
    chain = ops[0]
    ln = len(lines) + 1
    for k in range(1, depth + 1):
        left = chain
        chain = left + ' + ' + ops[k]
        truth.append(dict(kind='binary', line=ln, text=chain, op='+', opkind='add_expression', left=left, right=ops[k]))
    lines.append('    int r = ' + chain + ';')
    first = len(lines) + 1
    ifl = []
    for k in range(depth):
        ifl.append(('    ' if k == 0 else '    else ') + 'if (v > %d) g%d(v);' % (k, k % 9))
    lines += ifl
    lines += ['    return r;', '  }', '}', '']
    text = '\n'.join(lines)
    # the if at level k spans from its own `if` to the end of the chain
    alltxt = '\n'.join(ifl)
    pos = 0
    starts = []
    for k in range(depth):
        i = alltxt.index('if (v > %d)' % k, pos)
        starts.append(i)
        pos = i + 1
    for k in range(depth):
        t = alltxt[starts[k]:]
        els = alltxt[starts[k + 1]:] if k + 1 < depth else None
        truth.append(dict(kind='if', line=first + k, text=t, cond='(v > %d)' % k, then='g%d(v);' % (k % 9), els=els))
    return text, truth


GRID_KINDS = ['if', 'while', 'return', 'break', 'continue', 'assert', 'do', 'for', 'block', 'call', 'new', 'comment']


def mutate(text, rng, n=None):
    toks = _tok.findall(text)
    if not toks:
        return text
    n = n or rng.choice([1, 1, 2, 3, 5])
    for _ in range(n):
        if not toks:
            break
        i = rng.randrange(len(toks))
        r = rng.random()
        if r < 0.3:
            del toks[i]
        elif r < 0.5:
            toks.insert(i, toks[i])
        elif r < 0.7:
            j = rng.randrange(len(toks))
            toks[i], toks[j] = toks[j], toks[i]
        elif r < 0.82:
            toks[i] = rng.choice(['{', '}', '(', ')', ';', 'class', 'if', 'else', 'for', 'return', 'new', '"', "'", '/*', '*/', '+', '==', 'yield', 'assert', 'break', 'x', '.', ',', '@', 'é', '\x00'] + TINY)
        elif r < 0.9:
            toks[i] = shrink_token(toks[i], rng)
        else:
            k = rng.randrange(len(toks))
            toks = toks[:min(i, k)] + toks[max(i, k):]
    return ''.join(toks)


def random_bytes(rng):
    r = rng.random()
    n = rng.choice([0, 1, 2, 5, 20, 100, 400])
    if r < 0.3:
        return bytes(rng.randrange(256) for _ in range(n))
    if r < 0.6:
        alpha = b'{}();=+-*/<>!&|"\'\\\n\t .,@:abcxyz019\xc3\xa9\xff\xe2\x80\xa8'
        return bytes(rng.choice(alpha) for _ in range(n))
    words = [b'class', b'A', b'{', b'}', b'(', b')', b'void', b'f', b';', b'if', b'else', b'while', b'do', b'for', b'return',
             b'assert', b'yield', b'break', b'continue', b'new', b'x', b'=', b'1', b'+', b'"s"', b'/*', b'*/', b'//', b'\n', b' ',
             b'int', b',', b'.', b':', b'switch', b'->', b'case', b'default', b'@A', b'\xff', b'\xe2\x80']
    return b' '.join(rng.choice(words) for _ in range(n))
