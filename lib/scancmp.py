"""Compare the extracted Coq model's build_file with the real builder, case by case."""
import hashlib, re, sys

def parse_blocks(path):
    """-> dict id -> list of lines (between CASE id and ENDCASE)"""
    out, cur, cid = {}, None, None
    with open(path, 'r') as f:
        for line in f:
            line = line.rstrip('\n')
            if line.startswith('CASE '):
                cid, cur = line[5:], []
            elif line == 'ENDCASE':
                out[cid] = cur
                cur = None
            elif cur is not None:
                cur.append(line)
    return out

_idpre = re.compile(r'idpre=x([0-9a-f]*)')
def sha_of_hex(h):
    return hashlib.sha256(bytes.fromhex(h)).hexdigest()

def canon_model(lines):
    """model block -> (wf, outcome, sorted node+edge lines with ids hashed)"""
    wf, outcome, nodes, edges = None, None, [], []
    for l in lines:
        if l.startswith('WF '):
            wf = l[3:] == '1'
        elif l.startswith('OUTCOME '):
            outcome = l[8:].split(' ')[0]
        elif l.startswith('NODE '):
            nodes.append(_idpre.sub(lambda m: 'id=' + sha_of_hex(m.group(1)), l, count=1))
        elif l.startswith('EDGE '):
            _, a, b = l.split(' ')
            edges.append('EDGE %s %s' % (sha_of_hex(a[1:]), sha_of_hex(b[1:])))
    return wf, outcome, sorted(nodes) + sorted(edges)

def canon_impl(lines):
    outcome, rest = None, []
    for l in lines:
        if l.startswith('OUTCOME '):
            outcome = l[8:].split(' ')[0]
        else:
            rest.append(l)
    nodes = sorted(x for x in rest if not x.startswith('EDGE '))
    edges = sorted(x for x in rest if x.startswith('EDGE '))
    return outcome, nodes + edges

def compare(model_path, impl_path):
    """-> list of (case id, reason, detail) disagreements, stats"""
    m, i = parse_blocks(model_path), parse_blocks(impl_path)
    dis, stats = [], {'cases': 0, 'nodes': 0, 'edges': 0, 'wf_false': 0, 'panic_model': 0, 'panic_impl': 0}
    for cid in i:
        stats['cases'] += 1
        if cid not in m:
            dis.append((cid, 'model-missing', ''))
            continue
        wf, mo, ml = canon_model(m[cid])
        io, il = canon_impl(i[cid])
        if not wf:
            stats['wf_false'] += 1
        if mo == 'panic':
            stats['panic_model'] += 1
        if io == 'panic':
            stats['panic_impl'] += 1
        if mo != io:
            dis.append((cid, 'outcome', 'model=%s impl=%s' % (mo, io)))
            continue
        stats['nodes'] += sum(1 for x in il if x.startswith('NODE '))
        stats['edges'] += sum(1 for x in il if x.startswith('EDGE '))
        if ml != il:
            sm, si = set(ml), set(il)
            only_m = sorted(sm - si)[:2]
            only_i = sorted(si - sm)[:2]
            dis.append((cid, 'graph', 'only-model=%r only-impl=%r (sizes %d/%d)' % (only_m, only_i, len(ml), len(il))))
    return dis, stats

if __name__ == '__main__':
    d, s = compare(sys.argv[1], sys.argv[2])
    print(s)
    for x in d[:10]:
        print(x)
    sys.exit(1 if d else 0)
