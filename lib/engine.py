"""Query-engine campaign: one generated project, many queries; the real processQuery (in the harness)
against the extracted Coq model (bin/model query) on the implementation's own graph dump."""
import json, os, random, re, subprocess
from collections import Counter
from common import *
import javagen, qrun, querygen, scan


def make_project(seed, nfiles, workdir, size=0.8):
    files = []
    for i in range(nfiles):
        text, _, _ = javagen.gen_unit(seed + 500, i, size=size)
        files.append(('src/p%d/F%d.java' % (i % 3, i), text.encode()))
    proj = workdir + '/proj'
    qrun.write_project(proj, files)
    return proj, files


def dump_graph(proj, workdir):
    rc, out, err = run([B + '/harness', 'init-dump', proj, workdir + '/graph.txt'], timeout=900, env=dict(ENV, HOME=workdir))
    if rc != 0:
        raise RuntimeError('init-dump failed: ' + err.decode(errors='replace')[-300:])
    nodes = [scan.parse_kv(l.rstrip('\n')) for l in sorted(open(workdir + '/graph.txt')) if l.startswith('NODE ')]
    return nodes


def hexs(x):
    return bytes.fromhex(x[1:]).decode('utf-8', 'replace')


def hexlist(x):
    return [bytes.fromhex(t[1:]).decode('utf-8', 'replace') for t in re.findall(r'x[0-9a-f]*', x)]


ACC_FIELD = {'getName': 'name', 'getVisibility': 'mod', 'getReturnType': 'ret', 'getSuperClass': 'super',
             'getScope': 'scope', 'getVariableValue': 'value', 'getVariableDataType': 'dtype',
             'getAnnotation': 'annot', 'getArgumentType': 'argt', 'getArgumentName': 'argv',
             'getThrowsType': 'throws', 'getInterface': 'iface'}


def vocab_of(nodes):
    """kind -> accessor -> observed values (so that generated atoms are often true)"""
    v = {}
    for n in nodes:
        k = hexs(n['type'])
        d = v.setdefault(k, {})
        for acc, f in ACC_FIELD.items():
            val = hexlist(n[f]) if n[f].startswith('[') else hexs(n[f])
            if val not in ([], ''):
                d.setdefault(acc, [])
                if len(d[acc]) < 40:
                    d[acc].append(val)
        if n['bin'] != '~':
            t = hexlist(n['bin'])
            if len(t) == 3:
                d.setdefault('getLeftOperand', []).append(t[1])
                d.setdefault('getRightOperand', []).append(t[2])
    return v


def run_model(graph_file, queries, workdir):
    qf = workdir + '/mq.txt'
    with open(qf, 'w') as f:
        for qid, q in queries:
            f.write('%s x%s\n' % (qid, q.encode('utf-8').hex()))
    with open(qf, 'rb') as fin:
        p = subprocess.run([B + '/model', 'query', graph_file], stdin=fin, capture_output=True, timeout=3000)
    if p.returncode != 0:
        raise RuntimeError('model query failed: ' + p.stderr.decode(errors='replace')[-400:])
    out, cur = {}, None
    for line in p.stdout.decode().splitlines():
        w = line.split(' ', 1)
        if w[0] == 'QUERY':
            cur = dict(tuples=[], rows=[])
            out[w[1]] = cur
        elif w[0] == 'PARSE':
            cur['parse'] = w[1]
        elif w[0] in ('FROM', 'SELECT', 'PREDS', 'COND', 'INFRAG', 'SPECSAME', 'LEX'):
            cur[w[0].lower()] = w[1] if len(w) > 1 else ''
        elif w[0] == 'SPECTUPLE':
            ents = []
            for e in w[1].split('|'):
                f, ln, sn = e.split(':')
                ents.append((hexs(f), int(ln), hexs(sn)))
            cur.setdefault('spectuples', []).append(tuple(ents))
        elif w[0] == 'TUPLE':
            ents = []
            for e in w[1].split('|'):
                f, ln, sn = e.split(':')
                ents.append((hexs(f), int(ln), hexs(sn)))
            cur['tuples'].append(tuple(ents))
        elif w[0] == 'ROW':
            cur['rows'].append(w[1].split('|') if len(w) > 1 else [])
    return out


def canon_json_value(v):
    if v is None:
        return 'N'
    if isinstance(v, bool):
        return 'B1' if v else 'B0'
    if isinstance(v, int):
        return 'I%d' % v
    if isinstance(v, str):
        return 'Sx' + v.encode('utf-8').hex()
    if isinstance(v, list):
        return 'L[' + ','.join(canon_json_value(x) for x in v) + ']'
    return '?'


def parse_impl_parsed(results_path):
    """PARSED lines of the harness output -> dict id -> dict"""
    out = {}
    for line in open(results_path):
        if line.startswith('PARSED '):
            w = line.rstrip('\n').split(' ')
            d = dict(parse=w[2])
            for kv in w[3:]:
                k, _, v = kv.partition('=')
                d[k] = v
            out[w[1]] = d
    return out


def compare_query(qid, qtext, impl, impl_parsed, model, k_from=None):
    """-> list of disagreement strings (empty when model and implementation agree on this query)"""
    dis = []
    oc, payload = impl
    ip = impl_parsed.get(qid, {})
    m = model.get(qid)
    if m is None:
        return ['model produced no output']
    # tokens (lexer model vs ANTLR lexer): "!" prefix = lexer error
    it = ip.get('toks')
    if it is not None:
        if it.startswith('!') != (m.get('lex') == '!'):
            dis.append('lexer error: impl toks=%s model lex=%s' % (it, m.get('lex')))
        elif not it.startswith('!') and it != m.get('lex', ''):
            dis.append('tokens: impl=%s model=%s' % (it, m.get('lex')))
    # accept / reject
    if ip.get('parse') in ('accept', 'reject') and ip.get('parse') != m['parse']:
        dis.append('accept/reject: impl=%s model=%s' % (ip.get('parse'), m['parse']))
        return dis
    if m['parse'] == 'reject':
        if oc != 'err':
            dis.append('model rejects, implementation outcome %s' % oc)
        return dis
    # structure (C11)
    for key, mk in (('from', 'from'), ('select', 'select'), ('preds', 'preds')):
        if ip.get(key, '') != m.get(mk, ''):
            dis.append('structure %s: impl=%s model=%s' % (key, ip.get(key), m.get(mk)))
    if ip.get('cond') != m.get('cond'):
        dis.append('expanded condition: impl=%s model=%s' % (ip.get('cond'), m.get('cond')))
    if oc != 'ok':
        dis.append('implementation outcome %s (%s) on an accepted query' % (oc, payload[:120]))
        return dis
    if m.get('infrag') != '1':
        return dis
    try:
        rs, rows = qrun.parse_result(payload)
    except Exception as e:
        return dis + ['implementation JSON unparsable: %s' % e]
    k = len(m['from'].split(','))
    if len(rs) % k != 0 or len(rows) * k != len(rs):
        return dis + ['result_set length %d / output length %d not aligned with %d FROM items' % (len(rs), len(rows), k)]
    itup = Counter()
    irows = {}
    for i in range(len(rows)):
        t = tuple(rs[k * i:k * i + k])
        itup[t] += 1
        irows.setdefault(t, []).append([canon_json_value(v) for v in rows[i]])
    mtup = Counter(m['tuples'])
    if itup != mtup:
        dis.append('results differ: only-impl=%s only-model=%s (sizes %d/%d)' % (list((itup - mtup).items())[:1], list((mtup - itup).items())[:1], sum(itup.values()), sum(mtup.values())))
        return dis
    for t, mrow in zip(m['tuples'], m['rows']):
        cands = irows.get(t, [])
        ok = any(len(c) == len(mrow) and all(mv == '?' or mv == cv for mv, cv in zip(mrow, c)) for c in cands)
        if not ok:
            dis.append('row differs for tuple %s: model=%s impl=%s' % (str(t)[:80], mrow, cands[:1]))
            break
    return dis
