"""Query-engine campaign: one generated project, many queries; the real processQuery (in the harness)
against the extracted Coq model (bin/model query) on the implementation's own graph dump."""
import json, os, random, re, subprocess
from collections import Counter
from common import *
import javagen, qrun, querygen, scan


def make_project(seed, nfiles, workdir, size=0.8):
    files = []
    for i in range(nfiles):
        text, _, _ = javagen.gen_unit(seed + 500, i, size=size)
        files.append(('src/p%d/F%d.java' % (i % 3, i), text.encode()))
    # twins: entities of one kind with the same name and the same text in different files (or lines) that differ in
    # another attribute (scope, visibility of the enclosing declaration, Javadoc, line) — what a cache or an index
    # keyed by name/text would confuse
    files.append(('src/twins/TwinA.java', b'/** @author ann */\nclass TwinA {\n  int count = 0;\n  String label = "he said \\"hi\\"";\n  void run() { helper(1); }\n}\n'))
    files.append(('src/twins/TwinB.java', b'class TwinB {\n  void other() {\n    int count = 0;\n    String label = "he said \\"hi\\"";\n    helper(1);\n  }\n  /** @author bob */\n  void run() { helper(1); }\n}\n'))
    # values with white-space runs, tabs and line breaks inside list-valued attributes (arguments wrapped over
    # lines, spaced generic types): what a formatter that "tidies" values would touch
    files.append(('src/twins/Wrapped.java', b'class Wrapped {\n  void w(java.util.Map<String,  Integer> m,\tint  n) throws  Exception {\n    helper(1 +\n        2,\t"a  b",  m.get(  "k"  ));\n    new Wrapped(n\n      + 1);\n  }\n}\n'))
    # near-miss values: the same text with one blank, two blanks and a tab; values ending in a backslash
    files.append(('src/twins/Spaces.java', b'class Spaces {\n  String two = "p  q";\n  String one = "p q";\n  String tab = "p\tq";\n  String bs = "C:\\\\docs\\\\";\n'
                  b'  /** @author John  Doe */\n  void alpha() { helper("a  b"); }\n  /** @author John Doe */\n  void beta() { helper("a b"); }\n}\n'))
    # lines that are long in BYTES but not in characters (and the reverse is impossible): CJK / Cyrillic literals and
    # comments of 60..150 characters, next to ASCII lines of 100..400 bytes -- what a width limit on printed code meets
    wide = 'class Wide {\n'
    for k, (ch, n) in enumerate([('漢', 60), ('字', 100), ('я', 150), ('ж', 85), ('😀', 45), ('é', 158), ('x', 159), ('x', 160), ('x', 161), ('y', 400)]):
        wide += '  String w%d = "%s"; // %s\n' % (k, ch * n, ch * (n // 2))
    wide += '  void wideBody() { helper("%s", "%s"); /* %s */ }\n}\n' % ('漢' * 70, 'я' * 120, 'ж' * 90)
    files.append(('src/twins/Wide.java', wide.encode('utf-8')))
    # many object creations with "x" as first argument, with another one, and with none at all (where `GetArg(0)` fails)
    news = 'class News {\n  void make() {\n' + ''.join('    Object a%d = new Box%d("x", %d);\n    Object b%d = new Box%d();\n    Object c%d = new Box%d(other, %d);\n' % (k, k, k, k, k, k, k, k) for k in range(14)) + '  }\n}\n'
    files.append(('src/twins/News.java', news.encode()))
    # Javadocs with several DISTINCT @param texts, a tag written before the params, params only, one param
    docs = ('class Docs {\n  /** first.\n   * @since 1.2\n   * @param alpha the alpha value\n   * @param beta the beta value\n   * @return sum\n   */\n  int add(int alpha, int beta) { return alpha; }\n'
            '  /** @param gamma only gamma */\n  void one(int gamma) { }\n'
            '  /** @param x ex\n   * @param y why\n   * @param z zed */\n  void three(int x, int y, int z) { }\n'
            '  /** @author ann\n   * @param solo single */\n  void authored(int solo) { }\n'
            '  /** @param p1 first p\n   *  @param p2 second p */\n  void setter(int p1, int p2) { }\n'
            '  /** @version 3\n   * @param q1 q one\n   * @param q2 q two\n   * @param q3 q three\n   * @param q4 q four */\n  void four(int q1, int q2, int q3, int q4) { }\n'
            # a tag name repeated with other tags in between; a single-valued tag written twice before another tag
            '  /** @param value v\n   * @return the clamped value\n   * @param limit the upper limit */\n  int clamp(int value, int limit) { return value; }\n'
            '  /** @param a first\n   * @throws Alpha when a\n   * @param b second\n   * @throws Beta when b */\n  void check(int a, int b) { }\n'
            '  /** @see Alpha\n   * @see Beta\n   * @author bob */\n  void seen() { }\n'
            '  /** @see Gamma\n   * @author bob */\n  void seenOnce() { }\n}\n')
    files.append(('src/twins/Docs.java', docs.encode()))
    proj = workdir + '/proj'
    qrun.write_project(proj, files)
    return proj, files


def dump_graph(proj, workdir):
    rc, out, err = run([B + '/harness', 'init-dump', proj, workdir + '/graph.txt'], timeout=900, env=dict(ENV, HOME=workdir))
    if rc != 0:
        raise RuntimeError('init-dump failed: ' + err.decode(errors='replace')[-300:])
    nodes = [scan.parse_kv(l.rstrip('\n')) for l in sorted(open(workdir + '/graph.txt')) if l.startswith('NODE ')]
    return nodes


def hexs(x):
    return bytes.fromhex(x[1:]).decode('utf-8', 'replace')


def hexlist(x):
    return [bytes.fromhex(t[1:]).decode('utf-8', 'replace') for t in re.findall(r'x[0-9a-f]*', x)]


ACC_FIELD = {'getName': 'name', 'getVisibility': 'mod', 'getReturnType': 'ret', 'getSuperClass': 'super',
             'getScope': 'scope', 'getVariableValue': 'value', 'getVariableDataType': 'dtype',
             'getAnnotation': 'annot', 'getArgumentType': 'argt', 'getArgumentName': 'argv',
             'getThrowsType': 'throws', 'getInterface': 'iface'}


def vocab_of(nodes):
    """kind -> accessor -> observed values (so that generated atoms are often true)"""
    v = {}
    for n in nodes:
        k = hexs(n['type'])
        d = v.setdefault(k, {})
        for acc, f in ACC_FIELD.items():
            val = hexlist(n[f]) if n[f].startswith('[') else hexs(n[f])
            if val not in ([], ''):
                d.setdefault(acc, [])
                if len(d[acc]) < 40:
                    d[acc].append(val)
        if n['bin'] != '~':
            t = hexlist(n['bin'])
            if len(t) == 3:
                d.setdefault('getLeftOperand', []).append(t[1])
                d.setdefault('getRightOperand', []).append(t[2])
    return v


def run_model(graph_file, queries, workdir):
    qf = workdir + '/mq.txt'
    with open(qf, 'w') as f:
        for qid, q in queries:
            f.write('%s x%s\n' % (qid, q.encode('utf-8').hex()))
    with open(qf, 'rb') as fin:
        p = subprocess.run([B + '/model', 'query', graph_file], stdin=fin, capture_output=True, timeout=3000)
    if p.returncode != 0:
        raise RuntimeError('model query failed: ' + p.stderr.decode(errors='replace')[-400:])
    out, cur = {}, None
    for line in p.stdout.decode().splitlines():
        w = line.split(' ', 1)
        if w[0] == 'QUERY':
            cur = dict(tuples=[], rows=[])
            out[w[1]] = cur
        elif w[0] == 'PARSE':
            cur['parse'] = w[1]
        elif w[0] in ('FROM', 'SELECT', 'PREDS', 'COND', 'INFRAG', 'SPECSAME', 'SPECDEF', 'LEX'):
            cur[w[0].lower()] = w[1] if len(w) > 1 else ''
        elif w[0] == 'SPECTUPLE':
            ents = []
            for e in w[1].split('|'):
                f, ln, sn = e.split(':')
                ents.append((hexs(f), int(ln), hexs(sn)))
            cur.setdefault('spectuples', []).append(tuple(ents))
        elif w[0] == 'TUPLE':
            ents = []
            for e in w[1].split('|'):
                f, ln, sn = e.split(':')
                ents.append((hexs(f), int(ln), hexs(sn)))
            cur['tuples'].append(tuple(ents))
        elif w[0] == 'ROW':
            cur['rows'].append(w[1].split('|') if len(w) > 1 else [])
    return out


def canon_json_value(v):
    if v is None:
        return 'N'
    if isinstance(v, bool):
        return 'B1' if v else 'B0'
    if isinstance(v, int):
        return 'I%d' % v
    if isinstance(v, str):
        return 'Sx' + v.encode('utf-8').hex()
    if isinstance(v, list):
        return 'L[' + ','.join(canon_json_value(x) for x in v) + ']'
    return '?'


def parse_impl_parsed(results_path):
    """PARSED lines of the harness output -> dict id -> dict"""
    out = {}
    for line in open(results_path):
        if line.startswith('PARSED '):
            w = line.rstrip('\n').split(' ')
            d = dict(parse=w[2])
            for kv in w[3:]:
                k, _, v = kv.partition('=')
                d[k] = v
            out[w[1]] = d
    return out


def compare_query(qid, qtext, impl, impl_parsed, model, k_from=None):
    """-> list of disagreement strings (empty when model and implementation agree on this query)"""
    dis = []
    oc, payload = impl
    ip = impl_parsed.get(qid, {})
    m = model.get(qid)
    if m is None:
        return ['model produced no output']
    # tokens (lexer model vs ANTLR lexer): "!" prefix = lexer error
    it = ip.get('toks')
    if it is not None:
        if it.startswith('!') != (m.get('lex') == '!'):
            dis.append('lexer error: impl toks=%s model lex=%s' % (it, m.get('lex')))
        elif not it.startswith('!') and it != m.get('lex', ''):
            dis.append('tokens: impl=%s model=%s' % (it, m.get('lex')))
    # accept / reject
    if ip.get('parse') in ('accept', 'reject') and ip.get('parse') != m['parse']:
        dis.append('accept/reject: impl=%s model=%s' % (ip.get('parse'), m['parse']))
        return dis
    if m['parse'] == 'reject':
        if oc != 'err':
            dis.append('model rejects, implementation outcome %s' % oc)
        return dis
    # structure (C11)
    for key, mk in (('from', 'from'), ('select', 'select'), ('preds', 'preds')):
        if ip.get(key, '') != m.get(mk, ''):
            dis.append('structure %s: impl=%s model=%s' % (key, ip.get(key), m.get(mk)))
    if ip.get('cond') != m.get('cond'):
        dis.append('expanded condition: impl=%s model=%s' % (ip.get('cond'), m.get('cond')))
    if oc != 'ok':
        dis.append('implementation outcome %s (%s) on an accepted query' % (oc, payload[:120]))
        return dis
    if m.get('infrag') != '1':
        return dis
    try:
        rs, rows = qrun.parse_result(payload)
    except Exception as e:
        return dis + ['implementation JSON unparsable: %s' % e]
    k = len(m['from'].split(','))
    if len(rs) % k != 0 or len(rows) * k != len(rs):
        return dis + ['result_set length %d / output length %d not aligned with %d FROM items' % (len(rs), len(rows), k)]
    itup = Counter()
    irows = {}
    for i in range(len(rows)):
        t = tuple(rs[k * i:k * i + k])
        itup[t] += 1
        irows.setdefault(t, []).append([canon_json_value(v) for v in rows[i]] if isinstance(rows[i], list) else ['<no row: %r>' % (rows[i],)])
    mtup = Counter(m['tuples'])
    if itup != mtup:
        dis.append('results differ: only-impl=%s only-model=%s (sizes %d/%d)' % (list((itup - mtup).items())[:1], list((mtup - itup).items())[:1], sum(itup.values()), sum(mtup.values())))
        return dis
    for t, mrow in zip(m['tuples'], m['rows']):
        cands = irows.get(t, [])
        ok = any(len(c) == len(mrow) and all(mv == '?' or mv == cv for mv, cv in zip(mrow, c)) for c in cands)
        if not ok:
            dis.append('row differs for tuple %s: model=%s impl=%s' % (str(t)[:80], mrow, cands[:1]))
            break
    return dis


def render_compare(graph_file, queries, res_json, res_text, model, workdir, k_of):
    """byte-exact comparison of cmd.processQuery's JSON document and text report with Engine/Render.v.
    queries: (qid, text); res_json/res_text: qid -> (outcome, payload); model: run_model output; k_of: qid -> #FROM items.
    -> (stats Counter, list of disagreement strings)"""
    from collections import Counter
    import json as _json
    stats, dis = Counter(), []
    items = []
    for qid, q in queries:
        m = model.get(qid) or {}
        oc, payload = res_json.get(qid, ('missing', ''))
        if oc != 'ok' or m.get('parse') != 'accept' or m.get('infrag') != '1':
            continue
        if '�' in payload:
            stats['render_skipped_invalid_utf8'] += 1
            continue
        try:
            d = _json.loads(payload)
        except Exception:
            continue
        rs = d.get('result_set') or []
        k = k_of(qid, m)
        if not k or len(rs) % k:
            continue
        keys = []
        for i in range(len(rs) // k):
            keys.append('|'.join('x%s:%d:x%s' % (e['file'].encode().hex(), e['line'], e['code'].encode().hex()) for e in rs[k * i:k * i + k]))
        items.append((qid, q, keys, payload))
    if not items:
        return stats, dis
    qf = workdir + '/render_in.txt'
    with open(qf, 'w') as f:
        for qid, q, keys, _ in items:
            f.write('%s x%s %s\n' % (qid, q.encode('utf-8').hex(), ','.join('x' + kk.encode().hex() for kk in keys) or '-'))
    with open(qf, 'rb') as fin:
        p = subprocess.run([B + '/model', 'render', graph_file], stdin=fin, capture_output=True, timeout=3000)
    if p.returncode != 0:
        return stats, ['model render failed: ' + p.stderr.decode(errors='replace')[-300:]]
    rj, blocks = {}, {}
    for line in p.stdout.decode().splitlines():
        w = line.split(' ')
        if w[0] == 'RENDER':
            rj[w[1]] = dict(kv.split('=', 1) for kv in w[2:] if '=' in kv) if len(w) > 2 and '=' in w[2] else {'status': w[2]}
        elif w[0] == 'RBLOCK':
            blocks.setdefault(w[1], []).append(w[2])
    for qid, q, keys, payload in items:
        r = rj.get(qid, {})
        if 'json' not in r:
            stats['render_order_unmatched'] += 1
            continue
        if r['json'] == '~':
            stats['render_out_of_fragment_values'] += 1
            continue
        stats['render_json_compared'] += 1
        mj = bytes.fromhex(r['json'][1:])
        if mj != payload.encode('utf-8'):
            a, b = mj.decode('utf-8', 'replace'), payload
            i = next((j for j in range(min(len(a), len(b))) if a[j] != b[j]), min(len(a), len(b)))
            dis.append('JSON document differs from Engine/Render.v at byte %d for query %r: model ...%r implementation ...%r' % (i, q[:200], a[max(0, i - 30):i + 40], b[max(0, i - 30):i + 40]))
        # text report: a concatenation of the model's per-combination blocks in some order
        oc, tpay = res_text.get(qid, ('missing', ''))
        if oc != 'ok' or '�' in tpay:
            continue
        bl = [bytes.fromhex(x[1:]) for x in blocks.get(qid, []) if x != '~']
        if len(bl) != len(blocks.get(qid, [])):
            continue
        rest = tpay.encode('utf-8')
        pool = sorted(bl, key=len, reverse=True)
        okt = True
        while rest and pool:
            hit = next((j for j, b_ in enumerate(pool) if b_ and rest.startswith(b_)), None)
            if hit is None:
                okt = False
                break
            rest = rest[len(pool[hit]):]
            pool.pop(hit)
        stats['render_text_compared'] += 1
        if not okt or rest or any(pool):
            want = pool[0].decode('utf-8', 'replace')[:160] if pool else ''
            dis.append('text report is not the concatenation of the blocks of Engine/Render.v for query %r: remaining implementation text %r; an unused model block starts %r' % (q[:200], rest[:160].decode('utf-8', 'replace'), want))
    return stats, dis


LISTING_TEMPLATE = ['/** doc', ' * two */', 'class K%d {', '  int f(int a) {', '    int x = a + 1;', '    helper(x,', '        2);', '    /* c1', '       c2 */',
                    '    return x;', '  }', '  String s = "v";', '}', '']


def listing_files():
    """one small class under every line-ending convention (and separators that are NOT line ends for the scanner)"""
    out = []
    T = LISTING_TEMPLATE
    convs = [('lf', lambda i: '\n'), ('crlf', lambda i: '\r\n'), ('mixed_cr', lambda i: '\r' if i % 3 == 1 else '\n'), ('mixed_crlf', lambda i: '\r\n' if i % 2 else '\n'),
             ('lfcr', lambda i: '\n\r'), ('cr_in_body', lambda i: '\r' if i in (4, 5, 9) else '\n'), ('nel', lambda i: '\u0085' if i in (4, 9) else '\n'),
             ('ls', lambda i: '\u2028' if i in (4, 9) else '\n'), ('ff', lambda i: '\x0c' if i in (4, 9) else '\n'), ('vt', lambda i: '\x0b\n' if i % 2 else '\n'),
             ('cr_only', lambda i: '\r'), ('cr_at_end', lambda i: '\r\n' if i < 12 else '\r')]
    for j, (name, sep) in enumerate(convs):
        text = ''.join((l % j if '%d' in l else l) + (sep(i) if i < len(T) - 1 else '') for i, l in enumerate(T))
        out.append(('listing/%s/K%d.java' % (name, j), text.encode('utf-8')))
    return out


_blk = re.compile(rb'\tFile: (.*?), Line: (\d+) \n\tResult: [^\n]*\n\n((?:\t\t[ \d]{4,} \| [^\n]*\n)*)\n')


def text_listing(files, workdir, tag='listing'):
    """C04 in text mode on the real report: every numbered line of every entity shown must be (part of) that line of
    the file on disk; and the report must be Engine/Render.v's, byte for byte.
    -> (stats, violations [dict(what, file, data, detail)], disagreements [str])"""
    stats, viol = Counter(), []
    work = '%s/%s' % (workdir, tag)
    proj = work + '/proj'
    qrun.write_project(proj, files)
    rc, out, err = run([B + '/harness', 'init-dump', proj, work + '/graph.txt'], timeout=600, env=dict(ENV, HOME=work))
    if rc != 0:
        return stats, [], ['init-dump failed on the listing project: ' + err.decode(errors='replace')[-200:]]
    tq = [('L_' + k, 'FROM %s AS x SELECT x.getName()' % k) for k in ('class_declaration', 'method_declaration', 'variable_declaration', 'method_invocation')]
    res, _ = qrun.run_queries(proj, tq, work + '/qj')
    rest, _ = qrun.run_queries(proj, tq, work + '/qt', mode='text')
    model = run_model(work + '/graph.txt', tq, work)
    rstats, dis = render_compare(work + '/graph.txt', tq, res, rest, model, work, lambda qid, m: len(m['from'].split(',')))
    stats.update({'listing_' + k: v for k, v in rstats.items()})
    ondisk = {}
    for rel, data in files:
        ondisk[os.path.join(proj, rel).encode('utf-8')] = data
    def check_report(raw, qtext, where):
        """-> (violation or None, disagreement or None)"""
        pos = 0
        for m in _blk.finditer(raw):
            if m.start() != pos:
                break
            pos = m.end()
            stats['listing_blocks'] += 1
            fpath, line0 = m.group(1), int(m.group(2))
            data = ondisk.get(fpath)
            if data is None:
                return dict(what='the text report names a file that was not scanned', file=fpath.decode('utf-8', 'replace'), data=b'', detail=where), None
            flines = data.split(b'\n')
            shown = [l for l in m.group(3).split(b'\n') if l]
            for i, l in enumerate(shown):
                num, _, txt = l[2:].partition(b' | ')
                stats['listing_lines'] += 1
                n = int(num.strip() or b'0')
                okn = n == line0 + i
                inner = 0 < i < len(shown) - 1
                fl = flines[n - 1] if 0 < n <= len(flines) else None
                okt = fl is not None and ((txt == fl) if inner else (txt in fl))
                if not (okn and okt):
                    return dict(what='text mode: the text printed next to a line number is not that line of the file', file=fpath.decode('utf-8', 'replace'), data=data,
                                detail='%s; query %s; entity at line %d; shown line %d is numbered %d with text %r; line %d of the file is %r' % (where, qtext, line0, i, n, txt[:80], n, (fl or b'')[:80])), None
        if pos != len(raw):
            return None, 'text report (%s) of %r is not a sequence of location blocks from byte %d: %r' % (where, qtext, pos, raw[pos:pos + 120])
        return None, None

    for qid, _ in tq:
        oc, payload = rest.get(qid, ('missing', ''))
        if oc != 'ok':
            dis.append('text-mode query %s did not answer: %s %s' % (qid, oc, payload[:100]))
            continue
        v, d = check_report(payload.encode('utf-8'), dict(tq)[qid], 'processQuery')
        if v:
            viol.append(v)
        if d:
            dis.append(d)
    # the real command under GitHub Actions variables: a workspace that is the project's parent, one that is only a
    # STRING prefix of the project path (/w/app vs /w/app-android), an unrelated one -- the file named in each block
    # is still a scanned file
    q0 = tq[1][1]
    for wsname, ws in (('parent directory', os.path.dirname(proj)), ('string prefix of the project path', proj[:-2]), ('unrelated', work + '/elsewhere'), ('project itself', proj)):
        e_ = dict(ENV, HOME=work, GITHUB_ACTIONS='true', GITHUB_WORKSPACE=ws)
        rc, o, e = run([B + '/pathfinder', 'query', '--disable-metrics', '--project', proj, '--query', q0], timeout=300, env=e_)
        stats['listing_workspace_runs'] += 1
        txt = re.sub(rb'\x1b\[[0-9;]*m', b'', o)
        j = txt.rfind(b'Executing query: ')
        body = txt[txt.find(b'\n', j) + 1:] if j >= 0 else txt
        k0 = body.find(b'\tFile: ')
        body = body[k0:] if k0 >= 0 else b''
        v, d = check_report(body.rstrip(b'\n') + b'\n\n' if body else b'', q0, 'GITHUB_ACTIONS=true, GITHUB_WORKSPACE = %s' % wsname)
        if v:
            viol.append(v)
            break
    # the report FILE of the real command, written several times to the same path (longest report first): what the
    # file shows after each run must be that run's report and nothing else
    outf = work + '/report.txt'
    order = sorted(tq, key=lambda x: -len(rest.get(x[0], ('', ''))[1]))
    for k, (qid, q) in enumerate(order + order[:1]):
        rc, o, e = run([B + '/pathfinder', 'query', '--disable-metrics', '--project', proj, '--query', q, '--output-file', outf], timeout=300, env=dict(ENV, HOME=work))
        stats['listing_report_files'] += 1
        if rc != 0 or not os.path.exists(outf):
            dis.append('pathfinder query --output-file failed (rc=%d): %s' % (rc, e.decode(errors='replace')[-200:]))
            break
        raw = re.sub(rb'\x1b\[[0-9;]*m', b'', open(outf, 'rb').read())
        v, d = check_report(raw, q, 'report file written by run %d to the same path' % (k + 1))
        if v or d:
            # a tail left over from the longer report of an earlier run shows lines that are not this run's
            viol.append(v or dict(what='text mode: the report file holds more than the report of this run (text left from an earlier run)', file=outf, data=b'', detail=d))
            break
    return stats, viol, dis
