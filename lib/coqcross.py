"""In-Coq cross-check of the extraction step: a sample of the inputs the OCaml model ran on is evaluated
inside Coq with vm_compute and must give the same outputs (covers extraction + the OCaml driver glue)."""
import os
from common import *


def blist(b):
    return '[' + '; '.join('x%02x' % c for c in b) + ']'


def cross_check_conditions(pairs, workdir):
    """pairs: list of (query bytes, expanded condition bytes as printed by the extracted model).
    -> (ok: bool, detail)"""
    src = ['From CPF Require Import Base.Bytes Lang.Lexer Lang.Ast Lang.Parser Engine.Query.',
           'Definition cases : list (bytes * bytes) :=', '  [' + ';\n   '.join('(%s, %s)' % (blist(q), blist(c)) for q, c in pairs) + '].',
           'Definition ok : bool := forallb (fun qc => match parse_query (fst qc) with',
           '   | Some aq => bytes_eqb (expanded_condition (flatten_query aq)) (snd qc) | None => false end) cases.',
           'Eval vm_compute in ok.']
    path = os.path.join(workdir, 'cases.v')
    open(path, 'w').write('\n'.join(src) + '\n')
    rc, out, err = run(['coqc', '-q', '-Q', COQ + '/theories', 'CPF', '-Q', COQ + '/gen', 'CPF.gen', path], timeout=1500, cwd=workdir)
    text = out.decode(errors='replace')
    return (rc == 0 and '= true' in text), (text + err.decode(errors='replace'))[-400:]
