#!/usr/bin/env python3
"""Regenerates /verif/MANIFEST.json from the table below (single source of truth for what is claimed)."""
import json, sys

CLAIMED = {
    'C03': dict(technique='Coq proof (census = per-node kinds, graph = census merged by identity) + model/implementation correspondence on CSTs + independent parse-tree census',
                text='Theorem C03_census (Coq, no axioms): for any path, bytes and tree the builder model creates exactly the entities the CST node types stand for, each derived from its node, and the graph holds each once when identities are distinct; C03_census_refuted exhibits the within-file identity collision (known finding D19). The model is compared field by field with the real builder on every generated/mutated/real file, and an independent census of the tree-sitter CST is compared with the real entities.',
                note='tree-sitter enters as the CST value (cst_wfb checked on every tree); SHA-256 collision freedom; file discovery (getFiles) compared on generated directory trees only',
                ref='DESIGN.md §5 C03'),
    'C04': dict(technique='Coq proof (location theorem over any bytes and any well-formed tree) + correspondence + direct re-read oracle',
                text='Theorems C04_location and C04_lines (Coq, no axioms) hold for arbitrary byte strings and arbitrary well-formed trees: file = scanned path, snippet = file text starting on the reported line, inner snippet lines are whole file lines. The builder model is tied to graph/construct.go by comparing every Node field on every CST; the oracle re-reads the bytes for every entity of every kind.',
                note='cst_wfb (row = number of newlines before start byte, ranges nested and in bounds) is the checked assumption about tree-sitter; uint32 line arithmetic assumed not to wrap',
                ref='DESIGN.md §5 C04'),
    'C09': dict(technique='Coq proof (totality under shape_okb, quadratic work bound) + correspondence on malformed inputs + scaling measurement',
                text='Theorems C09_total (any path/bytes/tree satisfying the listed child-existence facts yields a graph: these are the only abort sites of the builder model), C09_location and C09_quadratic (visits + bytes copied + the single matching pass <= 8(|tree|+|file|)^2). Mutated and raw-byte inputs are run through the real builder (panic = violation) and the model (Panic outcomes must coincide); CPU time on the k-methods x c-calls family at n, 3n, 9n is measured.',
                note='partial: tree-sitter C parser (memory safety, its own running time) and Go runtime stack depth are outside the model; the work count is a hand-abstracted cost model tied to the code only by the timing runs',
                ref='DESIGN.md §5 C09'),
    'C19': dict(technique='Coq proof by computation over tables the translator regenerates from the Go sources each run + exhaustive per-kind queries',
                text='Theorem C19_vocab: every kind in the scanner table (Type literals of visitAST) has a case in generateProxyEnv binding a distinct variable whose env entry offers toString and a further accessor. Tables are re-extracted from /repo on every run, so the finite statement is re-proved against the current source; every kind observed on a kitchen-sink family is queried through the real engine.',
                note='translator (go/ast shape matching) trusted; expr-lang trusted to evaluate alias.accessor()',
                ref='DESIGN.md §5 C19'),
}
PENDING = {
    'C01': 'work in progress: query-engine model (Spec/Impl) not built yet',
    'C02': 'work in progress: query-engine model not built yet',
    'C05': 'work in progress: declaration decoder theorems not built yet',
    'C06': 'work in progress: expression/statement decoder theorems not built yet',
    'C07': 'work in progress: merge/pool model not integrated yet',
    'C08': 'work in progress: file-system/merge model not built yet',
    'C10': 'work in progress', 'C11': 'work in progress', 'C12': 'work in progress', 'C13': 'work in progress',
    'C14': 'work in progress', 'C15': 'work in progress', 'C16': 'work in progress', 'C17': 'work in progress',
    'C18': 'work in progress', 'C20': 'work in progress',
}

def main():
    checks = []
    for pid in sorted(CLAIMED):
        c = CLAIMED[pid]
        checks.append(dict(property_id=pid, quick_cmd='bin/check %s --tier quick' % pid,
                           thorough_cmd='bin/check %s --tier thorough' % pid,
                           evidence_file='/verif/evidence/%s.json' % pid,
                           replay_cmd_template='bin/check %s --replay {path}' % pid,
                           engine='coq-model', technique=c['technique'],
                           level_claimed=dict(category='proof', text=c['text'], design_ref=c['ref']),
                           level_note=c['note']))
    m = dict(version=1,
             setup_cmd='bin/setup',
             hooks=dict(guard='verif (Go build tag)', enable='go build -tags verif (harness links /repo/sourcecode-parser with its verif_export.go files)',
                        baseline_off_cmd='bin/repo-tests', add_only=True,
                        source_commits=open('/verif/hooks_commits.txt').read().split() if __import__('os').path.exists('/verif/hooks_commits.txt') else []),
             engines=[dict(name='coq-model', path='/verif/coq', serves_properties=sorted(CLAIMED),
                           kind_free_text='Coq 8.16 development (hand-written Gallina model + theorems), tables regenerated by translator/, extracted to OCaml and compared with the Go implementation by harness/ + lib/')],
             checks=checks,
             notes='Every check: bin/build (translator -> Tables.v, make full .vo, extraction, harness/CLI with -tags verif) then the property campaign; see DESIGN.md.',
             not_applicable=[dict(property_id=p, reason=PENDING[p]) for p in sorted(PENDING) if p not in CLAIMED])
    json.dump(m, open('/verif/MANIFEST.json', 'w'), indent=1)

if __name__ == '__main__':
    main()
