#!/usr/bin/env python3
"""Regenerates /verif/MANIFEST.json from the table below (single source of truth for what is claimed)."""
import json, sys

CLAIMED = {
    'C03': dict(technique='Coq proof (census = per-node kinds, graph = census merged by identity) + model/implementation correspondence on CSTs + independent parse-tree census',
                text='Theorem C03_census (Coq, no axioms): for any path, bytes and tree the builder model creates exactly the entities the CST node types stand for, each derived from its node, and the graph holds each once when identities are distinct; C03_census_refuted exhibits the within-file identity collision (known finding D19). The model is compared field by field with the real builder on every generated/mutated/real file, and an independent census of the tree-sitter CST is compared with the real entities.',
                note='tree-sitter enters as the CST value (cst_wfb checked on every tree); SHA-256 collision freedom; file discovery (getFiles) compared on generated directory trees only',
                ref='DESIGN.md §5 C03'),
    'C04': dict(technique='Coq proof (location theorem over any bytes and any well-formed tree) + correspondence + direct re-read oracle',
                text='Theorems C04_location and C04_lines (Coq, no axioms) hold for arbitrary byte strings and arbitrary well-formed trees: file = scanned path, snippet = file text starting on the reported line, inner snippet lines are whole file lines. The builder model is tied to graph/construct.go by comparing every Node field on every CST; the oracle re-reads the bytes for every entity of every kind.',
                note='cst_wfb (row = number of newlines before start byte, ranges nested and in bounds) is the checked assumption about tree-sitter; uint32 line arithmetic assumed not to wrap',
                ref='DESIGN.md §5 C04'),
    'C09': dict(technique='Coq proof (totality under shape_okb, quadratic work bound) + correspondence on malformed inputs + scaling measurement',
                text='Theorems C09_total (any path/bytes/tree satisfying the listed child-existence facts yields a graph: these are the only abort sites of the builder model), C09_location and C09_quadratic (visits + bytes copied + the single matching pass <= 8(|tree|+|file|)^2). Mutated and raw-byte inputs are run through the real builder (panic = violation) and the model (Panic outcomes must coincide); CPU time on the k-methods x c-calls family at n, 3n, 9n is measured.',
                note='partial: tree-sitter C parser (memory safety, its own running time) and Go runtime stack depth are outside the model; the work count is a hand-abstracted cost model tied to the code only by the timing runs',
                ref='DESIGN.md §5 C09'),
    'C01': dict(technique='Coq refinement proof (predicate expansion by substitution implements call-by-binding; results = spec results) + model/implementation correspondence + bounded-exhaustive formula shapes',
                text='Theorems C01_accepts_what_spec_accepts / C01_complete (Coq, no axioms): for every well-formed query (any connective depth, any number of predicates, any graph) the implementation model accepts exactly the combinations the specification semantics makes true, and candidates are the full cross product, so nothing matching is dropped. The model (Engine/Query.v) is tied to cmd.processQuery by comparing tokens, accept/reject, recovered structure, the expanded condition text byte for byte, result multisets and rows on every generated query; the direct oracle checks the implementation against the extracted specification on exhaustive formula shapes over a truth-complete project.',
                note='expr-lang (parser + evaluator) and the ANTLR recogniser are modelled, not verified (assumption stated in Engine/Eval.v, tested on every evaluated query); fragment: string/int/bool/list accessors, == != < > <= >= in, && || !, predicate calls with alias arguments',
                ref='DESIGN.md §5 C01'),
    'C02': dict(technique='Coq proof (soundness, NoDup, cross-product count over the implementation model; equality with the specification) + correspondence + oracle',
                text='Theorems C02_sound, C02_sound_spec, C02_nodup, C02_cross_product: reported combinations are entities of the graph, of the FROM kinds in FROM order, satisfying the condition; each once; without WHERE exactly the n-ary cross product (count formula). Same tie and oracle as C01 (implementation results must be a sub-multiset of the extracted specification results).',
                note='as C01; result order is unspecified (Go map iteration): comparisons are multisets',
                ref='DESIGN.md §5 C02'),
    'C07': dict(technique='Coq proofs (merge order-independence; worker-pool LTS: invariant, deadlock freedom, variant, delivery, exact merge orders) + forced arrival orders through verif hooks + extracted collect',
                text='C07_order_independent (any permutation of per-file graphs with distinct identities merges to the same entities and links), C07_no_deadlock / C07_terminates / C07_delivers over a transition system of Initialize for any number of files, workers and unreadable files. All arrival orders for <= 4 files and sampled reachable orders beyond are forced through the hooks, with jitter and GOMAXPROCS 1/2/4/16; dumps must coincide and equal the extracted collect and the union of per-file builder results; the hypothesis keys_distinct is evaluated on every project.',
                note='partial: Go scheduler/channels/memory model are modelled by Scan/Pool.v (hand-abstracted), tied by runs only; race detector runs only in the thorough tier',
                ref='DESIGN.md §5 C07, App. C'),
    'C08': dict(technique='Coq proofs (collect isolation, file discovery = .java files under readable directories) + real project variants incl. permission faults as non-root',
                text='C08_isolation (in the merged graph a file contributes exactly its own per-file graph whatever the siblings), C08_discovery, C08_unreadable_dir_hides_only_itself. Pairs (file, context) with copies, shared fragments, malformed/binary files, unreadable file/directory (scan as uid 65534), dangling symlinks and extension decoys are scanned for real and the entities of the file compared.',
                note='partial: kernel permission semantics and symlink resolution exercised, not modelled',
                ref='DESIGN.md §5 C08'),
    'C10': dict(technique='Coq model total by construction (Answer | SyntaxError) + console chunking theorem + outcome-class correspondence on mutated/random strings',
                text='process_query is a total function into {Answer, SyntaxError}: the repaired code has no abort site left in the modelled path; C10_console: the console transcript depends only on the bytes, not their chunking. Grammar-derived sentences, token mutations, unusual-but-valid queries and random strings are run against an empty and a non-empty project: any panic or process exit is a violation, and the model\'s accept/reject must agree.',
                note='partial: panics inside ANTLR/expr-lang/cobra are outside the model; the theorem is about the model, the correspondence carries the claim to the binary',
                ref='DESIGN.md §5 C10'),
    'C11': dict(technique='Coq proofs (parser = inverse of printer, both directions; lexer round trip) + three-way differential (ANTLR / Coq parser / Earley over Query.g4)',
                text='C11_accept_iff (accepted token sequences are exactly prints of grammar-shaped ASTs, returning that AST), C11_structure, C11_accepted_is_sentence, C11_unambiguous. ANTLR tokens vs the lexer model, ANTLR accept/reject vs the proved parser vs lark Earley on ANTLR\'s own tokens, on exhaustive short token strings, single-token edits and generated sentences; recovered FROM/SELECT/predicate structure compared.',
                note='that ANTLR ALL(*) accepts L(Query.g4) is assumed and sampled; the Ast printer mirrors Query.g4 by construction (checked against Earley)',
                ref='DESIGN.md §5 C11'),
    'C12': dict(technique='Coq proofs over the specification semantics (and/or/not/paren, equivalence, De Morgan, double negation; totality witness) + metamorphic runs on the real engine',
                text='C12_and (unconditional), C12_or / C12_not (under totality of A), C12_paren, C12_equiv, C12_de_morgan, C12_double_negation, with spec_or_needs_total showing why totality is needed. Eleven set-algebra laws are checked on the real engine for formulas over total atoms, including atoms outside the reference fragment.',
                note='as C01; chained/mixed comparisons without parentheses regroup differently in expr-lang (D36) and are outside the fragment',
                ref='DESIGN.md §5 C12'),
    'C13': dict(technique='Coq substitution theorem (inline_seval) + emit/inline agreement + variant runs (inline, rename alias, rename formals, unused declaration, reorder)',
                text='C13_inline: evaluating the expanded condition equals evaluating the call with formals bound to the argument entities, for arbitrary identifiers; C13_expansion_text: the emitted text is the print of the expanded AST. Query variants with colliding identifier substrings are run on the real engine and must give identical result multisets.',
                note='as C01',
                ref='DESIGN.md §5 C13'),
    'C14': dict(technique='Coq proofs (lex_render, layout irrelevance of the whole pipeline) + re-layout runs',
                text='C14_lex, C14_layout, C14_stays_valid: any two separable layouts of the same tokens are both accepted with identical results and rows. Every generated query is rendered plain, tight and with random spaces/tabs/CR/LF at every token boundary and run on the real engine.',
                note='separable is a sufficient condition for tokens to stay apart; the lexer model is compared with ANTLR token by token',
                ref='DESIGN.md §5 C14'),
    'C15': dict(technique='Coq proofs (row alignment, literal items, Go JSON encoder round trip) + row oracle from the graph dump + CLI output modes',
                text='C15_rows_aligned, C15_literal, C15_json_wellformed / _indent (decode(encode v) = v for arbitrary valid UTF-8). Rows of the real engine are recomputed from the graph dump per tuple; the real CLI is run in text/json x output-file x verbose and the location multisets compared.',
                note='Go encoding/json is modelled (Base/Json.v, compared byte for byte with Go on 22k strings by the proof author); invalid UTF-8 snippets are replaced by U+FFFD in JSON',
                ref='DESIGN.md §5 C15'),
    'C16': dict(technique='state-free Coq model (history theorems by construction) + console chunking theorem + history correspondence with graph dump before/after',
                text='C16_graph_unchanged, C16_history, C16_console_chunking. Histories mixing valid, invalid and getDoc-evaluating queries run on one loaded graph; each answer must equal the stand-alone answer and the graph dump must be unchanged; the console is fed in one write and byte by byte.',
                note='the history theorems hold by construction of the model; state-freeness of the implementation is what the correspondence tests',
                ref='DESIGN.md §5 C16'),

    'C19': dict(technique='Coq proof by computation over tables the translator regenerates from the Go sources each run + exhaustive per-kind queries',
                text='Theorem C19_vocab: every kind in the scanner table (Type literals of visitAST) has a case in generateProxyEnv binding a distinct variable whose env entry offers toString and a further accessor. Tables are re-extracted from /repo on every run, so the finite statement is re-proved against the current source; every kind observed on a kitchen-sink family is queried through the real engine.',
                note='translator (go/ast shape matching) trusted; expr-lang trusted to evaluate alias.accessor()',
                ref='DESIGN.md §5 C19'),
}
PENDING = {
    'C01': 'work in progress: query-engine model (Spec/Impl) not built yet',
    'C02': 'work in progress: query-engine model not built yet',
    'C05': 'work in progress: declaration decoder theorems not built yet',
    'C06': 'work in progress: expression/statement decoder theorems not built yet',
    'C07': 'work in progress: merge/pool model not integrated yet',
    'C08': 'work in progress: file-system/merge model not built yet',
    'C10': 'work in progress', 'C11': 'work in progress', 'C12': 'work in progress', 'C13': 'work in progress',
    'C14': 'work in progress', 'C15': 'work in progress', 'C16': 'work in progress', 'C17': 'work in progress',
    'C18': 'work in progress', 'C20': 'work in progress',
}

def main():
    checks = []
    for pid in sorted(CLAIMED):
        c = CLAIMED[pid]
        checks.append(dict(property_id=pid, quick_cmd='bin/check %s --tier quick' % pid,
                           thorough_cmd='bin/check %s --tier thorough' % pid,
                           evidence_file='/verif/evidence/%s.json' % pid,
                           replay_cmd_template='bin/check %s --replay {path}' % pid,
                           engine='coq-model', technique=c['technique'],
                           level_claimed=dict(category='proof', text=c['text'], design_ref=c['ref']),
                           level_note=c['note']))
    m = dict(version=1,
             setup_cmd='bin/setup',
             hooks=dict(guard='verif (Go build tag)', enable='go build -tags verif (harness links /repo/sourcecode-parser with its verif_export.go files)',
                        baseline_off_cmd='bin/repo-tests', add_only=True,
                        source_commits=open('/verif/hooks_commits.txt').read().split() if __import__('os').path.exists('/verif/hooks_commits.txt') else []),
             engines=[dict(name='coq-model', path='/verif/coq', serves_properties=sorted(CLAIMED),
                           kind_free_text='Coq 8.16 development (hand-written Gallina model + theorems), tables regenerated by translator/, extracted to OCaml and compared with the Go implementation by harness/ + lib/')],
             checks=checks,
             notes='Every check: bin/build (translator -> Tables.v, make full .vo, extraction, harness/CLI with -tags verif) then the property campaign; see DESIGN.md.',
             not_applicable=[dict(property_id=p, reason=PENDING[p]) for p in sorted(PENDING) if p not in CLAIMED])
    json.dump(m, open('/verif/MANIFEST.json', 'w'), indent=1)

if __name__ == '__main__':
    main()
