"""Runs batches of queries against one loaded project inside the harness (real cmd.processQuery),
restarting the child after a process exit (log.Fatal / os.Exit / runtime crash), which is recorded
as outcome 'exit'."""
import json, os
from common import *


def write_project(root, files):
    """files: list of (relative path, bytes)"""
    for rel, data in files:
        p = os.path.join(root, rel)
        os.makedirs(os.path.dirname(p), exist_ok=True)
        with open(p, 'wb') as f:
            f.write(data)


def run_queries(project, queries, workdir, mode='json', timeout=600, env_extra=None):
    """queries: list of (id, query string).  -> (dict id -> (outcome, payload str), graph lines or None)
    outcome in ok / err / panic / exit / timeout"""
    os.makedirs(workdir, exist_ok=True)
    qf, of = workdir + '/queries.txt', workdir + '/qout.txt'
    with open(qf, 'w') as f:
        for qid, q in queries:
            f.write('%s %s\n' % (qid, q.encode('utf-8').hex()))
    if os.path.exists(of):
        os.remove(of)
    env = dict(ENV, HOME=workdir, **(env_extra or {}))
    # the limit is for the whole batch (one child evaluates all queries): it grows with the batch, so that a loaded
    # machine does not turn a long batch into a `timeout` verdict for whichever query happens to be running
    timeout = max(timeout, 900, 2 * len(queries))
    start, results, graph = 0, {}, None
    ids = [qid for qid, _ in queries]
    guard = 0
    while start < len(queries) and guard < len(queries) + 2:
        guard += 1
        rc, out, err = run([B + '/harness', 'queries', project or '-', qf, of, mode, str(start)], timeout=timeout, env=env)
        begun, done = None, False
        results_now = {}
        if os.path.exists(of):
            for line in open(of):
                w = line.rstrip('\n').split(' ')
                if w[0] == 'BEGIN':
                    begun = w[1]
                elif w[0] == 'RESULT':
                    results_now[w[1]] = (w[2], bytes.fromhex(w[3][1:]).decode('utf-8', 'replace'))
                elif w[0] == 'GRAPH':
                    graph = (graph or []) + [line[6:].rstrip('\n')]
                elif w[0] == 'DONE':
                    done = True
        results.update(results_now)
        if done:
            break
        # the child died while evaluating `begun`
        if begun is None or begun in results:
            break
        results[begun] = ('timeout' if rc == 124 else 'exit', 'rc=%d %s' % (rc, err.decode(errors='replace')[-300:]))
        start = ids.index(begun) + 1
        graph = None
    return results, graph


def parse_result(payload):
    """JSON result of processQuery -> (sorted result_set as list of (file, line, code) tuples in order, output rows)"""
    d = json.loads(payload)
    rs = [(r.get('file'), r.get('line'), r.get('code')) for r in d.get('result_set') or []]
    return rs, d.get('output')
