"""Shared machinery of the checks: build, proof obligations, evidence, reporting."""
import hashlib, json, os, random, re, shutil, subprocess, sys, tempfile, time

V = os.path.dirname(os.path.dirname(os.path.realpath(__file__)))
B = V + '/.build'
REPO = os.environ.get('VERIF_REPO', '/repo')
COQ = V + '/coq'
ENV = dict(os.environ, GOPROXY='off', GOSUMDB='off', GOTOOLCHAIN='local', CARGO_NET_OFFLINE='true',
           PIP_NO_INDEX='1', HOME=os.environ.get('HOME', '/root'))

TRUSTED_COMMON = [
    'Coq 8.16.1 kernel (coqc full .vo build; vm_compute used for finite/witness lemmas; no native_compute)',
    'no axioms declared by the development; Print Assumptions output recorded per theorem',
    'extraction: ExtrOcamlBasic only (Extract Inductive bool/option/unit/list/prod/sumbool/sumor); N, Z, nat, byte stay extracted datatypes; no Extract Constant; hand-written ocaml/conv.ml + ocaml/driver.ml and ocamlopt trusted',
    'translator/main.go (go/ast shapes it recognises) regenerates coq/gen/Tables.v from /repo on every run',
    'harness (Go, linked against /repo with -tags verif) and lib/*.py comparers/oracles; SHA-256 of identity pre-images computed in Python',
]


def run(cmd, timeout=600, cwd=None, env=None, stdin=None):
    """run a command; returns (rc, stdout, stderr); rc=124 on timeout"""
    try:
        p = subprocess.run(cmd, cwd=cwd, env=env or ENV, input=stdin, capture_output=True, timeout=timeout)
        return p.returncode, p.stdout, p.stderr
    except subprocess.TimeoutExpired as e:
        return 124, e.stdout or b'', e.stderr or b''


# The environment a command runs in is part of "every input": each overlay is (name, environment variables, limit on
# open files or None).  The commands must behave as in the default environment under every one of them.
ENV_MATRIX = [('NO_COLOR', dict(NO_COLOR='1'), None), ('TERM=dumb', dict(TERM='dumb', CLICOLOR='0'), None), ('FORCE_COLOR', dict(CLICOLOR_FORCE='1', FORCE_COLOR='1'), None),
              ('GOMAXPROCS=1', dict(GOMAXPROCS='1'), None), ('GOMAXPROCS=2', dict(GOMAXPROCS='2'), None), ('GOMAXPROCS=64', dict(GOMAXPROCS='64'), None),
              ('C locale', dict(LANG='C', LC_ALL='C'), None), ('tr_TR locale', dict(LANG='tr_TR.UTF-8', LC_ALL='tr_TR.UTF-8'), None),
              ('no HOME, no TMPDIR', dict(HOME='/nonexistent', TMPDIR='/nonexistent', XDG_CONFIG_HOME='/nonexistent'), None),
              ('64 open files', {}, 64), ('CI variables', dict(CI='true', GITHUB_ACTIONS='true', GITHUB_WORKSPACE='/nonexistent-workspace'), None),
              ('verbose debug variables', dict(DEBUG='1', VERBOSE='1', GODEBUG='gctrace=0'), None)]


def discovered_env_vars():
    """the environment variables the repository's own (non-test) Go sources read with os.Getenv / os.LookupEnv, found
    by reading the sources of the CURRENT tree: a variable introduced by a change is tried at once"""
    import glob as _glob
    names = []
    repo = os.environ.get('VERIF_REPO', '/repo')
    for f in sorted(_glob.glob(repo + '/sourcecode-parser/**/*.go', recursive=True) + _glob.glob(repo + '/pathfinder-rules/gen-script/*.go')):
        if f.endswith('_test.go') or os.path.basename(f).startswith('verif_'):
            continue
        try:
            src = open(f, encoding='utf-8', errors='replace').read()
        except OSError:
            continue
        for m in re.finditer(r'os\.(?:Getenv|LookupEnv)\(\s*"([^"]+)"', src):
            if m.group(1) not in names:
                names.append(m.group(1))
    return names


for _v in discovered_env_vars():
    if _v in ('HOME', 'GITHUB_ACTIONS', 'GITHUB_WORKSPACE'):
        continue                       # varied by the entries above
    for _val in ('1', '1ns', '10ms', '/nonexistent'):
        ENV_MATRIX.append(('%s=%s (a variable the sources read)' % (_v, _val), {_v: _val}, None))


def run_env(cmd, overlay, timeout=600, cwd=None, base=None):
    """run under one entry of ENV_MATRIX -> (rc, stdout, stderr)"""
    name, env_, nofile = overlay
    e = dict(base or ENV)
    e.update(env_)
    pre = None
    if nofile:
        import resource
        pre = lambda: resource.setrlimit(resource.RLIMIT_NOFILE, (nofile, nofile))
    try:
        p = subprocess.run(cmd, cwd=cwd, env=e, capture_output=True, timeout=timeout, preexec_fn=pre)
        return p.returncode, p.stdout, p.stderr
    except subprocess.TimeoutExpired as ex:
        return 124, ex.stdout or b'', ex.stderr or b''


def build():
    """bin/build (flock'd, incremental) -> status dict name -> rc"""
    if os.environ.get('VERIF_SKIP_BUILD') == '1' and os.path.exists(B + '/build.status'):   # development only
        rc, out, err = 0, open(B + '/build.status', 'rb').read(), b''
    else:
        rc, out, err = run([V + '/bin/build'], timeout=3600)
    st = {}
    for l in out.decode().splitlines():
        if '=' in l:
            k, v = l.split('=', 1)
            try:
                st[k] = int(v)
            except ValueError:
                pass
    for k in ('translator', 'coq', 'ocaml', 'harness', 'cli'):
        st.setdefault(k, 1)
    return st


_thm = re.compile(r'^\s*(Theorem|Corollary)\s+([A-Za-z0-9_\']+)', re.M)
_forbidden = re.compile(r'\b(Admitted|admit|Axiom|Parameter|Conjecture|Hypothesis|Variable)\b|Unset\s+Guard|bypass_check|type-in-type|impredicative-set')


def source_gate():
    """grep gate over the whole development: no admits/axioms/flags. Returns list of offending lines."""
    bad = []
    for root, _, files in os.walk(COQ):
        for f in files:
            if not f.endswith('.v'):
                continue
            p = os.path.join(root, f)
            txt = open(p, encoding='utf-8', errors='replace').read()
            # strip comments (non-nested good enough: nested comments are rare here)
            depth, out, i = 0, [], 0
            while i < len(txt):
                if txt.startswith('(*', i):
                    depth += 1; i += 2
                elif txt.startswith('*)', i) and depth > 0:
                    depth -= 1; i += 2
                else:
                    if depth == 0:
                        out.append(txt[i])
                    i += 1
            code = ''.join(out)
            in_section = 0
            for ln in code.splitlines():
                s = ln.strip()
                if re.match(r'Section\b', s):
                    in_section += 1
                elif re.match(r'End\b', s) and in_section > 0:
                    in_section -= 1
                m = _forbidden.search(ln)
                if m:
                    w = m.group(0)
                    if w in ('Hypothesis', 'Variable') and in_section > 0:
                        continue
                    bad.append('%s: %s' % (os.path.relpath(p, V), s[:120]))
    return bad


def check_obligations(files):
    """Re-checks each theorem-only Properties file with coqc (its dependencies were built by make).
    Returns dict: obligations(list of names), discharged(list), failed(list of (file, msg)), assumptions(dict name->text)"""
    obligations, discharged, failed, assumptions = [], [], [], {}
    for rel in files:
        path = os.path.join(COQ, 'theories', rel)
        names = _thm.findall(open(path).read())
        names = [n for _, n in names]
        obligations += names
        vo = path[:-2] + '.vo'
        rc, out, err = run(['coqc', '-q', '-Q', 'theories', 'CPF', '-Q', 'gen', 'CPF.gen', 'theories/' + rel],
                           timeout=1500, cwd=COQ)
        text = out.decode(errors='replace')
        if rc != 0 or not os.path.exists(vo):
            failed.append((rel, (err.decode(errors='replace') or text)[-800:]))
            continue
        # Print Assumptions blocks follow theorems in order
        blocks = re.split(r'(?m)^(?=Closed under the global context|Axioms:)', text)
        blocks = [b.strip() for b in blocks if b.strip().startswith(('Closed under', 'Axioms:'))]
        for i, n in enumerate(names):
            a = blocks[i] if i < len(blocks) else 'NO Print Assumptions OUTPUT'
            assumptions[n] = a
            if a.startswith('Closed under the global context'):
                discharged.append(n)
            else:
                failed.append((rel, 'theorem %s depends on: %s' % (n, a[:300])))
    return dict(obligations=obligations, discharged=discharged, failed=failed, assumptions=assumptions)


def coqchk_once():
    """thorough tier: independent re-check of every compiled Properties module and all they depend on
    (coqchk -silent -o), once per state of the .vo files (stamped). -> dict(ok, axioms, wall_s, cached)"""
    import fcntl, glob
    vos = sorted(glob.glob(COQ + '/theories/**/*.vo', recursive=True) + glob.glob(COQ + '/gen/*.vo'))
    h = hashlib.sha256()
    for v in vos:
        st = os.stat(v)
        h.update(('%s:%d:%d;' % (v, st.st_size, int(st.st_mtime))).encode())
    stamp = h.hexdigest()
    cache = B + '/coqchk.json'
    with open(B + '/.coqchk.lock', 'w') as lk:
        fcntl.flock(lk, fcntl.LOCK_EX)
        if os.path.exists(cache):
            d = json.load(open(cache))
            if d.get('stamp') == stamp:
                d['cached'] = True
                return d
        mods = ['CPF.Properties.' + os.path.basename(p)[:-2] for p in sorted(glob.glob(COQ + '/theories/Properties/*.v'))]
        t = time.time()
        rc, out, err = run(['coqchk', '-silent', '-o', '-Q', 'theories', 'CPF', '-Q', 'gen', 'CPF.gen'] + mods, timeout=7200, cwd=COQ)
        text = (out + err).decode(errors='replace')
        m = re.search(r'\* Axioms:(.*?)\n\s*\n', text, re.S)
        axioms = m.group(1).strip() if m else 'NOT REPORTED'
        d = dict(stamp=stamp, ok=(rc == 0), axioms=axioms, wall_s=round(time.time() - t, 1), modules=mods, cached=False,
                 tail=text[-600:] if rc != 0 else '')
        json.dump(d, open(cache, 'w'))
        return d


def coq_log_tail():
    try:
        return open(B + '/coq.log', errors='replace').read()[-1500:]
    except OSError:
        return ''


def known_findings(pid):
    out = []
    p = V + '/known_findings.jsonl'
    if os.path.exists(p):
        for l in open(p):
            l = l.strip()
            if l:
                d = json.loads(l)
                if d.get('property') == pid:
                    out.append(d)
    return out


class Result:
    """what a property check returns"""
    def __init__(self, pid):
        self.pid = pid
        self.violations = []      # list of dict(replay content)
        self.known_hits = {}      # signature -> count/what
        self.coverage = {}
        self.assumptions = []
        self.tie_broken = []      # list of strings: what no longer checks
        self.notes = []


_scratch_locks = []


def scratch(prefix='vf', deterministic=None):
    """a scratch directory; with deterministic=<key> the SAME path on every run (generated projects embed
    their absolute path in entity identities, so campaigns are only reproducible with a fixed path);
    identical invocations are serialised by a lock file"""
    base = os.environ.get('VERIF_TMP', '/tmp')
    if deterministic is None:
        return tempfile.mkdtemp(prefix=prefix + '-', dir=base)
    import fcntl
    root = os.path.join(base, 'verif-work')
    os.makedirs(root, exist_ok=True)
    d = os.path.join(root, '%s-%s' % (prefix, deterministic))
    lk = open(d + '.lock', 'w')
    fcntl.flock(lk, fcntl.LOCK_EX)
    _scratch_locks.append(lk)
    subprocess.run(['chmod', '-R', 'u+rwx', d], capture_output=True)
    shutil.rmtree(d, ignore_errors=True)
    os.makedirs(d)
    return d


def write_replay(pid, content):
    os.makedirs(V + '/replays', exist_ok=True)
    h = hashlib.sha256(json.dumps(content, sort_keys=True, default=str).encode()).hexdigest()[:12]
    path = '%s/replays/%s-%s.json' % (V, pid, h)
    with open(path, 'w') as f:
        json.dump(content, f, indent=1, default=str)
    return path


def finish(pid, tier, seed, t0, res, obl, level='proof', checker_cmd=None, trusted=None):
    """writes evidence, prints KNOWN-FINDING / VIOLATION lines, returns exit status"""
    status = 0
    lines = []
    # proof obligations that no longer check, or a broken tie, with no concrete failing input
    broken = list(res.tie_broken) + ['%s: %s' % (f, m.strip().splitlines()[-1] if m.strip() else 'failed') for f, m in obl['failed']]
    for sig, what in res.known_hits.items():
        lines.append('KNOWN-FINDING: property=%s %s' % (pid, what))
    for v in res.violations:
        path = write_replay(pid, v)
        lines.append('VIOLATION property=%s replay=%s' % (pid, path))
        status = 1
    if broken and not res.violations:
        path = write_replay(pid, {'property': pid, 'no_longer_checks': broken, 'notes': res.notes,
                                  'note': 'proof obligation / model-code tie broken; search found no failing input',
                                  'coq_log_tail': coq_log_tail()})
        lines.append('VIOLATION property=%s replay=%s no-failing-input-found' % (pid, path))
        status = 1
    cov = dict(res.coverage)
    if tier == 'thorough' and os.environ.get('VERIF_NO_COQCHK') != '1':
        ck = coqchk_once()
        cov['coqchk'] = dict(ok=ck['ok'], axioms=ck['axioms'], wall_s=ck['wall_s'], cached=ck.get('cached'), modules=len(ck.get('modules', [])))
        if not ck['ok'] or ck['axioms'] not in ('<none>',):
            broken.append('coqchk: ' + (ck.get('tail') or ('axioms: ' + ck['axioms']))[:300])
    cov.setdefault('obligations', len(obl['obligations']))
    cov.setdefault('discharged', len(obl['discharged']))
    cov.setdefault('checker_cmd', checker_cmd or 'bin/build (coq_makefile + make -k -j16, full .vo) ; coqc -Q theories CPF -Q gen CPF.gen theories/Properties/%s.v' % pid)
    cov.setdefault('trusted_base', (trusted or []) + TRUSTED_COMMON)
    cov['theorems'] = obl['obligations']
    cov['assumptions_printed'] = obl['assumptions']
    cov['known_findings_hit'] = res.known_hits
    cov['broken'] = broken
    cov['notes'] = res.notes
    ev = {'property_id': pid, 'tier': tier, 'seed': seed, 'level': level, 'coverage': cov,
          'assumptions': res.assumptions, 'wall_s': round(time.time() - t0, 2), 'violations': len(res.violations) + (1 if broken and not res.violations else 0)}
    os.makedirs(V + '/evidence', exist_ok=True)
    with open('%s/evidence/%s.json' % (V, pid), 'w') as f:
        json.dump(ev, f, indent=1, default=str)
    for l in lines:
        print(l)
    print('%s %s tier=%s seed=%d wall=%.1fs obligations=%d/%d' % ('FAIL' if status else 'OK', pid, tier, seed, time.time() - t0, len(obl['discharged']), len(obl['obligations'])))
    return status
