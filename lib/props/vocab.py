"""C19: every entity kind the scanner produces can be queried (tables regenerated from /repo each run)."""
import json, os, random, re, shutil, time
from collections import Counter
from common import *
import javagen, qrun, scan


def tables():
    txt = open(COQ + '/gen/Tables.v').read()
    m = re.search(r'Definition scanner_kinds : list bytes :=\s*\[(.*?)\]\.', txt, re.S)
    kinds = re.findall(r'"([^"]*)"', m.group(1))
    env = {}
    m = re.search(r'Definition engine_env_table.*?:=\s*\[(.*?)\]\.\n', txt, re.S)
    for v, accs in re.findall(r'\("([^"]*)", \[(.*?)\]\)', m.group(1)):
        env[v] = re.findall(r'"([^"]*)"', accs)
    kv = dict(re.findall(r'\("([^"]*)", "([^"]*)"\)', re.search(r'Definition engine_kind_var.*?:=\s*\[(.*?)\]\.\n', txt, re.S).group(1)))
    # (variable, accessor) pairs bound to a constant rather than to a method
    global CONSTS
    CONSTS = set()
    mb = re.search(r'Definition engine_env_bind.*?:=\s*\[(.*?)\]\.\n', txt, re.S)
    if mb:
        for v, body in re.findall(r'\("([^"]*)", \[(.*?)\]\)', mb.group(1)):
            for a, kind_, _t in re.findall(r'\("([^"]*)", "([^"]*)", "([^"]*)"\)', body):
                if kind_ == 'const':
                    CONSTS.add((v, a))
    return kinds, kv, env


CONSTS = set()


KITCHEN = '''/** Kitchen sink. @author k */
public class Sink extends Base implements Runnable {
  int f = 1 + 2;
  void ops(int a, int b) {
    int r = a - b; r = a * b; r = a / b; r = a % b; r = a >> b; r = a << b; r = a >>> b;
    r = a & b; r = a | b; r = a ^ b;
    boolean c = a > b; c = a < b; c = a >= b; c = a <= b; c = a != b; c = a == b; c = c && c; c = c || c;
    if (c) { foo(a, "s"); } else { bar(); }
    while (a < b) { a = a + 1; if (a == 3) break; else continue; }
    do { a = a - 1; } while (a > 0);
    for (int i = 0; i < 3; i++) { new Foo(i); }
    assert a > 0 : "m";
    int v = switch (a) { case 1 -> { yield 5; } default -> { yield 0; } };
    /* block comment */
    return;
  }
  // constructs that are no entity kinds today: a scanner that starts to report one of them must make it queryable
  <T extends Comparable<T>> java.util.List<T> more(java.util.List<T> xs, String... rest) throws Exception {
    java.util.function.Function<String, Integer> len = String::length;
    Runnable r = this::run;
    java.util.function.Supplier<Sink> mk = Sink::new;
    xs.forEach(System.out::println);
    Runnable lam = () -> { bar(); };
    java.util.function.BiFunction<Integer, Integer, Integer> add = (p, q) -> p + q;
    for (T x : xs) { use(x); }
    try { risky(); } catch (RuntimeException | Error e) { throw e; } finally { bar(); }
    try (java.io.StringReader rd = new java.io.StringReader("s")) { rd.read(); }
    switch (rest.length) { case 0: bar(); break; default: bar(); }
    synchronized (this) { f++; }
    int[] arr = new int[] { 1, 2 }; int first = arr[0]; arr[1] = -first;
    Object o = (Object) xs; boolean is = o instanceof Sink; int t = is ? 1 : 2;
    String tb = """
        text block""";
    label: for (;;) { break label; }
    Object anon = new Object() { public String toString() { return "a"; } };
    this.f = super.hashCode(); f += 2; f++; --f;
    char ch = 'c'; long l = 1L; double d = 1.5e3; Class<?> k = Sink.class;
    return xs;
  }
  @SuppressWarnings({"a", "b"}) @Deprecated(since = "1" + "2") static final int K = 3;
  interface Inner { int v(); default int w() { return 1; } }
  enum Color { RED, GREEN; int code() { return ordinal(); } }
  record Pair(int a, int b) { }
  static { K2 = 4; }
  static int K2;
}
@interface Marker { int value() default 1 + 1; }
'''


def check(pid, tier, seed, t0, st, replay):
    res = Result(pid)
    gate = source_gate()
    if gate:
        res.tie_broken.append('source gate: ' + '; '.join(gate[:3]))
    if st.get('translator', 1) != 0:
        res.tie_broken.append('translator could not regenerate coq/gen/Tables.v: ' + open(B + '/translator.log', errors='replace').read()[-300:])
    obl = check_obligations(['Properties/C19.v'])
    work = scratch('vocab', deterministic='%s-%d' % (tier, seed))
    try:
        kinds, kv, env = tables()
        # kitchen-sink family: the fixed program plus generated units, so that every kind occurs
        files = [('src/Sink.java', KITCHEN.encode())]
        n = 6 if tier == 'quick' else 60
        for i in range(n):
            text, _, _ = javagen.gen_unit(seed + 1000, i)
            files.append(('src/gen/G%d.java' % i, text.encode()))
        proj = work + '/proj'
        qrun.write_project(proj, files)
        rc, out, err = run([B + '/harness', 'init-dump', proj, work + '/graph.txt'], timeout=600, env=dict(ENV, HOME=work))
        observed = Counter()
        if rc != 0:
            res.tie_broken.append('harness init-dump failed: ' + err.decode(errors='replace')[-300:])
        else:
            for l in open(work + '/graph.txt'):
                if l.startswith('NODE '):
                    observed[bytes.fromhex(scan.parse_kv(l.rstrip())['type'][1:]).decode()] += 1
        unseen = [k for k in kinds if k not in observed]
        extra = [k for k in observed if k not in kinds]
        if extra:
            res.tie_broken.append('scanner produced kinds the translator did not extract: %s' % extra)
        queries = []
        for k in sorted(observed):
            queries.append(('sel:' + k, 'FROM %s AS x SELECT x' % k))
            accs = env.get(kv.get(k, ''), [])
            acc = 'getName()' if 'getName' in accs else 'toString()'
            queries.append(('whr:' + k, 'FROM %s AS x WHERE x.%s == x.%s SELECT x, x.toString()' % (k, acc, acc)))
        # every accessor the engine binds for the kind can be evaluated in WHERE on every entity of the kind
        # (self-comparison for scalar and object values, len() for lists): the full population must come back
        for k in sorted(observed):
            for a in env.get(kv.get(k, ''), []):
                if a == 'toString':
                    continue
                forms_ = ('x.%s == x.%s' % (a, a),) if (kv.get(k, ''), a) in CONSTS else ('x.%s() == x.%s()' % (a, a), 'len(x.%s()) >= 0' % a, 'x.%s() != nil' % a)
                for fi, form in enumerate(forms_):
                    queries.append(('acc:%s:%s:%d' % (k, a, fi), 'FROM %s AS x WHERE %s SELECT x' % (k, form)))
        results, _ = qrun.run_queries(proj, queries, work + '/q')
        # an accessor is usable when at least one of its forms yields the whole population
        acc_ok = {}
        for qid, q in queries:
            if qid.startswith('acc:'):
                _, k, a, _f = qid.split(':', 3)
                oc, payload = results.get(qid, ('missing', ''))
                good = False
                if oc == 'ok':
                    try:
                        rs, rows = qrun.parse_result(payload)
                        good = len(rs) == observed[k]
                    except Exception:
                        good = False
                acc_ok[(k, a)] = acc_ok.get((k, a), False) or good
        for (k, a), good in sorted(acc_ok.items()):
            if not good:
                res.violations.append(dict(property=pid, what='accessor %s of kind %s cannot be used to filter (no form of a condition on it yields the %d entities)' % (a, k, observed[k]),
                                           query='FROM %s AS x WHERE x.%s() == x.%s() SELECT x' % (k, a, a), project_files=[f for f, _ in files][:3],
                                           how='scan a project containing the construct, then run the query with `pathfinder query`'))
        queries = [(qid, q) for qid, q in queries if not qid.startswith('acc:')]
        evals = 0
        for qid, q in queries:
            k = qid[4:]
            oc, payload = results.get(qid, ('missing', ''))
            evals += 1
            ok = False
            if oc == 'ok':
                try:
                    rs, rows = qrun.parse_result(payload)
                    ok = (len(rs) == observed[k] and len(rows) == observed[k] and all(r is not None and r[0] not in (None, '') for r in rows))
                except Exception as e:
                    payload = 'unparsable: %s' % e
            if not ok:
                prog = KITCHEN if k in Counter() else None
                res.violations.append(dict(property=pid, what='kind %s is produced by the scanner but cannot be queried' % k,
                                           query=q, outcome=oc, detail=payload[:300], expected_results=observed[k],
                                           project_files=[f for f, _ in files][:3],
                                           how='scan a project containing the construct, then run the query with `pathfinder query`'))
        # every ORDERED PAIR of kinds in one FROM, on the kitchen-sink program alone: both aliases are bound,
        # filtered through an accessor and selected; expected = product of the two populations
        proj2 = work + '/proj2'
        qrun.write_project(proj2, [('src/Sink.java', KITCHEN.encode())])
        rc, out, err = run([B + '/harness', 'init-dump', proj2, work + '/graph2.txt'], timeout=600, env=dict(ENV, HOME=work))
        obs2 = Counter()
        if rc == 0:
            for l in open(work + '/graph2.txt'):
                if l.startswith('NODE '):
                    obs2[bytes.fromhex(scan.parse_kv(l.rstrip())['type'][1:]).decode()] += 1
        pq = []
        ks = sorted(obs2)
        for k1 in ks:
            for k2 in ks:
                if k1 != k2:
                    pq.append(('%s|%s' % (k1, k2), 'FROM %s AS a, %s AS b WHERE a.toString() != "" && b.toString() != "" SELECT a.toString(), b.toString()' % (k1, k2)))
        if tier == 'quick':
            rng_ = random.Random('c19pairs/%d' % seed)
            keep = set(rng_.sample(range(len(pq)), min(len(pq), 330)))
            # pairs of kinds that share anything in generateProxyEnv are always kept: operator kinds with one another
            opk = [k for k in ks if k.endswith('_expression')]
            pq = [x for i, x in enumerate(pq) if i in keep or (x[0].split('|')[0] in opk and x[0].split('|')[1] in opk)]
        pres, _ = qrun.run_queries(proj2, pq, work + '/q2')
        for qid, q in pq:
            k1, k2 = qid.split('|')
            oc, payload = pres.get(qid, ('missing', ''))
            evals += 1
            ok = False
            if oc == 'ok':
                try:
                    rs, rows = qrun.parse_result(payload)
                    ok = len(rows) == obs2[k1] * obs2[k2] and all(len(r) == 2 and r[0] and r[1] for r in rows)
                except Exception as e:
                    payload = 'unparsable: %s' % e
            if not ok:
                res.violations.append(dict(property=pid, what='kinds %s and %s are produced by the scanner but cannot be queried together' % (k1, k2),
                                           query=q, outcome=oc, detail=payload[:300], expected_results=obs2[k1] * obs2[k2], program=KITCHEN,
                                           how='scan the program, then run the query with `pathfinder query --output json`'))
                break
        res.coverage['kind_pairs_queried'] = len(pq)
        # filtered through a predicate whose parameter is typed with the kind (the documented idiom), alone and next to
        # another entity whose alias is contained in this one's (c / xc)
        prq = []
        for k in ks:
            other = 'class_declaration' if k != 'class_declaration' else 'method_declaration'
            prq.append(('p1:' + k, 1, 'predicate sel(%s e) { e.toString() != "" } FROM %s AS x WHERE sel(x) SELECT x.toString()' % (k, k)))
            if other in obs2:
                prq.append(('p2:' + k, obs2[other], 'predicate sel(%s e) { e.toString() != "" } FROM %s AS c, %s AS xc WHERE sel(xc) SELECT xc.toString()' % (k, other, k)))
                prq.append(('p3:' + k, obs2[other], 'predicate sel(%s e) { e.toString() != "" } FROM %s AS xc, %s AS c WHERE sel(xc) SELECT xc.toString()' % (k, k, other)))
        prres, _ = qrun.run_queries(proj2, [(qid, q) for qid, _, q in prq], work + '/q3')
        for qid, mult, q in prq:
            k = qid.split(':', 1)[1]
            oc, payload = prres.get(qid, ('missing', ''))
            evals += 1
            nrows = -1
            if oc == 'ok':
                try:
                    nrows = len(qrun.parse_result(payload)[1] or [])
                except Exception:
                    pass
            if nrows != obs2[k] * mult:
                res.violations.append(dict(property=pid, what='kind %s is produced by the scanner but cannot be filtered through a predicate typed with it' % k, query=q, outcome=oc,
                                           detail=payload[:300], expected_results=obs2[k] * mult, got=nrows, program=KITCHEN, how='scan the program, then run the query with `pathfinder query --output json`'))
                break
        res.coverage['kind_typed_predicate_queries'] = len(prq)
        # the same basic query per kind through the command AS RELEASED (telemetry key linked in, metrics not disabled;
        # proxies point at a dead port): every kind can still be selected
        if os.path.exists(B + '/pathfinder-release'):
            renv = dict(ENV, HOME=work + '/relhome', HTTPS_PROXY='http://127.0.0.1:9', HTTP_PROXY='http://127.0.0.1:9', https_proxy='http://127.0.0.1:9', http_proxy='http://127.0.0.1:9')
            os.makedirs(work + '/relhome', exist_ok=True)
            nrel = 0
            for k in ks:
                rc, o, e = run([B + '/pathfinder-release', 'query', '--project', proj2, '--output', 'json', '--query', 'FROM %s AS x SELECT x' % k], timeout=120, env=renv)
                nrel += 1
                evals += 1
                doc = next((l for l in o.decode('utf-8', 'replace').split('\n') if l.startswith('{"output"')), None)
                nrows = -1
                if doc is not None:
                    try:
                        nrows = len(qrun.parse_result(doc)[1] or [])
                    except Exception:
                        pass
                if rc != 0 or nrows != obs2[k]:
                    res.violations.append(dict(property=pid, what='kind %s is produced by the scanner but cannot be selected with the command as released (telemetry key linked in, metrics enabled)' % k,
                                               query='FROM %s AS x SELECT x' % k, exit_status=rc, expected_results=obs2[k], got=nrows, stderr=e.decode(errors='replace')[-300:], program=KITCHEN,
                                               how='go build -ldflags "-X .../analytics.PublicKey=<key>" (as the Dockerfile and the release workflow do); pathfinder query --project D --output json --query <query> without --disable-metrics'))
                    break
            res.coverage['release_build_queries'] = nrel
        else:
            res.tie_broken.append('the release-like build of the CLI failed (see .build/cli-release.log)')
        res.coverage.update(dict(
            evaluations=evals, distinct_nontrivial=len(observed), exhaustive=(not unseen),
            rule='every entity kind observed on the kitchen-sink family (all supported constructs, all 19 operators) is queried with `FROM k AS x SELECT x` and one accessor-based WHERE through the real processQuery; expected = number of entities of that kind in graph.Initialize; distinct = kinds',
            kinds_in_tables=len(kinds), kinds_observed=dict(observed), kinds_never_observed=unseen,
            samples=[q for _, q in queries[:3]]))
        if unseen:
            res.notes.append('kinds in the scanner table never produced by the family: %s' % unseen)
    finally:
        shutil.rmtree(work, ignore_errors=True)
    res.assumptions = ['translator recognises the syntactic shapes of visitAST Node literals and of generateProxyEnv (switch + env literal); any other shape is a loud failure',
                       'expr-lang evaluates alias.accessor() against the env map as probed']
    return finish(pid, tier, seed, t0, res, obl)
