"""C07 (schedule independence) and C08 (per-file isolation): graph.Initialize on project variants,
forced arrival orders through the verif hooks, the extracted Coq `collect`, real permission faults."""
import json, os, random, re, shutil, stat, subprocess, time
from collections import Counter
from common import *
import javagen, qrun, scan


def unhx(s):
    return bytes.fromhex(s[1:])


def gen_project(rng, seed, nfiles, dup_fragments=True):
    """files with deliberately repeated identifiers and identical fragments in different files"""
    files = []
    shared = 'class Shared { int f(int a, int b) { if (a > b) { return a + b; } foo(1 + 2); return new Foo(a); } /* same comment */ }\n'
    # LONG identical fragments (a licence header, a generated class with a long Javadoc, a long body, a long string and
    # a long line comment): whatever derives an identity from a bounded prefix of the text confuses them across files
    header = '/*\n' + ''.join(' * Licensed to the Example Foundation under one or more contributor license agreements (%d).\n' % k for k in range(30)) + ' */\n'
    longgen = ('/** ' + 'generated documentation words ' * 60 + '*/\nclass Generated {\n  // ' + 'do not edit ' * 120 + '\n  String banner = "' + 'x-' * 700 + '";\n'
               '  void generated(int a) { ' + 'emit(a, "' + 'y' * 1100 + '"); ' + 'step(a); ' * 160 + '}\n}\n')
    for i in range(nfiles):
        text, _, _ = javagen.gen_unit(seed + 900, i, size=0.6)
        if dup_fragments and i % 2 == 0:
            text += shared
        if dup_fragments and seed % 2 == 1:
            text = header + text + (longgen if i % 3 != 2 else '')
        sub = ['', 'a/', 'a/b/', 'c d/'][i % 4]
        files.append(('%sF%d.java' % (sub, i), text.encode()))
    if dup_fragments and nfiles >= 2:
        files.append(('copy/F0.java', files[0][1]))       # identical content under another path
    return files


def race_harness():
    """thorough tier: the harness built with the Go race detector (built once, cached)"""
    hb = B + '/harness-race'
    if not os.path.exists(hb) or os.path.getmtime(hb) < os.path.getmtime(B + '/harness'):
        rc, o, e = run(['go', 'build', '-race', '-tags', 'verif', '-o', hb, '.'], timeout=1800, cwd=V + '/harness', env=dict(ENV, GOFLAGS='-mod=mod', CGO_ENABLED='1'))
        if rc != 0:
            return None
    return hb


def buffered_ok(w, queue, out):
    """decides the relation `buffered w [] queue out` of Scan/Pool.v (a w-place reorder buffer): the merge
    orders Pool.v proves reachable (pool_merge_orders_iff).  Greedy: take lazily, emit when present."""
    q, h = list(queue), []
    for x in out:
        while x not in h:
            if not q or len(h) >= w:
                return False
            h.append(q.pop(0))
        h.remove(x)
    return not q and not h


def orders_run(proj, work, nruns, seed, binary=None):
    out = work + '/orders.txt'
    rc, o, e = run([binary or (B + '/harness'), 'orders', proj, out, str(nruns), str(seed)], timeout=1800, env=dict(ENV, HOME=work))
    if b'DATA RACE' in e or b'DATA RACE' in o:
        return dict(error='DATA RACE reported by the Go race detector: ' + (e + o).decode(errors='replace')[-1500:], race=True)
    if rc != 0:
        return dict(error='harness orders failed rc=%d %s' % (rc, e.decode(errors='replace')[-300:]))
    runs, final, locals_ = [], [], []
    mode = None
    for line in open(out):
        line = line.rstrip('\n')
        if line.startswith('RUN '):
            runs.append(dict(kv.split('=', 1) for kv in line[4:].split(' ')))
        elif line.startswith('FINAL '):
            final.append(line[6:])
        elif line == 'LOCAL' or line.startswith('L '):
            locals_.append(line)
        elif line.startswith('ERROR'):
            return dict(error=line)
    return dict(runs=runs, final=final, locals=locals_)


def per_file_union(files_on_disk, work):
    """expected project graph: union of the per-file builder results (harness scan-dump), ids as the implementation computes them"""
    lst = ['c%d x%s %s' % (i, p.encode().hex(), p) for i, p in enumerate(files_on_disk)]
    open(work + '/pf_list.txt', 'w').write('\n'.join(lst) + '\n')
    rc, o, e = run([B + '/harness', 'scan-dump', work + '/pf_list.txt', work + '/pf_cases.txt', work + '/pf_impl.txt'], timeout=900)
    if rc != 0:
        raise RuntimeError('scan-dump failed: ' + e.decode(errors='replace')[-300:])
    blocks = scan.parse_blocks(work + '/pf_impl.txt')
    per = {}
    for i, p in enumerate(files_on_disk):
        per[p] = [l for l in blocks.get('c%d' % i, []) if l.startswith(('NODE ', 'EDGE '))]
    return per


def node_id(line):
    return line.split(' ')[1][3:]


def skeleton_exploration(tier, res, stats):
    """the skeleton extracted from graph.Initialize, run under the generic semantics (Scan/SkelSem.v), against
    the hand-written transition system (Scan/Pool.v) through the abstraction Scan/SkelAbs.v: exhaustive over all
    configurations for small pools and file counts, every readable / readFile-fails / ParseCtx-fails assignment"""
    plan = [(3, 1), (2, 2), (0, 5)] if tier == 'quick' else [(4, 1), (3, 2), (2, 3), (1, 5)]
    for nmax, w in plan:
        rc, o, e = run([B + '/model', 'skel', str(nmax), str(w)], timeout=3000)
        line = [l for l in o.decode().splitlines() if l.startswith('SKEL ')]
        if rc != 0 or not line:
            res.tie_broken.append('skeleton exploration could not run: ' + e.decode(errors='replace')[-200:])
            return
        kv = dict(x.split('=') for x in line[0].split(' ')[1:])
        stats['skeleton_configurations'] += int(kv['configurations'])
        stats['skeleton_pool_states'] += int(kv['pool_states'])
        stats['skeleton_pool_edges'] += int(kv['pool_edges'])
        stats['skeleton_instances'] += sum(3 ** n for n in range(nmax + 1))
        if int(kv['problems']):
            probs = [l[8:] for l in o.decode().splitlines() if l.startswith('PROBLEM ')]
            res.tie_broken.append('Scan/Pool.v is not the behaviour of the skeleton extracted from graph.Initialize under the generic channel semantics (workers=%d, files<=%d): %s' % (w, nmax, '; '.join(probs[:3])))
            return


def check_c07(pid, tier, seed, res, work):
    rng = random.Random('c07/%d' % seed)
    stats = Counter()
    samples = []
    skeleton_exploration(tier, res, stats)
    sizes = [0, 1, 2, 3, 4, 5, 6, 9, 14] if tier == 'quick' else [0, 1, 2, 3, 4, 4, 5, 6, 7, 11, 20, 60, 200]
    # (number of files, entries that cannot be read: dangling links named *.java sorting first / in the middle / last)
    plan = [(n, []) for n in sizes] + [(0, ['Gone.java']), (1, ['zz/Gone.java']), (2, ['0first/Gone.java', 'zz/Last.java']), (3, ['a/Mid.java']),
                                       (0, ['A.java', 'B.java'])] + ([(7, ['a/Mid.java', 'zz/Last.java']), (12, ['0first/Gone.java'])] if tier == 'thorough' else [])
    if tier == 'thorough':
        plan.append((5, 'slow'))     # seconds of parsing per file: thorough tier only
    # many SMALL files: far more than any fixed queue length or batch size somebody might introduce
    plan.append((1100 if tier == 'quick' else 2500, 'many'))
    # a few files of DEEPLY nested blocks (every statement text is kept once per enclosing block: tens of megabytes of
    # text in all): what a process-wide budget or cache would meet in an order that depends on the workers
    plan.append((6, 'nested'))
    for pi, (n, dangling) in enumerate(plan):
        slow = dangling == 'slow'
        many = dangling == 'many'
        nested = dangling == 'nested'
        if slow or many or nested:
            dangling = []
        if nested:
            depth = 340
            files = []
            for k in range(n):
                body = ''.join('%sif (v%d > %d) {\n%s  call%d(v%d, "a fairly long argument text number %d of file %d to pass the length threshold");\n' % ('  ' * (j % 20), k, j, '  ' * (j % 20), j, k, j, k) for j in range(depth)) + '}' * depth
                files.append(('n%d/Nest%d.java' % (k % 3, k), ('class Nest%d { void m(int v%d) {\n%s\n} }\n' % (k, k, body)).encode()))
            stats['deeply_nested_files'] = n
        elif many:
            files = [('m%d/T%04d.java' % (k % 9, k), ('class T%04d { int f%d = %d + 1; void m() { g(%d); } }\n' % (k, k, k, k)).encode()) for k in range(n)]
            stats['many_small_files'] = n
        else:
            files = gen_project(rng, seed + pi, n, dup_fragments=not dangling)
        if slow:
            # files whose PARSE takes seconds (a class cut off inside a comment full of `/*`: tree-sitter's error
            # recovery is quadratic there), as many as there are workers, walked before the ordinary files: every
            # worker handles an ordinary file right after a slow one
            files = [('0slow/S%d.java' % k, ('public class S%d {\n  void before() { int q = %d + 2; }\n  /* ' % (k, k) + '/* x ' * 9000 + '\n').encode()) for k in range(5)] + files
            stats['slow_parse_files'] += 5
        proj = '%s/p%d' % (work, pi)
        os.makedirs(proj, exist_ok=True)
        qrun.write_project(proj, files)
        for rel in dangling:
            os.makedirs(os.path.dirname(os.path.join(proj, rel)), exist_ok=True)
            os.symlink('/nonexistent/verif-target', os.path.join(proj, rel))
            stats['unreadable_entries'] += 1
        if tier == 'thorough' and pi in (3, 6, 9):
            hb = race_harness()
            if hb:
                rr = orders_run(proj, work, 4, seed + pi, binary=hb)
                stats['race_detector_runs'] += 1
                if rr.get('race'):
                    res.violations.append(dict(property='C07', what='data race during graph.Initialize', detail=rr['error'],
                                               project=[(p, d.decode('utf-8', 'replace')) for p, d in files], how='harness built with -race, `orders` on the project'))
        if many:
            # the results of QUERIES over that project are as repeatable as the scan: the same rows whatever the number
            # of CPUs (one query without WHERE, two with more candidate rows than a batch is likely to hold)
            mq = [('mq0', 'FROM method_declaration AS m SELECT m.getName()'), ('mq1', 'FROM method_declaration AS m WHERE m.getName() == "m" SELECT m.getName()'),
                  ('mq2', 'FROM variable_declaration AS v WHERE v.getVariableValue() != "0 + 1" SELECT v.getName()')]
            base_rows = None
            for procs in ('16', '1', '2', '3', '4', '64'):
                rq, _ = qrun.run_queries(proj, mq, work + '/manyq', env_extra=dict(GOMAXPROCS=procs))
                rows = {q_: (rq.get(q_, ('missing', ''))[0], Counter(map(lambda r_: json.dumps(r_), (qrun.parse_result(rq[q_][1])[1] or []))) if rq.get(q_, ('', ''))[0] == 'ok' else None) for q_, _ in mq}
                stats['query_runs_across_cpus'] += 1
                if base_rows is None:
                    base_rows = rows
                    if rows['mq0'][1] is None or sum(rows['mq0'][1].values()) != n:
                        res.violations.append(dict(property='C07', what='%s methods reported for %d files with one method each' % (sum(rows['mq0'][1].values()) if rows['mq0'][1] is not None else 'no', n), how='harness queries on the many-small-files project'))
                        break
                elif rows != base_rows:
                    qd = next(q_ for q_, _ in mq if rows[q_] != base_rows[q_])
                    res.violations.append(dict(property='C07', what='a query over the scanned project gives other rows under GOMAXPROCS=%s than under 16' % procs, query=dict(mq)[qd],
                                               detail='%s rows vs %s rows' % (sum(rows[qd][1].values()) if rows[qd][1] is not None else rows[qd][0], sum(base_rows[qd][1].values()) if base_rows[qd][1] is not None else base_rows[qd][0]),
                                               project='%d files T<nnnn>.java: class T<nnnn> { int f<n> = <n> + 1; void m() { g(<n>); } }' % n, how='GOMAXPROCS=%s pathfinder query --project D --output json --query <query>' % procs))
                    break
        r = orders_run(proj, work, 1 if slow else (2 if (many or nested) else (6 if tier == 'quick' else 30)), seed + pi)
        if 'error' in r:
            res.tie_broken.append('orders campaign could not run: ' + r['error'])
            return stats, samples
        runs = r['runs']
        hung = [x for x in runs if x.get('hang') == 'true']
        if hung:
            x = hung[0]
            res.violations.append(dict(property='C07', what='the scan did not terminate (graph.Initialize still running after 25 s)',
                                       project=[(p, d.decode('utf-8', 'replace')) for p, d in files], dangling_links=dangling,
                                       take_up_order=[f for f in unhx(x['want']).decode().split('\x00')] if x['want'] != 'x' else 'free-running',
                                       gomaxprocs=x['procs'], kind=x['kind'],
                                       how='graph.Initialize(dir) with the verif hooks releasing the files to the workers in the given order (harness `orders`); entries listed under dangling_links are symbolic links to a missing target'))
            stats['hangs'] += 1
            continue
        stats['projects'] += 1
        stats['runs'] += len(runs)
        stats['forced_orders'] += sum(1 for x in runs if x['kind'] == 'forced')
        stats['distinct_observed_orders'] += len(set(x['observed'] for x in runs))
        if any(x['timeout'] == 'true' for x in runs):
            stats['gate_timeouts'] += sum(1 for x in runs if x['timeout'] == 'true')
        forced = [x for x in runs if x['kind'] == 'forced' and x['timeout'] == 'false' and x['want'] != 'x']
        stats['forced_order_obeyed'] += sum(1 for x in forced if x['want'] == x['observed'])
        # every observed arrival order must be one the worker-pool model (Scan/Pool.v) proves reachable
        disk_order = sorted((os.path.join(proj, f) for f, _ in files), key=lambda p_: [seg.encode() for seg in p_.split('/')])
        for x in runs:
            obs = [f for f in unhx(x['observed']).decode().split('\x00') if f]
            if len(obs) == len(disk_order) and x['timeout'] == 'false':
                stats['orders_checked_against_pool_model'] += 1
                if not buffered_ok(5, disk_order, obs):
                    res.tie_broken.append('an observed arrival order is not reachable in the worker-pool model (buffered 5): %s' % [os.path.basename(f) for f in obs][:12])
                    break
        hashes = set(x['hash'] for x in runs)
        if len(hashes) > 1:
            a = runs[0]
            b = [x for x in runs if x['hash'] != a['hash']][0]
            res.violations.append(dict(property='C07', what='the scanned graph differs between two runs of the same project',
                                       project=[(p, d.decode('utf-8', 'replace')) for p, d in files],
                                       run_a=dict(order=unhx(a['observed']).decode().split('\x00'), nodes=a['nodes'], edges=a['edges'], gomaxprocs=a['procs']),
                                       run_b=dict(order=unhx(b['observed']).decode().split('\x00'), nodes=b['nodes'], edges=b['edges'], gomaxprocs=b['procs']),
                                       how='graph.Initialize(dir) with per-file results forced to arrive in the two orders (harness `orders`), canonical dumps compared'))
            continue
        # model: extracted collect on the observed local graphs of the first run = implementation's final graph
        if r['locals']:
            p = subprocess.run([B + '/model', 'collect'], input=('\n'.join(r['locals']) + '\n').encode(), capture_output=True, timeout=600)
            mlines = sorted(l for l in p.stdout.decode().splitlines() if l.startswith('NODE ')) + sorted(l for l in p.stdout.decode().splitlines() if l.startswith('EDGE '))
            ilines = sorted(l for l in r['final'] if l.startswith('NODE ')) + sorted(l for l in r['final'] if l.startswith('EDGE '))
            stats['collect_compared_lines'] += len(ilines)
            if mlines != ilines:
                res.tie_broken.append('correspondence: extracted collect differs from Initialize\'s merged graph (project %d: %d vs %d lines)' % (pi, len(mlines), len(ilines)))
        # hypothesis of the theorem, and the oracle: union of per-file graphs
        disk = sorted(os.path.join(proj, f) for f, _ in files)
        per = per_file_union(disk, work)
        stats['projects_with_unreadable_entries'] += 1 if dangling else 0
        ids = Counter()
        for p_, lines in per.items():
            for l in lines:
                if l.startswith('NODE '):
                    ids[node_id(l)] += 1
        dup_cross = 0
        owner = {}
        for p_, lines in per.items():
            for l in set(x for x in lines if x.startswith('NODE ')):
                i = node_id(l)
                if i in owner and owner[i] != p_:
                    dup_cross += 1
                owner[i] = p_
        stats['keys_distinct_checked'] += 1
        if dup_cross:
            res.tie_broken.append('hypothesis keys_distinct of C07_order_independent fails: %d identities occur in two files (project %d)' % (dup_cross, pi))
        union_nodes = sorted(set(l for lines in per.values() for l in lines if l.startswith('NODE ')))
        final_nodes = sorted(l for l in r['final'] if l.startswith('NODE '))
        if not dup_cross and union_nodes != final_nodes:
            only_u = [l for l in union_nodes if l not in set(final_nodes)][:1]
            only_f = [l for l in final_nodes if l not in set(union_nodes)][:1]
            res.violations.append(dict(property='C07', what='the scanned graph is not the union of the per-file graphs',
                                       project=[(p, d.decode('utf-8', 'replace')) for p, d in files], only_union=only_u, only_final=only_f))
        if pi < 2:
            samples.append(dict(files=n, runs=[dict(kind=x['kind'], procs=x['procs'], observed=[os.path.basename(f) for f in unhx(x['observed']).decode().split('\x00')]) for x in runs[:3]]))
    return stats, samples


def slow_java(k, reps=9000):
    """a file whose PARSE takes many seconds (a class cut off inside a comment full of `/*`: tree-sitter's error
    recovery is quadratic there)"""
    return ('public class S%d {\n  void before() { int q = %d + 2; }\n  /* ' % (k, k) + '/* x ' * reps + '\n').encode()


def slow_context_c08(res, work, stats, seed):
    """thorough tier: five slow-to-parse files walked BEFORE the ordinary files (one per worker), so every worker
    handles an ordinary file right after a slow one; what is reported for the ordinary files must not change"""
    files = []
    for i in range(6):
        text, _, _ = javagen.gen_unit(seed + 4100, i, size=0.5)
        files.append(('src/T%d.java' % i, text.encode()))
    base, var = work + '/slow_alone', work + '/slow_ctx'
    qrun.write_project(base, files)
    qrun.write_project(var, files + [('0slow/S%d.java' % k, slow_java(k)) for k in range(5)])
    outs = {}
    for name, d in (('alone', base), ('context', var)):
        o = '%s/slowdump_%s.txt' % (work, name)
        rc, so, se = run([B + '/harness', 'init-dump', d, o], timeout=1200, env=dict(ENV, HOME=work))
        if rc != 0:
            res.violations.append(dict(property='C08', what='the scan of a project with slow-to-parse files ended abnormally (rc %d)' % rc, detail=se.decode(errors='replace')[-400:],
                                       project='six generated files plus 0slow/S0..S4.java = "public class Sk { void before() {...} /* " + "/* x " * 9000',
                                       how='graph.Initialize on the directory'))
            return
        outs[name] = [l.rstrip('\n') for l in open(o)]
    def proj(lines, root):
        out = []
        for l in lines:
            if l.startswith('NODE ') and ('file=x' + (root + '/src/').encode().hex()) in l:
                out.append(re.sub(r'^NODE id=[0-9a-f]+ ', 'NODE ', l).replace(root.encode().hex(), 'ROOT'))
        return sorted(out)
    a, b = proj(outs['alone'], base), proj(outs['context'], var)
    stats['slow_context_entities'] = len(a)
    if a != b:
        res.violations.append(dict(property='C08', what='what is reported for ordinary files changes when slow-to-parse files are scanned before them', alone=len(a), with_context=len(b),
                                   only_alone=[l for l in a if l not in set(b)][:1], only_context=[l for l in b if l not in set(a)][:1],
                                   project=[(p_, d_.decode('utf-8', 'replace')) for p_, d_ in files], context='0slow/S0..S4.java = "public class Sk { void before() {...} /* " + "/* x " * 9000',
                                   how='graph.Initialize on the directory with and without the slow files'))


def check_c08(pid, tier, seed, res, work):
    rng = random.Random('c08/%d' % seed)
    stats = Counter()
    samples = []
    if tier == 'thorough':
        slow_context_c08(res, work, stats, seed)
    n = 25 if tier == 'quick' else 300
    for i in range(n):
        text, _, _ = javagen.gen_unit(seed + 1300, i, size=0.6)
        F = ('src/Target%d.java' % i, text.encode())
        # reference: F alone
        base = '%s/b%d' % (work, i)
        qrun.write_project(base, [F])
        ctx_kind = ['copies', 'fragments', 'malformed', 'unreadable_file', 'unreadable_dir', 'dangling_symlink', 'decoys', 'callers', 'dir_symlinks', 'file_symlinks', 'same_names', 'crowd', 'changing'][i % 13]
        ctx = []
        if ctx_kind == 'copies':
            # ... also under names that differ from the target's only by a backslash for a slash (a legal file name
            # here), by case, by a trailing blank or dot in a directory name
            ctx = [('src/Copy.java', F[1]), ('other/Target%d.java' % i, F[1]), ('src\\Target%d.java' % i, F[1]), ('SRC/Target%d.java' % i, F[1]), ('src /Target%d.java' % i, F[1]),
                   ('src./Target%d.java' % i, F[1]), ('src/target%d.java' % i, F[1])]
        elif ctx_kind == 'fragments':
            t2, _, _ = javagen.gen_unit(seed + 1300, i + 1, size=0.6)
            ctx = [('src/Other.java', t2.encode() + F[1][:len(F[1]) // 2])]
        elif ctx_kind == 'malformed':
            ctx = [('src/Bad.java', javagen.mutate(text, rng, 8).encode('utf-8', 'replace')), ('src/Empty.java', b''), ('src/Bin.java', bytes(rng.randrange(256) for _ in range(200)))]
        elif ctx_kind == 'callers':
            # many siblings that call what F declares (same names, same argument counts) and declare
            # what F calls: whatever is derived for F from calls must come from F's own calls only
            _t, truth, _s = javagen.gen_unit(seed + 1300, i, size=0.6)
            sigs = sorted(set((t['name'], len(t['ptypes'])) for t in truth if t['kind'] == 'method'))
            calls = sorted(set((t['name'].split('.')[-1], len(t['args'])) for t in truth if t['kind'] == 'call'))
            for j in range(14):
                body = ' '.join('%s(%s);' % (nm, ', '.join(str(k) for k in range(n))) for nm, n in sigs)
                decls = ' '.join('void %s(%s) { }' % (nm, ', '.join('int a%d' % k for k in range(n))) for nm, n in calls[:6])
                ctx.append(('sib/S%d.java' % j, ('class S%d { void s%d() { %s } %s }' % (j, j, body, decls)).encode()))
        elif ctx_kind == 'same_names':
            # files of the SAME name in other directories (and names that differ by a leading character), the directory
            # names spelled with letters of the project path itself, different contents
            t2, _, _ = javagen.gen_unit(seed + 1300, i + 7, size=0.4)
            letters = [ch for ch in dict.fromkeys('%s/v%d' % (work, i)) if ch.isalnum()]
            d1, d2, d3 = ''.join(letters[:3]), ''.join(letters[2:5]), ''.join(reversed(letters[:4]))
            nm = 'Target%d.java' % i
            ctx = [('%s/%s' % (d1, nm), t2.encode()), ('%s/%s/%s' % (d2, d3, nm), b'class Other { int q = 1 + 2; }'), ('src/%s%s' % (letters[0], nm), t2.encode()),
                   (nm, b'class Top { void t() { u(3); } }'), ('src/sub/%s' % nm, F[1] + b'\nclass Extra { }\n')]
        elif ctx_kind == 'changing':
            # the target CHANGES on disk between its discovery and the moment a worker reads it (an editor save, a
            # checkout during the scan): it becomes shorter; its siblings are longer files read before it.  What is
            # reported for it is what its NEW content yields alone
            for j in range(30):
                tj, _, _ = javagen.gen_unit(seed + 1300, i + 20 + j, size=0.8)
                ctx.append(('a%d/Sib%d.java' % (j % 5, j), (tj + '\n// padding ' + 'x' * 3000 + '\n').encode()))
        elif ctx_kind == 'crowd':
            # hundreds of small well-formed siblings walked BEFORE the target, and the scan allowed 64 open files
            ctx = [('a%d/S%03d.java' % (k % 5, k), ('class S%03d { int f = %d + 1; void m() { g(%d); } }\n' % (k, k, k)).encode()) for k in range(400)]
        elif ctx_kind == 'decoys':
            ctx = [('src/x.JAVA', F[1]), ('src/y.jav', F[1]), ('src/java', F[1]), ('src/dir.java/inner.txt', b'x'), ('src/dir.java/In.java', b'class In { int z = 1 + 2; }')]
        else:
            ctx = [('src/zz/Sib.java', b'class Sib { void s() { t(1 + 2); } }'), ('aa/First.java', b'class First { int q; }')]
        var = '%s/v%d' % (work, i)
        qrun.write_project(var, [F] + ctx)
        if ctx_kind == 'changing':
            new_src = 'class Shorter%d { int keep = %d + 1; void only() { call%d(2); } }\n' % (i, i, i)
            qrun.write_project(base, [(F[0], new_src.encode())])            # the reference is the NEW content alone
            with open('%s/mutate%d.plan' % (work, i), 'w') as pf_:
                pf_.write('x%s rewrite x%s\n' % (os.path.join(var, F[0]).encode().hex(), new_src.encode().hex()))
        child_as_nobody = False
        if ctx_kind == 'unreadable_file':
            os.chmod(var + '/src/zz/Sib.java', 0)
            child_as_nobody = True
        elif ctx_kind == 'unreadable_dir':
            os.chmod(var + '/src/zz', 0)
            child_as_nobody = True
        elif ctx_kind == 'dangling_symlink':
            os.symlink('/nonexistent/target.java', var + '/src/Dangling.java')
            os.symlink('/nonexistent/dir', var + '/src/zz/d')
        elif ctx_kind == 'dir_symlinks':
            # links to directories of the project itself (sorting before and after their target, relative and
            # absolute, one cycle), to the project root, and to a directory outside the project
            os.symlink('src', var + '/0-link-before')
            os.symlink('src', var + '/zz-link-after')
            os.symlink('../src', var + '/aa/vendored')
            os.symlink(var + '/src/zz', var + '/aa/abs-link')
            os.symlink('..', var + '/src/zz/up')
            os.symlink(var, var + '/aa/root-link')
            outside = '%s/outside%d' % (work, i)
            qrun.write_project(outside, [('Out.java', b'class Out { int o = 1 + 2; }')])
            os.symlink(outside, var + '/aa/outside')
            os.symlink('src', var + '/dirlink.java')
        elif ctx_kind == 'file_symlinks':
            os.symlink('Target%d.java' % i, var + '/src/Alias.java')
            os.symlink(var + '/' + F[0], var + '/aa/AbsAlias.java')
            os.symlink('../aa/First.java', var + '/src/0First.java')
        for d in (base, var):
            for root, dirs, fs in os.walk(d):
                try:
                    os.chmod(root, os.stat(root).st_mode | 0o055) if os.stat(root).st_mode & 0o700 else None
                except OSError:
                    pass
        os.chmod(work, 0o755)
        outs = {}
        for name, d in (('alone', base), ('context', var)):
            o = '%s/dump_%s_%d.txt' % (work, name, i)
            open(o, 'w').close()
            os.chmod(o, 0o666)
            # the project path is spelled differently from pair to pair: absolute, relative, with a trailing slash,
            # with a `..` component, with `./`
            spelled, cwd_ = d, None
            if name == 'context' and not child_as_nobody:
                sp = i % 5
                bn = os.path.basename(d)
                spelled, cwd_ = [(d, None), (bn, work), (d + '/', None), (d + '/../' + bn, None), ('./' + bn, work)][sp]
                stats['spelling_%d' % sp] += 1
            cmd = [B + '/harness', 'init-dump', spelled, o]
            if ctx_kind == 'changing' and name == 'context':
                spelled = d
                cmd = [B + '/harness', 'init-dump-mutate', d, o, '%s/mutate%d.plan' % (work, i)]
            if child_as_nobody and name == 'context':
                cmd = ['setpriv', '--reuid=65534', '--regid=65534', '--clear-groups'] + cmd
            if ctx_kind == 'crowd' and name == 'context':
                rc, so, se = run_env(cmd, ('64 open files', {}, 64), timeout=300, base=dict(ENV, HOME=work), cwd=cwd_)
            else:
                rc, so, se = run(cmd, timeout=300, env=dict(ENV, HOME=work), cwd=cwd_)
            if rc != 0:
                res.tie_broken.append('init-dump failed (%s, %s): %s' % (ctx_kind, name, se.decode(errors='replace')[-200:]))
                return stats, samples
            outs[name] = [l.rstrip('\n') for l in open(o)]
        # what is reported for F: entities whose file is F's path (paths differ by the project root)
        def for_file(lines, root, rel=None):
            # the entity's file is the path as walked from the project path AS SPELLED: compare by the real path
            rel = rel or F[0]
            target = os.path.realpath(os.path.join(root, rel))
            nodes = []
            for l in lines:
                if not l.startswith('NODE '):
                    continue
                m_ = re.search(r' file=x([0-9a-f]*) ', l)
                fpath = bytes.fromhex(m_.group(1)).decode('utf-8', 'surrogateescape') if m_ else ''
                if not os.path.isabs(fpath):
                    fpath = os.path.join(work, fpath)
                if os.path.normpath(fpath) == os.path.normpath(os.path.join(root, rel)) and os.path.realpath(fpath) == target:
                    nodes.append(l.replace(m_.group(0), ' file=FILE '))
            return sorted(nodes)
        # identities contain the path, so compare the projected observables (everything but id)
        def strip_id(l):
            return re.sub(r'^NODE id=[0-9a-f]+ ', 'NODE ', l)
        a = sorted(strip_id(l) for l in for_file(outs['alone'], base))
        b = sorted(strip_id(l) for l in for_file(outs['context'], var))
        stats['pairs'] += 1
        stats['ctx_' + ctx_kind] += 1
        stats['entities_of_F'] += len(a)
        if a != b:
            only_a = [l for l in a if l not in set(b)][:1]
            only_b = [l for l in b if l not in set(a)][:1]
            res.violations.append(dict(property='C08', what='what is reported for a file changes with its siblings (context: %s)' % ctx_kind,
                                       file=F[0], content=F[1].decode('utf-8', 'replace'), context=[(p, d.decode('utf-8', 'replace')) for p, d in ctx],
                                       alone=len(a), with_context=len(b), only_alone=only_a, only_context=only_b,
                                       how='graph.Initialize on the directory with and without the context files (as uid 65534 for permission faults); entities with File = the target compared'))
        if ctx_kind == 'same_names':
            # the same question for every OTHER file of this context: which of several equally named files is the
            # one that suffers depends on the spelling of the project path, so each of them is the target once
            for cj, (crel, cdata) in enumerate(ctx):
                alone_d = '%s/b%d_%d' % (work, i, cj)
                qrun.write_project(alone_d, [(crel, cdata)])
                o = '%s/dump_alone_%d_%d.txt' % (work, i, cj)
                rc, so, se = run([B + '/harness', 'init-dump', alone_d, o], timeout=300, env=dict(ENV, HOME=work))
                if rc != 0:
                    res.tie_broken.append('init-dump failed (same_names, alone %s): %s' % (crel, se.decode(errors='replace')[-200:]))
                    return stats, samples
                a2 = sorted(strip_id(l) for l in for_file([l.rstrip('\n') for l in open(o)], alone_d, crel))
                b2 = sorted(strip_id(l) for l in for_file(outs['context'], var, crel))
                stats['pairs'] += 1
                stats['same_names_targets'] += 1
                stats['entities_of_F'] += len(a2)
                if a2 != b2:
                    res.violations.append(dict(property='C08', what='what is reported for a file changes with its siblings (context: same_names, target %s)' % crel,
                                               file=crel, content=cdata.decode('utf-8', 'replace'), context=[(F[0], F[1].decode('utf-8', 'replace'))] + [(p_, d_.decode('utf-8', 'replace')) for p_, d_ in ctx if p_ != crel],
                                               alone=len(a2), with_context=len(b2), only_alone=[l for l in a2 if l not in set(b2)][:1], only_context=[l for l in b2 if l not in set(a2)][:1],
                                               how='graph.Initialize on the directory with and without the context files; entities with File = the target compared'))
                shutil.rmtree(alone_d, ignore_errors=True)
        if i < 2:
            samples.append(dict(context=ctx_kind, target=F[0], entities=len(a)))
        # restore permissions so the scratch tree can be removed
        for root, dirs, fs in os.walk(var):
            for x in dirs + fs:
                try:
                    os.chmod(os.path.join(root, x), 0o755)
                except OSError:
                    pass
        if ctx_kind in ('unreadable_file', 'unreadable_dir'):
            try:
                os.chmod(var + '/src/zz', 0o755)
                os.chmod(var + '/src/zz/Sib.java', 0o644)
            except OSError:
                pass
        shutil.rmtree(base, ignore_errors=True)
        shutil.rmtree(var, ignore_errors=True)
    return stats, samples


def check_walk(tier, seed, res, work, stats):
    """file discovery: the extracted get_files (Scan/Merge.v) against the real graph.getFiles on generated
    directory trees with mixed extensions, nested directories and unreadable directories (real chmod, as uid 65534)"""
    rng = random.Random('walk/%d' % seed)
    names_f = ['A.java', 'b.java', 'C.JAVA', 'd.jav', 'java', 'e.java.txt', '.hidden.java', 'f g.java', 'Z.java', 'ü.java', 'x.y.java', 'noext']
    names_d = ['src', 'a', 'b.java', 'Zed', 'deep', 'x y']
    for trial in range(40 if tier == 'quick' else 600):
        root = '%s/w%d' % (work, trial)
        def gen(depth):
            kids = []
            for nm in rng.sample(names_f, rng.randint(0, 5)):
                kids.append(('F', nm))
            if depth < 3:
                for nm in rng.sample(names_d, rng.randint(0, 3)):
                    if nm not in [k[1] for k in kids]:
                        kids.append(('D', nm, rng.random() < 0.8, gen(depth + 1)))
            return sorted(kids, key=lambda k: k[1].encode('utf-8'))
        root_readable = rng.random() < 0.93
        tree = ('D', os.path.basename(root), root_readable, gen(0))
        def mk(path, node):
            if node[0] == 'F':
                open(path, 'wb').write(b'class X {}')
                os.chmod(path, 0o644)
            else:
                os.makedirs(path, exist_ok=True)
                for k in node[3]:
                    mk(os.path.join(path, k[1]), k)
        mk(root, tree)
        def perms(path, node):
            if node[0] == 'D':
                for k in node[3]:
                    perms(os.path.join(path, k[1]), k)
                os.chmod(path, 0o755 if node[2] else 0o000)
        perms(root, tree)
        out = '%s/walk_%d.out' % (work, trial)
        open(out, 'w').close(); os.chmod(out, 0o666)
        rc, o, e = run(['setpriv', '--reuid=65534', '--regid=65534', '--clear-groups', B + '/harness', 'getfiles', root, out], timeout=60, env=dict(ENV, HOME=work))
        impl = open(out).read().strip()
        lines = []
        def ser(node):
            if node[0] == 'F':
                lines.append('F x' + node[1].encode('utf-8').hex())
            else:
                lines.append('D x%s %d %d' % (node[1].encode('utf-8').hex(), 1 if node[2] else 0, len(node[3])))
                for k in node[3]:
                    ser(k)
        ser(tree)
        pm = subprocess.run([B + '/model', 'walk', 'x' + root.encode('utf-8').hex()], input=('\n'.join(lines) + '\n').encode(), capture_output=True, timeout=60)
        model = pm.stdout.decode().strip()
        stats['walk_trees'] += 1
        impl_c = 'ERROR' if impl.startswith('ERROR') else impl
        if impl_c != model:
            if not any('getFiles' in t for t in res.tie_broken):
                res.tie_broken.append('correspondence (file discovery): model get_files differs from graph.getFiles on tree %d: impl=%s model=%s' % (trial, impl_c[:200], model[:200]))
        # oracle (independent of the model): exactly the regular files named *.java below readable directories
        exp = []
        def walk(path, node, ok):
            if node[0] == 'F':
                if ok and os.path.splitext(node[1])[1] == '.java':
                    exp.append(path)
            else:
                for k in node[3]:
                    walk(os.path.join(path, k[1]), k, ok and node[2])
        walk(root, tree, True)
        if impl.startswith('FILES'):
            got = [bytes.fromhex(x[1:]).decode('utf-8') for x in __import__('re').findall(r'x[0-9a-f]*', impl[6:])]
            if sorted(got) != sorted(exp):
                res.violations.append(dict(property='C08', what='file discovery does not yield exactly the .java files below readable directories',
                                           missing=[x for x in exp if x not in got][:3], extra=[x for x in got if x not in exp][:3], tree=lines[:60],
                                           how='graph.getFiles on the directory tree (as a non-root user)'))
        elif root_readable and impl.strip() == '':
            # the non-root child could not even start in this scratch location (e.g. a scratch directory below a
            # directory uid 65534 may not enter): nothing was observed
            stats['walk_unobservable'] += 1
            if not any('non-root' in str(n_) for n_ in res.notes):
                res.notes.append('file discovery as a non-root user could not be observed in this scratch location')
        elif root_readable:
            res.violations.append(dict(property='C08', what='file discovery failed although the root is readable', tree=lines[:60], detail=impl[:200]))
        subprocess.run(['chmod', '-R', 'u+rwx', root], capture_output=True)
        shutil.rmtree(root, ignore_errors=True)


def check(pid, tier, seed, t0, st, replay):
    res = Result(pid)
    gate = source_gate()
    if gate:
        res.tie_broken.append('source gate: ' + '; '.join(gate[:3]))
    obl = check_obligations(['Properties/%s.v' % pid])
    for k in ('ocaml', 'harness'):
        if st.get(k, 1) != 0:
            res.tie_broken.append('build step %s failed' % k)
    work = scratch('mg-' + pid, deterministic='%s-%d' % (tier, seed))
    os.chmod(work, 0o755)
    try:
        if st.get('harness', 1) == 0 and st.get('ocaml', 1) == 0:
            stats, samples = (check_c07 if pid == 'C07' else check_c08)(pid, tier, seed, res, work)
            if pid == 'C08':
                check_walk(tier, seed, res, work, stats)
            res.coverage.update(dict(
                evaluations=stats.get('runs', 0) + stats.get('pairs', 0),
                distinct_nontrivial=stats.get('distinct_observed_orders', 0) + stats.get('pairs', 0),
                rule=('C07: generated projects (0..N files, identical fragments and a byte-identical copy in different files); every permutation of arrival orders for <= 4 files, sampled window orders beyond (forced through the verif hooks), random per-file delays, GOMAXPROCS in {1,2,4,16}; all canonical dumps must coincide, equal the extracted Coq collect of the observed per-file graphs and the union of per-file builder results; distinct = distinct observed arrival orders'
                      if pid == 'C07' else
                      'C08: pairs (file F, context) with contexts: copies of F, files sharing fragments, malformed/empty/binary files, unreadable file, unreadable directory (real permission faults, scan run as uid 65534), dangling symlinks, extension decoys; entities reported for F with and without the context compared on every field but the identity'),
                stats=dict(stats), samples=samples))
    except Exception:
        import traceback
        res.tie_broken.append('campaign crashed: ' + traceback.format_exc()[-500:])
    finally:
        subprocess.run(['chmod', '-R', 'u+rwx', work], capture_output=True)
        shutil.rmtree(work, ignore_errors=True)
    res.assumptions = ['the semantics of goroutines, buffered channels, close, range, select and wait groups is written by hand once, generically, from the Go specification (Scan/SkelSem.v); the program it is applied to is extracted from graph.Initialize on every run, and Scan/Pool.v is PROVED a sound and complete abstraction of that program under that semantics (SkelSim.v, SkelTerm.v, SkelCompl.v); the Go runtime implementing that semantics, scheduler fairness and the memory model are outside; tied to the code by forced-order and jittered runs',
                       'kernel permission semantics and symlink resolution are exercised, not modelled',
                       'hypothesis keys_distinct (no identity shared by two files) is evaluated on every campaign project']
    return finish(pid, tier, seed, t0, res, obl)
