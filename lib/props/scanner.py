"""Checks for the scanner-side properties C03 C04 C05 C06 C09 (model: coq/theories/Scan/Build.v)."""
import base64, json, os, random, re, shutil, time
from collections import Counter
from common import *
import scan, javagen

SIZES = {  # tier -> (family, mutants, raw)
    'quick': dict(C03=(150, 150, 60), C04=(120, 200, 120), C05=(200, 0, 0), C06=(200, 0, 0), C09=(60, 400, 300)),
    'thorough': dict(C03=(1500, 2000, 500), C04=(1200, 3000, 1500), C05=(3000, 0, 0), C06=(3000, 0, 0), C09=(500, 8000, 4000)),
}

_hex = re.compile(r'x[0-9a-f]*|~')


def toks(s):
    return [None if t == '~' else bytes.fromhex(t[1:]).decode('utf-8', 'replace') for t in _hex.findall(s)]


def lst(s):
    return [t for t in toks(s)]


def nows(s):
    return re.sub(r'\s+', '', s) if s is not None else None


def doc_tags(s):
    if s == '~':
        return None
    m = re.match(r'\{tags=\[(.*)\];author=', s)
    t = toks(m.group(1))
    return [(t[i], t[i + 1]) for i in range(0, len(t), 3)]


def index_nodes(rec):
    idx = {}
    for n in rec.get('impl_nodes', []):
        key = (bytes.fromhex(n['type'][1:]).decode(), int(n['line']), bytes.fromhex(n['snippet'][1:]))
        idx.setdefault(key, []).append(n)
    return idx


def find(idx, kind, t):
    l = idx.get((kind, t['line'], t['text'].encode('utf-8')))
    return l[0] if l else None


def s1(n, k):
    return toks(n[k])[0] if n[k] != 'x' else ''


def comment_between_parts(kind, text):
    """D43: does the construct's own text carry a comment among its direct parts (outside nested
    parentheses/braces and outside string and character literals)?  kind 'block': directly inside the braces;
    'for': also inside the header's parentheses."""
    if kind in ('break', 'continue', 'binary'):
        return False          # these are read by searching the children / by field name: comments do not disturb them
    limit = {'block': 1, 'for': 1, 'call': 1, 'new': 1}.get(kind, 0)
    if kind == 'class':
        text = text.split('{', 1)[0]          # the header; the body is the members' business
    if kind == 'method':
        text = text.split('{', 1)[0]
    depth, i, n = 0, 0, len(text)
    while i < n:
        ch = text[i]
        if ch == '"' or ch == "'":
            j = i + 1
            while j < n and text[j] != ch:
                j += 2 if text[j] == '\\' else 1
            i = j + 1
            continue
        if text.startswith('/*', i) or text.startswith('//', i):
            if depth <= limit:
                return True
            j = text.find('*/', i + 2) if text.startswith('/*', i) else text.find('\n', i)
            i = n if j < 0 else j + 2
            continue
        if ch in '({[':
            depth += 1
        elif ch in ')}]':
            depth -= 1
        i += 1
    return False


def split_known(bad, truth_by_line, known):
    """moves the failures explained by D43 (a comment between the parts of the construct) out of `bad`"""
    keep = []
    for b in bad:
        kind = b[0].split('-')[0]
        line = b[1] if isinstance(b[1], int) else (b[2] if len(b) > 2 and isinstance(b[2], int) else None)
        ts = [t for t in truth_by_line.get(line, []) if t['kind'] == kind or (kind == 'binary' and t['kind'] == 'binary')]
        if ts and any(comment_between_parts(t['kind'], t['text']) for t in ts):
            known['D43-comment-child'] += 1
            if os.environ.get('VERIF_DEBUG_D43'):
                print('D43', json.dumps(b, default=str)[:600])
        else:
            keep.append(b)
    return keep


def oracle_decl_attrs(rec):
    """C05: classes, methods, variables vs generator ground truth. -> list of failures"""
    bad = []
    idx = index_nodes(rec)
    cnt = Counter()
    for t in rec['case'].get('truth', []):
        if t['kind'] == 'class':
            n = find(idx, 'class_declaration', t)
            if not n:
                continue
            cnt['class'] += 1
            got = dict(name=s1(n, 'name'), vis=s1(n, 'mod'), sup=s1(n, 'super'), ifaces=lst(n['iface']), annots=lst(n['annot']))
            exp = dict(name=t['name'], vis=t['vis'], sup=t['sup'], ifaces=t['ifaces'], annots=t['annots'])
            if got != exp:
                bad.append(('class-attrs', t['line'], exp, got))
            dt = doc_tags(n['doc'])
            et = t['doc']['tags'] if t['doc'] else None
            if (dt is None) != (et is None) or (dt is not None and [tuple(x) for x in et] != dt):
                bad.append(('class-javadoc', t['line'], et, dt))
        elif t['kind'] == 'method':
            n = find(idx, 'method_declaration', t)
            if not n:
                continue
            cnt['method'] += 1
            got = dict(name=s1(n, 'name'), vis=s1(n, 'mod'), ret=s1(n, 'ret'), ptypes=lst(n['argt']), pnames=lst(n['argv']),
                       throws=lst(n['throws']), annots=lst(n['annot']))
            exp = {k: t[k] for k in ('name', 'vis', 'ret', 'ptypes', 'pnames', 'throws', 'annots')}
            if got != exp:
                bad.append(('method-attrs', t['line'], exp, got))
            dt = doc_tags(n['doc'])
            et = t['doc']['tags'] if t['doc'] else None
            if (dt is None) != (et is None) or (dt is not None and [tuple(x) for x in et] != dt):
                bad.append(('method-javadoc', t['line'], et, dt))
        elif t['kind'] == 'variable':
            n = find(idx, 'variable_declaration', t)
            if not n:
                continue   # lost to an identity collision: reported by C03 as the known finding
            cnt['variable'] += 1
            got = dict(name=s1(n, 'name'), vis=s1(n, 'mod'), dtype=s1(n, 'dtype'), scope=s1(n, 'scope'), init=nows(s1(n, 'value')))
            exp = dict(name=t['name'], vis=t['vis'], dtype=t['dtype'], scope=t['scope'], init=nows(t['init'] or ''))
            if got != exp:
                bad.append(('variable-attrs', t['line'], exp, got))
    by_line = {}
    for t in rec['case'].get('truth', []):
        by_line.setdefault(t['line'], []).append(t)
    known = Counter()
    bad = split_known(bad, by_line, known)
    return bad, cnt, known


def oracle_expr_attrs(rec):
    """C06: calls, object creations, binary expressions, statements. -> (failures, known, counts)"""
    bad, known = [], Counter()
    idx = index_nodes(rec)
    cnt = Counter()
    for t in rec['case'].get('truth', []):
        k = t['kind']
        if k == 'call':
            n = find(idx, 'method_invocation', t)
            if not n:
                bad.append(('call-missing', t['line'], t['text']))
                continue
            cnt[k] += 1
            got = (s1(n, 'name'), lst(n['argv']))
            if got != (t['name'], t['args']):
                bad.append(('call-attrs', t['line'], (t['name'], t['args']), got))
        elif k == 'new':
            n = find(idx, 'ClassInstanceExpr', t)
            if not n:
                bad.append(('new-missing', t['line'], t['text']))
                continue
            cnt[k] += 1
            tk = toks(n['new'])
            got = (tk[0], tk[2::2])
            if got != (t['cls'], t['args']) or s1(n, 'name') != t['cls']:
                bad.append(('new-attrs', t['line'], (t['cls'], t['args']), got))
        elif k == 'binary':
            for kind in ('binary_expression', t['opkind']):
                n = find(idx, kind, t)
                if not n:
                    # D19 (listed for C03): identical binary expressions of one file share an identity, the later
                    # occurrence overwrites the earlier; its attributes are then checked on the survivor
                    twins = [u for u in rec['case'].get('truth', []) if u['kind'] == 'binary' and u['text'] == t['text'] and u['line'] != t['line']]
                    if twins:
                        cnt['binary_lost_to_identity_collision'] += 1
                    else:
                        bad.append(('binary-missing', kind, t['line'], t['text']))
                    continue
                cnt[k] += 1
                got = tuple(toks(n['bin']))
                if got != (t['op'], t['left'], t['right']):
                    bad.append(('binary-attrs', kind, t['line'], (t['op'], t['left'], t['right']), got))
        elif k in ('if', 'while', 'do', 'for', 'break', 'continue', 'yield', 'assert', 'return', 'block'):
            kind = {'if': 'IfStmt', 'while': 'WhileStmt', 'do': 'DoStmt', 'for': 'ForStmt', 'break': 'BreakStmt',
                    'continue': 'ContinueStmt', 'yield': 'YieldStmt', 'assert': 'AssertStmt', 'return': 'ReturnStmt',
                    'block': 'BlockStmt'}[k]
            n = find(idx, kind, t)
            if not n:
                bad.append((k + '-missing', t['line'], t['text'][:60]))
                continue
            cnt[k] += 1
            st = n['stmt']
            tk = toks(st[st.index('('):]) if '(' in st else []
            if k == 'if':
                exp = [t['cond'], t['then'], t['els'] or '']
            elif k in ('while', 'do'):
                exp = [t['cond']]
            elif k == 'for':
                exp = [t['init'], t['cond'], t['update']]
            elif k in ('break', 'continue'):
                exp = [t['label']]
            elif k == 'yield':
                exp = [t['value']]
            elif k == 'assert':
                exp = [t['expr'], t['msg']]
            elif k == 'return':
                exp = [t['result']]
            else:
                exp = t['stmts']
            if not st.startswith(k + '('):
                bad.append((k + '-payload', t['line'], st[:40]))
            elif k == 'block':
                if tk == ['{'] + exp + ['}']:
                    known['D29-block-braces'] += 1
                elif tk != exp:
                    bad.append(('block-attrs', t['line'], exp, tk))
            elif [x if x is not None else None for x in tk] != exp:
                bad.append((k + '-attrs', t['line'], exp, tk))
    by_line = {}
    for t in rec['case'].get('truth', []):
        by_line.setdefault(t['line'], []).append(t)
    bad = split_known(bad, by_line, known)
    return bad, known, cnt


SHAPE_OF_KIND = {'class': 'class', 'method': 'method', 'variable': 'var', 'call': 'call', 'new': 'new', 'binary': 'binary',
                 'if': 'if', 'while': 'while', 'do': 'do', 'for': 'for', 'break': 'break', 'continue': 'continue',
                 'yield': 'yield', 'assert': 'assert', 'return': 'return', 'block': 'block'}
C05_KINDS = ('class', 'method', 'variable')


def dec_attrs(d):
    if d['attrs'] == '~':
        return None
    out = {}
    for part in d['attrs'].split(';'):
        k, _, v = part.partition(':')
        out[k] = [bytes.fromhex(t[1:]).decode('utf-8', 'replace') for t in _hex.findall(v) if t != '~']
    return out


def oracle_spec_vs_truth(rec, kinds):
    """the decoder SPECIFICATION (Scan/Decode.v, by field names) against generator ground truth, and how
    often the shape hypotheses of the C05/C06 theorems hold on real trees. -> (mismatches, counts)"""
    idx = {}
    for d in rec.get('decoded', []):
        idx.setdefault((d['shape'], int(d['line']), bytes.fromhex(d['snippet'][1:])), d)
    bad, cnt = [], Counter()
    one = lambda x: [x] if x not in (None,) else []
    for t in rec['case'].get('truth', []):
        k = t['kind']
        if k not in kinds or k not in SHAPE_OF_KIND:
            continue
        cnt['truth_' + k] += 1
        d = idx.get((SHAPE_OF_KIND[k], t['line'], t['text'].encode('utf-8')))
        if d is None:
            cnt['noshape_' + k] += 1
            continue
        a = dec_attrs(d)
        if a is None:
            cnt['sidecond_' + k] += 1
            continue
        cnt['shaped_' + k] += 1
        doc = [t['doc']['text']] if t.get('doc') else []
        if k == 'method':
            exp = dict(name=[t['name']], ret=[t['ret']], vis=[t['vis']], ptypes=t['ptypes'], pnames=t['pnames'], throws=t['throws'], annots=t['annots'], doc=doc)
        elif k == 'class':
            exp = dict(name=[t['name']], vis=[t['vis']], super=[t['sup']], ifaces=t['ifaces'], annots=t['annots'], doc=doc)
        elif k == 'variable':
            exp = dict(name=[t['name']], dtype=[t['dtype']], scope=[t['scope']], vis=[t['vis']])
            a = dict(a)
            if nows(a.pop('value', [''])[0]) != nows(t['init'] or '') and not comment_between_parts(k, t['text']):
                bad.append((k, t['line'], 'value', t['init'], a))
        elif k == 'call':
            exp = dict(name=[t['name']], args=t['args'])
        elif k == 'new':
            exp = {'class': [t['cls']], 'args': t['args']}
            a = {kk: v for kk, v in a.items() if kk != 'argtypes'}
        elif k == 'binary':
            exp = dict(op=[t['op']], left=[t['left']], right=[t['right']], kinds=[t['opkind'], 'binary_expression'])
        elif k == 'if':
            exp = {'cond': [t['cond']], 'then': [t['then']], 'else': [t['els'] or '']}
        elif k in ('while', 'do'):
            exp = dict(cond=[t['cond']])
        elif k == 'for':
            exp = dict(init=one(t['init']), cond=one(t['cond']), update=one(t['update']))
        elif k in ('break', 'continue'):
            exp = dict(label=[t['label']])
        elif k == 'yield':
            exp = dict(value=[t['value']])
        elif k == 'assert':
            exp = dict(expr=[t['expr']], msg=one(t['msg']))
        elif k == 'return':
            exp = dict(value=one(t['result']))
        else:
            exp = dict(stmts=t['stmts'])
            a = {'stmts': a.get('stmts')}
        if {kk: a.get(kk) for kk in exp} != exp:
            if comment_between_parts(k, t['text']):
                cnt['comment_between_parts_' + k] += 1      # D43 inputs: modifiers text etc. carry the comment
            else:
                bad.append((k, t['line'], exp, {kk: a.get(kk) for kk in exp}))
    return bad, cnt


def disk_attrs(pid, fam, work, tier='quick'):
    """C05/C06 through the real read path: family files are written to disk as regular files, as relative symbolic links
    to files elsewhere in the project, as absolute links to files outside it and as hard links; the project is scanned
    with graph.Initialize and the attribute oracles run on what THAT scan reports for each path. -> (stats, failures)"""
    import shutil
    stats, bad = Counter(), []
    root, outside = work + '/diskattrs', work + '/diskattrs_outside'
    shutil.rmtree(root, ignore_errors=True)
    shutil.rmtree(outside, ignore_errors=True)
    os.makedirs(outside, exist_ok=True)
    expect = {}
    for i, c_ in enumerate(fam):
        mode = ['regular file', 'relative symbolic link', 'absolute symbolic link to a file outside the project', 'hard link'][i % 4]
        d = '%s/u%d' % (root, i)
        os.makedirs(d, exist_ok=True)
        p = '%s/%s.java' % (d, c_['id'])
        if i % 4 == 0:
            open(p, 'wb').write(c_['data'])
        elif i % 4 == 1:
            os.makedirs(root + '/real', exist_ok=True)
            open('%s/real/%s.java' % (root, c_['id']), 'wb').write(c_['data'])
            os.symlink('../real/%s.java' % c_['id'], p)
            expect['%s/real/%s.java' % (root, c_['id'])] = (c_, 'regular file (target of a link)')
        elif i % 4 == 2:
            open('%s/%s.java' % (outside, c_['id']), 'wb').write(c_['data'])
            os.symlink('%s/%s.java' % (outside, c_['id']), p)
        else:
            open('%s/%s.src' % (outside, c_['id']), 'wb').write(c_['data'])
            try:
                os.link('%s/%s.src' % (outside, c_['id']), p)
            except OSError:
                open(p, 'wb').write(c_['data'])
        expect[p] = (c_, mode)
    # large files walked first (what a per-file time or size budget would cut off), so that family files follow them on
    # the same workers
    filler = ('class Big%d {\n' + ''.join('  int f%d = %d + 1;\n' % (k, k) for k in range(4000)) + '}\n')
    bigdir = '0big' if tier != 'thorough' else 'zzbig'      # thorough: the slow files come first and the FAMILY follows them
    for k in range(5):
        os.makedirs('%s/%s' % (root, bigdir), exist_ok=True)
        open('%s/%s/Big%d.java' % (root, bigdir, k), 'w').write(filler % k)
    if tier == 'thorough':
        # files whose PARSE takes seconds (as in the C07/C08/C09 slow-parse contexts), as many as there are workers,
        # walked before everything else: every worker handles ordinary files right after a slow one
        for k in range(5):
            os.makedirs(root + '/00slow', exist_ok=True)
            open('%s/00slow/S%d.java' % (root, k), 'w').write('public class S%d {\n  void before() { int q = %d + 2; }\n  /* ' % (k, k) + '/* x ' * 9000 + '\n')
        stats['slow_parse_files'] = 5
    out = work + '/diskattrs_dump.txt'
    # default environment, then every variable the sources read (the general matrix is applied in the C03 census and the C04/C09 disk stage)
    for ov in [('default', {}, None)] + [o for o in ENV_MATRIX if 'a variable the sources read' in o[0]]:
        rc, so, se = run_env([B + '/harness', 'init-dump', root, out], ov, timeout=900, base=dict(ENV, HOME=work))
        stats['disk_attr_environments'] += 1
        if rc != 0:
            # nothing at all is reported for these declarations: a violation with the environment and the files as input
            bad.append(dict(what='the scan of the family written to disk ends abnormally (rc=%d) in this environment: %s' % (rc, ov[0]), case=None, environment=ov[1], open_files=ov[2],
                            stderr=se.decode(errors='replace')[-400:], files=[(os.path.relpath(p_, root), m_) for p_, (c__, m_) in list(expect.items())[:40]] + [('0big/Big<k>.java', '5 classes with 4000 fields each')]))
            break
        by = {}
        for line in open(out):
            if line.startswith('NODE '):
                n = scan.parse_kv(line.rstrip('\n'))
                by.setdefault(scan.unhx(n['file']).decode('utf-8', 'surrogateescape'), []).append(n)
        nbad = len(bad)
        for p, (c_, mode) in expect.items():
            rec = dict(case=c_, impl_nodes=by.get(p, []))
            stats['disk_attr_files'] += 1
            stats['disk_attr_entities'] += len(rec['impl_nodes'])
            if pid == 'C05':
                b_, _, _ = oracle_decl_attrs(rec)
                # a declaration of the source that is not reported at all cannot mirror it either
                idx = index_nodes(rec)
                b_ = b_ + [('%s-missing' % t['kind'], t['line'], t.get('name')) for t in c_.get('truth', []) if t['kind'] in ('class', 'method')
                           and not find(idx, 'class_declaration' if t['kind'] == 'class' else 'method_declaration', t)][:2]
                # ... and what IS reported for the file must be one of its declarations
                names = set(t.get('name') for t in c_.get('truth', []) if t['kind'] in ('class', 'method'))
                alien = [(scan.unhx(n['type']).decode(), scan.unhx(n['name']).decode('utf-8', 'replace')) for n in rec['impl_nodes']
                         if scan.unhx(n['type']).decode() in ('class_declaration', 'method_declaration') and scan.unhx(n['name']).decode('utf-8', 'replace') not in names]
                if alien and names:
                    b_ = b_ + [('declaration-not-in-source',) + alien[0]]
            else:
                b_, known, _ = oracle_expr_attrs(rec)
            if b_:
                bad.append(dict(what='attributes reported for a file read from disk (%s; environment: %s) differ from its source' % (mode, ov[0]), case=c_, detail=b_[:3] + [dict(environment=ov[1], open_files=ov[2])]))
                break
        if len(bad) > nbad:
            break
    return stats, bad


def replay_payload(pid, case, what, detail):
    return dict(property=pid, what=what, detail=detail, path=case['path'], origin=case['origin'],
                data_b64=base64.b64encode(case['data']).decode(),
                how='bin/check %s --replay <this file>: scans the bytes under the given path with the real builder and re-applies the oracle' % pid)


def run_oracles(pid, recs, res, cst):
    stats = Counter()
    kinds = Counter()
    for cid, r in recs.items():
        c = r['case']
        if 'impl_nodes' not in r:
            continue
        stats['files'] += 1
        stats['entities'] += len(r['impl_nodes'])
        for n in r['impl_nodes']:
            kinds[bytes.fromhex(n['type'][1:]).decode()] += 1
        if pid == 'C09' and r.get('build_ms', 0) > 3000 and len(c['data']) < 200000:
            stats['stalls'] += 1
            res.violations.append(replay_payload(pid, c, 'building the graph for a %d-byte file took %d ms' % (len(c['data']), r['build_ms']), 'stall'))
        if r.get('impl_outcome') == 'stall':
            stats['stalls'] += 1
            if pid == 'C09':
                res.violations.append(replay_payload(pid, c, 'building the graph for a %d-byte file did not finish within 40 s' % len(c['data']), 'stall'))
            else:
                if not any('stalled' in t for t in res.tie_broken):
                    res.tie_broken.append('the builder stalled (> 40 s) on a %d-byte input of the campaign: case %s' % (len(c['data']), c['id']))
            continue
        if r['impl_outcome'] == 'panic':
            stats['impl_panics'] += 1
            if pid == 'C09':
                res.violations.append(replay_payload(pid, c, 'builder panicked', r.get('panic_site', '')))
            continue
        if pid in ('C04', 'C09'):
            bad = scan.oracle_location(r)
            stats['locations_checked'] += len(r['impl_nodes'])
            if bad:
                res.violations.append(replay_payload(pid, c, 'entity location does not denote source text', bad[:3]))
        if pid == 'C03':
            viol, known, s = scan.oracle_census(r, cst[cid])
            stats['occurrences_expected'] += s['expected']
            if known:
                res.known_hits.setdefault('D19', Counter()).update(known)
            if viol:
                res.violations.append(replay_payload(pid, c, 'entity census differs from the parse tree', viol[:3]))
        if pid in ('C05', 'C06') and c['origin'] == 'family':
            kinds_ = C05_KINDS if pid == 'C05' else tuple(k for k in SHAPE_OF_KIND if k not in C05_KINDS)
            sbad, scnt = oracle_spec_vs_truth(r, kinds_)
            stats.update({'spec_' + k: v for k, v in scnt.items()})
            if sbad and not any('decoder specification' in t for t in res.tie_broken):
                res.tie_broken.append('the decoder specification (Scan/Decode.v) disagrees with generator ground truth: %s' % str(sbad[0])[:400])
        if pid == 'C05' and c['origin'] == 'family':
            bad, cnt, known5 = oracle_decl_attrs(r)
            stats.update({'decl_' + k: v for k, v in cnt.items()})
            if known5:
                res.known_hits.setdefault('D43', Counter()).update(known5)
            if bad:
                res.violations.append(replay_payload(pid, c, 'declaration attributes differ from the source', bad[:3]))
        if pid == 'C06' and c['origin'] == 'family':
            bad, known, cnt = oracle_expr_attrs(r)
            stats.update({'occ_' + k: v for k, v in cnt.items()})
            if known.get('D29-block-braces'):
                res.known_hits.setdefault('D29', Counter()).update({'D29-block-braces': known['D29-block-braces']})
            if known.get('D43-comment-child'):
                res.known_hits.setdefault('D43', Counter()).update({'D43-comment-child': known['D43-comment-child']})
            if bad:
                res.violations.append(replay_payload(pid, c, 'expression/statement attributes differ from the source', bad[:3]))
    return stats, kinds


def check(pid, tier, seed, t0, st, replay):
    res = Result(pid)
    gate = source_gate()
    if gate:
        res.tie_broken.append('source gate: ' + '; '.join(gate[:3]))
    obl = check_obligations(['Properties/%s.v' % pid])
    for k in ('translator', 'ocaml', 'harness'):
        if st.get(k, 1) != 0:
            res.tie_broken.append('build step %s failed (see .build/%s.log)' % (k, k))
    work = scratch('scan-' + pid, deterministic='%s-%d' % (tier, seed))
    try:
        if st.get('harness', 1) == 0 and st.get('ocaml', 1) == 0:
            if replay and 'data_b64' not in json.load(open(replay)):
                d = json.load(open(replay))
                if d.get('files') and d.get('query'):
                    # a query-level finding (lib/objview.py): scan the files, run the query, show what it answers
                    proj = work + '/replayproj'
                    for nm, txt in d['files']:
                        os.makedirs(proj, exist_ok=True)
                        open(os.path.join(proj, nm), 'wb').write(txt.encode('utf-8', 'surrogateescape'))
                    import qrun
                    r_, _ = qrun.run_queries(proj, [('replay', d['query'])], work + '/replayq')
                    print('replay: %s -> %s' % (d['query'], str(r_.get('replay'))[:600]))
                    print('recorded: %s' % json.dumps(d.get('detail'))[:600])
                else:
                    print('replay file names no input (%s); running the whole check instead' % ', '.join(sorted(d))[:200])
                replay = None
            if replay:
                d = json.load(open(replay))
                cases = [dict(id='replay', path=d['path'], data=base64.b64decode(d['data_b64']), origin=d.get('origin', 'replay'))]
                if d.get('origin') == 'family':
                    cases[0]['origin'] = 'replay'
            else:
                nf, nm, nr = SIZES[tier][pid]
                cases = scan.make_inputs(seed, nf, nm, nr, with_android=(pid in ('C03', 'C04', 'C09')))
                if pid not in ('C06', 'C09'):
                    cases = [c_ for c_ in cases if c_['id'] != 'deep540']      # the 540-level file is costly for the model: C06 / C09 only
            ex = scan.execute(cases, work)
            if 'error' in ex:
                res.tie_broken.append('campaign could not run: ' + ex['error'])
            else:
                cst = scan.parse_cases_cst(work + '/cases.txt') if pid == 'C03' else None
                stats, kinds = run_oracles(pid, ex['recs'], res, cst)
                if pid in ('C05', 'C06') and not replay:
                    # the same attributes as a user reads them: through queries on the model objects
                    import objview
                    fam_ = [c_ for c_ in cases if c_['origin'] == 'family']
                    ostats, obad = objview.check(pid, fam_[:25 if tier == 'quick' else 200] + fam_[-12:], work, B + '/harness')
                    stats.update(ostats)
                    dstats_, dbad_ = disk_attrs(pid, fam_[:24 if tier == 'quick' else 200], work, tier)
                    stats.update(dstats_)
                    for b_ in dbad_[:3]:
                        if b_.get('case'):
                            res.violations.append(replay_payload(pid, b_['case'], b_['what'], b_['detail']))
                        else:
                            res.violations.append(dict(property=pid, what=b_['what'], environment=b_.get('environment'), open_files_limit=b_.get('open_files'), stderr=b_.get('stderr'), files=b_.get('files'),
                                                       how='write the family files (bin/check %s regenerates them from VERIF_SEED) as described, set the variables, run graph.Initialize on the directory' % pid))
                    pstats, pbad = objview.check_pairs(pid, fam_[:4] + fam_[-3:], work, B + '/harness', 10 if tier == 'quick' else 120, seed)
                    stats.update(pstats)
                    obad = obad + pbad
                    for b_ in obad[:5]:
                        res.violations.append(dict(property=pid, what=b_['what'], query=b_.get('query'), detail=b_.get('detail'),
                                                   how='scan the listed family files and run the query with `pathfinder query --output json`',
                                                   files=[(c_['id'] + '.java', c_['data'].decode('utf-8', 'replace')) for c_ in (fam_[:25] + fam_[-12:])][:40]))
                if pid == 'C03' and not replay:
                    # whole-project census with byte-identical copies and a hard link
                    cstats, cbad = scan.disk_census(cases, ex['recs'], work, B + '/harness', 12 if tier == 'quick' else 80)
                    stats.update(cstats)
                    for b_ in cbad[:5]:
                        if 'case' in b_:
                            res.violations.append(replay_payload(pid, b_['case'], b_['what'], b_['detail']))
                        else:
                            res.violations.append(dict(property=pid, what=b_['what'], detail=b_.get('detail')))
                if pid in ('C04', 'C09') and res.violations:
                    # a violation is established already (e.g. the builder stalls on an input): the disk stage would run
                    # into the same thing under every environment, one watchdog period at a time
                    res.notes.append('disk stage skipped: a violation was found on the in-memory inputs already')
                elif pid in ('C04', 'C09'):
                    # the same inputs through the real read path (readFile -> parser -> builder -> merge)
                    dstats, dbad = scan.disk_locations(cases, work, B + '/harness')
                    stats.update({'disk_' + k: v for k, v in dstats.items()})
                    for b_ in dbad[:5]:
                        if 'case' in b_:
                            res.violations.append(replay_payload(pid, b_['case'], b_['what'] + ' (scanned from disk with graph.Initialize)', b_['detail']))
                        else:
                            res.violations.append(dict(property=pid, what=b_['what'], detail=b_.get('file', '')))
                if pid == 'C04':
                    # text mode: what is printed next to each line number, under every line-ending convention
                    import engine
                    lfiles = engine.listing_files() + [('fam/%s/%s' % (c_['id'], os.path.basename(c_['path'])), c_['data']) for c_ in cases if c_['origin'] == 'family' and len(c_['data']) < 20000][:6 if tier == 'quick' else 60]
                    if replay:
                        lfiles = [('replay/' + os.path.basename(c_['path']), c_['data']) for c_ in cases]
                    lstats, lviol, ldis = engine.text_listing(lfiles, work)
                    stats.update(lstats)
                    for v_ in lviol[:3]:
                        res.violations.append(dict(property=pid, what=v_['what'], detail=v_['detail'], path=v_['file'], origin='listing', data_b64=base64.b64encode(v_['data']).decode(),
                                                   how='scan a directory holding this file and run the query named in detail with --output text'))
                    if ldis and not any('text report' in t for t in res.tie_broken):
                        res.tie_broken.append('text report vs Engine/Render.v: ' + ldis[0][:400])
                notwf = [cid for cid, r in ex['recs'].items() if r.get('wf') is False]
                if notwf:
                    res.tie_broken.append('cst_wfb (assumption about tree-sitter) false on %d trees, e.g. %s' % (len(notwf), notwf[0]))
                if ex['disagreements']:
                    d0 = ex['disagreements'][0]
                    res.tie_broken.append('correspondence model/implementation: %d disagreements, first: case %s %s %s' % (len(ex['disagreements']), d0[0], d0[1], d0[2][:300]))
                    # keep the disagreeing input for replay
                    c0 = ex['recs'][d0[0]]['case']
                    res.notes.append({'first_disagreeing_input': replay_payload(pid, c0, 'model/implementation disagreement', d0[2][:500])})
                if pid in ('C05', 'C06') and st.get('javaoracle', 1) == 0:
                    # the family's files are real Java: the JDK's own parser accepts every one of them
                    fam = [c_ for c_ in cases if c_['origin'] == 'family']
                    paths = []
                    for c_ in fam:
                        pth = os.path.join(work, 'jv_%s.java' % c_['id'])
                        open(pth, 'wb').write(c_['data'])
                        paths.append(pth)
                    nbad = 0
                    for i in range(0, len(paths), 400):
                        rc_, o_, e_ = run(['java', '-cp', B + '/javaoracle', 'JavaOracle'] + paths[i:i + 400], timeout=900)
                        bad_ = [l for l in o_.decode(errors='replace').splitlines() if l.startswith('SYNTAX')]
                        nbad += len(bad_)
                        if bad_ and not any('JDK parser' in t for t in res.tie_broken):
                            res.tie_broken.append('generator ground truth is not valid Java (JDK parser): ' + bad_[0][:300])
                    res.coverage['javac_parse_validated'] = dict(files=len(paths), syntax_errors=nbad)
                if pid in ('C05', 'C06'):
                    tr = sum(v for k, v in stats.items() if k.startswith('spec_truth_'))
                    sh = sum(v for k, v in stats.items() if k.startswith('spec_shaped_'))
                    res.coverage['shape_hypothesis_satisfied'] = round(sh / tr, 4) if tr else 0
                    if tr and sh / tr < 0.9:
                        res.tie_broken.append('the shape hypotheses of the %s theorems hold on only %.0f%% of the family\'s occurrences' % (pid, 100.0 * sh / tr))
                origins = Counter(c['origin'] for c in cases)
                sizes = sorted(len(c['data']) for c in cases)
                res.coverage.update(dict(
                    evaluations=len(cases), distinct_nontrivial=len(set(c['data'] for c in cases if len(c['data']) > 10)),
                    rule='inputs: generated Java family with ground truth (lib/javagen.py), bundled android sample, token-level mutants, raw byte strings; each (path, bytes, tree-sitter CST) is given to the real builder and to the extracted Coq model and every Node field, identity (SHA-256 of the model pre-image) and edge is compared; non-trivial = distinct content longer than 10 bytes',
                    input_distribution=dict(origins=dict(origins), bytes_min=sizes[0], bytes_median=sizes[len(sizes) // 2], bytes_max=sizes[-1]),
                    entity_kinds=dict(kinds), oracle_stats=dict(stats), correspondence_disagreements=len(ex['disagreements']),
                    samples=[dict(path=c['path'], origin=c['origin'], head=c['data'][:160].decode('utf-8', 'replace')) for c in cases[:2] + cases[-1:]]))
                if pid == 'C09':
                    scaling(res, work, tier)
    finally:
        shutil.rmtree(work, ignore_errors=True)
    res.assumptions = ['tree-sitter and its Java grammar are modelled, not verified: they enter as the CST value; cst_wfb (byte ranges nested/in bounds, row = number of newlines before the start byte) is evaluated on every tree seen',
                       'SHA-256 collision freedom (identities compared through their pre-images)',
                       'uint32 line arithmetic does not wrap (files below 2^32 lines)']
    hits = {}
    for sig, c in res.known_hits.items():
        if sig == 'D19':
            hits[sig] = 'within-file identity collision (identity has no position) for kinds %s: %d occurrences lost [pinned by TestBuildGraphFromAST]' % (sorted(c), sum(c.values()))
        elif sig == 'D29':
            hits[sig] = 'BlockStmt statements include the brace tokens: %d blocks [pinned by TestParseBlockStatement]' % sum(c.values())
        elif sig == 'D43':
            hits[sig] = 'a comment written between the parts of a declaration or statement is taken for one of the parts (attributes read by child position): %d constructs' % sum(c.values())
    listed = {k['signature'] for k in known_findings(pid) if k.get('status') == 'known'}
    for sig in list(hits):
        if sig not in listed:
            res.violations.append(dict(property=pid, what='finding %s is not listed in known_findings.jsonl' % sig, detail=hits[sig]))
            del hits[sig]
    res.known_hits = hits
    return finish(pid, tier, seed, t0, res, obl)


def scaling(res, work, tier):
    """C09 cost: k methods x c calls at sizes n, 3n, 9n; CPU time of the real builder per file."""
    import subprocess, resource
    times = []
    for k in (40, 120, 360):
        body = ''.join('  void m%d() { %s }\n' % (i, ' '.join('m%d(%d);' % ((i + j) % k, j) for j in range(4))) for i in range(k))
        src = ('class Big {\n' + body + '}\n').encode()
        fp = os.path.join(work, 'big%d.java' % k)
        open(fp, 'wb').write(src)
        open(work + '/biglist.txt', 'w').write('big x%s %s\n' % (b'Big.java'.hex(), fp))
        t = time.time()
        rc, out, err = run([B + '/harness', 'scan-dump', work + '/biglist.txt', work + '/bigcases.txt', work + '/bigimpl.txt'], timeout=600)
        dt = time.time() - t
        times.append((len(src), round(dt, 3), rc))
    res.coverage['scaling'] = [dict(bytes=a, wall_s=b, rc=c) for a, b, c in times]
    # nesting family: a local declaration followed by code nested d levels deep (calls, parentheses,
    # blocks, binary operators); small files that must scan in milliseconds at every depth
    nest = []
    for d in (6, 12, 24, 48):
        def nested(kind):
            if kind == 'call':
                return 'return ' + 'f(' * d + 'v' + ')' * d + ';'
            if kind == 'paren':
                return 'return ' + '(' * d + 'v' + ')' * d + ';'
            if kind == 'binary':
                return 'return ' + '(1 + ' * d + 'v' + ')' * d + ';'
            return '{' * d + ' g(v); ' + '}' * d + ' return v;'
        for kind in ('call', 'paren', 'binary', 'block'):
            src = ('class N { int m(int v) { int unused = 0; String other = "s"; %s } }\n' % nested(kind)).encode()
            fp = os.path.join(work, 'nest.java')
            open(fp, 'wb').write(src)
            open(work + '/nestlist.txt', 'w').write('n x%s %s\n' % (b'N.java'.hex(), fp))
            t = time.time()
            rc, out, err = run([B + '/harness', 'scan-dump', work + '/nestlist.txt', work + '/nestcases.txt', work + '/nestimpl.txt'], timeout=20)
            dt = round(time.time() - t, 3)
            nest.append(dict(kind=kind, depth=d, bytes=len(src), wall_s=dt, rc=rc))
            if rc != 0 or dt > 5:
                res.violations.append(dict(property='C09', what='scanning a %d-byte file with %s nesting depth %d %s' % (len(src), kind, d, 'did not finish within 20 s' if rc == 124 else 'took %.1f s (rc %d)' % (dt, rc)),
                                           path='N.java', origin='nesting-family', data_b64=__import__('base64').b64encode(src).decode(),
                                           how='graph.Initialize on a directory holding this file; CPU time'))
                break
        else:
            continue
        break
    res.coverage['nesting'] = nest
    # width families: n, 3n, 9n repetitions of one construct inside ONE enclosing construct (a declaration with many
    # declarators, a block with many statements, a call with many arguments, a long operator chain, many fields, a
    # long initializer ...): each size is a small file and must scan in well under the time a quadratic pass needs
    def fam_src(kind, n):
        if kind == 'declarators':
            return 'class W { void m() { int ' + ', '.join('v%d = %d' % (i, i) for i in range(n)) + '; } }\n'
        if kind == 'field-declarators':
            return 'class W { int ' + ',\n  '.join('f%d = %d' % (i, i) for i in range(n)) + ';\n}\n'
        if kind == 'statements':
            return 'class W { void m() {\n' + ''.join('  g%d(%d);\n' % (i % 7, i) for i in range(n)) + '} }\n'
        if kind == 'assert-statements':
            return 'class W { void m(int v) {\n' + ''.join('  assert v > %d : "m%d";\n' % (i, i) for i in range(n)) + '} }\n'
        if kind == 'return-statements':
            return 'class W { int m(int v) {\n' + ''.join('  return v + %d;\n' % i for i in range(n)) + '} }\n'
        if kind == 'jump-statements':
            return 'class W { void m(int v) { while (v > 0) {\n' + ''.join('  %s;\n' % ('break' if i % 2 else 'continue') for i in range(n)) + '} } }\n'
        if kind == 'if-statements':
            return 'class W { void m(int v) {\n' + ''.join('  if (v > %d) g%d(v); else h(%d);\n' % (i, i % 5, i) for i in range(n)) + '} }\n'
        if kind == 'local-variables':
            return 'class W { void m() {\n' + ''.join('  int v%d = %d + 1;\n' % (i, i) for i in range(n)) + '} }\n'
        if kind == 'arguments':
            return 'class W { void m() { g(' + ', '.join('a%d' % i for i in range(n)) + '); } }\n'
        if kind == 'operator-chain':
            return 'class W { int m() { return ' + ' + '.join('a%d' % i for i in range(n)) + '; } }\n'
        if kind == 'fields':
            return 'class W {\n' + ''.join('  private int f%d = %d;\n' % (i, i) for i in range(n)) + '}\n'
        if kind == 'long-initializer':
            return 'class W { int[] t = { ' + ', '.join(str(i) for i in range(n)) + ' }; String s = "' + 'x' * n + '"; }\n'
        if kind == 'methods':
            return 'class W {\n' + ''.join('  void m%d(int a) { }\n' % i for i in range(n)) + '}\n'
        if kind == 'interfaces':
            return 'class W implements ' + ', '.join('I%d' % i for i in range(n)) + ' { }\n'
        return 'class W { /** ' + ''.join('\n * @param p%d text %d' % (i, i) for i in range(n)) + '\n */ void m() { } }\n'
    width = []
    base_n = 300 if tier == 'quick' else 500
    for kind in ('declarators', 'field-declarators', 'statements', 'assert-statements', 'return-statements', 'jump-statements', 'if-statements', 'local-variables', 'arguments', 'operator-chain', 'fields', 'long-initializer', 'methods', 'interfaces', 'javadoc-tags'):
        ts = []
        for mult in (1, 3, 9):
            src = fam_src(kind, base_n * mult).encode()
            fp = os.path.join(work, 'width.java')
            open(fp, 'wb').write(src)
            open(work + '/widthlist.txt', 'w').write('w x%s %s\n' % (b'W.java'.hex(), fp))
            r0 = resource.getrusage(resource.RUSAGE_CHILDREN)
            rc, out, err = run([B + '/harness', 'scan-dump', work + '/widthlist.txt', work + '/widthcases.txt', work + '/widthimpl.txt'], timeout=60)
            r1 = resource.getrusage(resource.RUSAGE_CHILDREN)
            cpu = round((r1.ru_utime + r1.ru_stime) - (r0.ru_utime + r0.ru_stime), 3)
            ts.append((len(src), cpu, rc))
            if rc != 0 or cpu > 20:
                break
        width.append(dict(kind=kind, points=[dict(bytes=a, cpu_s=b, rc=c) for a, b, c in ts]))
        bad = None
        if any(rc != 0 for _, _, rc in ts):
            bad = 'did not finish within 60 s (or failed)'
        elif ts[-1][1] > 20:
            bad = 'needed %.1f s of CPU for %d bytes' % (ts[-1][1], ts[-1][0])
        elif len(ts) == 3 and ts[0][1] > 0.15 and ts[2][1] / ts[0][1] > 250:
            bad = 'grew %.0fx in CPU time for 9x the input' % (ts[2][1] / ts[0][1])
        if bad:
            src = fam_src(kind, base_n * 3).encode()
            res.violations.append(dict(property='C09', what='scanning the width family `%s` %s' % (kind, bad), detail=[dict(bytes=a, cpu_s=b, rc=c) for a, b, c in ts],
                                       path='W.java', origin='width-family', data_b64=__import__('base64').b64encode(src).decode(),
                                       how='graph.Initialize on a directory holding this file at 1x, 3x, 9x the repetitions; CPU time of the scan'))
    res.coverage['width_families'] = width
    if tier == 'thorough':
        # five files that need many seconds of PARSING each (one per worker) followed by ordinary files: the scan
        # must come back, and with the ordinary files' entities
        import qrun
        sp = os.path.join(work, 'slowproj')
        files = [('0slow/S%d.java' % k, ('public class S%d {\n  void before() { int q = %d + 2; }\n  /* ' % (k, k) + '/* x ' * 9000 + '\n').encode()) for k in range(5)]
        files += [('src/Ok%d.java' % k, ('class Ok%d { int f%d(int a) { return a + %d; } }\n' % (k, k, k)).encode()) for k in range(8)]
        qrun.write_project(sp, files)
        t = time.time()
        rc, out, err = run([B + '/harness', 'init-dump', sp, work + '/slowdump.txt'], timeout=1500, env=dict(ENV, HOME=work))
        dt = round(time.time() - t, 1)
        got = set()
        if rc == 0:
            for l in open(work + '/slowdump.txt'):
                m_ = re.search(r' file=x([0-9a-f]*) ', l) if l.startswith('NODE ') else None
                if m_:
                    got.add(os.path.basename(bytes.fromhex(m_.group(1)).decode('utf-8', 'replace')))
        res.coverage['slow_parse_project'] = dict(rc=rc, wall_s=dt, files_with_entities=len(got))
        if rc != 0 or not all('Ok%d.java' % k in got for k in range(8)):
            res.violations.append(dict(property='C09', what='scanning a project whose first five files are slow to parse %s' % ('ended abnormally (rc %d): %s' % (rc, err.decode(errors='replace')[-300:]) if rc != 0 else 'lost the entities of ordinary files'),
                                       project='0slow/S0..S4.java = "public class Sk { void before() {...} /* " + "/* x " * 9000; src/Ok0..7.java = small classes',
                                       how='graph.Initialize on the directory'))
    # 9x the input may cost at most ~81x (quadratic) plus slack; cubic would be 729x
    (b1, t1, _), _, (b3, t3, _) = times
    if any(rc != 0 for _, _, rc in times):
        res.violations.append(dict(property='C09', what='scan of the scaling family failed or timed out', detail=times))
    elif t3 > 60 or (t1 > 0.05 and t3 / t1 > 200):
        res.violations.append(dict(property='C09', what='super-quadratic growth on the k-methods x c-calls family', detail=times))
