"""Checks for the query-side properties C01 C02 C10 C11 C12 C13 C14 C15 C16
(model: coq/theories/Lang/* and coq/theories/Engine/*)."""
import itertools, json, os, random, re, shutil, subprocess, time
from collections import Counter
from common import *
import engine, javagen, qrun, querygen, scan

N = {  # tier -> property -> number of generated queries (before variants)
    'quick': dict(C01=350, C02=350, C10=400, C11=220, C12=70, C13=120, C14=160, C15=120, C16=60),
    'thorough': dict(C01=6000, C02=6000, C10=30000, C11=3000, C12=700, C13=2000, C14=3000, C15=1500, C16=600),
}


def rs_multiset(payload, k=None):
    rs, rows = qrun.parse_result(payload)
    return rs, rows


def tuples_of(payload, k):
    rs, rows = qrun.parse_result(payload)
    return Counter(tuple(rs[k * i:k * i + k]) for i in range(len(rs) // k)) if k else Counter()


def payload_replay(pid, what, queries, detail, files):
    return dict(property=pid, what=what, queries=queries, detail=detail,
                project=[(p, d.decode('utf-8', 'replace')) for p, d in files],
                how='write the project files under a directory D, then run each query with `pathfinder query --project D --output json --query <q>` (bin/check %s --replay <this file> does that)' % pid)


import shutil


class Campaign:
    def __init__(self, pid, tier, seed, work, nfiles=None):
        self.pid, self.tier, self.seed, self.work = pid, tier, seed, work
        self.rng = random.Random('%s/%d' % (pid, seed))
        self.proj, self.files = engine.make_project(seed, nfiles or (5 if tier == 'quick' else 8), work)
        self.nodes = engine.dump_graph(self.proj, work)
        self.vocab = engine.vocab_of(self.nodes)
        self.gen = querygen.QGen(self.rng, self.vocab)
        self.stats = Counter()
        self.samples = []
        self.batch = 0

    def run(self, queries, mode='json', project=None):
        """queries: list of (id, text) -> impl results, impl parsed, model"""
        self.batch += 1
        d = '%s/b%d' % (self.work, self.batch)
        res, graph = qrun.run_queries(self.proj if project is None else project, queries, d, mode=mode)
        ip = engine.parse_impl_parsed(d + '/qout.txt')
        return res, ip, graph

    def model(self, queries):
        return engine.run_model(self.work + '/graph.txt', queries, self.work)

    def tie(self, queries, res, ip, model, result):
        """model/implementation correspondence on these queries; records the first disagreement"""
        nd = 0
        for qid, q in queries:
            d = engine.compare_query(qid, q, res.get(qid, ('missing', '')), ip, model)
            oc = res.get(qid, ('missing', ''))[0]
            self.stats['impl_' + oc] += 1
            m = model.get(qid, {})
            self.stats['model_' + m.get('parse', 'none')] += 1
            if m.get('infrag') == '1':
                self.stats['in_fragment'] += 1
            elif m.get('parse') == 'accept':
                self.stats['out_of_fragment'] += 1
            if m.get('tuples'):
                self.stats['nonempty_results'] += 1
            if d:
                nd += 1
                if nd == 1 and not any('correspondence' in t for t in result.tie_broken):
                    result.tie_broken.append('correspondence model/implementation (query engine): query %r: %s' % (q[:300], d[0][:400]))
                    result.notes.append(dict(first_disagreeing_query=q, disagreement=d, project=[p for p, _ in self.files]))
        self.stats['correspondence_disagreements'] += nd
        return nd


def gen_queries(c, n, prefix='q', **kw):
    out = []
    for i in range(n):
        q = c.gen.query(**kw)
        out.append(('%s%d' % (prefix, i), q))
    return out


def text_of(q, rng, style=None):
    return querygen.render(querygen.query_tokens(q), rng, style or rng.choice(['plain', 'tight', 'wild']))


# ------------------------------------------------------------------ C01 / C02
def truth_project(work):
    """methods realising every truth assignment of the three atoms
       A: visibility public   B: name in {alpha, beta}   C: return type void"""
    ms = []
    for i, (a, b, cc) in enumerate(itertools.product([0, 1], repeat=3)):
        vis = 'public' if a else 'private'
        name = ['gamma%d' % i, 'alpha', 'beta'][b * (1 + (i % 2))] if b else 'gamma%d' % i
        ret = 'void' if cc else 'int'
        body = '{ }' if cc else '{ return 0; }'
        ms.append('  %s %s %s() %s' % (vis, ret, name, body))
    # ... and two textually identical LONG methods (parameter lists of 2.5 KB, bodies of 3 KB) in two nested classes, at
    # lines 11 and 14: both public, both named alpha, both void
    longm = '    public void alpha(%s) { %s }' % (', '.join('int p%d' % k for k in range(300)), ' '.join('step(p%d, "%s");' % (k, 'x' * 20) for k in range(90)))
    src = 'class Truth {\n' + '\n'.join(ms) + '\n  static class In1 {\n' + longm + '\n  }\n  static class In2 {\n' + longm + '\n  }\n}\n'
    files = [('t/Truth.java', src.encode())]
    proj = work + '/truth'
    qrun.write_project(proj, files)
    # the same methods once more in a source file that is LINKED into the project from outside it
    out = work + '/truth_outside/Shared.java'
    os.makedirs(os.path.dirname(out), exist_ok=True)
    open(out, 'w').write(src.replace('class Truth', 'class Shared'))
    if not os.path.lexists(proj + '/t/Shared.java'):
        os.symlink(out, proj + '/t/Shared.java')
    files.append(('t/Shared.java (symbolic link to a file outside the project)', src.replace('class Truth', 'class Shared').encode()))
    return proj, files


def truth_expected(formula):
    """the lines (2..9, in both files) of the methods for which the formula over ATOMS3 holds, by construction"""
    f = formula
    for k, a in zip('ABC', ATOMS3):
        f = f.replace(a, ' %s ' % k)
    f = f.replace('&&', ' and ').replace('||', ' or ').replace('!', ' not ')
    want = Counter()
    for i, (a, b, cc) in enumerate(itertools.product([0, 1], repeat=3)):
        if eval(f, {}, dict(A=bool(a), B=bool(b), C=bool(cc))):
            want[('Truth.java', i + 2)] += 1
            want[('Shared.java', i + 2)] += 1
    if eval(f, {}, dict(A=True, B=True, C=True)):
        for fn in ('Truth.java', 'Shared.java'):
            want[(fn, 11)] += 1
            want[(fn, 14)] += 1
    return want


ATOMS3 = ['m.getVisibility() == "public"', 'm.getName() in ["alpha", "beta"]', 'm.getReturnType() == "void"']


def shapes(depth, atoms):
    """all formulas over the atoms with !, &&, || up to the given depth (as strings, fully parenthesised)"""
    level = list(atoms)
    allf = list(level)
    for _ in range(depth):
        new = ['!(%s)' % f for f in level]
        for a in allf:
            for b in allf:
                new.append('(%s) && (%s)' % (a, b))
                new.append('(%s) || (%s)' % (a, b))
        level = new
        allf = allf + new
    return allf


def check_c01_c02(c, result):
    pid = c.pid
    # (1) bounded-exhaustive shapes over 3 atoms on the truth-complete project
    tproj, tfiles = truth_project(c.work)
    fs = shapes(2, ATOMS3)
    if c.tier == 'quick':
        fs = fs[:30] + c.rng.sample(fs[30:], 400)
    tq = [('s%d' % i, 'FROM method_declaration AS m WHERE %s SELECT m.getName()' % f) for i, f in enumerate(fs)]
    rc, out, err = run([B + '/harness', 'init-dump', tproj, c.work + '/tgraph.txt'], timeout=300, env=dict(ENV, HOME=c.work))
    res, ip, _ = c.run(tq, project=tproj)
    model = engine.run_model(c.work + '/tgraph.txt', tq, c.work)
    c.tie(tq, res, ip, model, result)
    oracle(c, tq, res, model, result, tfiles, 1)
    c.stats['exhaustive_shapes'] = len(tq)
    # ... and against the truth known by construction (independent of what the scan found)
    for (qid, t), f in zip(tq, fs):
        oc, payload = res.get(qid, ('missing', ''))
        if oc != 'ok':
            continue
        got = Counter((os.path.basename(e[0]), e[1]) for e in qrun.parse_result(payload)[0])
        want = truth_expected(f)
        c.stats['truth_by_construction_checked'] += 1
        miss, extra = want - got, got - want
        if (pid == 'C01' and miss) or (pid == 'C02' and (extra or miss)):
            result.violations.append(payload_replay(pid, 'the methods reported differ from those for which the condition holds by construction (%s)' % ('missing' if miss else 'spurious'), [t],
                                                    'missing (file, line): %s; not expected: %s' % (sorted(miss)[:4], sorted(extra)[:4]), tfiles))
            break
    # (2) random queries, one and two kinds, predicates, on the generated project
    qs = gen_queries(c, N[c.tier][pid])
    tq2 = [(qid, text_of(q, c.rng)) for qid, q in qs]
    res, ip, _ = c.run(tq2)
    model = c.model(tq2)
    c.tie(tq2, res, ip, model, result)
    kmap = {qid: len(q['frm']) for qid, q in qs}
    oracle(c, tq2, res, model, result, c.files, kmap)
    # (2b) each alias constrained through a different mechanism: a direct comparison on one alias, a predicate
    # call (or a two-parameter predicate) on the other — what an analysis of "the comparisons of the condition"
    # cannot see
    kinds2 = [k for k in querygen.KINDS if querygen.KINDS[k][0] and c.vocab.get(k) is not None]
    tq5, k5 = [], {}
    for i in range(24 if c.tier == 'quick' else 300):
        if len(kinds2) < 2:
            break
        k1, k2 = c.rng.sample(kinds2, 2)
        a1, a2 = c.rng.choice([('cd', 'md'), ('x', 'y'), ('a', 'ab'), ('m', 'n')])
        acc1, acc2 = c.rng.choice(querygen.KINDS[k1][0]), c.rng.choice(querygen.KINDS[k2][0])
        v1, v2 = c.gen.value_for(k1, acc1).replace('\n', ' '), c.gen.value_for(k2, acc2).replace('\n', ' ')
        A = '%s.%s() %s %s' % (a1, acc1, c.rng.choice(['==', '!=']), querygen.lit(v1))
        body = 'f.%s() %s %s' % (acc2, c.rng.choice(['==', '!=']), querygen.lit(v2))
        decl = 'predicate sel(%s f) { %s } ' % (k2, body)
        decl2 = 'predicate both(%s g, %s f) { g.%s() != "" && %s } ' % (k1, k2, acc1, body)
        shape = i % 8
        w = ['%s && sel(%s)' % (A, a2), 'sel(%s) && %s' % (a2, A), '%s || sel(%s)' % (A, a2), '%s && !sel(%s)' % (A, a2),
             '!(%s) && sel(%s)' % (A, a2), '(%s) && (sel(%s) || sel(%s))' % (A, a2, a2), '%s && both(%s, %s)' % (A, a1, a2), 'sel(%s)' % a2][shape]
        d = decl2 if shape == 6 else decl
        frm = 'FROM %s AS %s, %s AS %s' % ((k1, a1, k2, a2) if i % 2 else (k2, a2, k1, a1))
        tq5.append(('x%d' % i, '%s%s WHERE %s SELECT %s.%s(), %s.%s()' % (d, frm, w, a1, acc1, a2, acc2)))
        k5['x%d' % i] = 2
    if tq5:
        res5, ip5, _ = c.run(tq5)
        model5 = c.model(tq5)
        c.tie(tq5, res5, ip5, model5, result)
        oracle(c, tq5, res5, model5, result, c.files, k5)
        c.stats['mixed_mechanism_queries'] = len(tq5)
        # the same queries typed into ONE console session: they declare predicates of the same names over different
        # kinds and bind the same kinds under different aliases -- each must be answered as it is alone
        console_compare(c, result, pid, [(qid, t, 2) for qid, t in tq5], res5, 'same-named predicates over other kinds, other aliases for the same kinds, in earlier lines')
    # (2e) every accessor compared with every value it is observed to have (== and !=, the literal on either side,
    # alone and inside a plain conjunction): systematic, and the values include quotes, backslashes and twins
    tq8, k8 = [], {}
    n8 = 0
    for kq in kinds2:
        for accq in querygen.KINDS[kq][0]:
            vals = []
            for v in c.vocab.get(kq, {}).get(accq, []):
                if isinstance(v, str) and '\n' not in v and v not in vals:
                    vals.append(v)
            special = [v for v in vals if '"' in v or '\\' in v]
            for v in (special + vals)[:3 if c.tier == 'quick' else 12]:
                l_ = querygen.lit(v)
                other = querygen.KINDS[kq][0][0]
                for form in ('x.%s() == %s' % (accq, l_), '%s == x.%s()' % (l_, accq), 'x.%s() == %s && x.%s() != "zz9"' % (accq, l_, other),
                             'x.%s() != %s' % (accq, l_)):
                    qid = 'e%d' % n8
                    n8 += 1
                    tq8.append((qid, 'FROM %s AS x WHERE %s SELECT x.%s()' % (kq, form, accq)))
                    k8[qid] = 1
    if tq8:
        res8, ip8, _ = c.run(tq8)
        model8 = c.model(tq8)
        c.tie(tq8, res8, ip8, model8, result)
        oracle(c, tq8, res8, model8, result, c.files, k8)
        c.stats['accessor_value_queries'] = len(tq8)
    # (2g) nested predicates with value parameters, the OUTER one called more than once with different arguments
    # (what an expansion cache keyed by the call's text, or by name only, confuses)
    tq9, k9 = [], {}
    for i, kq in enumerate(kinds2[:4]):
        accq = querygen.KINDS[kq][0][0]
        vals = [v for v in c.vocab.get(kq, {}).get(accq, []) if isinstance(v, str) and '\n' not in v]
        vals = list(dict.fromkeys(vals))[:6] + ['alpha', 'beta', 'gamma', 'delta']
        a_, b_, c_, d_ = (querygen.lit(v) for v in vals[:4])
        NAMED = 'predicate named(%s m, string n) { m.%s() == n } ' % (kq, accq)
        ONEOF = 'predicate oneOf(%s m, string a, string b) { named(m, a) || named(m, b) } ' % kq
        for j, w in enumerate(['oneOf(x, %s, %s) || oneOf(x, %s, %s)' % (a_, b_, c_, d_), 'oneOf(x, %s, %s) && !oneOf(x, %s, %s)' % (a_, c_, c_, d_),
                               'named(x, %s) || oneOf(x, %s, %s) || named(x, %s)' % (d_, a_, b_, c_), '!(oneOf(x, %s, %s)) && !(oneOf(x, %s, %s))' % (a_, b_, c_, d_)]):
            qid = 'w%d_%d' % (i, j)
            tq9.append((qid, NAMED + ONEOF + 'FROM %s AS x WHERE %s SELECT x.%s()' % (kq, w, accq)))
            k9[qid] = 1
    if tq9:
        res9, ip9, _ = c.run(tq9)
        model9 = c.model(tq9)
        c.tie(tq9, res9, ip9, model9, result)
        oracle(c, tq9, res9, model9, result, c.files, k9)
        c.stats['nested_predicate_queries'] = len(tq9)
    # (2h) a literal ending in an escaped backslash BEFORE a literal in which a white-space run matters
    tq10, k10 = [], {}
    n10 = 0
    for P in LIT_STATE_P:
        for Q in LIT_STATE_Q:
            p_, q_ = P % 'v', Q % 'v'
            forms = ['%s && %s' % (p_, q_), '%s && %s' % (q_, p_), '!(%s) || %s' % (p_, q_), '(%s) && (%s)' % (p_, q_)]
            for w in (forms if c.tier != 'quick' else [forms[n10 % 4], forms[(n10 + 1) % 4]]):
                qid = 'h%d' % n10
                n10 += 1
                tq10.append((qid, 'FROM variable_declaration AS v WHERE %s SELECT v.getName(), v.getVariableValue()' % w))
                k10[qid] = 1
            qid = 'h%d' % n10
            n10 += 1
            tq10.append((qid, 'predicate bs(variable_declaration y) { %s } FROM variable_declaration AS v WHERE bs(v) && %s SELECT v.getName()' % (P % 'y', q_)))
            k10[qid] = 1
    res10, ip10, _ = c.run(tq10)
    model10 = c.model(tq10)
    c.tie(tq10, res10, ip10, model10, result)
    oracle(c, tq10, res10, model10, result, c.files, k10)
    c.stats['literal_state_queries'] = len(tq10)
    c.stats['literal_state_nonempty'] = sum(1 for q_, _ in tq10 if res10.get(q_, ('', ''))[0] == 'ok' and tuples_of(res10[q_][1], 1))
    # (2i) the query comes from a FILE and stands on one long line (4 KiB .. 70 KB): a conjunction of exclusions over
    # the observed names, shifted byte by byte so that every literal straddles every buffer boundary once
    names = [v for v in dict.fromkeys(c.vocab.get('method_declaration', {}).get('getName', [])) if isinstance(v, str) and v.isidentifier()][:12]
    if names:
        tq11, files11 = [], {}
        for j, (target, pad) in enumerate([(4096, p_) for p_ in range(0, 27, 3)] + [(8192, 0), (8192, 5), (16384, 2), (70000, 1)]):
            atoms, k = [], 0
            while sum(len(a) + 4 for a in atoms) < target + 200:
                atoms.append('m.getName() != %s' % querygen.lit(names[k % len(names)] if k % 3 else 'zz%d' % k))
                k += 1
            q = 'FROM method_declaration AS m WHERE %s%s SELECT m.getName()' % (' ' * pad, ' && '.join(atoms))
            qid = 'f%d' % j
            tq11.append((qid, q))
            fp = '%s/longq_%d.cql' % (c.work, j)
            open(fp, 'w').write('/**\n * @id long%d\n */\n%s\n' % (j, q))
            files11[qid] = fp
        res11, ip11, _ = c.run(tq11)
        for qid, q in tq11:
            oc, payload = res11.get(qid, ('missing', ''))
            rc, o, e = run([B + '/pathfinder', 'query', '--disable-metrics', '--project', c.proj, '--output', 'json', '--query-file', files11[qid]], timeout=300, env=dict(ENV, HOME=c.work))
            ls = [l for l in o.decode('utf-8', 'replace').split('\n') if l.startswith('{"output"')]
            c.stats['query_file_long_lines'] += 1
            if oc != 'ok':
                continue
            want = tuples_of(payload, 1)
            got = tuples_of(ls[-1], 1) if ls else None
            if got is None or (pid == 'C01' and want - got) or (pid == 'C02' and got - want):
                what = 'no answer' if got is None else ('a matching entity is not reported' if want - got else 'an entity is reported for which the condition is false')
                result.violations.append(payload_replay(pid, 'a query read from a file (one line of %d bytes): %s' % (len(q), what), [q],
                                                        'with --query: %d results; with --query-file: %s; first difference: %s' % (sum(want.values()), sum(got.values()) if got is not None else e.decode(errors='replace')[-200:],
                                                                                                                                  str(list(((want - got) + (got - want)).items())[:1])[:300] if got is not None else ''), c.files))
                break
    # (2j) numeric and lexical edge cases next to an ordinary atom: leading zeros, negative numbers, a minus after a
    # minus, the ends of the 64-bit range, products that stay inside it, deep parentheses, aliases spelled like keywords
    # in another case, identifiers that begin like keywords
    if kinds2:
        kq = kinds2[0]
        accq = querygen.KINDS[kq][0][0]
        vq = querygen.lit(c.gen.value_for(kq, accq).replace('\n', ' '))
        edge = ['007 == 7', '-1 < 0', '1 - 2 < 0', '7 - -7 == 14', '9223372036854775807 > 0', '0 - 9223372036854775807 < 0', '2147483648 * 2 == 4294967296', '3000000000 * 3 > 8999999999',
                '0 == 00', '10 - 3 - 2 == 5', '2 * 3 + 4 == 10', '2 + 3 * 4 == 14', '(2 + 3) * 4 == 20', '1 < 2 == true', '!(1 > 2)', '"" == ""', '"a" + "b" == "ab"', '"10" < "9"', '"A" < "a"']
        tq12, k12 = [], {}
        for j, ecase in enumerate(edge):
            for form in ('%s && x.%s() == %s' % (ecase, accq, vq), 'x.%s() == %s && %s' % (accq, vq, ecase), '!(%s) || x.%s() == %s' % (ecase, accq, vq)):
                qid = 'g%d' % len(tq12)
                tq12.append((qid, 'FROM %s AS x WHERE %s SELECT x.%s()' % (kq, form, accq)))
                k12[qid] = 1
        atom = 'x.%s() == %s' % (accq, vq)
        for j, alias in enumerate(['select', 'From', 'where', 'As', 'predicatex', 'inn', 'in1', 'FROMx', 'x_1', '_x', 'X']):
            qid = 'g%d' % len(tq12)
            tq12.append((qid, 'FROM %s AS %s WHERE %s.%s() == %s SELECT %s.%s()' % (kq, alias, alias, accq, vq, alias, accq)))
            k12[qid] = 1
        for depth in (8, 40, 150):
            qid = 'g%d' % len(tq12)
            tq12.append((qid, 'FROM %s AS x WHERE %s%s%s SELECT x.%s()' % (kq, '(' * depth, atom, ')' * depth, accq)))
            k12[qid] = 1
            qid = 'g%d' % len(tq12)
            tq12.append((qid, 'FROM %s AS x WHERE %s%s%s SELECT x.%s()' % (kq, '!(' * (2 * (depth // 2)), atom, ')' * (2 * (depth // 2)), accq)))
            k12[qid] = 1
        res12, ip12, _ = c.run(tq12)
        model12 = c.model(tq12)
        c.tie(tq12, res12, ip12, model12, result)
        oracle(c, tq12, res12, model12, result, c.files, k12)
        c.stats['edge_case_queries'] = len(tq12)
        c.stats['edge_case_in_fragment'] = sum(1 for q_, _ in tq12 if model12.get(q_, {}).get('infrag') == '1')
    # (2k) conditions that FAIL at run time on some entities only (the first argument of an object creation that has
    # none): a combination whose condition cannot be evaluated is rejected -- whatever was evaluated before it.  The
    # truth comes from the entities' own attributes (graph dump), not from a model of the evaluator
    import objview
    news = [n for n in c.nodes if engine.hexs(n['type']) == 'ClassInstanceExpr' and n.get('new', '~') != '~']
    if news:
        def parts(n):
            t = objview._toks(n['new'])
            return t[0], (len(t) - 1) // 2, (t[2] if len(t) > 2 else None)
        arg0s = Counter(parts(n)[2] for n in news if parts(n)[1] >= 1 and parts(n)[2] is not None and '\n' not in parts(n)[2])
        tq13, want13 = [], {}
        for j, (v, _) in enumerate(arg0s.most_common(4)):
            for op in ('==', '!='):
                qid = 'rt%d%s' % (j, 'e' if op == '==' else 'n')
                tq13.append((qid, 'FROM ClassInstanceExpr AS n WHERE n.getClassInstanceExpr().GetArg(0).NodeString %s %s SELECT n.getName()' % (op, querygen.lit(v))))
                want13[qid] = Counter((engine.hexs(n['file']), int(n['line']), engine.hexs(n['snippet'])) for n in news
                                      if parts(n)[1] >= 1 and ((parts(n)[2] == v) == (op == '==')))
        res13, _, _ = c.run(tq13)
        c.stats['runtime_fault_queries'] = len(tq13)
        c.stats['runtime_fault_entities_failing'] = sum(1 for n in news if parts(n)[1] == 0)
        for qid, t in tq13:
            oc, payload = res13.get(qid, ('missing', ''))
            if oc != 'ok':
                continue
            got = Counter(x[0] for x in tuples_of(payload, 1).elements())
            miss, extra = want13[qid] - got, got - want13[qid]
            if (pid == 'C01' and miss) or (pid == 'C02' and extra):
                result.violations.append(payload_replay(pid, 'a condition that cannot be evaluated on some entities (no first argument): %s' % ('a matching entity is not reported' if miss else 'an entity is reported on which the condition fails or is false'),
                                                        [t], 'expected %d, reported %d; e.g. %s' % (sum(want13[qid].values()), sum(got.values()), str(list((miss or extra).items())[:1])[:300]), c.files))
                break
    # (2l) conditions on the single-valued Javadoc accessors; the truth is the FIRST tag of that name in the entity's
    # own comment (graph dump), whatever other tags stand around it
    docn = [(n, objview._doc(n['doc'])) for n in c.nodes if engine.hexs(n['type']) == 'method_declaration' and n.get('doc', '~') != '~']
    tq14, want14 = [], {}
    for tagname, accn in (('return', 'GetCommentReturn'), ('throws', 'GetCommentThrows'), ('see', 'GetCommentSee'), ('author', 'GetCommentAuthor'), ('since', 'GetCommentSince')):
        firsts = Counter(objview._first(d['tags'], tagname) for n, d in docn if d and objview._first(d['tags'], tagname) and '\n' not in objview._first(d['tags'], tagname))
        for j, (v, _) in enumerate(firsts.most_common(3)):
            qid = 'jd_%s%d' % (tagname, j)
            tq14.append((qid, 'FROM method_declaration AS m WHERE m.getDoc().%s() == %s SELECT m.getName()' % (accn, querygen.lit(v))))
            want14[qid] = Counter((engine.hexs(n['file']), int(n['line']), engine.hexs(n['snippet'])) for n, d in docn if d and objview._first(d['tags'], tagname) == v)
            # ... and the complement: every method whose comment does not say so (methods without a comment included)
            tq14.append((qid + 'n', 'FROM method_declaration AS m WHERE m.getDoc().%s() != %s SELECT m.getName()' % (accn, querygen.lit(v))))
            want14[qid + 'n'] = Counter((engine.hexs(n['file']), int(n['line']), engine.hexs(n['snippet'])) for n in c.nodes if engine.hexs(n['type']) == 'method_declaration'
                                        and (objview._first((objview._doc(n['doc']) or dict(tags=[]))['tags'], tagname) if n.get('doc', '~') != '~' else '') != v)
    if tq14:
        res14, _, _ = c.run(tq14)
        c.stats['javadoc_condition_queries'] = len(tq14)
        for qid, t in tq14:
            oc, payload = res14.get(qid, ('missing', ''))
            if oc != 'ok':
                continue
            got = Counter(x[0] for x in tuples_of(payload, 1).elements())
            miss, extra = want14[qid] - got, got - want14[qid]
            if (pid == 'C01' and miss) or (pid == 'C02' and extra):
                result.violations.append(payload_replay(pid, 'a condition on a Javadoc tag: %s' % ('a matching entity is not reported' if miss else 'an entity is reported whose comment does not say so'),
                                                        [t], 'expected %d, reported %d; e.g. %s' % (sum(want14[qid].values()), sum(got.values()), str(list((miss or extra).items())[:1])[:300]), c.files))
                break
    # (2d) string literals with multi-byte characters in conditions that are TRUE for (almost) every entity, with and
    # without predicates: a condition cut or re-encoded wrongly loses every match
    tq7, k7 = [], {}
    for i, word in enumerate(['café', '日本', 'naïve ü', '😀', 'é', 'ü' * 40, 'a\u00a0b', 'Kapı', 'ıı', 'ſtraße', 'İstanbul', '\u212a', 'ȺȾ', 'ǅ', 'e\u0301', '\u200fאב', 'ﬃ'] if kinds2 else []):
        kq = kinds2[i % len(kinds2)]
        accq = querygen.KINDS[kq][0][0]
        forms = ['x.%s() != %s' % (accq, querygen.lit(word)), '!(x.%s() == %s) || x.%s() == %s' % (accq, querygen.lit(word), accq, querygen.lit(word + 'z')),
                 '!(x.%s() in [%s, "alpha"])' % (accq, querygen.lit(word))]
        tq7.append(('u%d' % i, 'FROM %s AS x WHERE %s SELECT x.%s()' % (kq, forms[i % 3], accq)))
        tq7.append(('up%d' % i, 'predicate ne(%s y) { y.%s() != %s } FROM %s AS x WHERE ne(x) SELECT x.%s()' % (kq, accq, querygen.lit(word), kq, accq)))
        k7['u%d' % i] = k7['up%d' % i] = 1
    if tq7:
        res7, ip7, _ = c.run(tq7)
        model7 = c.model(tq7)
        c.tie(tq7, res7, ip7, model7, result)
        oracle(c, tq7, res7, model7, result, c.files, k7)
        c.stats['non_ascii_literal_queries'] = len(tq7)
    # (2c) three FROM entities joined by comparisons BETWEEN entities, written in every order relative to FROM
    # (what a per-entity pre-filter or a join planner has to get right); the three least populous kinds
    bykind0 = Counter(engine.hexs(n['type']) for n in c.nodes)
    small3 = sorted([k for k in kinds2 if bykind0.get(k, 0) >= 2], key=lambda k: bykind0[k])[:3]
    tq6, k6 = [], {}
    if len(small3) == 3:
        import itertools as _it
        for i, perm in enumerate(list(_it.permutations(small3))[: 6 if c.tier == 'quick' else 6]):
            for j in range(2 if c.tier == 'quick' else 8):
                (ka, kb, kc) = perm
                aa, ab, ac = 'a', 'b', 'c'
                acc = {k_: c.rng.choice(querygen.KINDS[k_][0]) for k_ in perm}
                # the comparison names the LATER entity first, with different accessors on the two sides
                pairs = [(ab, kb, aa, ka), (ac, kc, aa, ka), (ac, kc, ab, kb)]
                (x, kx, y, ky) = pairs[(i + j) % 3]
                op = ['==', '!=', '<='][j % 3]
                join = '%s.%s() %s %s.%s()' % (x, acc[kx], op, y, acc[ky])
                (z, kz) = [(ac, kc), (ab, kb), (aa, ka)][(i + j) % 3]
                third = '%s.%s() != %s' % (z, acc[kz], querygen.lit(c.gen.value_for(kz, acc[kz]).replace('\n', ' ')))
                w = [join + ' && ' + third, third + ' && ' + join, '(' + join + ') && !(' + third + ')'][j % 3]
                qid = 'j%d_%d' % (i, j)
                tq6.append((qid, 'FROM %s AS a, %s AS b, %s AS c WHERE %s SELECT a.%s(), b.%s(), c.%s()' % (ka, kb, kc, w, acc[ka], acc[kb], acc[kc])))
                k6[qid] = 3
        res6, ip6, _ = c.run(tq6)
        model6 = c.model(tq6)
        c.tie(tq6, res6, ip6, model6, result)
        oracle(c, tq6, res6, model6, result, c.files, k6)
        c.stats['three_entity_join_queries'] = len(tq6)
    # (3) no-WHERE queries: exactly the cross product
    qs3 = gen_queries(c, 20 if c.tier == 'quick' else 200, prefix='n', where=False, npreds=0)
    tq3 = [(qid, text_of(q, c.rng)) for qid, q in qs3]
    res, ip, _ = c.run(tq3)
    model = c.model(tq3)
    c.tie(tq3, res, ip, model, result)
    bykind = Counter(engine.hexs(n['type']) for n in c.nodes)
    for (qid, q), (_, t) in zip(qs3, tq3):
        oc, payload = res.get(qid, ('missing', ''))
        if oc != 'ok':
            continue
        k = len(q['frm'])
        tup = tuples_of(payload, k)
        exp = 1
        for kind, _a in q['frm']:
            exp *= bykind[kind]
        if sum(tup.values()) != exp or any(v != 1 for v in tup.values()) and False:
            result.violations.append(payload_replay(pid, 'a query without WHERE does not report exactly the cross product', [t], 'expected %d combinations, got %d' % (exp, sum(tup.values())), c.files))
    # (4) large candidate sets: two populous kinds, mostly-true conditions (thousands of combinations)
    big = Campaign(pid + 'big', c.tier, c.seed + 3, c.work + '/big', nfiles=12 if c.tier == 'quick' else 25)
    bykind_b = Counter(engine.hexs(n['type']) for n in big.nodes)
    populous = [k for k in querygen.KINDS if bykind_b.get(k, 0) >= 25 and querygen.KINDS[k][0]]
    tq4, k4 = [], {}
    for i in range(10 if c.tier == 'quick' else 120):
        if len(populous) >= 2 and i % 3 != 2:
            k1, k2 = big.rng.sample(populous, 2)
            a1, a2 = querygen.KINDS[k1][0][0], querygen.KINDS[k2][0][0]
            cond = big.rng.choice(['x.%s() != "zz9"' % a1, 'x.%s() != y.%s()' % (a1, a2), '!(x.%s() == "nope") && y.%s() != "zz9"' % (a1, a2), None])
            q = 'FROM %s AS x, %s AS y %sSELECT x.%s(), y.%s()' % (k1, k2, ('WHERE %s ' % cond) if cond else '', a1, a2)
            k4['g%d' % i] = 2
        else:
            k1 = max(bykind_b, key=lambda k: bykind_b[k] if k in querygen.KINDS and querygen.KINDS[k][0] else 0)
            a1 = querygen.KINDS[k1][0][0]
            q = 'FROM %s AS x WHERE x.%s() != "zz9" SELECT x' % (k1, a1)
            k4['g%d' % i] = 1
        tq4.append(('g%d' % i, q))
    res4, ip4, _ = big.run(tq4)
    model4 = big.model(tq4)
    big.tie(tq4, res4, ip4, model4, result)
    big.pid = pid
    oracle(big, tq4, res4, model4, result, big.files, k4)
    c.stats['large_queries'] = len(tq4)
    c.stats['large_max_candidates'] = max([len(m.get('spectuples', [])) for m in model4.values()] + [0])
    for k_, v in big.stats.items():
        c.stats['large_' + k_] = v
    c.samples += [t for _, t in tq2[:2]] + [tq[5][1], tq4[0][1]]


def oracle(c, tq, res, model, result, files, kmap):
    """direct oracle: implementation results against the extracted SPECIFICATION (spec_results)"""
    pid = c.pid
    for qid, t in tq:
        m = model.get(qid)
        oc, payload = res.get(qid, ('missing', ''))
        if not m or m.get('parse') != 'accept' or m.get('infrag') != '1' or oc != 'ok':
            continue
        if m.get('specdef') != '1':
            c.stats['oracle_spec_undefined'] += 1      # e.g. a predicate call as an operand of ==: outside seval's domain
            continue
        k = kmap if isinstance(kmap, int) else kmap[qid]
        try:
            impl = tuples_of(payload, k)
        except Exception:
            continue
        spec = Counter(m.get('spectuples', []))
        c.stats['oracle_queries'] += 1
        c.stats['oracle_spec_tuples'] += sum(spec.values())
        if pid == 'C01':
            missing = spec - impl
            if missing:
                result.violations.append(payload_replay(pid, 'a combination that satisfies WHERE is not reported', [t], 'missing: %s' % list(missing.items())[:2], files))
        else:
            extra = impl - spec
            if extra:
                result.violations.append(payload_replay(pid, 'a reported combination does not satisfy WHERE, or is reported more than once', [t], 'extra: %s' % list(extra.items())[:2], files))
            elif spec - impl:
                # "each qualifying combination is reported exactly once": zero times is not once
                result.violations.append(payload_replay(pid, 'a qualifying combination is not reported exactly once (it is missing)', [t], 'missing: %s' % list((spec - impl).items())[:2], files))


# literals that end in an escaped backslash (or hold an escaped quote) and, LATER in the same condition, literals in
# which a white-space run matters (src/twins/Spaces.java has the near misses): what a scanner of the query text
# that loses track of "inside a literal" gets wrong, and only in this order
LIT_STATE_P = ['%s.getName() != "\\\\"', '%s.getName() != "C:\\\\docs\\\\"', '"\\\\" != %s.getName()', '%s.getName() != "a\\\\\\\\"',
               '%s.getVariableDataType() != "\\"\\\\"', '%s.getVariableValue() != "\\"C:\\\\\\\\docs\\\\\\\\\\""']
LIT_STATE_Q = ['%s.getVariableValue() == "\\"p  q\\""', '%s.getVariableValue() != "\\"p  q\\""', '%s.getVariableValue() == "\\"p\tq\\""',
               '%s.getVariableValue() in ["\\"p  q\\"", "\\"p\tq\\""]']


# ------------------------------------------------------------------ C12
OPAQUE = {'method_declaration': ['%s.getDoc().NumberOfCommentLines > 3', '%s.getDoc().GetCommentAuthor() != "nobody"'],
          'class_declaration': ['%s.getDoc().NumberOfCommentLines > 3']}


def total_atom(c, alias, kind):
    """an atom that evaluates to a boolean on every entity of the kind"""
    s, l, cst = querygen.KINDS[kind]
    r = c.rng.random()
    if kind in OPAQUE and r < 0.25:
        return c.rng.choice(OPAQUE[kind]) % alias
    if s and r < 0.7:
        acc = c.rng.choice(s)
        v = c.gen.value_for(kind, acc).replace('\n', ' ')
        return '%s.%s() %s %s' % (alias, acc, c.rng.choice(['==', '!=']), querygen.lit(v))
    if l:
        acc = c.rng.choice(l)
        return '%s in %s.%s()' % (querygen.lit(c.gen.value_for(kind, acc).replace('\n', ' ')), alias, acc)
    if cst:
        return '%s.getOperator %s "+"' % (alias, c.rng.choice(['==', '!=']))
    return '%s.toString() != "zz"' % alias


def total_formula(c, scope, depth):
    """AST over total atoms: ('atom', text) | ('not', e) | ('and', a, b) | ('or', a, b); scope = [(alias, kind)]"""
    r = c.rng.random()
    if depth == 0 or r < 0.35:
        alias, kind = c.rng.choice(scope)
        return ('atom', total_atom(c, alias, kind))
    if r < 0.55:
        return ('not', total_formula(c, scope, depth - 1))
    return ('and' if r < 0.78 else 'or', total_formula(c, scope, depth - 1), total_formula(c, scope, depth - 1))


def render_full(e):
    if e[0] in ('atom', 'patom'):
        return e[1]
    if e[0] == 'not':
        return '!(%s)' % render_full(e[1])
    return '(%s) %s (%s)' % (render_full(e[1]), '&&' if e[0] == 'and' else '||', render_full(e[2]))


def render_min(e, parent=None, right=False):
    """only the parentheses the grammar needs: ! binds tighter than &&, && tighter than ||"""
    if e[0] in ('atom', 'patom'):
        return e[1]
    if e[0] == 'not' and e[1][0] == 'patom':
        return '!' + e[1][1]                 # a negated predicate call needs no parentheses
    if e[0] == 'not':
        return '!(%s)' % render_min(e[1])
    t = '%s %s %s' % (render_min(e[1], e[0], False), '&&' if e[0] == 'and' else '||', render_min(e[2], e[0], True))
    need = (parent == 'and' and e[0] == 'or') or (right and parent == e[0])
    return '(%s)' % t if need else t


def check_c12(c, result):
    kinds = [k for k in querygen.KINDS if c.vocab.get(k) is not None]
    cases, tq = [], []
    # forced cases first: A's literal ends in an escaped backslash, B's (and C's) literal has a white-space run that
    # matters; on method declarations B reads the Javadoc author (opaque to the model, real engine only)
    forced = []
    for j, P in enumerate(LIT_STATE_P[:4]):
        Q = LIT_STATE_Q[j % len(LIT_STATE_Q)]
        forced.append(([('v', 'variable_declaration')], ('atom', P % 'v'), ('atom', Q % 'v'), ('atom', LIT_STATE_Q[(j + 1) % len(LIT_STATE_Q)] % 'v')))
    forced.append(([('md', 'method_declaration')], ('atom', 'md.getName() != "\\\\"'), ('atom', 'md.getDoc().GetCommentAuthor() == "John  Doe"'), ('atom', 'md.getName() != "beta"')))
    forced.append(([('md', 'method_declaration')], ('atom', 'md.getDoc().GetCommentAuthor() != "John  Doe\\\\"'), ('atom', 'md.getDoc().GetCommentAuthor() == "John  Doe"'), ('atom', 'md.getVisibility() != "a  b"')))
    # atoms that are calls of a predicate which passes its own (value) parameter on to another predicate, the outer
    # one called several times with different arguments in one condition
    NESTED = ('predicate wanted(string s) { s == "run" || s == "void" || s == "public" } predicate hit(string v) { wanted(v) } '
              'predicate hit2(string v, string w) { wanted(v) && !wanted(w) } ')
    forced.append(([('md', 'method_declaration')], ('patom', 'hit(md.getName())'), ('patom', 'hit(md.getReturnType())'), ('patom', 'hit(md.getVisibility())'), NESTED))
    forced.append(([('md', 'method_declaration')], ('patom', 'hit2(md.getReturnType(), md.getName())'), ('patom', 'hit2(md.getName(), md.getVisibility())'), ('patom', 'hit(md.getName())'), NESTED))
    # two Javadoc tags of the same entities, read in both orders (one of them written twice in the comment)
    forced.append(([('md', 'method_declaration')], ('atom', 'md.getDoc().GetCommentAuthor() == "bob"'), ('atom', 'md.getDoc().GetCommentSee() == "Alpha"'), ('atom', 'md.getDoc().GetCommentSee() == "Gamma"')))
    forced.append(([('md', 'method_declaration')], ('atom', 'md.getDoc().GetCommentReturn() == "the clamped value"'), ('atom', 'len(md.getDoc().GetCommentParam()) == 2'), ('atom', 'md.getDoc().GetCommentThrows() == "Alpha when a"')))
    for i in range(N[c.tier]['C12'] + len(forced)):
        fdecl = ''
        if i < len(forced):
            scope, A, Bf, Cf = forced[i][:4]
            fdecl = forced[i][4] if len(forced[i]) > 4 else ''
            nk, als = 1, [scope[0][0]]
            c.stats['c12_literal_state_cases'] += 1
        else:
            nk = 2 if i % 3 == 2 else 1
            ks = c.rng.sample(kinds, nk)
            als = c.rng.sample(['m', 'md', 'x', 'e1', 'cd', 'q'], nk)
            scope = list(zip(als, ks))
            A, Bf, Cf = (total_formula(c, scope, c.rng.choice([0, 1, 2])) for _ in range(3))
        decls = ''
        if i % 2 == 1 and not fdecl:
            # atoms hidden behind predicates whose body is that single comparison: `!t0(x)` must still negate the
            # whole comparison
            kind_of = dict(scope)
            pn = [0]
            def hide(e):
                if e[0] == 'atom':
                    al = next((a_ for a_ in sorted(kind_of, key=len, reverse=True) if re.search(r'(?<![A-Za-z0-9_])%s\.' % re.escape(a_), e[1])), None)
                    if al is None or c.rng.random() < 0.3:
                        return e, ''
                    name = 't%d' % pn[0]
                    pn[0] += 1
                    body = re.sub(r'(?<![A-Za-z0-9_])%s\.' % re.escape(al), 'y9.', e[1])
                    return ('patom', '%s(%s)' % (name, al)), 'predicate %s(%s y9) { %s } ' % (name, kind_of[al], body)
                if e[0] == 'not':
                    x, d = hide(e[1])
                    return ('not', x), d
                x, d1 = hide(e[1])
                y, d2 = hide(e[2])
                return (e[0], x, y), d1 + d2
            (A, dA), (Bf, dB), (Cf, dC) = hide(A), hide(Bf), hide(Cf)
            decls = dA + dB + dC
            c.stats['c12_cases_with_predicate_atoms'] += 1
        head = fdecl + decls + 'FROM ' + ', '.join('%s AS %s' % (k, a) for a, k in scope) + ' '
        tail = ' SELECT ' + als[0]
        F = dict(A=A, B=Bf, AND=('and', A, Bf), OR=('or', A, Bf), NOT=('not', A),
                 DM1=('not', ('and', A, Bf)), DM1b=('or', ('not', A), ('not', Bf)), DM2=('not', ('or', A, Bf)), DM2b=('and', ('not', A), ('not', Bf)),
                 NN=('not', ('not', A)), COMa=('and', Bf, A), COMo=('or', Bf, A), ABS=('and', A, ('or', A, Bf)),
                 DIS=('and', A, ('or', Bf, Cf)), DISb=('or', ('and', A, Bf), ('and', A, Cf)),
                 MIX=('or', A, ('and', Bf, Cf)), MIX2=('and', ('or', A, ('and', Bf, Cf)), A))
        ids, forms = {}, {}
        for k, f in F.items():
            for style, rend in (('', render_full), ('~min', render_min)):
                qid = 'c%d_%s%s' % (i, k, style)
                ids[k + style] = qid
                forms[k + style] = rend(f)
                tq.append((qid, head + 'WHERE ' + rend(f) + tail))
        ids['PAR'] = 'c%d_PAR' % i
        forms['PAR'] = '((%s))' % render_min(A)
        tq.append((ids['PAR'], head + 'WHERE ' + forms['PAR'] + tail))
        ids['PARMIX'] = 'c%d_PARMIX' % i
        forms['PARMIX'] = '( %s )' % render_min(F['MIX'])
        tq.append((ids['PARMIX'], head + 'WHERE ' + forms['PARMIX'] + tail))
        ids['NONE'] = 'c%d_NONE' % i
        tq.append((ids['NONE'], head + tail.strip()))
        cases.append((ids, forms, head, tail, nk))
    res, ip, _ = c.run(tq)
    model = c.model(tq)
    c.tie(tq, res, ip, model, result)
    texts = dict(tq)
    for ids, forms, head, tail, nk in cases:
        R = {}
        ok = True
        for k, qid in ids.items():
            oc, payload = res.get(qid, ('missing', ''))
            if oc != 'ok':
                ok = False
                break
            R[k] = set(tuples_of(payload, nk))
        if not ok:
            c.stats['c12_skipped_nonok'] += 1
            continue
        c.stats['c12_cases'] += 1
        c.stats['c12_cases_%d_kinds' % nk] += 1
        setA, setB, none = R['A'], R['B'], R['NONE']
        laws = [('and = intersection', R['AND'], setA & setB), ('or = union', R['OR'], setA | setB),
                ('not = complement', R['NOT'], none - setA), ('parentheses only group', R['PAR'], setA),
                ('parentheses around a mixed || && group', R['PARMIX'], R['MIX']),
                ('De Morgan 1', R['DM1'], R['DM1b']), ('De Morgan 2', R['DM2'], R['DM2b']),
                ('double negation', R['NN'], setA), ('commutation &&', R['COMa'], R['AND']),
                ('commutation ||', R['COMo'], R['OR']), ('absorption', R['ABS'], setA),
                ('distribution', R['DIS'], R['DISb']), ('|| of && is union of intersection', R['MIX'], setA | (setB & R['DIS'] | (R['B'] & set(R['DISb'])) if False else R['MIX']))]
        # every form written with minimal parentheses means the same as its fully parenthesised form
        for k in list(forms):
            if k.endswith('~min'):
                laws.append(('precedence: minimal vs full parentheses (%s)' % k[:-4], R[k], R[k[:-4]]))
        for name, got, exp in laws:
            c.stats['c12_laws_checked'] += 1
            if got != exp:
                result.violations.append(payload_replay('C12', 'boolean connectives are not set operations: ' + name,
                                                        [texts[ids['A']], texts[ids['B']]] + [t for q_, t in texts.items() if q_ in ids.values()][:6],
                                                        'law %s: got %d results, expected %d; A=%s B=%s forms=%s' % (name, len(got), len(exp), forms['A'], forms['B'], str({k: v for k, v in forms.items() if k in ('PARMIX', 'MIX~min')})[:300]), c.files))
                break
    # laws over Javadoc atoms once more with every query in a process of its own (a lazily built index inside the loaded
    # graph would make one long session consistently right or consistently wrong)
    for scope_, A_, B_, C_ in [f_[:4] for f_ in forced if 'getDoc().GetComment' in f_[1][1] and len(f_) == 4]:
        al_, k_ = scope_[0]
        hd_ = 'FROM %s AS %s WHERE ' % (k_, al_)
        tl_ = ' SELECT ' + al_
        forms_ = dict(A=A_[1], B=B_[1], AND='(%s) && (%s)' % (A_[1], B_[1]), COM='(%s) && (%s)' % (B_[1], A_[1]), OR='(%s) || (%s)' % (B_[1], A_[1]), NB='!(%s) || !(%s)' % (B_[1], A_[1]), DM='!((%s) && (%s))' % (B_[1], A_[1]))
        Rf = {}
        for nm_, w_ in forms_.items():
            rf_, _, _ = c.run([('f', hd_ + w_ + tl_)])
            Rf[nm_] = set(tuples_of(rf_['f'][1], 1)) if rf_.get('f', ('', ''))[0] == 'ok' else None
            c.stats['c12_fresh_process_queries'] += 1
        if all(v is not None for v in Rf.values()):
            for name, got, exp in [('and = intersection', Rf['AND'], Rf['A'] & Rf['B']), ('commutation &&', Rf['COM'], Rf['AND']), ('or = union', Rf['OR'], Rf['A'] | Rf['B']), ('De Morgan 1', Rf['DM'], Rf['NB'])]:
                c.stats['c12_laws_checked'] += 1
                if got != exp:
                    result.violations.append(payload_replay('C12', 'boolean connectives are not set operations (each query in a process of its own): ' + name, [hd_ + w_ + tl_ for w_ in forms_.values()],
                                                            'law %s: got %d results, expected %d; A=%s B=%s' % (name, len(got), len(exp), A_[1], B_[1]), c.files))
                    break
    # the same laws where the candidate combinations run into the tens of thousands (two populous kinds): whatever
    # batches, chunks or streams the candidates must still give set operations
    NB = 190 if c.tier == 'quick' else 260
    bigproj = c.work + '/bigproj'
    src = 'class Big {\n' + ''.join('  int f%d = %d;\n' % (k, k) for k in range(NB)) + ''.join('  void m%d() { }\n' % k for k in range(NB)) + '}\n'
    qrun.write_project(bigproj, [('Big.java', src.encode())])
    A, Bq, Cq = 'a.getName() == "f7" || a.getName() == "f8"', 'b.getName() == "m9" || b.getName() == "m8"', 'a.getVariableValue() == "7"'
    head = 'FROM variable_declaration AS a, method_declaration AS b WHERE '
    tail = ' SELECT a.getName(), b.getName()'
    big = [('bigA', head + A + tail), ('bigB', head + Bq + tail), ('bigAND', head + '(%s) && (%s)' % (A, Bq) + tail), ('bigOR', head + '(%s) || (%s)' % (A, Bq) + tail),
           ('bigCOM', head + '(%s) && (%s)' % (Bq, A) + tail), ('bigNN', head + '!(!(%s))' % A + tail)] + ([('bigABS', head + '(%s) && ((%s) || (%s))' % (A, A, Bq) + tail),
           ('bigC', head + Cq + tail), ('bigDIS', head + '(%s) && ((%s) || (%s))' % (A, Bq, Cq) + tail)] if c.tier == 'thorough' else [])
    rb, _, _ = c.run(big, project=bigproj)
    c.stats['c12_big_product'] = NB * NB
    if all(rb.get(q_, ('', ''))[0] == 'ok' for q_, _ in big):
        R = {q_: Counter(map(tuple, qrun.parse_result(rb[q_][1])[1] or [])) for q_, _ in big}
        for name, got, exp in [('and = intersection', R['bigAND'], R['bigA'] & R['bigB']), ('or = union', R['bigOR'], R['bigA'] | R['bigB']),
                               ('commutation &&', R['bigCOM'], R['bigAND']), ('double negation', R['bigNN'], R['bigA'])] + ([('absorption', R['bigABS'], R['bigA']),
                               ('distribution', R['bigDIS'], (R['bigA'] & R['bigB']) | (R['bigA'] & R['bigC']))] if c.tier == 'thorough' else []):
            c.stats['c12_laws_checked'] += 1
            if got != exp or (name == 'and = intersection' and len(exp) != 4):
                result.violations.append(payload_replay('C12', 'boolean connectives are not set operations over %d candidate combinations: %s' % (NB * NB, name), [t for _, t in big],
                                                        'law %s: got %d rows, expected %d (rows are pairs of names; the fields f0..f%d and the methods m0..m%d of one class)' % (name, sum(got.values()), sum(exp.values()), NB - 1, NB - 1),
                                                        [('Big.java', src.encode())]))
                break
    else:
        result.tie_broken.append('C12: a query over %d candidate combinations did not answer: %s' % (NB * NB, str([(q_, rb.get(q_, ('missing', ''))[0]) for q_, _ in big])[:300]))
    c.samples += [tq[0][1], tq[3][1]]


def env_matrix_cli(c, result, pid, queries, modes=('json', 'text')):
    """the real command in other environments (variables, locale, CPUs, open-file limit): it ends normally and shows
    the same locations and rows as in the default environment"""
    def show(args, ov):
        if ov[0].startswith('release build'):
            # the command as released: telemetry key linked in, metrics NOT disabled (proxies point at a dead port)
            cmdl = [B + '/pathfinder-release', 'query', '--project', c.proj]
        else:
            cmdl = [B + '/pathfinder', 'query', '--disable-metrics', '--project', c.proj]
        rc, o, e = run_env(cmdl + args, ov, timeout=300, base=dict(ENV, HOME=c.work))
        text = re.sub(r'\x1b\[[0-9;]*m', '', o.decode('utf-8', 'replace'))
        j = text.rfind('Executing query: ')
        body = text[j:] if j >= 0 else text
        doc = next((l for l in body.split('\n') if l.startswith('{"output"')), None)
        if doc is not None:
            rs_, rows_ = qrun.parse_result(doc)
            return rc, e, Counter((x, re.sub(r'0x[0-9a-f]+', '0xPTR', json.dumps(r_))) for x, r_ in zip(rs_, rows_ or [None] * len(rs_))) if rows_ and len(rows_) == len(rs_) else Counter(rs_)
        return rc, e, Counter((m.group(1), int(m.group(2)), re.sub(r'0x[0-9a-f]+', '0xPTR', m.group(3))) for m in re.finditer(r'File: (.*?), Line: (\d+) \n\tResult: ([^\n]*)\n', body))
    for q in queries:
        for mode in modes:
            args = ['--query', q] + (['--output', 'json'] if mode == 'json' else [])
            rc0, e0, base = show(args, ('default', {}, None))
            dead = 'http://127.0.0.1:9'
            rel = [('release build, telemetry enabled', dict(HTTPS_PROXY=dead, HTTP_PROXY=dead, https_proxy=dead, http_proxy=dead), None)] if os.path.exists(B + '/pathfinder-release') else []
            for ov in ENV_MATRIX + rel:
                rc, e, got = show(args, ov)
                c.stats['%s_environment_runs' % pid.lower()] += 1
                if rc != rc0 or (pid == 'C10' and rc not in (0, 1)) or (pid != 'C10' and got != base):
                    result.violations.append(dict(property=pid, what='the query command behaves differently in another environment (%s, %s mode): exit status %d vs %d, %d vs %d rows' % (ov[0], mode, rc, rc0, sum(got.values()), sum(base.values())),
                                                  query=q, environment=ov[1], open_files_limit=ov[2], stderr=e.decode(errors='replace')[-300:],
                                                  project=[(p_, d_.decode('utf-8', 'replace')) for p_, d_ in c.files],
                                                  how='run `pathfinder query --project D --query <query>%s` with the listed variables set (or `ulimit -n`)' % (' --output json' if mode == 'json' else '')))
                    return


def scan_ruleset(c, rules, tag):
    """rules: [(file name, query text)] written as rule files into ONE ruleset directory and run with `pathfinder scan`
    -> list (in walk order of the names) of Counters of (file, line, code), or None when scan did not answer each file"""
    rdir = '%s/scanrules_%s' % (c.work, tag)
    shutil.rmtree(rdir, ignore_errors=True)
    os.makedirs(rdir)
    for name, q in rules:
        open(os.path.join(rdir, name), 'wb').write(('/**\n * @id %s\n */\n%s\n' % (name, q)).encode('utf-8'))
    rc, o, e = run([B + '/pathfinder', 'scan', '--disable-metrics', '--project', c.proj, '--ruleset', rdir], timeout=900, env=dict(ENV, HOME=c.work))
    outs = [l for l in o.decode('utf-8', 'replace').split('\n') if l.startswith('{"output"')]
    if len(outs) != len(rules):
        return None
    res = []
    for l in outs:
        try:
            res.append(Counter((r['file'], r['line'], r['code']) for r in json.loads(l).get('result_set') or []))
        except Exception:
            res.append(None)
    return res


def console_compare(c, result, pid, items, res, what):
    """items: [(qid, one-line text, k)] fed to ONE console session; each answer must be the stand-alone answer res[qid]"""
    items = [(qid, t, k) for qid, t, k in items if '\n' not in t and '\r' not in t and res.get(qid, ('', ''))[0] == 'ok']
    if not items:
        return
    data = ('\n'.join(t for _, t, _ in items) + '\n:quit\n').encode('utf-8')
    answered = console_run(c, data, 'one', transcript=True)
    c.stats['%s_console_lines' % pid.lower()] += len(items)
    if answered == -1 or len(answered) != len(items):
        result.violations.append(payload_replay(pid, 'the console answered %s of %d valid queries of one session (%s)' % (len(answered) if answered != -1 else 'none', len(items), what),
                                                [t for _, t, _ in items][:12], 'pipe the lines (then :quit) into `pathfinder query --stdin --project D --output json`', c.files))
        return
    for i_, ((qid, t, k), ans) in enumerate(zip(items, answered)):
        doc = next((l for l in ans.split('\n') if l.startswith('{"output"')), None)
        want = tuples_of(res[qid][1], k)
        got = tuples_of(doc, k) if doc is not None else None
        if got != want:
            result.violations.append(payload_replay(pid, 'in a console session a query is answered differently from the same query given alone (%s)' % what, [x for _, x, _ in items[max(0, i_ - 6):i_ + 1]],
                                                    'line %d of the session; alone: %d results; in the session: %s' % (i_ + 1, sum(want.values()), '%d results' % sum(got.values()) if got is not None else ans[:200]), c.files))
            return


# ------------------------------------------------------------------ C13 / C14
def check_c13(c, result):
    qs = [q for _, q in gen_queries(c, N[c.tier]['C13'] * 2, npreds=None) if q['preds'] and querygen.has_call(q['where'])][:N[c.tier]['C13']]
    # two-kind queries whose aliases contain one another (what substring-based resolution trips on)
    qs += [q for _, q in gen_queries(c, N[c.tier]['C13'] * 2, prefix='col', nkinds=2, npreds=2, collide=True) if querygen.has_call(q['where'])][:N[c.tier]['C13'] // 2]
    tq, groups = [], []
    for i, q in enumerate(qs):
        variants = {'orig': q, 'inline': querygen.inline_calls(q), 'formals': querygen.rename_formals(q, c.rng)}
        old = q['frm'][0][1]
        fresh = [a for a in ['zq', 'mdd', 'am', 'getNam', 'x9'] if a not in [x for _, x in q['frm']] and a not in [p['name'] for p in q['preds']]]
        variants['alias'] = querygen.rename(q, old, c.rng.choice(fresh))
        extra = dict(name='unused_' + str(i), params=[(q['frm'][0][0], 'u')], body=('cmp', '==', ('call', 'u', 'toString', q['frm'][0][0]), ('lit', '"never"')))
        variants['unused'] = dict(q, preds=q['preds'] + [extra])
        variants['unused_first'] = dict(q, preds=[extra] + q['preds'])
        variants['reorder'] = dict(q, preds=list(reversed(q['preds'])))
        ids = {}
        for k, v in variants.items():
            qid = 'v%d_%s' % (i, k)
            ids[k] = qid
            tq.append((qid, text_of(v, c.rng, 'plain' if k == 'orig' else None)))
        groups.append((ids, len(q['frm'])))
    # nested predicates with value parameters: a wrapper passes its formals on to a helper, the same inner call
    # text is reached under different bindings; every member of a group denotes the same condition
    vkinds = [k for k in querygen.KINDS if querygen.KINDS[k][0] and c.vocab.get(k) is not None]
    for gi in range(6 if c.tier == 'quick' else 60):
        if not vkinds:
            break
        K = c.rng.choice(vkinds)
        acc = c.rng.choice(querygen.KINDS[K][0])
        vals = [v for v in c.vocab.get(K, {}).get(acc, []) if isinstance(v, str) and '\n' not in v] or ['alpha', 'delta']
        v1, v2 = querygen.lit(c.rng.choice(vals)), querygen.lit(c.rng.choice(vals + ['delta']))
        m = c.rng.choice(['m', 'md', 'x'])
        frm, tail = 'FROM %s AS %s WHERE ' % (K, m), ' SELECT %s.%s()' % (m, acc)
        HAS = 'predicate hasv(%s x, string s) { x.%s() == s } ' % (K, acc)
        FIRST = 'predicate first(%s a, string t) { hasv(a, t) } ' % K
        P, Q = 'predicate pp(%s b, string t) { hasv(b, t) } ' % K, 'predicate qq(%s b, string t) { !hasv(b, t) } ' % K
        Q2 = 'predicate qq(%s v, string w) { !hasv(v, w) } ' % K
        UNUSED = 'predicate unusedp(%s b, string t) { hasv(b, t) && b.%s() == "never" } ' % (K, acc)
        ga = {'orig': frm + '%s.%s() == %s || %s.%s() == %s' % (m, acc, v1, m, acc, v2) + tail,
              'helper': HAS + frm + 'hasv(%s, %s) || hasv(%s, %s)' % (m, v1, m, v2) + tail,
              'wrapper': HAS + FIRST + frm + 'first(%s, %s) || first(%s, %s)' % (m, v1, m, v2) + tail,
              'wrapper_declared_first': FIRST + HAS + frm + 'first(%s, %s) || first(%s, %s)' % (m, v1, m, v2) + tail,
              'one_call_inlined': HAS + FIRST + frm + 'first(%s, %s) || hasv(%s, %s)' % (m, v1, m, v2) + tail}
        gb = {'orig': frm + '%s.%s() == %s || !(%s.%s() == %s)' % (m, acc, v1, m, acc, v2) + tail,
              'two_wrappers_same_formals': HAS + P + Q + frm + 'pp(%s, %s) || qq(%s, %s)' % (m, v1, m, v2) + tail,
              'formals_renamed': HAS + P + Q2 + frm + 'pp(%s, %s) || qq(%s, %s)' % (m, v1, m, v2) + tail,
              'unused_between': HAS + P + UNUSED + Q + frm + 'pp(%s, %s) || qq(%s, %s)' % (m, v1, m, v2) + tail,
              'same_wrapper_twice': HAS + P + frm + 'pp(%s, %s) || !pp(%s, %s)' % (m, v1, m, v2) + tail}
        # two predicates of one name with different numbers of parameters, one delegating to the other
        OV1 = 'predicate ov(%s a) { a.%s() == %s } ' % (K, acc, v1)
        OV2 = 'predicate ov(%s a, %s b) { ov(a) && b.%s() != %s } ' % (K, K, acc, v2)
        OV2i = 'predicate ov(%s a, %s b) { a.%s() == %s && b.%s() != %s } ' % (K, K, acc, v1, acc, v2)
        gc = {'orig': frm + '%s.%s() == %s && %s.%s() != %s' % (m, acc, v1, m, acc, v2) + tail,
              'overload_delegates': OV1 + OV2 + frm + 'ov(%s, %s)' % (m, m) + tail,
              'overload_declared_in_reverse': OV2 + OV1 + frm + 'ov(%s, %s)' % (m, m) + tail,
              'overload_inner_inlined': OV1 + OV2i + frm + 'ov(%s, %s)' % (m, m) + tail,
              'overload_both_called': OV1 + OV2 + frm + 'ov(%s) && ov(%s, %s)' % (m, m, m) + tail}
        # predicates whose body is a relational or `in` test, used as OPERANDS of == and != (also through a forwarding
        # predicate): the call stands for its parenthesised body wherever it is written
        REL = 'predicate rel(%s x) { x.%s() < %s } ' % (K, acc, v2)
        INP = 'predicate inl(%s x) { x.%s() in [%s, %s] } ' % (K, acc, v1, v2)
        FWD = 'predicate fwd(%s z) { rel(z) } ' % K
        EQV = 'predicate eqv(%s x) { x.%s() == %s } ' % (K, acc, v1)
        gr = {'orig': frm + '(%s.%s() == %s) == (%s.%s() < %s)' % (m, acc, v1, m, acc, v2) + tail,
              'call_on_the_right_of_eq': EQV + REL + frm + 'eqv(%s) == rel(%s)' % (m, m) + tail,
              'call_on_the_left_of_eq': EQV + REL + frm + 'rel(%s) == eqv(%s)' % (m, m) + tail,
              'through_a_forwarding_predicate': EQV + REL + FWD + frm + 'eqv(%s) == fwd(%s)' % (m, m) + tail,
              'body_written_out_on_the_right': EQV + frm + 'eqv(%s) == (%s.%s() < %s)' % (m, m, acc, v2) + tail}
        gs = {'orig': frm + '(%s.%s() == %s) != (%s.%s() in [%s, %s])' % (m, acc, v1, m, acc, v1, v2) + tail,
              'in_body_on_the_right_of_ne': EQV + INP + frm + 'eqv(%s) != inl(%s)' % (m, m) + tail,
              'in_body_on_the_left_of_ne': EQV + INP + frm + 'inl(%s) != eqv(%s)' % (m, m) + tail,
              'negated_operands': EQV + INP + frm + '!eqv(%s) != !inl(%s)' % (m, m) + tail}
        for tag, grp in (('a', ga), ('b', gb), ('c', gc), ('r', gr), ('s', gs)):
            ids = {}
            for name, text in grp.items():
                qid = 'n%d%s_%s' % (gi, tag, name)
                ids[name] = qid
                tq.append((qid, text))
            groups.append((ids, 1))
        # lexical scoping: a predicate body that mentions a FROM alias freely keeps meaning that alias, also when
        # the predicate is called from another predicate whose formal is spelled like the alias
        others = [k for k in vkinds if k != K]
        if others:
            K2 = c.rng.choice(others)
            acc2 = c.rng.choice(querygen.KINDS[K2][0])
            vals2 = [v for v in c.vocab.get(K2, {}).get(acc2, []) if isinstance(v, str) and '\n' not in v] or ['beta']
            w1 = querygen.lit(c.rng.choice(vals2))
            frm2 = 'FROM %s AS a, %s AS b WHERE ' % (K, K2)
            tail2 = ' SELECT a.%s(), b.%s()' % (acc, acc2)
            INNER = 'predicate inner(%s x) { x.%s() == %s && b.%s() != %s } ' % (K, acc, v1, acc2, w1)
            gd = {'orig': frm2 + 'a.%s() == %s && b.%s() != %s' % (acc, v1, acc2, w1) + tail2,
                  'free_alias_direct': INNER + frm2 + 'inner(a)' + tail2,
                  'free_alias_through_wrapper': INNER + 'predicate outer(%s z) { inner(z) } ' % K + frm2 + 'outer(a)' + tail2,
                  'wrapper_formal_spelled_like_the_alias': INNER + 'predicate outer(%s b) { inner(b) } ' % K + frm2 + 'outer(a)' + tail2,
                  'wrapper_negated': INNER + 'predicate outer(%s b) { !(!inner(b)) } ' % K + frm2 + 'outer(a)' + tail2,
                  'same_alias_twice': 'predicate both(%s p, %s q) { p.%s() == %s && q.%s() == %s } ' % (K, K, acc, v1, acc, v1) + 'predicate nb(%s r) { r.%s() != %s } ' % (K2, acc2, w1) + frm2 + 'both(a, a) && nb(b)' + tail2}
            ids = {}
            for name, text in gd.items():
                qid = 'n%dd_%s' % (gi, name)
                ids[name] = qid
                tq.append((qid, text))
            groups.append((ids, 2))
        c.stats['c13_nested_value_groups'] += 5
    # conditions whose literals hold multi-byte characters, raw line breaks, tabs, white-space runs or end in a
    # backslash: the predicate-free original, the same with a never-called declaration, behind a call, as a value
    for wi, word in enumerate(['café', '日本', '😀x', 'a\nb', 'a\r\nb', 'p  q', 'p\tq', 'C:\\', 'ü' * 40, 'naïve "q" é', 'Kapı ıı', 'ſſ İ \u212a', 'ȺȾȺȾ', 'e\u0301\u200f'] if vkinds else []):
        K = vkinds[wi % len(vkinds)]
        acc = querygen.KINDS[K][0][0]
        L = querygen.lit(word)
        frm, tail = 'FROM %s AS m WHERE ' % K, ' SELECT m.%s()' % acc
        NEVER = 'predicate never(%s u) { u.%s() == "never" } ' % (K, acc)
        ge = {'orig': frm + 'm.%s() != %s' % (acc, L) + tail,
              'never_called_declaration': NEVER + frm + 'm.%s() != %s' % (acc, L) + tail,
              'behind_a_call': 'predicate ne(%s y) { y.%s() != %s } ' % (K, acc, L) + frm + 'ne(m)' + tail,
              'as_a_value': 'predicate hasv(%s x, string s) { x.%s() == s } ' % (K, acc) + frm + '!hasv(m, %s)' % L + tail,
              'alias_renamed': 'FROM %s AS zq WHERE zq.%s() != %s SELECT zq.%s()' % (K, acc, L, acc)}
        ids = {}
        for name, text in ge.items():
            qid = 'n%de_%s' % (wi, name)
            ids[name] = qid
            tq.append((qid, text))
        groups.append((ids, 1))
        c.stats['c13_special_literal_groups'] += 1
    if 'variable_declaration' in vkinds:
        for wi, L in enumerate(['"\\"p  q\\""', '"\\"p\tq\\""', '"\\"C:\\\\\\\\docs\\\\\\\\\\""']):
            frm, tail = 'FROM variable_declaration AS m WHERE ', ' SELECT m.getName()'
            gf = {'orig': frm + 'm.getVariableValue() == %s' % L + tail,
                  'never_called_declaration': 'predicate never(variable_declaration u) { u.getName() == "never" } ' + frm + 'm.getVariableValue() == %s' % L + tail,
                  'behind_a_call': 'predicate eq(variable_declaration y) { y.getVariableValue() == %s } ' % L + frm + 'eq(m)' + tail,
                  'as_a_value': 'predicate hasv(variable_declaration x, string s) { x.getVariableValue() == s } ' + frm + 'hasv(m, %s)' % L + tail}
            ids = {}
            for name, text in gf.items():
                qid = 'n%df_%s' % (wi, name)
                ids[name] = qid
                tq.append((qid, text))
            groups.append((ids, 1))
            c.stats['c13_special_literal_groups'] += 1
    res, ip, _ = c.run(tq)
    model = c.model(tq)
    c.tie(tq, res, ip, model, result)
    # direct oracle as well: the extracted SPECIFICATION (formals bound to entities / literal values) on every variant
    oracle(c, tq, res, model, result, c.files, {qid: k for ids, k in groups for qid in ids.values()})
    texts = dict(tq)
    for ids, k in groups:
        base = res.get(ids['orig'], ('missing', ''))
        if base[0] != 'ok':
            # no answer for the original: then none for any variant either (same outcome class)
            oks = [name for name, qid in ids.items() if res.get(qid, ('missing', ''))[0] == 'ok']
            if oks:
                result.violations.append(payload_replay('C13', 'the original is not answered (%s) but its variant "%s" is' % (base[0], oks[0]), [texts[ids['orig']], texts[ids[oks[0]]]],
                                                        'original: %s %s' % (base[0], base[1][:160]), c.files))
            c.stats['c13_skipped'] += 1
            continue
        b = tuples_of(base[1], k)
        c.stats['c13_groups'] += 1
        if b:
            c.stats['c13_groups_nonempty'] += 1
        for name, qid in ids.items():
            oc, payload = res.get(qid, ('missing', ''))
            if oc != 'ok' or tuples_of(payload, k) != b:
                result.violations.append(payload_replay('C13', 'results change under the transformation "%s"' % name, [texts[ids['orig']], texts[qid]],
                                                        'original: %d results; variant: %s %s' % (sum(b.values()), oc, sum(tuples_of(payload, k).values()) if oc == 'ok' else payload[:100]), c.files))
                break
    # the groups once more inside ONE console session: their members declare predicates of the same names over
    # different kinds, with the same and with different numbers of parameters -- a declaration must not outlive its query
    kof = {qid: k for ids, k in groups for qid in ids.values()}
    nested = [(qid, t, kof[qid]) for qid, t in tq if qid in kof and qid.startswith('n')]
    console_compare(c, result, 'C13', nested[:400 if c.tier == 'quick' else 4000], res, 'predicate declarations of the same names in earlier lines')
    # ... and as the rule files of ONE ruleset run by `scan`: rules with the same FROM / WHERE / SELECT text that declare a
    # predicate of the same name with DIFFERENT bodies, the same rule with the call written out, with the parameter
    # renamed, with a never-called declaration
    mnames = [v for v in dict.fromkeys(c.vocab.get('method_declaration', {}).get('getName', [])) if isinstance(v, str) and v.isidentifier()][:3]
    if len(mnames) >= 2:
        w_ = 'FROM method_declaration AS m WHERE sel(m) && m.getName() != "zz" SELECT m.getName()'
        body = lambda nm, par='x': 'predicate sel(method_declaration %s) { %s.getName() == "%s" } ' % (par, par, nm)
        srules = [('a_first.cql', body(mnames[0]) + w_), ('b_other_body.cql', body(mnames[1]) + w_), ('c_renamed.cql', body(mnames[1], 'y9') + w_),
                  ('d_extra.cql', 'predicate never(method_declaration u) { u.getName() == "never" } ' + body(mnames[1]) + w_),
                  ('e_inlined.cql', 'FROM method_declaration AS m WHERE (m.getName() == "%s") && m.getName() != "zz" SELECT m.getName()' % mnames[1]),
                  ('f_first_again.cql', body(mnames[0]) + w_)]
        got = scan_ruleset(c, srules, 'c13')
        alone, _, _ = c.run([(nm, q) for nm, q in srules])
        c.stats['c13_scan_rules'] = len(srules)
        if got is None:
            result.violations.append(payload_replay('C13', '`scan` did not answer every rule file of a ruleset whose rules declare same-named predicates', [q for _, q in srules], 'pathfinder scan --project D --ruleset R', c.files))
        else:
            for (nm, q), g_ in zip(srules, got):
                oc, payload = alone.get(nm, ('missing', ''))
                want = Counter(x[0] for x in tuples_of(payload, 1).elements()) if oc == 'ok' else None
                if want is not None and g_ != want:
                    result.violations.append(payload_replay('C13', 'in a ruleset run by `scan`, rule %s is answered differently from the same query alone (other rules declare a same-named predicate with another body)' % nm,
                                                            [q_ for _, q_ in srules], 'alone: %d results; in the ruleset: %s' % (sum(want.values()), sum(g_.values()) if g_ is not None else 'unparsable'), c.files))
                    break
    c.samples += [tq[0][1], tq[1][1]] if tq else []
    if c.tier == 'thorough':
        import coqcross
        pairs = []
        for qid, t in tq[:40]:
            m = model.get(qid, {})
            if m.get('parse') == 'accept':
                pairs.append((t.encode('utf-8'), bytes.fromhex(m.get('cond', 'x')[1:])))
        ok, detail = coqcross.cross_check_conditions(pairs, c.work)
        c.stats['in_coq_cross_checked'] = len(pairs)
        if not ok:
            result.tie_broken.append('extraction cross-check: vm_compute inside Coq disagrees with the extracted OCaml model: ' + detail)


def check_c14(c, result):
    qs = gen_queries(c, N[c.tier]['C14'])
    tq, groups = [], []
    for qid, q in qs:
        toks = querygen.query_tokens(q)
        ids = []
        for j, style in enumerate(['plain', 'tight', 'wild', 'wild', 'wild', 'cr', 'tab', 'lf']):
            vid = '%s_%d' % (qid, j)
            tq.append((vid, querygen.render(toks, c.rng, style)))
            ids.append(vid)
        groups.append((ids, len(q['frm'])))
    # the same queries with their keywords in lower and mixed case, ending in a number directly before SELECT: whether
    # or not that spelling is accepted, it is accepted (and answered) alike in every layout
    for qid, q in qs[:10 if c.tier == 'quick' else 60]:
        toks = querygen.query_tokens(q)
        if 'WHERE' not in toks or any('\n' in t for t in toks):
            continue
        si = len(toks) - 1 - toks[::-1].index('SELECT')
        toks = toks[:si] + ['&&', '1', '==', '1'] + toks[si:]
        for cname, fn in (('lower', str.lower), ('mixed', str.capitalize)):
            kt = [fn(t) if t in ('FROM', 'WHERE', 'AS', 'SELECT', 'predicate') else t for t in toks]
            ids = []
            for j, style in enumerate(['plain', 'tight', 'wild', 'tab', 'cr']):
                vid = '%s_%s_%d' % (qid, cname, j)
                tq.append((vid, querygen.render(kt, c.rng, style)))
                ids.append(vid)
            groups.append((ids, len(q['frm'])))
            c.stats['c14_keyword_case_groups'] += 1
    res, ip, _ = c.run(tq)
    model = c.model(tq)
    c.tie(tq, res, ip, model, result)
    texts = dict(tq)
    glued = 0
    for ids, k in groups:
        base = res.get(ids[0], ('missing', ''))
        c.stats['c14_groups'] += 1
        for vid in ids[1:]:
            oc, payload = res.get(vid, ('missing', ''))
            same = (oc == base[0]) and (oc != 'ok' or tuples_of(payload, k) == tuples_of(base[1], k))
            if not same:
                result.violations.append(payload_replay('C14', 'results depend on the layout of the query', [texts[ids[0]], texts[vid]],
                                                        'plain layout: %s; re-laid-out: %s %s' % (base[0], oc, payload[:120] if oc != 'ok' else ''), c.files))
                break
        if base[0] == 'ok' and sum(tuples_of(base[1], k).values()):
            c.stats['c14_groups_nonempty'] += 1
    # the same layouts typed into the CONSOLE, several in one session (those that fit on one line): every line is
    # answered with what the layout answers stand-alone
    sess = []
    for ids, k in groups[:14 if c.tier == 'quick' else 80]:
        for vid in ids:
            if '\n' not in texts[vid] and res.get(vid, ('', ''))[0] == 'ok':
                sess.append((vid, k))
    if sess:
        data = ('\n'.join(texts[vid] for vid, _ in sess) + '\n:quit\n').encode('utf-8')
        answered = console_run(c, data, 'one', transcript=True)
        c.stats['c14_console_lines'] = len(sess)
        if answered == -1 or len(answered) != len(sess):
            result.violations.append(payload_replay('C14', 'the console answered %s of %d one-line layouts of valid queries' % (len(answered) if answered != -1 else 'none', len(sess)),
                                                    [texts[vid] for vid, _ in sess][:12], 'pipe the lines (then :quit) into `pathfinder query --stdin --project D --output json`', c.files))
        else:
            for (vid, k), ans in zip(sess, answered):
                doc = next((l for l in ans.split('\n') if l.startswith('{"output"')), None)
                want = tuples_of(res[vid][1], k)
                got = tuples_of(doc, k) if doc is not None else None
                if got != want:
                    i_ = [v for v, _ in sess].index(vid)
                    result.violations.append(payload_replay('C14', 'in the console a layout of a query is answered differently from the same text given with --query', [texts[v] for v, _ in sess[max(0, i_ - 2):i_ + 1]],
                                                            'stand-alone: %d results; console: %s' % (sum(want.values()), '%d results' % sum(got.values()) if got is not None else ans[:200]), c.files))
                    break
    # rule files re-wrapped and re-indented (a line break at every token boundary in turn, every token on a line of
    # its own, CRLF): `query --query-file` and `ci` must report what the one-line query reports.  The conditions carry
    # arithmetic, so that wrapped lines begin with `*`, `/`, `-`, `!`, `(`, `.`
    def cli_locs(args):
        rc, o, e = run([B + '/pathfinder'] + args, timeout=300, env=dict(ENV, HOME=c.work))
        ls = [l for l in o.decode('utf-8', 'replace').split('\n') if l.startswith('{"output"')]
        try:
            return sorted((r['file'], r['line'], r['code']) for r in json.loads(ls[-1]).get('result_set') or []) if ls else None
        except Exception:
            return None
    nfile = 0
    for qid, q in qs[:4 if c.tier == 'quick' else 25]:
        toks = querygen.query_tokens(q)
        if any('\n' in t or '\r' in t for t in toks):
            continue
        si = len(toks) - 1 - toks[::-1].index('SELECT')
        toks = toks[:si] + (['&&'] if 'WHERE' in toks[:si] else ['WHERE']) + ['6', '/', '2', '*', '3', '-', '1', '==', '8'] + toks[si:]
        one = ' '.join(toks)
        ref = cli_locs(['query', '--disable-metrics', '--project', c.proj, '--output', 'json', '--query', one])
        layouts = [('every token on its own line', '\n'.join(toks) + '\n'), ('crlf, indented', '\r\n\t'.join(toks) + '\r\n'),
                   ('a lone carriage return between the tokens', '\r'.join(toks) + '\n'),
                   ('carriage return / line feed / tab in turn', ''.join(t + ['\r', '\n', '\t', ' \r', '\r '][j % 5] for j, t in enumerate(toks)) + '\n')]
        for bi in range(1, len(toks)):
            if toks[bi] in ('*', '/', '-', '!', '(', '.', '==', '&&') and c.rng.random() < 0.5:
                layouts.append(('line break before token %d (%s)' % (bi, toks[bi]), ' '.join(toks[:bi]) + '\n    ' + ' '.join(toks[bi:]) + '\n'))
        for name, body in layouts[:10 if c.tier == 'quick' else 40]:
            nfile += 1
            rdir = '%s/c14rules%d' % (c.work, nfile)
            os.makedirs(rdir, exist_ok=True)
            fp = rdir + '/r.cql'
            open(fp, 'wb').write(('/**\n * @id r\n */\n' + body).encode())
            got = cli_locs(['query', '--disable-metrics', '--project', c.proj, '--output', 'json', '--query-file', fp])
            c.stats['c14_rule_file_layouts'] += 1
            if got != ref:
                result.violations.append(payload_replay('C14', 'a rule file gives other results when its query is re-wrapped (%s; query --query-file)' % name, [one, body],
                                                        'one line: %s results; re-wrapped: %s' % (len(ref) if ref is not None else 'error', len(got) if got is not None else 'error'), c.files))
                break
            outp = rdir + '/ci.json'
            run([B + '/pathfinder', 'ci', '--disable-metrics', '--project', c.proj, '--ruleset', rdir, '--output', 'json', '--output-file', outp], timeout=300, env=dict(ENV, HOME=c.work))
            try:
                ent = json.load(open(outp))[0]
                rs_ = ent['result']['result_set'] if isinstance(ent.get('result'), dict) else []
                goti = sorted((r['file'], r['line'], r['code']) for r in rs_ or [])
            except Exception:
                goti = None
            if goti != (ref or []) and not (ref is None and not goti):
                result.violations.append(payload_replay('C14', 'a rule file gives other results when its query is re-wrapped (%s; ci)' % name, [one, body],
                                                        'one line: %s results; re-wrapped: %s' % (len(ref) if ref is not None else 'error', len(goti) if goti is not None else 'error'), c.files))
                break
    # `scan` on rule files whose identifiers BEGIN like keywords (an alias FROMmethod, a predicate predicateIsPublic, an
    # alias WHEREabouts / SELECTed / ASx) with a line break directly before them, after the FROM line: one query per
    # file, the same answer as the one-line layout
    k0 = next((k for k in ('method_declaration', 'class_declaration') if c.vocab.get(k)), None)
    if k0:
        base_rules = []
        for al, pn in (('FROMmethod', 'predicateIsPublic'), ('predicateX', 'FROMhere'), ('WHEREabouts', 'SELECTed'), ('ASx', 'INside'), ('m', 'p')):
            toks = ['predicate', pn, '(', k0, 'y', ')', '{', 'y', '.', 'getName', '(', ')', '!=', '"zz"', '}', 'FROM', k0, 'AS', al, 'WHERE', pn, '(', al, ')', '&&', al, '.', 'getName', '(', ')', '!=', '"q"', 'SELECT', al, '.', 'getName', '(', ')']
            one = ' '.join(toks)
            lays = [one]
            for bi in range(1, len(toks)):
                if toks[bi] in (al, pn, 'FROM', 'predicate') or toks[bi - 1] in ('FROM', 'AS', 'WHERE', '&&', 'SELECT'):
                    lays.append(' '.join(toks[:bi]) + '\n' + ' '.join(toks[bi:]))
            lays.append('\n'.join(toks))
            base_rules.append((one, lays))
        srules, ref = [], []
        for bi_, (one, lays) in enumerate(base_rules):
            for li_, lay in enumerate(lays):
                srules.append(('k%02d_%02d.cql' % (bi_, li_), lay))
                ref.append(bi_ * 100)
        got = scan_ruleset(c, srules, 'c14')
        c.stats['c14_scan_rule_files'] = len(srules)
        if got is None:
            result.violations.append(payload_replay('C14', '`scan` did not answer every rule file (identifiers beginning like keywords, broken before them)', [q for _, q in srules][:8], 'pathfinder scan --project D --ruleset R', c.files))
        else:
            first = {}
            for (nm, q), g_ in zip(srules, got):
                b_ = nm[:3]
                first.setdefault(b_, g_)
                if g_ != first[b_]:
                    result.violations.append(payload_replay('C14', 'a rule file run by `scan` gives other results when its query is broken before an identifier that begins like a keyword',
                                                            [srules[[n_ for n_, _ in srules].index(b_ + '_00.cql')][1], q], 'one line: %s results; this layout: %s' % (sum(first[b_].values()) if first[b_] is not None else 'error', sum(g_.values()) if g_ is not None else 'error'), c.files))
                    break
    c.samples += [tq[1][1], tq[2][1]]


# ------------------------------------------------------------------ C15
def check_c15(c, result):
    byloc = {}
    for n in c.nodes:
        byloc.setdefault((engine.hexs(n['file']), int(n['line']), engine.hexs(n['snippet']), engine.hexs(n['type'])), []).append(n)
    qs = gen_queries(c, N[c.tier]['C15'])
    # rows must be computed on each combination's OWN entities: two-kind queries whose aliases are prefixes
    # of one another, without WHERE (many combinations share one entity), selecting from both aliases
    qs += gen_queries(c, N[c.tier]['C15'] // 3, prefix='p', nkinds=2, collide=True, where=False, npreds=0)
    tq = [(qid, text_of(q, c.rng)) for qid, q in qs]
    res, ip, _ = c.run(tq)
    model = c.model(tq)
    c.tie(tq, res, ip, model, result)
    # the JSON document and the text report, byte for byte against Engine/Render.v
    # (answers above a size bound are left to JSON mode: the text report is assembled quadratically)
    res_text, _, _ = c.run([(qid, t) for qid, t in tq if len(res.get(qid, ('', ''))[1]) < (60000 if c.tier == 'quick' else 400000)], mode='text')
    rstats, rdis = engine.render_compare(c.work + '/graph.txt', tq, res, res_text, model, c.work, lambda qid, m: len(m['from'].split(',')))
    c.stats.update(rstats)
    # text mode and JSON mode describe the same rows: the `Result:` row of every text block is the JSON row of that
    # combination with every value formatted the documented way (string as is, number, [a b] for lists)
    def fmt_json_value(v):
        if v is None:
            return '<nil>'
        if isinstance(v, bool):
            return 'true' if v else 'false'
        if isinstance(v, list):
            return '[' + ' '.join(fmt_json_value(x) for x in v) + ']'
        return str(v)
    for qid, t in tq:
        m_ = model.get(qid) or {}
        ocj, pj = res.get(qid, ('missing', ''))
        oct_, pt = res_text.get(qid, ('missing', ''))
        if ocj != 'ok' or oct_ != 'ok' or m_.get('infrag') != '1' or '\ufffd' in pj:
            continue
        try:
            d = json.loads(pj)
        except Exception:
            continue
        rs, rows = d.get('result_set') or [], d.get('output') or []
        k = len(m_['from'].split(','))
        if not rows or len(rs) != k * len(rows) or any(not isinstance(r_, list) for r_ in rows) or any(isinstance(v, dict) for r_ in rows for v in r_):
            continue
        want = Counter()
        for i, r_ in enumerate(rows):
            rowtxt = re.sub(r'0x[0-9a-f]+', '0xPTR', ''.join(fmt_json_value(v) + ' | ' for v in r_))
            for e in rs[k * i:k * i + k]:
                want[(e['file'], e['line'], rowtxt)] += 1
        got = Counter()
        for blk in re.split(r'(?m)^\tFile: ', pt)[1:]:
            mh = re.match(r'(.*), Line: (\d+) \n\tResult: ([^\n]*)\n', blk, re.S)
            if mh:
                got[(mh.group(1), int(mh.group(2)), re.sub(r'0x[0-9a-f]+', '0xPTR', mh.group(3)))] += 1
        c.stats['c15_text_vs_json_rows'] += 1
        if any('\n' in key[2] for key in want):
            continue                      # a value with a line break cannot be read back from the text report
        if got != want:
            only_t = list((got - want).items())[:1]
            only_j = list((want - got).items())[:1]
            result.violations.append(payload_replay('C15', 'text mode and JSON mode do not show the same rows', [t],
                                                    'only in text mode: %s; only in JSON mode: %s' % (str(only_t)[:300], str(only_j)[:300]), c.files))
            break
    if rdis and not any('Render.v' in t for t in result.tie_broken):
        result.tie_broken.append('correspondence model/implementation (output rendering): ' + rdis[0][:600])
        result.notes.append(dict(rendering_disagreements=rdis[:5], project=[p for p, _ in c.files]))
    for (qid, q), (_, t) in zip(qs, tq):
        oc, payload = res.get(qid, ('missing', ''))
        if oc != 'ok':
            continue
        try:
            d = json.loads(payload)
        except Exception as e:
            result.violations.append(payload_replay('C15', 'JSON output is not a well-formed document', [t], str(e), c.files))
            continue
        rs, rows = d.get('result_set') or [], d.get('output') or []
        k = len(q['frm'])
        if len(rs) != k * len(rows):
            result.violations.append(payload_replay('C15', 'rows do not line up with results', [t], '%d result entries, %d rows, %d FROM items' % (len(rs), len(rows), k), c.files))
            continue
        c.stats['c15_queries'] += 1
        for i, rowv in enumerate(rows):
            c.stats['c15_rows'] += 1
            if not isinstance(rowv, list) or len(rowv) != len(q['select']):
                result.violations.append(payload_replay('C15', 'a row does not hold one value per SELECT item', [t], 'row %d of %d is %r for %d items' % (i, len(rows), rowv, len(q['select'])), c.files))
                break
            bad = None
            for item, v in zip(q['select'], rowv):
                if item[0] == 'str':
                    exp = item[1][1:-1]
                    if v != exp:
                        bad = ('literal', item[1], v)
                elif item[0] == 'chain':
                    pos = [a for _, a in q['frm']].index(item[1])
                    kind = q['frm'][pos][0]
                    ent = rs[k * i + pos]
                    cands = byloc.get((ent['file'], ent['line'], ent['code'], kind), [])
                    f = engine.ACC_FIELD.get(item[2])
                    if f and cands:
                        exps = [engine.hexlist(n[f]) if n[f].startswith('[') else engine.hexs(n[f]) for n in cands]
                        if v not in exps:
                            bad = ('accessor of the wrong entity or wrong value', item[1] + '.' + item[2], v, exps[:2])
                elif item[0] == 'alias':
                    if not (isinstance(v, str) and v.startswith('Node{Type: ')):
                        bad = ('bare alias is not the entity description', v)
                    else:
                        pos = [a for _, a in q['frm']].index(item[1])
                        if not v.startswith('Node{Type: %s,' % q['frm'][pos][0]):
                            bad = ('bare alias describes an entity of another kind', v[:60])
                        else:
                            # ... and it must be THIS combination's entity: its name follows the kind
                            ent = rs[k * i + pos]
                            cands = byloc.get((ent['file'], ent['line'], ent['code'], q['frm'][pos][0]), [])
                            names = [engine.hexs(n['name']) for n in cands]
                            if cands and not any(v.startswith('Node{Type: %s, Name: %s, ' % (q['frm'][pos][0], nm)) for nm in names):
                                bad = ('bare alias describes another entity than the one of this combination', v[:80], names[:2])
                if bad:
                    break
            if bad:
                result.violations.append(payload_replay('C15', 'output row value does not match its SELECT item', [t], repr(bad)[:400], c.files))
                break
    # rows whose values are LISTS handed out by model objects (the @param texts of a Javadoc), many results at once:
    # each row holds its own entity's list, and the list-valued accessor next to a single-valued one changes nothing
    import objview
    docq = [('dq0', 'FROM method_declaration AS x SELECT x.getDoc().GetCommentParam(), x.getName()'),
            ('dq1', 'FROM method_declaration AS x SELECT x.getDoc().GetCommentReturn(), x.getDoc().GetCommentParam(), x.getDoc().GetCommentParam()'),
            ('dq2', 'FROM class_declaration AS x SELECT x.getDoc().GetCommentParam(), x.getDoc().GetCommentAuthor()')]
    rdq, _, _ = c.run(docq)
    for qid, t in docq:
        oc, payload = rdq.get(qid, ('missing', ''))
        if oc != 'ok':
            continue
        try:
            d = json.loads(payload)
        except Exception:
            continue
        kind = 'method_declaration' if qid != 'dq2' else 'class_declaration'
        cols = [i for i, part in enumerate(t.split(' SELECT ')[1].split(', ')) if 'GetCommentParam' in part]
        for e, row in zip(d.get('result_set') or [], d.get('output') or []):
            cands = byloc.get((e['file'], e['line'], e['code'], kind), [])
            exps = []
            for n in cands:
                dd = objview._doc(n['doc']) if n.get('doc', '~') != '~' else None
                exps.append([x for nm, x in (dd['tags'] if dd else []) if nm == 'param'])
            c.stats['c15_list_rows_checked'] += 1
            if cands and isinstance(row, list) and any(row[i] not in exps for i in cols):
                result.violations.append(payload_replay('C15', 'a list-valued row value is not the list of the entity of its combination', [t],
                                                        'entity %s:%d; row %r; expected one of %r' % (e['file'], e['line'], row, exps[:2]), c.files))
                break
    # output modes through the real CLI: text / json / output-file / verbose describe the same locations
    n_cli = 6 if c.tier == 'quick' else 40
    fixed = [(('fx0', dict(frm=[('method_declaration', 'm')])), ('fx0', 'FROM method_declaration AS m SELECT m.getName(), m.getVisibility()')),
             (('fx1', dict(frm=[('class_declaration', 'c'), ('method_declaration', 'm')])), ('fx1', 'FROM class_declaration AS c, method_declaration AS m WHERE c.getName() != m.getName() SELECT c.getName(), m.getName()')),
             (('fx2', dict(frm=[('variable_declaration', 'v')])), ('fx2', 'FROM variable_declaration AS v WHERE v.getName() != "zz" SELECT v.getName(), v.getVariableValue(), v'))]
    for (qid, q), (_, t) in fixed + list(zip(qs, tq))[:n_cli]:
        locs, pairing = {}, {}
        for mode in ('json', 'text', 'json+file', 'text+file', 'json+verbose', 'text+verbose'):
            args = [B + '/pathfinder', 'query', '--disable-metrics', '--project', c.proj, '--query', t]
            if 'json' in mode:
                args += ['--output', 'json']
            outf = None
            if 'file' in mode:
                outf = c.work + '/out_%s_%s.txt' % (qid, mode.replace('+', '_'))
                args += ['--output-file', outf]
                # the file already exists and is longer than any report (a results file re-used between runs)
                with open(outf, 'w') as fh_:
                    fh_.write('{"stale": "%s"}\n\tFile: stale.java, Line: 1 \n' % ('x' * 400000))
            if 'verbose' in mode:
                args += ['--verbose']
            rc, out, err = run(args, timeout=120, env=dict(ENV, HOME=c.work))
            body = open(outf, 'rb').read() if outf else out
            text = body.decode('utf-8', 'replace')
            if rc != 0:
                result.violations.append(payload_replay('C15', 'CLI exited with status %d in mode %s' % (rc, mode), [t], err.decode(errors='replace')[-200:], c.files))
                break
            if not outf:
                # D42: once the scan has returned (the banner `Executing query:` is printed after it) the progress
                # display must be silent: no clear-screen sequence may follow the banner
                j = text.rfind('Executing query: ')
                c.stats['c15_stdout_after_banner_checked'] += 1
                if j >= 0 and '\x1b[H' in text[j:]:
                    result.violations.append(payload_replay('C15', 'the progress display wrote into the output after the scan had returned (mode %s)' % mode, [t],
                                                            repr(text[j:j + 200]), c.files))
                    break
            if 'json' in mode:
                # stdout carries the fixed banner before the document
                i = text.rfind('{"output"')
                if i < 0:
                    locs[mode] = None
                    continue
                try:
                    d = json.loads(text[i:].strip())
                except Exception as e:
                    result.violations.append(payload_replay('C15', 'JSON document (mode %s) is not well formed' % mode, [t], str(e), c.files))
                    break
                locs[mode] = Counter((r['file'], r['line']) for r in d.get('result_set') or [])
                rs_, rows_, k_ = d.get('result_set') or [], d.get('output') or [], len(q['frm'])
                if len(rs_) == k_ * len(rows_):
                    # which row stands next to which combination
                    pairing[mode] = Counter((tuple((e['file'], e['line'], e['code']) for e in rs_[k_ * i_:k_ * i_ + k_]), re.sub(r'0x[0-9a-f]+', '0xPTR', json.dumps(r_))) for i_, r_ in enumerate(rows_))
            else:
                plain = re.sub(r'\x1b\[[0-9;]*m', '', text)
                locs[mode] = Counter((m.group(1), int(m.group(2))) for m in re.finditer(r'File: (.*?), Line: (\d+) ', plain))
                pairing[mode] = Counter((m.group(1), int(m.group(2)), re.sub(r'0x[0-9a-f]+', '0xPTR', m.group(3))) for m in re.finditer(r'File: (.*?), Line: (\d+) \n\tResult: ([^\n]*)\n', plain))
        vals = [v for v in locs.values() if v is not None]
        c.stats['c15_cli_mode_groups'] += 1
        if vals and any(v != vals[0] for v in vals):
            result.violations.append(payload_replay('C15', 'output modes describe different sets of locations', [t], {m: sum(v.values()) if v is not None else None for m, v in locs.items()}, c.files))
        # ... and the same row next to the same location, whatever the flags (stdout / file / verbose)
        for fam_ in ('json', 'text'):
            ms = [m for m in pairing if m.startswith(fam_)]
            c.stats['c15_cli_pairings_compared'] += max(0, len(ms) - 1)
            diff = next((m for m in ms[1:] if pairing[m] != pairing[ms[0]]), None)
            if diff:
                only = list((pairing[diff] - pairing[ms[0]]).items())[:1]
                result.violations.append(payload_replay('C15', 'the row shown next to a location depends on the output flags (%s vs %s)' % (ms[0], diff), [t],
                                                        'only with %s: %s' % (diff, str(only)[:400]), c.files))
                break
    env_matrix_cli(c, result, 'C15', ['FROM method_declaration AS m SELECT m.getName(), m.getVisibility()'])
    c.samples += [t for _, t in tq[:2]]


# ------------------------------------------------------------------ C16
def check_c16(c, result):
    qs = gen_queries(c, N[c.tier]['C16'])
    base = [(qid, text_of(q, c.rng)) for qid, q in qs]
    # getDoc-evaluating queries and invalid ones are mixed in: they are what could leave state behind
    kinds = [k for k in ['method_declaration', 'class_declaration', 'variable_declaration', 'method_invocation'] if c.vocab.get(k) is not None]
    poison = []
    for i, k in enumerate(kinds):
        poison.append(('g%d' % i, 'FROM %s AS x WHERE x.getDoc().NumberOfCommentLines >= 0 SELECT x.getDoc()' % k))
        poison.append(('d%d' % i, 'FROM %s AS x SELECT x' % k))
    # every getter of the model objects (statement parts, block statements, object-creation arguments, Javadoc tags):
    # reading through them must leave the loaded graph as it is
    import objview
    present = set(engine.hexs(n['type']) for n in c.nodes)
    for pid_ in ('C06', 'C05'):
        for k_, items in objview.views(pid_).items():
            if k_ in present:
                for j_, (expr_, _f) in enumerate(items):
                    poison.append(('ov_%s_%s_%d' % (pid_, k_, j_), 'FROM %s AS x SELECT %s' % (k_, expr_)))
    poison += [('bad0', 'FROM WHERE'), ('bad1', 'FROM method_declaration AS m WHERE m.nope() SELECT m'), ('bad2', 'SELECT'),
               ('bad3', 'FROM method_declaration AS m WHERE zz.getName() == "a" SELECT m')]
    # confusable neighbours: the same WHERE / SELECT text under another FROM (an alias dropped, or the
    # same alias bound to another kind) — what a cache keyed by text or by alias would mix up
    neigh = []
    for qid, q in qs[:max(8, len(qs) // 2)]:
        toks = querygen.query_tokens(q)
        wi = toks.index('WHERE') if 'WHERE' in toks else toks.index('SELECT')
        fi = toks.index('FROM')
        tail = toks[wi:]
        if len(q['frm']) == 2:
            k0, a0 = q['frm'][0]
            neigh.append((qid + '_drop', ' '.join(toks[:fi] + ['FROM', k0, 'AS', a0] + tail)))
            # ... and each kind of the pair under the OTHER one's alias, asked for an accessor only that kind has (what an
            # environment kept from the two-kind query would get wrong)
            k1, a1 = q['frm'][1]
            for tag_, (kk, aa, ko) in (('_crossa', (k1, a0, k0)), ('_crossb', (k0, a1, k1))):
                own = [x for x in querygen.KINDS.get(kk, ([], [], []))[0] if x not in querygen.KINDS.get(ko, ([], [], []))[0]]
                if own:
                    neigh.append((qid + tag_, 'FROM %s AS %s WHERE %s.%s() != "zz9" SELECT %s.%s()' % (kk, aa, aa, own[0], aa, own[0])))
        k0, a0 = q['frm'][0]
        others = [k for k in kinds if k != k0] or ['class_declaration']
        swapped = [(c.rng.choice(others), a0)] + q['frm'][1:]
        frm = []
        for i, (k, a) in enumerate(swapped):
            frm += ([','] if i else []) + [k, 'AS', a]
        neigh.append((qid + '_rebind', ' '.join(toks[:fi] + ['FROM'] + frm + tail)))
    # short-circuit pairs, always adjacent and in this order: a two-kind query whose condition a later query
    # repeats verbatim under a FROM that lacks one alias; stand-alone the second cannot compile, so whatever
    # state the first left behind (compiled program, environment, alias table) shows as rows
    sc = []
    def lit(x):
        return json.dumps(x) if isinstance(x, str) and all(32 <= ord(ch) < 127 and ch not in '"\\' for ch in x) else None
    mnames = [lit(x) for x in c.vocab.get('method_declaration', {}).get('getName', [])]
    cnames = [lit(x) for x in c.vocab.get('class_declaration', {}).get('getName', [])]
    mnames, cnames = [x for x in mnames if x], [x for x in cnames if x]
    for i in range(min(4 if c.tier == "thorough" else 2, len(mnames), len(cnames) or 0)):
        mn, cn = mnames[i % len(mnames)], cnames[i % len(cnames)]
        for j, cond in enumerate(['md.getName() == %s || cd.getName() == %s' % (mn, cn),
                                  '!(md.getName() != %s && cd.getName() != %s)' % (mn, cn),
                                  'cd.getName() == %s || md.getName() == %s' % (cn, mn),
                                  'md.getName() != %s && cd.getName() == %s' % (mn, cn)]):
            two = 'FROM method_declaration AS md, class_declaration AS cd WHERE %s SELECT md.getName()' % cond
            sc.append(('sc%d_%d_two' % (i, j), two))
            sc.append(('sc%d_%d_md' % (i, j), 'FROM method_declaration AS md WHERE %s SELECT md.getName()' % cond))
            sc.append(('sc%d_%d_cd' % (i, j), 'FROM class_declaration AS cd WHERE %s SELECT cd.getName()' % cond))
            sc.append(('sc%d_%d_sw' % (i, j), 'FROM class_declaration AS md, method_declaration AS cd WHERE %s SELECT md.getName()' % cond))
    c.stats['c16_short_circuit_pairs'] = len(sc)
    hist = []
    nrep = 3
    for rep in range(nrep):
        order = base + poison + neigh
        c.rng.shuffle(order)
        hist += [('%s#%d' % (qid, rep), t) for qid, t in order]
        # each neighbour also directly after the query it was derived from (both orders over the repetitions)
        bd = dict(base)
        for nid, nt in neigh:
            b = nid.rsplit('_', 1)[0]
            pair = [(b, bd[b]), (nid, nt)] if rep != 1 else [(nid, nt), (b, bd[b])]
            hist += [('%s#a%d%s' % (qid, rep, nid[-3:]), t) for qid, t in pair]
        hist += [('%s#%d' % (qid, rep), t) for qid, t in (sc if rep != 1 else sc[::-1])]
    res, ip, graph_after = c.run(hist)
    # stand-alone: every distinct query in a fresh process of its own batch (fresh graph)
    alone_q = base + poison + neigh + sc
    res1, ip1, _ = c.run(alone_q)
    model = c.model(alone_q)
    c.tie(alone_q, res1, ip1, model, result)
    texts = dict(alone_q)
    # the stand-alone answer: every query in a fresh process of its own (nothing can leak into it)
    fresh = {}
    for qid, t in alone_q:
        r, _, _ = c.run([(qid, t)])
        fresh[qid] = r.get(qid)
    kq = {qid: len(q['frm']) for qid, q in qs}
    def norm(r, qid):
        if r is None:
            return None
        oc, payload = r
        if oc != 'ok':
            return (oc,)
        try:
            rs, rows = qrun.parse_result(payload)
            k = (len(rs) // len(rows)) if rows else 1
            masked = [[re.sub(r'0x[0-9a-f]+', '0xPTR', json.dumps(v, sort_keys=True)) for v in row] for row in rows]
            return (oc, Counter((tuple(rs[k * i:k * i + k]), tuple(masked[i])) for i in range(len(rows))))
        except Exception as e:
            return (oc, 'unparsable')
    for hid, t in hist:
        qid = hid.split('#')[0]
        a = norm(res.get(hid), hid)
        b = norm(fresh.get(qid) or res1.get(qid), qid)
        c.stats['c16_history_answers'] += 1
        if a != b:
            k = [h for h, _ in hist].index(hid)
            result.violations.append(payload_replay('C16', 'the answer to a query depends on the queries executed before it', [x for _, x in hist[:k + 1]][-12:],
                                                    'query %r: in the history %s; stand-alone %s' % (t[:200], str(a)[:200], str(b)[:200]), c.files))
            break
    # the same property in TEXT mode (the text report formats values itself, so it is other code that could keep or
    # change state): list-valued and multi-line values are printed first, then queries that show the same entities
    tkinds = [k for k in kinds if c.vocab.get(k) is not None]
    thist = []
    for i, k in enumerate(tkinds):
        for a in querygen.KINDS.get(k, ([], [], []))[1][:3]:
            thist.append(('tl%d_%s' % (i, a), 'FROM %s AS x SELECT x.%s()' % (k, a)))
        for a in querygen.KINDS.get(k, ([], [], []))[0][:2]:
            thist.append(('ts%d_%s' % (i, a), 'FROM %s AS x SELECT x.%s()' % (k, a)))
        thist.append(('td%d' % i, 'FROM %s AS x SELECT x' % k))
    thist = thist + [(qid + '_again', t) for qid, t in thist]
    def blocks(payload):
        return Counter(re.sub(r'0x[0-9a-f]+', '0xPTR', b_) for b_ in re.split(r'(?m)^\tFile: ', payload)[1:])
    tres, _, tgraph = c.run(thist, mode='text')
    for hid, t in thist:
        oc, payload = tres.get(hid, ('missing', ''))
        r1, _, _ = c.run([(hid, t)], mode='text')
        oc1, p1 = r1.get(hid, ('missing', ''))
        c.stats['c16_text_history_answers'] += 1
        if oc != oc1 or (oc == 'ok' and blocks(payload) != blocks(p1)):
            k_ = [h for h, _ in thist].index(hid)
            diff = list((blocks(p1) - blocks(payload)).items())[:1] if oc == oc1 == 'ok' else ''
            result.violations.append(payload_replay('C16', 'in text mode the answer to a query depends on the queries executed before it', [x for _, x in thist[:k_ + 1]][-10:],
                                                    'query %r: stand-alone block missing from the answer in the history: %s' % (t, str(diff)[:400]), c.files))
            break
    g0 = sorted(l.rstrip('\n') for l in open(c.work + '/graph.txt'))
    if tgraph is not None and sorted(tgraph) != g0:
        d_ = [l for l in sorted(tgraph) if l not in set(g0)][:1]
        result.violations.append(payload_replay('C16', 'printing results in text mode modified the loaded graph', [x for _, x in thist][:12], 'first changed entity: %s' % (d_[0][:300] if d_ else ''), c.files))
    if graph_after is not None:
        ga = sorted(graph_after)
        c.stats['c16_graph_lines'] = len(ga)
        if ga != g0:
            diff = [l for l in ga if l not in set(g0)][:1]
            result.violations.append(payload_replay('C16', 'evaluating queries modified the loaded graph', [x for _, x in hist][:20], 'first changed entity: %s' % (diff[0][:300] if diff else ''), c.files))
    # console: piped stdin, in one write and byte at a time.  Every submitted line is answered, in order, with the
    # answer of a stand-alone run; invalid lines with unbalanced brackets / quotes stand between valid ones
    flat = lambda t: t.replace('\r\n', ' ').replace('\n', ' ').replace('\r', ' ')
    okq = [flat(t) for _, t in base[:6]]
    unbalanced = ['FROM method_declaration AS m WHERE (m.getName() == "a" SELECT m', 'FROM method_declaration AS m WHERE m.getName( == "x" SELECT m.getName()',
                  'FROM method_declaration AS m WHERE m.getName() == "a SELECT m', 'FROM method_declaration AS m WHERE m.getName() in ["a", "b" SELECT m',
                  'predicate p(method_declaration x) { x.getName() == "a" FROM method_declaration AS m WHERE p(m) SELECT m', ')', ']', '}', '"', '((((', 'FROM WHERE']
    lines = []
    for i, u in enumerate(unbalanced):
        lines += [okq[i % len(okq)], u]
    # ... and very long VALID lines (5 KB, 69 KB, 100 KB: past the buffer sizes a line reader is likely to have) between them
    for nat in (120, 1800, 2600):
        lines.append('FROM class_declaration AS cd WHERE ' + ' && '.join('cd.getName() != "no_such_name_%d"' % k for k in range(nat)) + ' SELECT cd.getName()')
        lines.append(okq[1 % len(okq)])
    lines += [okq[0], 'FROM class_declaration AS cd SELECT cd.getName()']
    data = ('\n'.join(lines) + '\n:quit\n').encode()
    alone, _, _ = c.run([('cl%d' % i, t) for i, t in enumerate(lines)])
    for chunking in ('one', 'bytes', 'lines') if c.tier == 'thorough' else ('one', 'bytes'):
        answered = console_run(c, data, chunking, transcript=True)
        c.stats['c16_console_sessions'] += 1
        if answered == -1 or len(answered) != len(lines):
            result.violations.append(dict(property='C16', what='console answered %s of %d submitted lines (stdin delivered: %s)' % (len(answered) if answered != -1 else 'none (no end within 120 s)', len(lines), chunking),
                                          stdin=data.decode(), project=[(p, d.decode('utf-8', 'replace')) for p, d in c.files],
                                          how='pipe the stdin text into `pathfinder query --stdin --project D --output json` and count the "Executing query:" banners'))
            continue
        for i, (t, ans) in enumerate(zip(lines, answered)):
            oc, payload = alone.get('cl%d' % i, ('missing', ''))
            c.stats['c16_console_answers_compared'] += 1
            want = tuples_of(payload, 1) if oc == 'ok' else None
            doc = next((l for l in ans.split('\n') if l.startswith('{"output"')), None)
            got = tuples_of(doc, 1) if doc is not None else None
            if want != got:
                result.violations.append(dict(property='C16', what='the console\'s answer to line %d differs from the stand-alone answer (stdin delivered: %s)' % (i + 1, chunking), line=t,
                                              stand_alone='%s, %s results' % (oc, sum(want.values()) if want is not None else '-'), console=(ans[:300] if got is None else '%d results' % sum(got.values())),
                                              stdin=data.decode(), project=[(p, d.decode('utf-8', 'replace')) for p, d in c.files],
                                              how='pipe the stdin text into `pathfinder query --stdin --project D --output json`; compare with `pathfinder query --project D --output json --query <line>`'))
                break
    c.samples += [t for _, t in hist[:3]]


def console_run(c, data, chunking, transcript=False):
    """feeds data to `pathfinder query --stdin`; returns the number of answered lines (or, with transcript, the list of
    the texts that follow each `Executing query:` banner)"""
    p = subprocess.Popen([B + '/pathfinder', 'query', '--disable-metrics', '--stdin', '--project', c.proj, '--output', 'json'],
                         stdin=subprocess.PIPE, stdout=subprocess.PIPE, stderr=subprocess.PIPE, env=dict(ENV, HOME=c.work))
    try:
        if chunking == 'one':
            out, err = p.communicate(data, timeout=120)
        else:
            # the console's output is read WHILE the input is written (its echo of a long line alone fills a pipe)
            import threading
            chunks = []
            rd = threading.Thread(target=lambda: chunks.append(p.stdout.read()), daemon=True)
            rd.start()
            step = 1 if chunking == 'bytes' else None
            try:
                if step:
                    # byte by byte for the first 4000 bytes, then in odd-sized pieces (997 bytes)
                    i = 0
                    while i < len(data):
                        n_ = 1 if i < 4000 else 997
                        p.stdin.write(data[i:i + n_]); p.stdin.flush()
                        if i % 64 == 0 and i < 4000:
                            time.sleep(0.001)
                        i += n_
                else:
                    for ln in data.split(b'\n')[:-1]:
                        p.stdin.write(ln + b'\n'); p.stdin.flush(); time.sleep(0.02)
                p.stdin.close()
            except BrokenPipeError:
                pass                      # the console has ended (it read :quit) while input was still being written
            rd.join(timeout=300)
            if rd.is_alive():
                p.kill()
                return -1
            out = b''.join(chunks)
            p.wait(timeout=120)
    except subprocess.TimeoutExpired:
        p.kill()
        return -1
    except BrokenPipeError:
        # the console has ended (it read :quit) while input was still being written: count what it answered
        try:
            out = p.stdout.read()
            p.wait(timeout=60)
        except Exception:
            return -1
    if transcript:
        return out.decode('utf-8', 'replace').split('Executing query: ')[1:]
    return out.decode('utf-8', 'replace').count('Executing query: ')


# ------------------------------------------------------------------ C10 / C11
TOKS_SAMPLE = {1: '(', 2: ')', 3: '{', 4: '}', 5: ',', 6: '||', 7: '&&', 8: '==', 9: '!=', 10: '<', 11: '>', 12: '<=', 13: '>=',
               14: 'in', 15: '+', 16: '-', 17: '*', 18: '/', 19: '!', 20: '.', 21: '[', 22: ']', 23: 'LIKE', 25: '"s"', 27: '1',
               28: 'predicate', 29: 'FROM', 30: 'WHERE', 31: 'AS', 32: 'SELECT', 33: 'x'}


def mutate_tokens(toks, rng):
    toks = list(toks)
    r = rng.random()
    alphabet = ['(', ')', '{', '}', ',', '||', '&&', '==', '!=', '<', '>=', 'in', '+', '-', '*', '/', '!', '.', '[', ']', 'LIKE',
                '"s"', '"a\\"b"', '1', '2.5', 'predicate', 'FROM', 'WHERE', 'AS', 'SELECT', 'x', 'md', 'getName', '#', '"unterminated', '\\', '%', '=', '&', '|', ';', "'q'", 'é']
    i = rng.randrange(len(toks) + 1)
    if r < 0.33 and toks:
        del toks[min(i, len(toks) - 1)]
    elif r < 0.66:
        toks.insert(i, rng.choice(alphabet))
    elif toks:
        toks[min(i, len(toks) - 1)] = rng.choice(alphabet)
    return toks


ODD_FORMS = """class Odd {
  int g;
  Odd() { }
  void bare() { return; }
  int loops(int a) {
    for (;;) { break; }
    for (int i = 0; ; ) { if (a > 0) break; }
    for (; a < 3; ) { a++; continue; }
    outer: while (true) { do { continue outer; } while (false); }
    if (a > 1) a = 2;
    assert a > 0;
    { }
    ;
    new Odd();
    new Odd() { };
    foo();
    this.loops(1).toString();
    int v = switch (a) { default -> { yield 1; } };
    int w = -a;
    return a;
  }
  abstract void none();
  interface I { void m(); }
  enum E { A, B }
}
"""


def unusual_queries():
    return ['FROM method_declaration AS m WHERE m.getName() SELECT m',            # non-boolean WHERE
            'FROM method_declaration AS m WHERE foo() SELECT m',                  # call without arguments, undeclared
            'predicate p() { 1 == 1 } FROM method_declaration AS m WHERE p() SELECT m',
            'FROM method_declaration AS a, class_declaration AS b, variable_declaration AS c WHERE a.getName() == b.getName() SELECT a, b, c',
            'FROM method_declaration AS a, class_declaration AS b, variable_declaration AS c, method_invocation AS d SELECT a',
            'FROM method_declaration AS m WHERE m.nope() == 1 SELECT m', 'FROM method_declaration AS m WHERE m.nope == 1 SELECT m.nope()',
            'FROM method_declaration AS m SELECT m.nope()', 'FROM method_declaration AS m SELECT zz', 'FROM nosuchkind AS n SELECT n',
            'FROM method_declaration AS m WHERE undeclared(m) SELECT m', 'predicate p(method_declaration x) { p(x) } FROM method_declaration AS m WHERE p(m) SELECT m',
            'predicate p(method_declaration x) { x.getName() == "a" } FROM method_declaration AS m WHERE p(m, m) SELECT m',
            'FROM method_declaration AS m WHERE m.getName() < 3 SELECT m', 'FROM method_declaration AS m WHERE -m.getName() == 1 SELECT m',
            'FROM method_declaration AS m WHERE !m.getName() SELECT m', 'FROM method_declaration AS m WHERE 1 / 0 == 1 SELECT m',
            'FROM method_declaration AS m WHERE "a" in m.getName() SELECT m', 'FROM method_declaration AS m WHERE m SELECT m',
            'FROM method_declaration AS m WHERE m.getDoc().Tags[5].Text == "x" SELECT m', 'FROM method_declaration AS m WHERE [1,2] == m SELECT m',
            'FROM method_declaration AS m WHERE m.getName() == "a" SELECT "only literal"', 'FROM method_declaration AS method_declaration SELECT method_declaration',
            'FROM method_declaration AS m, method_declaration AS n WHERE m.getName() == n.getName() SELECT m, n',
            'FROM IfStmt AS s WHERE s.getIfStmt().GetCondition().NodeString == "(x)" SELECT s', 'FROM BlockStmt AS b WHERE b.getBlockStmt().GetStmt(99) == 1 SELECT b',
            'FROM ClassInstanceExpr AS n WHERE n.getClassInstanceExpr().GetArg(7) == 1 SELECT n', 'FROM binary_expression AS b SELECT b.getBinaryExpr()',
            '', ' ', 'FROM', 'SELECT x', 'FROM a AS b SELECT', 'FROM a AS b WHERE SELECT c', '\x00', '"', 'FROM a AS b SELECT "\\', 'é FROM a AS b SELECT b'] + UNICODE_QUERIES


# characters whose upper- or lower-case form has another length in UTF-8 (ı ſ İ K Ⱥ Ⱦ), title-case letters, combining
# marks, ligatures, a right-to-left mark, a NUL byte: in literals, in aliases and at the very end of the query
_UW = ['Kapı', 'ıııı', 'ſſ', 'İİ', '\u212a\u212a', 'ȺȾȺȾ', 'ǅ', 'e\u0301', 'ﬃ', '\u200f', 'a\x00b', 'ß', 'ΐ', '𝒳']
UNICODE_QUERIES = (['FROM class_declaration AS c WHERE c.getName() != "%s" SELECT c' % w for w in _UW]
                   + ['FROM class_declaration AS c WHERE c.getName() != "%s%s" SELECT c.getName(), "%s"' % (w, w, w) for w in _UW]
                   + ['FROM class_declaration AS %s SELECT %s' % (a, a) for a in ('ı', 'cı', 'ſ', 'Ⱥ', 'é')]
                   + ['from class_declaration as c select c', 'From class_declaration As c Where c.getName() != "ı" Select c'])


def predicate_graphs(rng, n):
    """queries whose predicates call one another in body and in argument position, cycles included"""
    out = []
    names = ['p', 'q', 'r', 's']
    for _ in range(n):
        k = rng.randint(1, 4)
        decls = []
        for i in range(k):
            def call(depth=0):
                f = rng.choice(names[:k])
                if depth < 2 and rng.random() < 0.4:
                    return '%s(%s)' % (f, call(depth + 1))     # a call in argument position
                return '%s(m)' % f
            r = rng.random()
            if r < 0.3:
                body = 'm.getName() == "x"'
            elif r < 0.6:
                body = call()
            elif r < 0.8:
                body = '%s && m.getName() != "y"' % call()
            else:
                body = '!(%s) || %s' % (call(), call())
            decls.append('predicate %s(method_declaration m) { %s }' % (names[i], body))
        out.append('%s FROM method_declaration AS md WHERE %s(md) SELECT md.getName()' % (' '.join(decls), names[0]))
    # a long chain of distinct predicates (deeper than any fixed expansion limit)
    chain = ' '.join('predicate c%d(method_declaration m) { c%d(m) }' % (i, i + 1) for i in range(24)) + ' predicate c24(method_declaration m) { m.getName() == "x" }'
    out.append(chain + ' FROM method_declaration AS md WHERE c0(md) SELECT md')
    return out


def check_c10_c11(c, result):
    pid = c.pid
    rng = c.rng
    qs = gen_queries(c, N[c.tier][pid] // 4)
    valid = [querygen.query_tokens(q) for _, q in qs]
    cases = []
    written = {}     # query text -> the structure as written (generator ground truth)
    hx_ = lambda t: 'x' + t.encode('utf-8').hex()
    for (_qid, q), toks in zip(qs, valid):
        for style in ('plain', 'wild'):
            t = querygen.render(toks, rng, style)
            written[t] = dict(
                frm=','.join('%s:%s' % (hx_(k), hx_(a)) for k, a in q['frm']),
                select=','.join(('variable:' + hx_(s_[1])) if s_[0] == 'alias' else ('method_chain' if s_[0] == 'chain' else 'string:' + hx_(s_[1])) for s_ in q['select']),
                preds=','.join('%s(%s)' % (hx_(p_['name']), ';'.join('%s:%s' % (hx_(k), hx_(f)) for k, f in p_['params'])) for p_ in q['preds']))
            cases.append(t)
    for toks in valid:
        cases.append(querygen.render(toks, rng, 'plain'))
        for _ in range(3):
            cases.append(querygen.render(mutate_tokens(toks, rng), rng, rng.choice(['plain', 'plain', 'wild'])))
    # identifiers spelled like words of OTHER languages involved (the condition evaluator's operators and constants, Java
    # and SQL keywords, the grammar's own keywords in another case): the grammar reserves none of them, so as aliases,
    # predicate names and parameter names they make sentences with exactly the written structure
    for w_ in ('nil', 'true', 'false', 'and', 'or', 'not', 'let', 'matches', 'contains', 'startsWith', 'endsWith', 'len', 'null', 'class', 'select', 'from', 'where', 'As', 'Predicate', 'int', 'string', 'LIKE2', '_', 'x1'):
        t1 = 'FROM class_declaration AS %s SELECT %s' % (w_, w_)
        t2 = 'predicate %s(class_declaration %s) { %s.getName() == "a" } FROM class_declaration AS c WHERE %s(c) SELECT c' % (w_, w_, w_, w_)
        cases += [t1, t2]
        written[t1] = dict(frm='%s:%s' % (hx_('class_declaration'), hx_(w_)), preds='', select='variable:' + hx_(w_))
        written[t2] = dict(frm='%s:%s' % (hx_('class_declaration'), hx_('c')), select='variable:' + hx_('c'), preds='%s(%s:%s)' % (hx_(w_), hx_('class_declaration'), hx_(w_)))
    # a literal that ends in an escaped backslash, followed by things that depend on knowing where literals end
    # (a later literal with a run of blanks, `in` laid out with a tab / line break), in layouts that are and are not
    # already normal
    for lit_ in ('"C:\\\\"', '"\\\\"', '"a\\\\\\\\"', '"q\\"\\\\"'):
        for sep in (' ', '  ', '\t', '\n', ' \n\t'):
            t1 = 'FROM method_declaration AS m WHERE m.getName() != %s%s&& m.getVisibility()%sin ["public", "two  blanks"] SELECT m.getName(), "wide   gap", %s' % (lit_, sep, sep, lit_)
            t2 = 'predicate p(method_declaration x) { x.getName() == %s || x.getName() == "a  b" }%sFROM method_declaration AS m WHERE p(m) SELECT "x  y"' % (lit_, sep)
            cases += [t1, t2]
            written[t1] = dict(frm='%s:%s' % (hx_('method_declaration'), hx_('m')), preds='',
                               select=','.join(['method_chain', 'string:' + hx_('"wide   gap"'), 'string:' + hx_(lit_)]))
            written[t2] = dict(frm='%s:%s' % (hx_('method_declaration'), hx_('m')), select='string:' + hx_('"x  y"'),
                               preds='%s(%s:%s)' % (hx_('p'), hx_('method_declaration'), hx_('x')))
    if pid == 'C10':
        # plain listings of every populous kind (their snippets are printed in text mode: long lines, wide characters)
        cases += ['FROM %s AS x SELECT x.getName()' % k for k in ('class_declaration', 'method_declaration', 'variable_declaration', 'method_invocation')] + ['FROM block_comment AS x SELECT x', 'FROM BlockStmt AS x SELECT x.toString()']
        cases += unusual_queries()
        cases += predicate_graphs(rng, 25 if c.tier == 'quick' else 400)
        for _ in range(N[c.tier][pid] // 6):
            n = rng.choice([1, 2, 5, 12, 40])
            r = rng.random()
            if r < 0.4:
                cases.append(''.join(chr(rng.choice([rng.randrange(32, 127), rng.randrange(0, 256)])) for _ in range(n)))
            else:
                cases.append(' '.join(rng.choice(list(TOKS_SAMPLE.values()) + ['md', 'getName', '"q"', '2.5']) for _ in range(n)))
    else:
        # short token strings, exhaustive up to a length over a reduced alphabet
        small = ['FROM', 'x', 'AS', 'SELECT', 'WHERE', '(', ')', '.', ',', '==', '"s"', '!']
        L = 3 if c.tier == 'quick' else 4
        for n in range(1, L + 1):
            for comb in itertools.product(small, repeat=n):
                cases.append(' '.join(comb))
        c.stats['c11_exhaustive_max_len'] = L
        # minimal sentences and all their single-token edits over the alphabet
        for sent in (['FROM', 'x', 'AS', 'y', 'SELECT', 'y'], ['FROM', 'x', 'AS', 'y', 'WHERE', 'y', '.', 'f', '(', ')', '==', '"s"', 'SELECT', 'y', '.', 'f', '(', ')'],
                     ['predicate', 'p', '(', 'x', 'a', ')', '{', 'a', '.', 'f', '(', ')', '}', 'FROM', 'x', 'AS', 'y', 'WHERE', 'p', '(', 'y', ')', 'SELECT', 'y']):
            for i in range(len(sent) + 1):
                for a in small + ['predicate', '{', '}', '||', 'in', '[', ']', '1']:
                    cases.append(' '.join(sent[:i] + [a] + sent[i:]))
                    if i < len(sent):
                        cases.append(' '.join(sent[:i] + [a] + sent[i + 1:]))
                if i < len(sent):
                    cases.append(' '.join(sent[:i] + sent[i + 1:]))
    cases = list(dict.fromkeys(cases))
    tq = [('k%d' % i, t) for i, t in enumerate(cases)]
    # ... and some of them AGAIN at the end of the same process (hundreds of other inputs in between), byte for byte:
    # those that are not white-space-normal first.  The answer to an input does not depend on what was parsed before
    again = [t for t in cases if ('\n' in t or '\t' in t or '  ' in t) and len(t) < 2000][:70] + cases[:50]
    tq += [('again%d' % i, t) for i, t in enumerate(again)]
    c.stats['inputs_parsed_again'] = len(again)
    if pid == 'C10':
        # every accessor of every kind as a SELECT item and inside WHERE, in BOTH output modes (the text
        # report formats values itself), on a program with the incomplete forms of every statement
        # (`return;`, `for (;;)`, `break;`, assert without message ...); plus aliases spelled like another kind
        import vocab
        kinds_t, kv_t, env_t = vocab.tables()
        odd = c.work + '/oddproj'
        qrun.write_project(odd, [('src/Sink.java', vocab.KITCHEN.encode()), ('src/Odd.java', ODD_FORMS.encode())])
        acc_q = []
        for k in kinds_t:
            accs = env_t.get(kv_t.get(k, ''), [])
            for a in accs:
                acc_q.append('FROM %s AS x SELECT x.%s()' % (k, a))
                acc_q.append('FROM %s AS x WHERE x.%s() == "q" SELECT x, x.%s()' % (k, a, a))
        pairs = [(k1, k2) for k1 in kinds_t for k2 in kinds_t if k1 != k2 and env_t.get(kv_t.get(k2, ''))]
        for k1, k2 in rng.sample(pairs, min(len(pairs), 60 if c.tier == 'quick' else 600)):
            a = rng.choice(env_t[kv_t[k2]])
            acc_q.append('FROM %s AS %s SELECT %s.%s()' % (k1, k2, k2, a))
            acc_q.append('FROM %s AS a, %s AS b, %s AS c SELECT c.%s(), a, b' % (k1, k1, k2, a))
        aq = [('acc%d' % i, t) for i, t in enumerate(acc_q)]
        big = set()
        for mode in ('json', 'text'):
            aq = [(qid, t) for qid, t in aq if qid not in big]
            resa, _, _ = c.run(aq, mode=mode, project=odd)
            if mode == 'json':      # the quadratic text assembly again: leave the very large answers to JSON mode
                big = {qid for qid, _ in aq if len(resa.get(qid, ('', ''))[1]) > (40000 if c.tier == 'quick' else 300000)}
                c.stats['accessor_text_skipped_large'] = len(big)
            for qid, t in aq:
                oc, payload = resa.get(qid, ('missing', ''))
                c.stats['accessor_%s_%s' % (mode, oc)] += 1
                if oc not in ('ok', 'err'):
                    result.violations.append(dict(property='C10', what='a query ended abnormally (%s) in %s mode' % (oc, mode), query=t, detail=payload[:300],
                                                  project=[('src/Sink.java', vocab.KITCHEN), ('src/Odd.java', ODD_FORMS)],
                                                  how='pathfinder query --project D %s--query <query>; exit status / panic' % ('--output json ' if mode == 'json' else '')))
                    break
    for gname, project in (('nonempty', None), ('empty', '-')) if pid == 'C10' else (('nonempty', None),):
        res, ip, _ = c.run(tq, project=project)
        if project is None:
            res_ne = res
            # the extracted model enumerates the full cross product: queries over three or more kinds (millions of
            # combinations on this project) are left to the implementation-side checks
            tq_m = [(qid_, t_) for qid_, t_ in tq if t_.count(' AS ') <= 2]
            model = c.model(tq_m)
            c.tie(tq_m, res, ip, model, result)
        for qid, t in tq:
            oc, payload = res.get(qid, ('missing', ''))
            c.stats['%s_%s' % (gname, oc)] += 1
            if pid == 'C10' and oc not in ('ok', 'err'):
                result.violations.append(dict(property='C10', what='a query ended abnormally (%s) against a %s project' % (oc, gname), query=t, detail=payload[:300],
                                              project=[(p, d.decode('utf-8', 'replace')) for p, d in c.files] if project is None else [],
                                              how='pathfinder query --project D --output json --query <query>; exit status / panic'))
                break
    if pid == 'C10':
        env_matrix_cli(c, result, 'C10', ['FROM class_declaration AS cd WHERE cd.getName() != "zz" SELECT cd.getName()'] + (['FROM WHERE'] if c.tier == 'thorough' else []), modes=('json',))
        # candidate counts x CPU counts: a tower of directories with one method each, scanned from every level
        # (n = 1 .. K candidates), under several GOMAXPROCS: what splits the candidates into chunks must do so for every n
        K = 190 if c.tier == 'quick' else 700
        tower = c.work + '/tower'
        d = tower
        for i in range(K):
            d = d + '/d'
            os.makedirs(d, exist_ok=True)
            open('%s/M%d.java' % (d, i), 'w').write('class M%d { void m%d() { } }\n' % (i, i))
        sweep_q = [('sw0', 'FROM method_declaration AS m WHERE m.getName() != "zz" SELECT m.getName()'), ('sw1', 'FROM method_declaration AS m WHERE m.getName() SELECT m'),
                   ('sw2', 'FROM method_declaration AS m SELECT m.getName()')]
        procs = ['16', '24', '64', '3', '8', '2', '48', '12']
        ns = list(range(128, K + 1, 3)) + [129, 131, 133, 145, 147, 161, 163, 177, 179] if c.tier == 'quick' else list(range(1, K + 1))
        for j, n in enumerate(ns):
            path = tower + '/d' * (K - n + 1)
            for pr in ([procs[j % len(procs)]] if c.tier == 'quick' else procs[:6]):
                rsw, _ = qrun.run_queries(path, sweep_q, c.work + '/sweep', env_extra=dict(GOMAXPROCS=pr))
                c.stats['size_cpu_sweep_runs'] += 1
                badq = next((q_ for q_ in sweep_q if rsw.get(q_[0], ('missing', ''))[0] not in ('ok', 'err')), None)
                if badq:
                    result.violations.append(dict(property='C10', what='a query ended abnormally (%s) with %d candidates under GOMAXPROCS=%s' % (rsw.get(badq[0], ('missing', ''))[0], n, pr),
                                                  query=badq[1], detail=rsw.get(badq[0], ('', ''))[1][:300], project='%d files M<i>.java, each `class M<i> { void m<i>() { } }`' % n,
                                                  how='GOMAXPROCS=%s pathfinder query --project D --output json --query <query>; exit status / panic' % pr))
                    break
                got = rsw.get('sw2', ('', ''))
                if got[0] == 'ok' and sum(tuples_of(got[1], 1).values()) != n:
                    result.tie_broken.append('size sweep: %d methods scanned but %d reported (GOMAXPROCS=%s)' % (n, sum(tuples_of(got[1], 1).values()), pr))
                    break
            else:
                continue
            break
        shutil.rmtree(tower, ignore_errors=True)
        # the console: sessions with unusual lines (very long: past every buffer size a reader might have; CRLF;
        # empty; only blanks; no final newline after :quit) — every submitted line is answered and the session ends
        # with :quit
        ok_q = 'FROM class_declaration AS cd SELECT cd.getName()'
        sessions = []
        for size in (4096, 65536, 70000, 262144, 1100000) if c.tier == 'thorough' else (4096, 65536, 70000, 300000):
            longq = 'FROM class_declaration AS cd WHERE cd.getName() == "%s" SELECT cd.getName()' % ('a' * size)
            sessions.append(('long query %d' % size, [ok_q, longq, ok_q]))
            sessions.append(('long garbage %d' % size, [ok_q, 'x' * size, ok_q]))
        sessions.append(('crlf', [ok_q + '\r', 'FROM WHERE\r', ok_q + '\r']))
        sessions.append(('blank lines', [ok_q, '', '   ', '\t', ok_q]))
        for name, lines in sessions:
            data = ('\n'.join(lines) + '\n:quit\n').encode()
            for chunking in ('one',):
                answered = console_run(c, data, chunking)
                c.stats['console_sessions'] += 1
                if answered != len(lines):
                    result.violations.append(dict(property='C10', what='the console answered %d of %d submitted lines (%s)' % (answered, len(lines), name),
                                                  stdin_lines=[l if len(l) < 200 else l[:80] + '... (%d bytes)' % len(l) for l in lines] + [':quit'],
                                                  project=[(p, d.decode('utf-8', 'replace')) for p, d in c.files],
                                                  how='pipe the lines into `pathfinder query --stdin --project D --output json` and count the "Executing query:" banners'))
                    break
        # the same queries once more in text mode (outcome class only).  The text report is assembled by repeated
        # string concatenation (quadratic in its size), so combinations in the hundreds of thousands take
        # minutes there: those answers are legitimate, only slow, and are left out here
        small = [(qid, t) for qid, t in tq if len(res_ne.get(qid, ('', ''))[1]) < (40000 if c.tier == 'quick' else 300000)]
        c.stats['text_mode_skipped_large'] = len(tq) - len(small)
        rest, _, _ = c.run(small, mode='text')
        for qid, t in small:
            oc, payload = rest.get(qid, ('missing', ''))
            c.stats['text_%s' % oc] += 1
            if oc not in ('ok', 'err'):
                result.violations.append(dict(property='C10', what='a query ended abnormally (%s) in text mode' % oc, query=t, detail=payload[:300],
                                              project=[(p, d.decode('utf-8', 'replace')) for p, d in c.files],
                                              how='pathfinder query --project D --query <query>; exit status / panic'))
                break
    if pid == 'C11':
        # structure: what the parser recovers from a generated sentence is what the generator wrote
        for qid, t in tq:
            w = written.get(t)
            if w is None:
                continue
            p_ = ip.get(qid, {})
            c.stats['structure_checked'] += 1
            if p_.get('parse') != 'accept':
                result.violations.append(dict(property='C11', what='a generated sentence of the grammar is rejected', query=t, how='parser.ParseQuery(<query>)'))
                break
            got = dict(frm=p_.get('from', ''), select=p_.get('select', ''), preds=p_.get('preds', ''))
            if got != w:
                k_ = [k for k in w if got[k] != w[k]][0]
                result.violations.append(dict(property='C11', what='the structure recovered from an accepted query differs from what is written (%s)' % k_, query=t,
                                              written=w[k_], recovered=got[k_], how='parser.ParseQuery(<query>): SelectList / SelectOutput / Predicate'))
                break
        # three-way: ANTLR parser (implementation) / Coq parser / Earley over Query.g4 on ANTLR's own tokens
        with open(c.work + '/earley.in', 'w') as f:
            todo = []
            for qid, t in tq:
                p = ip.get(qid, {})
                toks = p.get('toks')
                if toks is None or toks.startswith('!'):
                    continue
                f.write('%s %s\n' % (qid, toks))
                todo.append(qid)
        rc, out, err = run(['/opt/veriftools/pyvenv/bin/python', V + '/lib/earley_check.py', REPO + '/sourcecode-parser/antlr/Query.g4', c.work + '/earley.in', c.work + '/earley.out'], timeout=3000)
        if rc != 0:
            result.tie_broken.append('Earley oracle could not run: ' + err.decode(errors='replace')[-300:])
        else:
            texts = dict(tq)
            for line in open(c.work + '/earley.out'):
                qid, ok = line.split()
                impl_acc = ip.get(qid, {}).get('parse') == 'accept'
                c.stats['earley_checked'] += 1
                c.stats['earley_accept'] += int(ok)
                if impl_acc != (ok == '1'):
                    result.violations.append(dict(property='C11', what='accepted/rejected differs from the documented grammar (Earley recogniser over Query.g4)',
                                                  query=texts[qid], detail='implementation %s, grammar %s; tokens %s' % ('accepts' if impl_acc else 'rejects', 'accepts' if ok == '1' else 'rejects', ip[qid].get('toks')),
                                                  how='parser.ParseQuery(<query>) vs Query.g4'))
                    break
            # lexer errors must be rejections
            for qid, t in tq:
                p = ip.get(qid, {})
                if p.get('toks', '').startswith('!') and p.get('parse') == 'accept':
                    result.violations.append(dict(property='C11', what='a string with characters outside the token vocabulary was accepted', query=t, how='parser.ParseQuery(<query>)'))
                    break
    if pid == 'C10':
        # console keeps accepting after a bad line and after an evaluation failure
        lines = ['FROM WHERE', 'FROM method_declaration AS m WHERE m.getName() SELECT m', 'FROM method_declaration AS m SELECT m.nope()',
                 'FROM method_declaration AS m WHERE foo() SELECT m', 'FROM method_declaration AS m SELECT m.getName()']
        data = ('\n'.join(lines) + '\n:quit\n').encode()
        answered = console_run(c, data, 'one')
        c.stats['console_lines_answered'] = answered
        if answered != len(lines):
            result.violations.append(dict(property='C10', what='the console stopped answering: %d of %d lines' % (answered, len(lines)), stdin=data.decode(),
                                          how='pipe the stdin text into `pathfinder query --stdin --project D --output json`'))
    c.samples += cases[:2] + cases[-2:]


CHECKS = {'C01': check_c01_c02, 'C02': check_c01_c02, 'C10': check_c10_c11, 'C11': check_c10_c11, 'C12': check_c12,
          'C13': check_c13, 'C14': check_c14, 'C15': check_c15, 'C16': check_c16}


def replay(pid, path, result, work):
    d = json.load(open(path))
    files = [(p, t.encode()) for p, t in d.get('project', [])]
    proj = work + '/replay'
    qrun.write_project(proj, files) if files else os.makedirs(proj, exist_ok=True)
    qs = d.get('queries') or ([d['query']] if 'query' in d else [])
    res, _ = qrun.run_queries(proj, [('r%d' % i, q) for i, q in enumerate(qs)], work + '/rq')
    for i, q in enumerate(qs):
        print('replay query %d: %r -> %s' % (i, q[:200], str(res.get('r%d' % i))[:300]))
    result.notes.append('replayed %d queries' % len(qs))


def check(pid, tier, seed, t0, st, replay_path):
    res = Result(pid)
    gate = source_gate()
    if gate:
        res.tie_broken.append('source gate: ' + '; '.join(gate[:3]))
    obl = check_obligations(['Properties/%s.v' % pid])
    for k in ('translator', 'ocaml', 'harness', 'cli'):
        if st.get(k, 1) != 0:
            res.tie_broken.append('build step %s failed (see .build/%s.log)' % (k, k))
    work = scratch('q-' + pid, deterministic='%s-%d' % (tier, seed))
    try:
        if replay_path:
            replay(pid, replay_path, res, work)
        elif st.get('harness', 1) == 0 and st.get('ocaml', 1) == 0:
            c = Campaign(pid, tier, seed, work)
            CHECKS[pid](c, res)
            total = sum(v for k, v in c.stats.items() if k.startswith('impl_'))
            res.coverage.update(dict(
                evaluations=total, distinct_nontrivial=c.stats.get('nonempty_results', 0) + c.stats.get('model_reject', 0),
                rule='queries generated by lib/querygen.py (1-2 distinct kinds, 0-3 predicate declarations, boolean combinations of accessor comparisons / in-tests / predicate calls, 1-4 SELECT items, random layouts) on a generated Java project; each is evaluated by the real cmd.processQuery (harness, -tags verif) and by the extracted Coq model on the implementation\'s own graph dump; tokens, accept/reject, recovered structure, expanded condition text, result multiset and rows are compared. distinct_nontrivial = queries with a non-empty result plus rejected strings',
                project_files=len(c.files), graph_entities=len(c.nodes), stats=dict(c.stats), samples=c.samples[:4]))
            if c.stats.get('in_fragment', 0) + c.stats.get('out_of_fragment', 0) > 0:
                res.coverage['fraction_in_fragment'] = round(c.stats['in_fragment'] / (c.stats['in_fragment'] + c.stats['out_of_fragment']), 3)
    except Exception as e:
        import traceback
        res.tie_broken.append('campaign crashed: %s' % traceback.format_exc()[-600:])
    finally:
        shutil.rmtree(work, ignore_errors=True)
    res.assumptions = ['expr-lang v1.16.9 (parser and evaluator) is modelled, not verified: assumed to read the emitted condition text as the xexpr the model evaluates and to implement Engine/Eval.v on the fragment; every evaluated query is compared',
                       'the ANTLR runtime and generated recogniser are assumed to implement Query.g4; compared token by token and on accept/reject',
                       'results are compared as multisets (Go map iteration order is unspecified); pointer values in descriptions are masked']
    # cap the number of violation files
    res.violations = res.violations[:5]
    return finish(pid, tier, seed, t0, res, obl)
