"""C17 (ci reports), C18 (rule files), C20 (bundles): real CLI / extractors / bundler against the
extracted Coq model (Cli/Rules.v, Cli/Ci.v) and direct oracles."""
import json, os, random, re, shutil, subprocess
from collections import Counter
from common import *
import engine, javagen, qrun, querygen, scan

KEYS = ['@id', '@description', '@problem.severity', '@security-severity', '@ruleprovider']
OTHER = ['@name', '@kind', '@precision', '@tags']
N = {'quick': dict(C17=18, C18=260, C20=60), 'thorough': dict(C17=150, C18=6000, C20=1200)}


def hx(b):
    return 'x' + b.hex()


def unhx(s):
    return bytes.fromhex(s[1:])


def header_value(rng):
    words = ['Use', 'of', 'Blowfish', 'was', 'detected.', 's&&box', 'file:///', 'URLs', '64-bit', 'a,b', '(x)', 'FROM', 'predicate', 'warning',
             '6.1', 'java/Rule-1', 'café', 'it\'s', '"quoted"', 'back\\slash', '@at', '*star', '/*']
    n = rng.choice([1, 1, 2, 4, 7])
    w = [rng.choice(words) for _ in range(n)]
    # a value is single-line, trimmed, and must not contain the comment terminator
    v = ' '.join(w).replace('*/', '* /')
    r = rng.random()
    if r < 0.1:
        v = v.replace(' ', '  ', 1)
    elif r < 0.16:
        v = v.replace(' ', '\t', 1)            # a tab inside the value
    elif r < 0.22:
        v = v.replace(' ', '\u00a0', 1)        # a no-break space
    elif r < 0.26:
        v = v.replace(' ', '   ', 1) + '  x'    # runs of blanks
    return v.strip() or 'v'


def gen_rule_file(rng, gen, multiline_string=False, arith=True):
    """-> (text bytes, header dict, original query text, tokens, has_multiline_string)"""
    crlf = rng.random() < 0.35
    eol = '\r\n' if crlf else '\n'
    keys = rng.sample(KEYS, rng.randint(0, 5)) + rng.sample(OTHER, rng.randint(0, 3))
    rng.shuffle(keys)
    if rng.random() < 0.15 and keys:
        keys.append(rng.choice(keys))      # a repeated key: the last one wins
    fields = [(k, header_value(rng)) for k in keys]
    q = gen.query()
    toks = querygen.query_tokens(q)
    ml = False
    if multiline_string:
        for i, t in enumerate(toks):
            if t.startswith('"') and len(t) > 2 and rng.random() < 0.6:
                toks[i] = t[:2] + eol + '   ' + t[2:]
                ml = True
                break
    # arithmetic in the condition, so that a wrapped line can begin with an operator character (`*`, `/`, `-`)
    if arith and rng.random() < 0.3 and 'SELECT' in toks:
        si = len(toks) - 1 - toks[::-1].index('SELECT')
        arith = ['6', '/', '2', '*', '3', '-', '1', '==', '8']
        toks[si:si] = (['&&'] if 'WHERE' in toks[:si] else ['WHERE']) + arith
    # wrap at arbitrary token boundaries, with indentation
    parts = []
    for i, t in enumerate(toks):
        if i:
            a = toks[i - 1]
            must = querygen.needs_space(a, t)
            r = rng.random()
            if t in ('*', '/', '-') and rng.random() < 0.5:
                r = 0.0          # break the line right before the operator
            if r < 0.25:
                parts.append(eol + rng.choice(['', '  ', '\t', '      ']))
            elif must or r < 0.8:
                parts.append(rng.choice([' ', ' ', '  ', '\t']))
        parts.append(t)
    qtext = ''.join(parts)
    # line endings that are not the same throughout the file: an LF header above a CRLF query (a pasted header), one
    # CRLF line among LF lines, alternating endings
    mixed = rng.random() < 0.2 and not multiline_string
    if mixed:
        mode = rng.choice(['lf_header_crlf_query', 'one_crlf_line', 'alternating', 'crlf_header_lf_query'])
        hl = lambda i: {'lf_header_crlf_query': '\n', 'crlf_header_lf_query': '\r\n', 'alternating': ['\n', '\r\n'][i % 2], 'one_crlf_line': '\r\n' if i == 1 else '\n'}[mode]
        qeol = {'lf_header_crlf_query': '\r\n', 'crlf_header_lf_query': '\n', 'alternating': None, 'one_crlf_line': '\n'}[mode]
        qlines = qtext.replace('\r\n', '\n').split('\n')
        qtext = ''.join(l + ((qeol or ['\r\n', '\n'][j % 2]) if j < len(qlines) - 1 else '') for j, l in enumerate(qlines))
        text = '/**' + hl(0) + ''.join(' * %s %s%s' % (k, v, hl(i + 1)) for i, (k, v) in enumerate(fields)) + ' */' + hl(len(fields) + 1) + qtext + rng.choice(['', '\n', '\r\n'])
        crlf = True
    else:
        text = '/**' + eol + ''.join(' * %s %s%s' % (k, v, eol) for k, v in fields) + ' */' + eol + rng.choice(['', eol]) + qtext + rng.choice(['', eol])
    hdr = {}
    for k, v in fields:
        hdr[k] = v
    return text.encode('utf-8'), hdr, qtext, toks, ml, crlf


def model_rules(cases, work):
    inp = '\n'.join('%s %s' % (cid, hx(text)) for cid, text in cases) + '\n'
    p = subprocess.run([B + '/model', 'rules'], input=inp.encode(), capture_output=True, timeout=1800)
    out = {}
    for l in p.stdout.decode().splitlines():
        w = l.split(' ')
        out[w[1]] = dict(kv.split('=', 1) for kv in w[2:])
    return out


def check_c18(tier, seed, res, work):
    rng = random.Random('c18/%d' % seed)
    stats = Counter()
    vocab = {k: {} for k in querygen.KINDS}
    gen = querygen.QGen(rng, vocab)
    cases, meta, lst = [], {}, []
    for i in range(N[tier]['C18']):
        text, hdr, qtext, toks, ml, crlf = gen_rule_file(rng, gen, multiline_string=(i % 9 == 0))
        cid = 'r%d' % i
        fp = '%s/%s.cql' % (work, cid)
        open(fp, 'wb').write(text)
        cases.append((cid, text))
        meta[cid] = (hdr, qtext, ml, crlf, text)
        lst.append('%s %s %s' % (cid, fp, hx(qtext.encode('utf-8'))))
    # very long physical lines (a long message literal, a long literal list, a whole generated query on one line):
    # every buffer size a line reader might have falls inside some token
    eolx = ['\n', '\r\n']
    longs = []
    for L in (4000, 4090, 4096, 4100, 5000, 8190, 9000, 20000, 60000, 65530, 70000, 200000):
        msg = '"' + ''.join('word%d ' % k for k in range(L // 6))[:L] + '"'
        longs.append(['FROM', 'method_declaration', 'AS', 'md', 'WHERE', 'md', '.', 'getName', '(', ')', '==', '"a"', 'SELECT', 'md', ',', msg])
        longs.append(['FROM', 'method_declaration', 'AS', 'md', 'WHERE', 'md', '.', 'getName', '(', ')', '!=', msg, 'SELECT', 'md'])
    lst_ = ['[']
    for k in range(900):
        lst_ += ([','] if k else []) + ['"name%d"' % k]
    longs.append(['FROM', 'method_declaration', 'AS', 'md', 'WHERE', 'md', '.', 'getName', '(', ')', 'in'] + lst_ + [']', 'SELECT', 'md', '.', 'getName', '(', ')'])
    longs.append(['FROM', 'method_declaration', 'AS', 'md', 'WHERE'] + ['md', '.', 'getName', '(', ')', '!=', '"n"', '&&'] * 700 + ['md', '.', 'getName', '(', ')', '!=', '"z"', 'SELECT', 'md'])
    for j, toks in enumerate(longs):
        for lay in range(3):
            eol = eolx[(j + lay) % 2]
            if lay == 0:
                qtext = ' '.join(toks)                                   # one line
            elif lay == 1:
                si = toks.index('WHERE')
                qtext = ' '.join(toks[:si]) + eol + '  ' + ' '.join(toks[si:]) + eol      # the long part on a line of its own
            else:
                qtext = ''.join(t + (eol if (i_ % 400 == 399) else ' ') for i_, t in enumerate(toks))   # wrapped now and then
            text = ('/**' + eol + ' * @id long%d' % j + eol + ' * @description a long line' + eol + ' */' + eol + qtext).encode()
            cid = 'L%d_%d' % (j, lay)
            fp = '%s/%s.cql' % (work, cid)
            open(fp, 'wb').write(text)
            cases.append((cid, text))
            meta[cid] = ({'@id': 'long%d' % j, '@description': 'a long line'}, qtext, False, eol == '\r\n', text)
            lst.append('%s %s %s' % (cid, fp, hx(qtext.encode('utf-8'))))
            stats['long_line_files'] += 1
    # shipped rule files too
    shipped = sorted(p for p in __import__('glob').glob(REPO + '/pathfinder-rules/**/*.cql', recursive=True))
    for j, p in enumerate(shipped):
        text = open(p, 'rb').read()
        cid = 's%d' % j
        cases.append((cid, text))
        m = re.search(rb'(?m)^\s*(predicate|FROM)\b', text)
        qtext = text[m.start():].decode('utf-8', 'replace') if m else ''
        meta[cid] = (None, qtext, b'"' in text and re.search(rb'"[^"\n]*\n', text) is not None, b'\r\n' in text, text)
        lst.append('%s %s %s' % (cid, p, hx(qtext.encode('utf-8'))))
    open(work + '/rules.lst', 'w').write('\n'.join(lst) + '\n')
    rc, o, e = run([B + '/harness', 'rules', work + '/rules.lst', work + '/rules.out'], timeout=1800, env=dict(ENV, HOME=work))
    if rc != 0:
        res.tie_broken.append('harness rules failed: ' + e.decode(errors='replace')[-300:])
        return stats, []
    impl = {}
    for l in open(work + '/rules.out'):
        w = l.rstrip('\n').split(' ')
        impl[w[1]] = dict(kv.split('=', 1) for kv in w[2:])
    # the extracted model is quadratic in the length of a line: files above 6000 bytes go to the oracles only
    model = model_rules([(cid, text) for cid, text in cases if len(text) <= 6000], work)
    nd = 0
    known = Counter()
    for cid, text in cases:
        hdr, qtext, ml, crlf, _ = meta[cid]
        im, mo = impl.get(cid), model.get(cid)
        stats['files'] += 1
        stats['crlf'] += int(crlf)
        stats['multiline_string'] += int(bool(ml))
        if im is None or (mo is None and len(text) <= 6000):
            res.tie_broken.append('no output for rule %s' % cid)
            continue
        if mo is None:
            stats['long_files_not_compared_with_the_model'] += 1
        # correspondence: the model's extractors = the real ones, byte for byte
        for k in ('id', 'desc', 'sev', 'impact', 'provider', 'ciq', 'fileq') if mo is not None else ():
            if im[k] != mo[k]:
                nd += 1
                if nd == 1:
                    res.tie_broken.append('correspondence (rule files): field %s differs for %s: impl=%r model=%r' % (k, cid, unhx(im[k])[:120], unhx(mo[k])[:120]))
                    res.notes.append(dict(first_disagreeing_rule_file=text.decode('utf-8', 'replace')))
                break
        # oracle 1: metadata = header values
        if hdr is not None:
            exp = dict(id=hdr.get('@id', ''), desc=hdr.get('@description', ''), sev=hdr.get('@problem.severity', ''),
                       impact=hdr.get('@security-severity', ''), provider=hdr.get('@ruleprovider', ''))
            got = {k: unhx(im[k]).decode('utf-8', 'replace') for k in exp}
            stats['metadata_checked'] += 1
            if got != exp:
                res.violations.append(dict(property='C18', what='metadata extracted for CI differs from the header', rule_file=text.decode('utf-8', 'replace'), expected=exp, got=got,
                                           how='cmd.ParseQuery(<file content>)'))
        # oracle 2: both extractors give the token sequence written in the file
        ci_t, file_t, orig_t = im['citoks'], im['filetoks'], im['origtoks']
        stats['token_sequences_checked'] += 1
        if orig_t.startswith('!'):
            stats['original_not_lexable'] += 1
            continue
        if not (ci_t == file_t == orig_t):
            if ml:
                known['D32'] += 1
            else:
                which = 'ci vs written' if ci_t != orig_t else ('file vs written' if file_t != orig_t else 'ci vs file')
                res.violations.append(dict(property='C18', what='the query extracted from the rule file is not the token sequence written (%s)' % which,
                                           rule_file=text.decode('utf-8', 'replace'), ci_query=unhx(im['ciq']).decode('utf-8', 'replace'),
                                           file_query=unhx(im['fileq']).decode('utf-8', 'replace'), how='cmd.ParseQuery / cmd.ExtractQueryFromFile, then the lexer'))
    stats['correspondence_disagreements'] = nd
    if known:
        res.known_hits['D32'] = known
    # the HOSTED path of ci: the same rule files packaged by the bundling script and loaded the way `ci --ruleset cpf/<name>`
    # loads them must reach cmd.ParseQuery with the text of the file (headers with any fields in any order, query lines
    # beginning with `*`, `/`, `-` ...): otherwise ci extracts another query or other metadata than from the directory
    lay = work + '/hosted'
    rd = lay + '/pathfinder-rules/c18rules'
    os.makedirs(lay + '/pathfinder-rules/gen-script', exist_ok=True)
    os.makedirs(rd, exist_ok=True)
    gen_cases = [(cid, text) for cid, text in cases if cid.startswith('r')]
    for cid, text in gen_cases:
        open('%s/%s.cql' % (rd, cid), 'wb').write(text)
    rc, o, e = run([B + '/gen-script'], timeout=300, cwd=lay + '/pathfinder-rules/gen-script')
    bundle = lay + '/docs/public/rules/c18rules.json'
    if rc == 0 and os.path.exists(bundle):
        rc, o, e = run([B + '/harness', 'bundle-load', bundle, rd, lay + '/load.out'], timeout=300, env=dict(ENV, HOME=work))
        out = dict((l.split(' ')[0], l.rstrip('\n').split(' ')[1:]) for l in open(lay + '/load.out')) if rc == 0 else {}
        if out.get('HOSTED', ['x'])[0] == 'ok':
            hosted = Counter(unhx(x) for x in re.findall(r'x[0-9a-f]*', out['HOSTED'][1]))
            local = Counter(text for _, text in gen_cases)
            stats['hosted_rule_texts'] = sum(hosted.values())
            if hosted != local:
                # texts differ (C20's business); for THIS property what counts is what ci extracts from them
                hl = []
                for j_, h_ in enumerate(sorted(hosted.elements())):
                    fp_ = '%s/h%d.cql' % (lay, j_)
                    open(fp_, 'wb').write(h_)
                    hl.append('h%d %s %s' % (j_, fp_, hx(b'')))
                open(lay + '/h.lst', 'w').write('\n'.join(hl) + '\n')
                run([B + '/harness', 'rules', lay + '/h.lst', lay + '/h.out'], timeout=600, env=dict(ENV, HOME=work))
                key = lambda d_: tuple(d_.get(k_, '') for k_ in ('id', 'desc', 'sev', 'impact', 'provider', 'citoks'))
                hk = Counter(key(dict(kv.split('=', 1) for kv in l.rstrip('\n').split(' ')[2:])) for l in open(lay + '/h.out') if l.startswith('RULE '))
                lk = Counter(key(impl[cid]) for cid, _ in gen_cases if cid in impl)
                stats['hosted_texts_differing'] = sum((local - hosted).values())
            if hosted != local and hk != lk:
                lostk = next(iter((lk - hk).elements()))
                lost = next((t_ for cid_, t_ in gen_cases if cid_ in impl and key(impl[cid_]) == lostk), b'')
                near = next((h for h in (hosted - local).elements() if h[:40] == lost[:40]), b'')
                res.violations.append(dict(property='C18', what='through the hosted bundle ci extracts another query or other metadata from a rule than from the file in the directory',
                                           rule_file=lost.decode('utf-8', 'replace'), as_served=near.decode('utf-8', 'replace'),
                                           how='run pathfinder-rules/gen-script on a directory holding the rule file, serve docs/public/rules/<dir>.json to `ci --ruleset cpf/<dir>` (stub transport)'))
        else:
            res.tie_broken.append('hosted path: loading the bundle of the generated rule files failed: %s' % str(out)[:200])
    else:
        res.tie_broken.append('hosted path: the bundling script failed on the generated rule files: %s' % e.decode(errors='replace')[-200:])
    end_to_end_c18(tier, seed, res, work, stats)
    return stats, [cases[0][1].decode('utf-8', 'replace'), cases[1][1].decode('utf-8', 'replace')]


def end_to_end_c18(tier, seed, res, work, stats):
    """the three COMMANDS, not only the extractor functions: for rule files over a real project, `pathfinder ci`,
    `pathfinder scan` and `pathfinder query --query-file` must report what `pathfinder query --query <the query as
    written>` reports"""
    rng = random.Random('c18e2e/%d' % seed)
    proj, files = engine.make_project(seed + 55, 3, work + '/e2e')
    nodes = engine.dump_graph(proj, work + '/e2e')
    gen = querygen.QGen(rng, engine.vocab_of(nodes))
    rdir = work + '/e2e/rules'
    os.makedirs(rdir, exist_ok=True)
    env = dict(ENV, HOME=work)
    env.pop('GITHUB_ACTIONS', None)
    rules = []
    n = 6 if tier == 'quick' else 40
    while len(rules) < n:
        text, hdr, qtext, toks, ml, crlf = gen_rule_file(rng, gen)
        if ml or '\n' in ' '.join(t for t in toks if t.startswith('"')):
            continue
        name = 'r%02d.cql' % len(rules)
        if len(rules) % 3 == 0:
            open(os.path.join(rdir, name), 'wb').write(text)
        else:
            # a shared rule LINKED into the ruleset (relative and absolute links in turn)
            os.makedirs(work + '/e2e/shared', exist_ok=True)
            open('%s/e2e/shared/%s' % (work, name), 'wb').write(text)
            os.symlink('../shared/' + name if len(rules) % 3 == 1 else '%s/e2e/shared/%s' % (work, name), os.path.join(rdir, name))
            stats['e2e_linked_rule_files'] += 1
        rules.append((name, text, ' '.join(toks)))
    def locs(payload):
        try:
            d = json.loads(payload)
            return sorted((r['file'], r['line'], r['code']) for r in d.get('result_set') or [])
        except Exception:
            return 'unparsable'
    def last_json(out):
        ls = [l for l in out.decode('utf-8', 'replace').split('\n') if l.startswith('{"output"')]
        return ls[-1] if ls else ''
    # reference: the query as written, through --query
    ref = {}
    for name, text, written in rules:
        rc, o, e = run([B + '/pathfinder', 'query', '--disable-metrics', '--project', proj, '--output', 'json', '--query', written], timeout=300, env=env)
        ref[name] = locs(last_json(o))
    stats['e2e_rules_with_findings'] = sum(1 for v in ref.values() if v and v != 'unparsable')
    # query --query-file
    for name, text, written in rules:
        rc, o, e = run([B + '/pathfinder', 'query', '--disable-metrics', '--project', proj, '--output', 'json', '--query-file', os.path.join(rdir, name)], timeout=300, env=env)
        stats['e2e_query_file'] += 1
        if locs(last_json(o)) != ref[name]:
            res.violations.append(dict(property='C18', what='`query --query-file` reports something else than the query written in the file', rule_file=text.decode('utf-8', 'replace'),
                                       project=[(p, d.decode('utf-8', 'replace')) for p, d in files], how='pathfinder query --project P --output json --query-file F vs --query <written>'))
            break
    # scan: one JSON line per rule file in walk order
    rc, o, e = run([B + '/pathfinder', 'scan', '--disable-metrics', '--project', proj, '--ruleset', rdir], timeout=600, env=env)
    outs = [l for l in o.decode('utf-8', 'replace').split('\n') if l.startswith('{"output"')]
    stats['e2e_scan_rules'] += len(outs)
    order = sorted(name for name, _, _ in rules)
    if len(outs) != len(order):
        res.violations.append(dict(property='C18', what='`scan` answered %d of %d rule files' % (len(outs), len(order)), ruleset=[(nm, t.decode('utf-8', 'replace')) for nm, t, _ in rules],
                                   project=[(p, d.decode('utf-8', 'replace')) for p, d in files], how='pathfinder scan --project P --ruleset R'))
    else:
        for name, line in zip(order, outs):
            if locs(line) != ref[name]:
                text = [t for nm, t, _ in rules if nm == name][0]
                res.violations.append(dict(property='C18', what='`scan` reports something else than the query written in the file', rule_file=text.decode('utf-8', 'replace'),
                                           project=[(p, d.decode('utf-8', 'replace')) for p, d in files], how='pathfinder scan --project P --ruleset R vs query --query <written>'))
                break
    # ci --output json: one entry per rule with its result
    outp = work + '/e2e/ci.json'
    rc, o, e = run([B + '/pathfinder', 'ci', '--disable-metrics', '--project', proj, '--ruleset', rdir, '--output', 'json', '--output-file', outp], timeout=600, env=env)
    try:
        rep = json.load(open(outp))
    except Exception:
        rep = None
    if rep is None:
        res.tie_broken.append('end-to-end C18: ci wrote no JSON report')
        return
    entries = rep if isinstance(rep, list) else rep.get('results') or rep.get('rules') or []
    stats['e2e_ci_rules'] += len(entries)
    if len(entries) == len(order):
        for name, ent in zip(order, entries):
            rs = ent.get('result', ent)
            if isinstance(rs, str):
                got = locs(rs)
            else:
                got = sorted((r['file'], r['line'], r['code']) for r in (rs.get('result_set') or [])) if isinstance(rs, dict) else 'unparsable'
            if got != ref[name]:
                text = [t for nm, t, _ in rules if nm == name][0]
                res.violations.append(dict(property='C18', what='`ci` reports something else than the query written in the file', rule_file=text.decode('utf-8', 'replace'),
                                           project=[(p, d.decode('utf-8', 'replace')) for p, d in files], how='pathfinder ci --project P --ruleset R --output json vs query --query <written>'))
                break


def check_c17(tier, seed, res, work):
    rng = random.Random('c17/%d' % seed)
    stats = Counter()
    samples = []
    proj, files = engine.make_project(seed + 77, 4, work)
    nodes = engine.dump_graph(proj, work)
    vocab = engine.vocab_of(nodes)
    gen = querygen.QGen(rng, vocab)
    env_base = dict(ENV, HOME=work)
    for trial in range(N[tier]['C17']):
        # how the ruleset directory is named and spelled on the command line: absolute, relative, `./x/`, `.` from
        # inside it, a dot-named directory, through `..`
        spelling = trial % 6
        rdir = '%s/%srules%d' % (work, '.' if spelling == 4 else '', trial)
        nrules = rng.randint(1, 8)
        bad_positions = set(rng.sample(range(nrules), rng.choice([0, 0, 1, 1, 2]) if nrules > 2 else rng.choice([0, 1])))
        rules = []
        for i in range(nrules):
            text, hdr, qtext, toks, ml, crlf = gen_rule_file(rng, gen, arith=False)   # `/` is outside the evaluator model's fragment
            if i in bad_positions:
                kind = rng.choice(['syntax', 'syntax', 'eval'])
                if kind == 'syntax':
                    text = text.replace(b'SELECT', b'SELEKT', 1) if rng.random() < 0.5 else text + b' ) extra'
                else:
                    text = re.sub(rb'SELECT[\s\S]*$', b'SELECT zz.nope()', text)
            sub = rng.choice(['', 'sub/', 'a/b/'])
            name = '%s%c%d.cql' % (sub, rng.choice('abz'), i)
            rules.append((name, text))
        # two rules that read Javadoc tags of the SAME entities, the list-valued accessor first (walk order), a
        # single-valued one last: each must report what it reports alone
        rules.append(('00params.cql', b'/**\n * @id doc/params\n * @description params  listed\n * @problem.severity LOW\n */\nFROM method_declaration AS m WHERE len(m.getDoc().GetCommentParam()) >= 0 SELECT m.getDoc().GetCommentParam(), m.getName()\n'))
        rules.append(('zz_since.cql', b'/**\n * @id doc/since\n * @description since or return given\n * @problem.severity HIGH\n */\nFROM method_declaration AS m WHERE m.getDoc().GetCommentSince() != "" || m.getDoc().GetCommentReturn() != "" || m.getDoc().GetCommentAuthor() != "" SELECT m.getName()\n'))
        nrules += 2
        rules.append(('notes.txt', b'not a rule'))
        qrun.write_project(rdir, rules)
        # some rules are shared ones LINKED into the ruleset
        for li, (n_, t_) in enumerate(rules):
            if n_.endswith('.cql') and li % 3 == 1:
                tgt = '%s/shared%d/%s' % (work, trial, os.path.basename(n_))
                os.makedirs(os.path.dirname(tgt), exist_ok=True)
                os.replace(os.path.join(rdir, n_), tgt)
                os.symlink(tgt, os.path.join(rdir, n_))
                stats['linked_rule_files'] += 1
        order = sorted([n for n, _ in rules if n.endswith('.cql')], key=lambda n: walk_key(n))
        texts = dict(rules)
        fmt = 'json' if trial % 2 == 0 else 'sarif'
        gha = (trial // 2) % 2 == 1
        env = dict(env_base)
        outname = 'report_%d.%s' % (trial, fmt)
        wrong_place = None
        if gha:
            # the report goes beneath the workspace directory whatever --output-file looks like: a bare name, an
            # absolute path in a sibling directory whose name starts like the workspace's, an absolute path inside
            # the workspace, a relative workspace with a name starting like it
            ws = '%s/ws%d' % (work, trial)
            os.makedirs(ws, exist_ok=True)
            layout = (trial // 4) % 4
            if layout == 0:
                outarg = outname
            elif layout == 1:
                outarg = ws + '-reports/' + outname
                os.makedirs(ws + '-reports', exist_ok=True)
            elif layout == 2:
                outarg = ws + '/' + outname
            else:
                ws = 'wsrel%d' % trial
                os.makedirs(work + '/' + ws, exist_ok=True)
                outarg = ws + '-' + outname
            env.update(GITHUB_ACTIONS='true', GITHUB_WORKSPACE=ws)
            expected_path = os.path.normpath(os.path.join(work, ws + '/' + outarg)) if not os.path.isabs(ws) else os.path.normpath(ws + '/' + outarg)
            os.makedirs(os.path.dirname(expected_path), exist_ok=True)
            wrong_place = outarg if os.path.isabs(outarg) else os.path.join(work, outarg)
            stats['gha_layout_%d' % layout] += 1
        else:
            env.pop('GITHUB_ACTIONS', None)
            expected_path = outarg = '%s/%s' % (work, outname)
        if trial % 3 != 0:
            # a longer report of an earlier run is already there (a re-used results path)
            with open(expected_path, 'w') as fh_:
                fh_.write('[{"stale": "%s"}]\n' % ('x' * 300000))
            stats['stale_report_in_place'] += 1
        rs_arg, cwd_ = rdir, work
        if os.path.isabs(outarg) and (not gha or os.path.isabs(ws)):
            bn_ = os.path.basename(rdir)
            rs_arg, cwd_ = [(rdir, work), (bn_, work), ('./' + bn_ + '/', work), ('.', rdir), (rdir, work), ('../' + os.path.basename(work) + '/' + bn_, work)][spelling]
            stats['ruleset_spelling_%d' % spelling] += 1
        rc, o, e = run([B + '/pathfinder', 'ci', '--disable-metrics', '--project', proj, '--ruleset', rs_arg, '--output', fmt, '--output-file', outarg], timeout=300, env=env, cwd=cwd_)
        stats['ci_runs'] += 1
        stats['fmt_' + fmt] += 1
        stats['gha_' + str(gha)] += 1
        stats['rules'] += nrules
        stats['bad_rules'] += len(bad_positions)
        replay = dict(property='C17', ruleset=[(n, t.decode('utf-8', 'replace')) for n, t in rules], project=[(p, d.decode('utf-8', 'replace')) for p, d in files],
                      how='pathfinder ci --project P --ruleset %s --output %s --output-file F%s' % (rs_arg if not os.path.isabs(rs_arg) else 'R', fmt, ' with GITHUB_ACTIONS=true GITHUB_WORKSPACE=W' if gha else ''))
        if wrong_place and os.path.normpath(wrong_place) != expected_path and os.path.exists(wrong_place):
            res.violations.append(dict(replay, what='under GitHub Actions variables the report was written outside the workspace directory', written=wrong_place,
                                       expected_path=expected_path, env=dict(GITHUB_ACTIONS='true', GITHUB_WORKSPACE=ws), output_file=outarg))
            continue
        if rc != 0 or not os.path.exists(expected_path):
            res.violations.append(dict(replay, what='ci run produced no report at the expected place (exit status %d)' % rc, stderr=e.decode(errors='replace')[-300:], expected_path=expected_path))
            continue
        try:
            report = json.load(open(expected_path))
        except Exception as ex:
            res.violations.append(dict(replay, what='report is not well-formed JSON: %s' % ex))
            continue
        # the same run in other environments (variables, locale, CPUs, open-file limit): the same report
        if trial < 2 and not gha:
            dead = 'http://127.0.0.1:9'
            rel = [('release build, telemetry enabled', dict(HTTPS_PROXY=dead, HTTP_PROXY=dead, https_proxy=dead, http_proxy=dead), None)] if os.path.exists(B + '/pathfinder-release') else []
            for ov in ENV_MATRIX + rel:
                if 'GITHUB_ACTIONS' in ov[1]:
                    continue
                out2 = expected_path + '.env'
                if os.path.exists(out2):
                    os.remove(out2)
                cmdl = [B + '/pathfinder-release', 'ci'] if ov[0].startswith('release build') else [B + '/pathfinder', 'ci', '--disable-metrics']
                rc2, o2, e2 = run_env(cmdl + ['--project', proj, '--ruleset', rs_arg, '--output', fmt, '--output-file', out2], ov, timeout=300, base=env, cwd=cwd_)
                stats['environment_runs'] += 1
                try:
                    rep2 = json.load(open(out2))
                except Exception:
                    rep2 = None
                def canon(r):
                    # the order of the findings of one rule is the (random) iteration order of the graph: compare as
                    # multisets, each finding together with its row
                    def srt(x):
                        if isinstance(x, dict):
                            if isinstance(x.get('result_set'), list) and isinstance(x.get('output'), list) and x['output'] and len(x['result_set']) % len(x['output']) == 0:
                                k_ = len(x['result_set']) // len(x['output'])
                                pairs = sorted(json.dumps([x['result_set'][k_ * i_:k_ * i_ + k_], o_], sort_keys=True) for i_, o_ in enumerate(x['output']))
                                return dict({kk: srt(vv) for kk, vv in x.items() if kk not in ('result_set', 'output')}, findings=pairs)
                            return {kk: srt(vv) for kk, vv in x.items()}
                        if isinstance(x, list):
                            return sorted((srt(y) for y in x), key=lambda y: json.dumps(y, sort_keys=True)) if x and isinstance(x[0], dict) and 'ruleId' in x[0] else [srt(y) for y in x]
                        return x
                    return re.sub(r'0x[0-9a-f]+', '0xPTR', json.dumps(srt(r), sort_keys=True))
                if rc2 != rc or rep2 is None or canon(rep2) != canon(report):
                    res.violations.append(dict(replay, what='the ci report depends on the environment of the run (%s): exit status %d, report %s' % (ov[0], rc2, 'missing' if rep2 is None else 'differs'),
                                               environment=ov[1], open_files_limit=ov[2], stderr=e2.decode(errors='replace')[-300:]))
                    break
        # stand-alone evaluation of each rule's query (real engine, one session) and the model
        alone_q = []
        for i, n in enumerate(order):
            rc2 = None
        inp = '\n'.join(hx(texts[n]) for n in order) + '\n'
        pm = subprocess.run([B + '/model', 'ci', work + '/graph.txt'], input=inp.encode(), capture_output=True, timeout=900)
        m_entries, m_sarif = [], []
        for l in pm.stdout.decode().splitlines():
            w = l.split(' ')
            if w[0] == 'ENTRY':
                m_entries.append(dict(kv.split('=', 1) for kv in w[2:]))
            elif w[0] == 'SARIF':
                d = dict(kv.split('=', 1) for kv in w[1:])
                m_sarif.append((unhx(d['file']).decode(), int(d['line']), unhx(d['rule']).decode('utf-8', 'replace'), unhx(d['level']).decode('utf-8', 'replace'), unhx(d['message']).decode('utf-8', 'replace')))
        queries = [('q%d' % i, unhx(m_entries[i]['query']).decode('utf-8', 'replace')) for i in range(len(order))]
        # each rule's query evaluated ALONE: a fresh process per query, so nothing can leak between rules
        alone = {}
        for qi, (qid_, qt_) in enumerate(queries):
            r_, _ = qrun.run_queries(proj, [(qid_, qt_)], '%s/alone%d_%d' % (work, trial, qi))
            alone.update(r_)
        def alone_set(i):
            oc, payload = alone.get('q%d' % i, ('missing', ''))
            if oc != 'ok':
                return None
            rs, _rows = qrun.parse_result(payload)
            return Counter((f, l) for f, l, c in rs)
        if fmt == 'json':
            if not isinstance(report, list) or len(report) != len(order):
                res.violations.append(dict(replay, what='JSON report has %s entries for %d rules' % (len(report) if isinstance(report, list) else 'no', len(order))))
                continue
            for i, n in enumerate(order):
                ent = report[i]
                rs = (ent.get('result') or {}).get('result_set')
                got = Counter((r['file'], r['line']) for r in rs) if rs is not None else None
                exp = alone_set(i)
                stats['entries_checked'] += 1
                if got != exp and not (got == Counter() and exp is None) and not (got is None and exp is None):
                    res.violations.append(dict(replay, what='entry %d (%s) does not hold the findings of its rule run alone' % (i, n), expected=str(exp)[:200], got=str(got)[:200]))
                    break
                if ent.get('query') != queries[i][1]:
                    res.violations.append(dict(replay, what='entry %d carries another query than its rule' % i, expected=queries[i][1][:200], got=str(ent.get('query'))[:200]))
                    break
                # model correspondence
                mo = m_entries[i]['outcome']
                mset = None if mo == 'syntaxerror' else Counter()
                if mo.startswith('answer:') and mo != 'answer:':
                    for t in mo[7:].split(';'):
                        for e_ in t.split('|'):
                            f, ln, sn = e_.split(':')
                            mset[(unhx(f).decode(), int(ln))] += 1
                if m_entries[i].get('infrag') == '0':
                    stats['ci_entries_out_of_fragment'] += 1        # the evaluator model does not cover this query: not compared
                elif mset is not None and got is not None and mset != got:
                    res.tie_broken.append('correspondence (ci): entry %d model=%s impl=%s query=%r' % (i, str(mset)[:100], str(got)[:100], queries[i][1][:400]))
        else:
            results = report.get('runs', [{}])[0].get('results') or []
            got = Counter()
            for r in results:
                loc = r['locations'][0]['physicalLocation']
                got[(loc['artifactLocation']['uri'], loc['region']['startLine'], r.get('ruleId'), r.get('level'), r.get('message', {}).get('text'))] += 1
            exp = Counter()
            hdrs = [engine_rule_header(texts[n]) for n in order]
            for i, n in enumerate(order):
                s = alone_set(i)
                if s:
                    for (f, l), c in s.items():
                        exp[(f, l, hdrs[i].get('@id', ''), hdrs[i].get('@problem.severity', '').lower(), hdrs[i].get('@description', ''))] += c
            stats['sarif_results_checked'] += sum(got.values())
            if got != exp:
                res.violations.append(dict(replay, what='SARIF results are not the per-rule findings', only_expected=str(list((exp - got).items())[:2]), only_report=str(list((got - exp).items())[:2])))
            if Counter(m_sarif) != got and all(ord(c) < 128 for t in got for c in str(t[3])) and not any(me.get('infrag') == '0' for me in m_entries):
                res.tie_broken.append('correspondence (sarif): model %d results, implementation %d; only-model %s only-impl %s' % (len(m_sarif), sum(got.values()), list((Counter(m_sarif) - got).items())[:1], list((got - Counter(m_sarif)).items())[:1]))
        if trial < 2:
            samples.append(dict(rules=[n for n in order], bad=sorted(bad_positions), format=fmt, github_actions=gha))
    return stats, samples


def walk_key(name):
    # filepath.Walk: lexical order of entries per directory, directories descended in place
    return name.split('/')


def engine_rule_header(text):
    hdr = {}
    for line in text.decode('utf-8', 'replace').split('\n'):
        s = line.strip()
        if s.startswith('predicate') or s.startswith('FROM'):
            break
        m = re.match(r'^\*\s*(@\S+) (.*)$', s)
        if m:
            hdr[m.group(1)] = m.group(2).strip() if False else m.group(2)
    return hdr


def check_c20(tier, seed, res, work):
    rng = random.Random('c20/%d' % seed)
    stats = Counter()
    samples = []
    for trial in range(N[tier]['C20']):
        root = '%s/b%d' % (work, trial)
        rdir = root + '/pathfinder-rules/myrules'
        os.makedirs(root + '/pathfinder-rules/gen-script', exist_ok=True)
        os.makedirs(rdir, exist_ok=True)
        n = rng.choice([0, 1, 2, 3, 5, 10])
        entries = []
        for i in range(n):
            content = ''.join(rng.choice(['FROM x AS y SELECT y', '"quote"', '\\back', '\n', '\r\n', '<tag>&amp;', 'café', ' ', '中文', '\t', ' ', '{', '}', '\x01', '/* c */', 'é' * 3]) for _ in range(rng.randint(0, 12)))
            # large rule texts: multi-byte characters placed across every power-of-two offset a buffered reader
            # could cut at (512 ... 64 KiB), plus sizes exactly at / around those boundaries
            if trial % 3 == 2 and i < 2:
                unit = rng.choice(['é', '中', '😀', 'aé', '\u2028'])
                size = rng.choice([512, 1024, 2048, 4096, 8192, 32768, 65536]) * rng.choice([1, 1, 2, 3])
                pad = rng.choice([0, 1, 2, 3])
                body = ('x' * pad + unit * (size // len(unit.encode('utf-8')) + 8))
                content = '/** @id big%d */\nFROM x AS y WHERE y.f() == "%s" SELECT y' % (i, body)
                if rng.random() < 0.3:
                    content = content.encode('utf-8')[:size + rng.choice([-1, 0, 1])].decode('utf-8', 'ignore')
                stats['large_rule_files'] += 1
            name = rng.choice(['a', 'B', 'rule-1', 'x.y', 'r r', 'ü', '.hidden', '._mac', '#tmp', '~bak', '-dash']) + str(i) + '.cql'
            if i == 0 and rng.random() < 0.15:
                name = '.cql'
            entries.append((name, content.encode('utf-8')))
        decoys = [('readme.md', b'x'), ('rule.cql.bak', b'y'), ('cql', b'z')][:rng.randint(0, 3)]
        # extensions that are not `.cql` for EITHER loader: other case, trailing dot, double extension
        decoys += rng.sample([('RULE.CQL', b'FROM a AS b SELECT b'), ('c.Cql', b'FROM c AS d SELECT d'), ('e.cql.', b'e'), ('f.cqlx', b'f'), ('g.cql~', b'g')], rng.randint(0, 3))
        for nme, c in entries + decoys:
            open(os.path.join(rdir, nme), 'wb').write(c)
        rc, o, e = run([B + '/gen-script'], timeout=120, cwd=root + '/pathfinder-rules/gen-script')
        bundle = root + '/docs/public/rules/myrules.json'
        stats['directories'] += 1
        stats['cql_files'] += n
        replay = dict(property='C20', directory=[(nme, c.decode('utf-8', 'replace')) for nme, c in entries + decoys],
                      how='run pathfinder-rules/gen-script in a copy of its layout, serve docs/public/rules/<dir>.json to cmd.downloadRuleset (stub transport), compare with cmd.loadRules(<dir>)')
        if rc != 0:
            res.violations.append(dict(replay, what='bundling script failed', stderr=e.decode(errors='replace')[-300:]))
            continue
        has = os.path.exists(bundle)
        if n == 0:
            stats['empty_directories'] += 1
            if has:
                res.tie_broken.append('bundle produced for a directory without .cql files (model says none)')
            continue
        if not has:
            res.violations.append(dict(replay, what='no bundle produced for a directory with .cql files'))
            continue
        rc, o, e = run([B + '/harness', 'bundle-load', bundle, rdir, root + '/load.out'], timeout=120, env=dict(ENV, HOME=work))
        out = dict((l.split(' ')[0], l.rstrip('\n').split(' ')[1:]) for l in open(root + '/load.out'))
        if out.get('HOSTED', ['x'])[0] != 'ok' or out.get('LOCAL', ['x'])[0] != 'ok':
            res.violations.append(dict(replay, what='loading failed', detail=str(out)[:300]))
            continue
        hosted = sorted(re.findall(r'x[0-9a-f]*', out['HOSTED'][1]))
        local = sorted(re.findall(r'x[0-9a-f]*', out['LOCAL'][1]))
        stats['roundtrips'] += 1
        if hosted != local:
            oh = [unhx(x).decode('utf-8', 'replace') for x in hosted if x not in local][:1]
            ol = [unhx(x).decode('utf-8', 'replace') for x in local if x not in hosted][:1]
            res.violations.append(dict(replay, what='rules loaded from the bundle differ from the rules loaded from the directory', only_hosted=oh, only_local=ol))
            continue
        # model: produce byte-identical to the bundler's file; consume = hosted
        ordered = sorted(entries + decoys, key=lambda x: x[0].encode('utf-8'))
        inp = '\n'.join('%s %s' % (hx(nme.encode('utf-8')), hx(c)) for nme, c in ordered) + '\n'
        pm = subprocess.run([B + '/model', 'bundle', hx(b'myrules')], input=inp.encode(), capture_output=True, timeout=300)
        mo = dict((l.split(' ')[0], l.split(' ')[1] if ' ' in l else '') for l in pm.stdout.decode().splitlines())
        real = open(bundle, 'rb').read()
        if mo.get('PRODUCE') != hx(real):
            res.tie_broken.append('correspondence (bundle): model produce differs from the bundler output (trial %d)' % trial)
            res.notes.append(dict(first_disagreeing_directory=replay['directory']))
        if sorted(re.findall(r'x[0-9a-f]*', mo.get('CONSUME', ''))) != hosted:
            res.tie_broken.append('correspondence (bundle): model consume differs from downloadRuleset (trial %d)' % trial)
        if trial < 2:
            samples.append(dict(files=[nme for nme, _ in entries], decoys=[nme for nme, _ in decoys]))
        # the download breaks off (read error) after part of the bundle has arrived and is tried again: what the hosted
        # load finally yields is still the directory's rules, each once
        if n >= 1 and trial % 2 == 1:
            size = os.path.getsize(bundle)
            for cut in sorted(set([0, 1, size // 10, size // 3, size // 2, (2 * size) // 3, size - 2, size - 1] + [m_.end() for m_ in re.finditer(rb'\},\s*\{', open(bundle, 'rb').read())][:6])):
                if cut < 0 or cut >= size:
                    continue
                rc, o, e = run([B + '/harness', 'bundle-load-faulty', bundle, root + '/faulty.out', str(cut)], timeout=120, env=dict(ENV, HOME=work))
                fo = dict((l.split(' ')[0], l.rstrip('\n').split(' ')[1:]) for l in open(root + '/faulty.out'))
                stats['interrupted_downloads'] += 1
                if rc != 0 or fo.get('HOSTED', ['x'])[0] != 'ok':
                    res.violations.append(dict(replay, what='after a download that broke off at byte %d of %d and was tried again, the hosted load fails' % (cut, size), detail=str(fo)[:300] + e.decode(errors='replace')[-200:]))
                    break
                h2 = sorted(re.findall(r'x[0-9a-f]*', fo['HOSTED'][1]))
                if h2 != local:
                    res.violations.append(dict(replay, what='after a download that broke off at byte %d of %d and was tried again, the rules loaded from the bundle differ from the directory\'s (%d vs %d rules)' % (cut, size, len(h2), len(local)),
                                               how='serve the bundle through a transport whose first response ends with a read error after that many bytes; call the hosted load again when it reports an error'))
                    break
        # packaging AGAIN after the directory changed, with a bundle of the earlier state still in place: a rule edited
        # in place with its modification time preserved (cp -p, rsync -t, archive extraction), an older revision
        # restored with an old time stamp, a rule removed, one added with an old time stamp
        if trial % 2 == 0:
            cur = dict(entries)
            for step in range(4):
                names = sorted(cur)
                if step == 0 and names:
                    nm = names[0]
                    st_ = os.stat(os.path.join(rdir, nm))
                    cur[nm] = cur[nm] + b' /* edited, same time stamp */'
                    open(os.path.join(rdir, nm), 'wb').write(cur[nm])
                    os.utime(os.path.join(rdir, nm), ns=(st_.st_atime_ns, st_.st_mtime_ns))
                    what = 'a rule edited in place, modification time preserved'
                elif step == 1 and names:
                    nm = names[-1]
                    cur[nm] = b'FROM older AS revision SELECT revision'
                    open(os.path.join(rdir, nm), 'wb').write(cur[nm])
                    os.utime(os.path.join(rdir, nm), (1000000000, 1000000000))
                    st_d = os.stat(rdir)
                    os.utime(rdir, (1000000000, 1000000000))
                    what = 'an older revision restored with an old time stamp'
                elif step == 2 and len(names) > 1:
                    nm = names[0]
                    os.remove(os.path.join(rdir, nm))
                    del cur[nm]
                    os.utime(rdir, (1000000000, 1000000000))
                    what = 'a rule removed'
                elif step == 3:
                    nm = 'added_later.cql'
                    cur[nm] = b'FROM added AS later SELECT later'
                    open(os.path.join(rdir, nm), 'wb').write(cur[nm])
                    os.utime(os.path.join(rdir, nm), (1000000000, 1000000000))
                    os.utime(rdir, (1000000000, 1000000000))
                    what = 'a rule added with an old time stamp'
                else:
                    continue
                rc, o, e = run([B + '/gen-script'], timeout=120, cwd=root + '/pathfinder-rules/gen-script')
                rc2, o2, e2 = run([B + '/harness', 'bundle-load', bundle, rdir, root + '/load.out'], timeout=120, env=dict(ENV, HOME=work))
                out = dict((l.split(' ')[0], l.rstrip('\n').split(' ')[1:]) for l in open(root + '/load.out'))
                stats['repackaging_steps'] += 1
                if rc != 0 or out.get('HOSTED', ['x'])[0] != 'ok' or out.get('LOCAL', ['x'])[0] != 'ok':
                    res.violations.append(dict(replay, what='packaging again failed (%s)' % what, detail=str(out)[:300]))
                    break
                hosted = sorted(re.findall(r'x[0-9a-f]*', out['HOSTED'][1]))
                local = sorted(re.findall(r'x[0-9a-f]*', out['LOCAL'][1]))
                if hosted != local or local != sorted(hx(v) for v in cur.values()):
                    oh = [unhx(x).decode('utf-8', 'replace') for x in hosted if x not in local][:1]
                    ol = [unhx(x).decode('utf-8', 'replace') for x in local if x not in hosted][:1]
                    res.violations.append(dict(replay, what='after %s and packaging again, the bundle does not hold the rules of the directory' % what, step=step, changed=nm, only_hosted=oh, only_local=ol,
                                               how='run the bundling script, change the directory as described (the first bundle stays in docs/public/rules), run the script again, load both ways'))
                    break
        shutil.rmtree(root, ignore_errors=True)
    return stats, samples


def check(pid, tier, seed, t0, st, replay):
    res = Result(pid)
    gate = source_gate()
    if gate:
        res.tie_broken.append('source gate: ' + '; '.join(gate[:3]))
    obl = check_obligations(['Properties/%s.v' % pid])
    for k in ('ocaml', 'harness', 'cli', 'genscript'):
        if st.get(k, 1) != 0:
            res.tie_broken.append('build step %s failed' % k)
    work = scratch('cli-' + pid, deterministic='%s-%d' % (tier, seed))
    try:
        if not res.tie_broken or all('source gate' in t for t in res.tie_broken):
            stats, samples = {'C17': check_c17, 'C18': check_c18, 'C20': check_c20}[pid](tier, seed, res, work)
            total = stats.get('files', 0) + stats.get('ci_runs', 0) + stats.get('directories', 0)
            res.coverage.update(dict(
                evaluations=total, distinct_nontrivial=total - stats.get('empty_directories', 0),
                rule={'C17': 'generated rulesets (1..8 rule files, nested directories, malformed rules at random positions) run through the real `pathfinder ci` in json and sarif modes with GITHUB_ACTIONS set/unset; every entry / SARIF result is compared with the rule evaluated alone on the real engine and with the extracted model (ci_run, ci_sarif)',
                      'C18': 'generated rule files (header fields in any order/subset with arbitrary single-line text, queries wrapped at arbitrary token boundaries, LF/CRLF, some multi-line string literals) and the shipped pathfinder-rules; cmd.ParseQuery and cmd.ExtractQueryFromFile are run for real, compared byte for byte with the extracted model and checked against the header values and the written token sequence (real lexer)',
                      'C20': 'generated flat rule directories (0..10 .cql files with UTF-8 content incl. quotes, backslashes, line breaks, HTML-sensitive and control characters, plus decoys) bundled by the real gen-script and loaded by the real downloadRuleset through a stub HTTP transport; compared with loadRules and with the extracted model (produce byte-identical, consume)'}[pid],
                stats={k: (dict(v) if isinstance(v, Counter) else v) for k, v in stats.items()}, samples=samples))
    except Exception:
        import traceback
        res.tie_broken.append('campaign crashed: ' + traceback.format_exc()[-600:])
    finally:
        shutil.rmtree(work, ignore_errors=True)
    hits = {}
    for sig, c in res.known_hits.items():
        if sig == 'D32':
            hits[sig] = 'a STRING token spanning lines is changed by the extractors (line break -> space; CR kept by the ci path only): %d rule files [exact extractor strings pinned by TestParseQuery/TestExtractQueryFromFile; shipped BlowfishUsage.cql relies on it]' % sum(c.values())
    listed = {k['signature'] for k in known_findings(pid) if k.get('status') == 'known'}
    for sig in list(hits):
        if sig not in listed:
            res.violations.append(dict(property=pid, what='finding %s is not listed in known_findings.jsonl' % sig, detail=hits[sig]))
            del hits[sig]
    res.known_hits = hits
    res.assumptions = {'C17': ['go-sarif serialisation is modelled only through the projected fields (file, line, ruleId, level, message)', 'ASCII lower-casing of severity'],
                       'C18': ['bufio.Scanner line limit (64 KiB) not modelled'],
                       'C20': ['HTTP client, TLS and the hosted site are replaced by a stub transport', 'encoding/json modelled by Base/Json.v']}[pid]
    res.violations = res.violations[:5]
    return finish(pid, tier, seed, t0, res, obl)
