"""Scanner campaign: inputs (family, android sample, mutants, raw bytes), execution of the real builder
and of the extracted model on the same (path, bytes, CST), comparison and the direct oracles."""
import glob, hashlib, os, random, re, shutil, subprocess
from common import *
import javagen

SUPPORTED = {  # CST type -> entity kind(s)
    'block': ['BlockStmt'], 'return_statement': ['ReturnStmt'], 'assert_statement': ['AssertStmt'],
    'yield_statement': ['YieldStmt'], 'break_statement': ['BreakStmt'], 'continue_statement': ['ContinueStmt'],
    'if_statement': ['IfStmt'], 'while_statement': ['WhileStmt'], 'do_statement': ['DoStmt'],
    'for_statement': ['ForStmt'], 'method_declaration': ['method_declaration'],
    'method_invocation': ['method_invocation'], 'class_declaration': ['class_declaration'],
    'block_comment': ['block_comment'], 'local_variable_declaration': ['variable_declaration'],
    'field_declaration': ['variable_declaration'], 'object_creation_expression': ['ClassInstanceExpr'],
}
BINOP_KIND = javagen.OPKIND
BINARY_KINDS = set(BINOP_KIND.values()) | {'binary_expression'}
# known finding D19 (pinned by TestBuildGraphFromAST): identities of these kinds carry no position
COLLIDING_KINDS = BINARY_KINDS | {'variable_declaration'}


def hx(b):
    return 'x' + b.hex()


def unhx(s):
    return bytes.fromhex(s[1:])


def android_files():
    return sorted(glob.glob(REPO + '/test-src/**/*.java', recursive=True))


def make_inputs(seed, n_family, n_mut, n_raw, with_android=True, size=1.0, features=None):
    """-> list of dict(id, path, data, origin, truth?)"""
    rng = random.Random('scan/%d' % seed)
    cases = []
    fam = []
    for i in range(n_family):
        text, truth, style = javagen.gen_unit(seed, i, size=size, features=features)
        data = text.encode('utf-8')
        d = rng.choice(['', 'src/', 'src/main/java/', 'a b/'])
        name = rng.choice(['A', 'Foo', 'Main', 'Täst', 'x-[]-y']) + str(i) + '.java'
        cases.append(dict(id='f%d' % i, path='proj/' + d + name, data=data, origin='family', truth=truth, style=style))
        fam.append(data)
    base = list(fam)
    if with_android:
        for k, f in enumerate(android_files()):
            data = open(f, 'rb').read()
            cases.append(dict(id='a%d' % k, path=f, data=data, origin='android'))
            base.append(data)
    for i in range(n_mut):
        src = rng.choice(base) if base else b'class A {}'
        try:
            txt = src.decode('utf-8')
        except UnicodeDecodeError:
            txt = src.decode('latin-1')
        m = javagen.mutate(txt, rng)
        cases.append(dict(id='m%d' % i, path='mut/M%d.java' % i, data=m.encode('utf-8', errors='surrogatepass') if False else m.encode('utf-8', errors='replace'), origin='mutant'))
    for i in range(n_raw):
        cases.append(dict(id='r%d' % i, path='raw/R%d.java' % i, data=javagen.random_bytes(rng), origin='raw'))
    # bytes that are not UTF-8 (ISO-8859-1 text, stray bytes) inside literals, comments and identifiers of family files
    for i, src in enumerate(fam[:max(2, n_mut // 40)] if n_mut else []):
        q = src.find(b'"')
        v = b'// caf\xe9 \xff\n' + (src[:q + 1] + b'\xe9\xfc ' + src[q + 1:] if q >= 0 else src) + b'\n/* na\xefve \xc3 */ class L\xe9 { int \xe9 = 1 + 2; }\n'
        cases.append(dict(id='l%d' % i, path='latin/L%d.java' % i, data=v, origin='mutant'))
    # a UTF-8 byte-order mark in front of family files (LF and CRLF ones, one-liners included)
    for i, src in enumerate(fam[:max(2, n_mut // 60)] if n_mut else []):
        cases.append(dict(id='b%d' % i, path='bom/B%d.java' % i, data=b'\xef\xbb\xbf' + src, origin='mutant'))
    if n_mut:
        cases.append(dict(id='b_one', path='bom/One.java', data=b'\xef\xbb\xbfclass One { int f() { return 1 + 2; } }', origin='mutant'))
    # what other tools leave in a *.java file: UTF-16 / UTF-32 text with its byte-order mark (whole, cut short by
    # one byte, the mark alone, the mark and one byte), and the leading bytes of other file formats in front of text
    if n_mut:
        one = 'class W { int f() { return 1 + 2; } }\n'
        srcs = [one] + [f.decode('utf-8', 'replace') for f in fam[:max(1, n_mut // 200)]]
        k = 0
        for txt in srcs:
            for mark, enc in ((b'\xff\xfe', 'utf-16-le'), (b'\xfe\xff', 'utf-16-be'), (b'\xff\xfe\x00\x00', 'utf-32-le'), (b'\x00\x00\xfe\xff', 'utf-32-be')):
                body = txt.encode(enc, 'replace')
                for v in (mark + body, mark + body[:-1], mark + body + b'\n', mark + txt.encode('utf-8', 'replace')):
                    cases.append(dict(id='w%d' % k, path='wide/W%d.java' % k, data=v, origin='mutant'))
                    k += 1
        for mark in (b'\xff\xfe', b'\xfe\xff', b'\xff', b'\xfe', b'\xef\xbb', b'\xef\xbb\xbf', b'\x00', b'\x1f\x8b\x08', b'PK\x03\x04', b'\xca\xfe\xba\xbe', b'\x7fELF', b'#!/bin/sh\n', b'%PDF-'):
            for tail in (b'', b'\n', b'c', b'\x00', b'class M { }'):
                cases.append(dict(id='w%d' % k, path='wide/W%d.java' % k, data=mark + tail, origin='mutant'))
                k += 1
    # textually identical LONG constructs twice in one file (a method with a 2.5 KB parameter list and a 3 KB body, a
    # 3 KB invocation, a 3 KB block comment), each pair at lines with the same number of digits: whatever derives an
    # identity from a bounded prefix of a construct's text plus its length confuses the two
    if n_mut:
        longm = '    public void alpha(%s) { %s }' % (', '.join('int p%d' % k for k in range(300)), ' '.join('step(p%d, "%s");' % (k, 'x' * 20) for k in range(90)))
        longc = '    /* ' + 'licence text ' * 260 + '*/'
        longi = '      emit(' + ', '.join('"argument %d"' % k for k in range(220)) + ');'
        twin = ('class LongTwins {\n  static class In1 {\n' + longc + '\n' + longm + '\n    void call1() {\n' + longi + '\n    }\n  }\n'
                '  static class In2 {\n' + longc + '\n' + longm + '\n    void call2() {\n' + longi + '\n    }\n  }\n}\n')
        cases.append(dict(id='lt0', path='twins/LongTwins.java', data=twin.encode(), origin='mutant'))
    # Javadoc tag lines whose first word changes length when its case is changed, holds bytes that are no UTF-8, or
    # is all there is on the line
    if n_mut:
        tags = [b'@\xc8\xba\xc8\xba\xc8\xba x', b'@\xc8\xba\xc8\xbe', b'@\xc4\xd6\xdc y', b'@\xff', b'@', b'@ ', b'@A', b'@AUTHOR x', b'@Author\tx', b'@\xc4\xb0 z', b'@\xe2\x84\xaa k',
                b'@param', b'@param ', b'@return\xc2\xa0x', b'@\xc5\xbf s', b'@since\x00', b'@' + b'\xc8\xba' * 40, b'@see ' + b'\xe6\xbc\xa2' * 30]
        for j, tg in enumerate(tags):
            for form in (b'/** ' + tg + b' */\nclass J%d { }\n' % j, b'/**\n * ' + tg + b'\n */\nclass J%d { /** ' % j + tg + b' */ void m() { } }\n', b'/**\n' + tg + b'\n*/ class J%d { }\n' % j):
                cases.append(dict(id='j%d' % len([c for c in cases if c['id'].startswith('j')]), path='jdoc/J%d.java' % len([c for c in cases if c['id'].startswith('j')]), data=form, origin='mutant'))
    # minimal tokens inserted into / substituted in family files (a share of the mutant budget)
    k = 0
    for src in fam[:max(1, n_mut // 150)] if n_mut else []:
        for v in javagen.tiny_variants(src.decode('utf-8'), rng):
            cases.append(dict(id='t%d' % k, path='tiny/T%d.java' % k, data=v.encode('utf-8', errors='replace'), origin='mutant'))
            k += 1
    # constructs nested hundreds of levels deep (past any fixed depth limit somebody might introduce)
    if n_family:
        for depth in (64, 540):
            dtext, dtruth = javagen.deep_unit(depth)
            cases.append(dict(id='deep%d' % depth, path='deep/Deep%d.java' % depth, data=dtext.encode(), origin='family', truth=dtruth, style={}))
    # same-kind constructs at many (row, column) positions of one file
    if n_family:
        for kind in javagen.GRID_KINDS:
            gtext, gtruth = javagen.grid_unit(kind)
            cases.append(dict(id='g_%s' % kind, path='grid/Grid_%s.java' % kind, data=gtext.encode(), origin='family', truth=gtruth, style={}))
    return cases


def parse_kv(line):
    d = {}
    for w in line.split(' ')[1:]:
        k, _, v = w.partition('=')
        d[k] = v
    return d


def parse_cases_cst(path):
    """cases.txt -> dict id -> list of (type, named, sb, eb, row, col, nkids, field) in pre-order, plus src/path"""
    out, cur = {}, None
    with open(path) as f:
        for line in f:
            line = line.rstrip('\n')
            if line.startswith('CASE '):
                cur = dict(nodes=[])
                out[line[5:]] = cur
            elif line.startswith('PATH '):
                cur['path'] = unhx(line[5:])
            elif line.startswith('SRC '):
                cur['src'] = unhx(line[4:])
            elif line.startswith('N '):
                w = line.split(' ')
                cur['nodes'].append((unhx(w[1]).decode('utf-8', 'replace'), w[2] == '1', int(w[5]), int(w[6]), int(w[7]), int(w[8]), int(w[9]), None if w[4] == '~' else unhx(w[4]).decode()))
    return out


def parse_blocks(path):
    out, cur, cid = {}, None, None
    with open(path, 'r') as f:
        for line in f:
            line = line.rstrip('\n')
            if line.startswith('CASE '):
                cid, cur = line[5:], []
            elif line == 'ENDCASE':
                out[cid] = cur
                cur = None
            elif cur is not None:
                cur.append(line)
    return out


_idpre = re.compile(r'idpre=x([0-9a-f]*)')


def sha_hex(h):
    return hashlib.sha256(bytes.fromhex(h)).hexdigest()


def execute(cases, workdir):
    """runs the real builder (harness scan-dump) and the extracted model on the cases.
    Returns dict with per-case records and the list of model/impl disagreements."""
    os.makedirs(workdir, exist_ok=True)
    lst = []
    for c in cases:
        fp = os.path.join(workdir, 'in_' + c['id'])
        with open(fp, 'wb') as f:
            f.write(c['data'])
        lst.append('%s %s %s' % (c['id'], hx(c['path'].encode('utf-8')), fp))
    # the harness leaves with status 3 when one file stalls the builder (40 s): that case is recorded as a stall and
    # the rest is run in a new process
    remaining, stalled, part = list(lst), [], 0
    open(workdir + '/cases.txt', 'w').close()
    open(workdir + '/impl.txt', 'w').close()
    while remaining:
        open(workdir + '/list.txt', 'w').write('\n'.join(remaining) + '\n')
        rc, out, err = run([B + '/harness', 'scan-dump', workdir + '/list.txt', workdir + '/cases.part', workdir + '/impl.part'], timeout=1800)
        part += 1
        for src_, dst_ in (('/cases.part', '/cases.txt'), ('/impl.part', '/impl.txt')):
            with open(workdir + src_, 'rb') as fi, open(workdir + dst_, 'ab') as fo:
                data_ = fi.read()
                if src_ == '/cases.part' and rc == 3:
                    # drop the (complete) CST of the stalled case: the model is not asked about it
                    pass
                fo.write(data_)
        if rc == 0:
            break
        if rc != 3 or part > 12:
            return dict(error='harness scan-dump failed rc=%d: %s' % (rc, err.decode(errors='replace')[-500:]))
        sid = [l.split(' ')[1].strip() for l in open(workdir + '/impl.part') if l.startswith('STALLED ')]
        if not sid:
            return dict(error='harness scan-dump left with status 3 without naming the stalled case')
        stalled.append(sid[-1])
        idx = [i for i, l in enumerate(remaining) if l.split(' ', 1)[0] == sid[-1]]
        remaining = remaining[idx[0] + 1:] if idx else []
        if len(stalled) >= 3:
            remaining = []          # enough evidence; the rest of the campaign is not run
    if stalled:
        # keep only the CSTs of the cases that completed (the stalled ones have no implementation result to compare)
        keep, skip = [], False
        for l in open(workdir + '/cases.txt', 'rb'):
            if l.startswith(b'CASE '):
                skip = l.split()[1].decode() in stalled
            if not skip:
                keep.append(l)
        open(workdir + '/cases.txt', 'wb').write(b''.join(keep))
    with open(workdir + '/cases.txt', 'rb') as fin, open(workdir + '/model.txt', 'wb') as fout:
        try:
            p = subprocess.run([B + '/model', 'build'], stdin=fin, stdout=fout, stderr=subprocess.PIPE, timeout=3000)
        except subprocess.TimeoutExpired:
            return dict(error='model build timed out')
    if p.returncode != 0:
        return dict(error='model build failed: ' + p.stderr.decode(errors='replace')[-500:])
    mb, ib = parse_blocks(workdir + '/model.txt'), parse_blocks(workdir + '/impl.txt')
    recs, dis = {}, []
    for c in cases:
        cid = c['id']
        r = dict(case=c)
        ml, il = mb.get(cid), ib.get(cid)
        if il is not None and any(l == 'OUTCOME stall' for l in il):
            r['impl_outcome'] = 'stall'
            r['build_ms'] = int([l for l in il if l.startswith('TIME ')][0][5:])
            r['impl_nodes'], r['impl_edges'] = [], []
            recs[cid] = r
            continue
        if ml is None or il is None:
            dis.append((cid, 'missing-block', ''))
            recs[cid] = r
            continue
        r['wf'] = ('WF 1' in ml)
        tl = [l for l in il if l.startswith('TIME ')]
        r['build_ms'] = int(tl[0][5:]) if tl else 0
        mo = [l for l in ml if l.startswith('OUTCOME ')][0].split(' ')
        io = [l for l in il if l.startswith('OUTCOME ')][0].split(' ')
        r['model_outcome'], r['impl_outcome'] = mo[1], io[1]
        r['panic_site'] = unhx(mo[2]).decode() if len(mo) > 2 else ''
        mnodes = sorted(_idpre.sub(lambda m: 'id=' + sha_hex(m.group(1)), l, count=1) for l in ml if l.startswith('NODE '))
        medges = sorted('EDGE %s %s' % tuple(sha_hex(x[1:]) for x in l.split(' ')[1:]) for l in ml if l.startswith('EDGE '))
        inodes = sorted(l for l in il if l.startswith('NODE ') or l.startswith('KEYMISMATCH'))
        iedges = sorted(l for l in il if l.startswith('EDGE '))
        r['impl_nodes'] = [parse_kv(l) for l in inodes if l.startswith('NODE ')]
        r['impl_edges'] = iedges
        r['census'] = [parse_kv(l) for l in ml if l.startswith('ENT ')]
        r['decoded'] = [parse_kv(l) for l in ml if l.startswith('DEC ')]
        if mo[1] != io[1]:
            dis.append((cid, 'outcome', 'model=%s(%s) impl=%s' % (mo[1], r['panic_site'], io[1])))
        elif mnodes != inodes or medges != iedges:
            sm, si = set(mnodes) | set(medges), set(inodes) | set(iedges)
            dis.append((cid, 'graph', 'only-model=%s only-impl=%s' % (sorted(sm - si)[:1], sorted(si - sm)[:1])))
        recs[cid] = r
    return dict(recs=recs, disagreements=dis, cst=None, workdir=workdir, stalled=stalled)


# ---------------- direct oracles (independent of the model's Build functions) ----------------
def oracle_location(rec):
    """C04: file = scanned path; snippet is the file text starting on the reported line. -> list of failures"""
    c = rec['case']
    src = c['data']
    starts = [0]
    for i, b in enumerate(src):
        if b == 10:
            starts.append(i + 1)
    bad = []
    for n in rec.get('impl_nodes', []):
        f = unhx(n['file'])
        if f != c['path'].encode('utf-8'):
            bad.append(('file', n['type'], f))
            continue
        line = int(n['line'])
        snip = unhx(n['snippet'])
        if line < 1 or line > len(starts):
            bad.append(('line-out-of-range', unhx(n['type']).decode(), line))
            continue
        lo = starts[line - 1]
        hi = starts[line] - 1 if line < len(starts) else len(src)
        o = src.find(snip, lo)
        ok = (o != -1 and o <= hi)
        if not ok:
            bad.append(('snippet-not-at-line', unhx(n['type']).decode(), line, snip[:40]))
    return bad


def independent_census(cstrec):
    """expected (kind, line, snippet) occurrences from the raw CST, by CST type only"""
    src = cstrec['src']
    nodes = cstrec['nodes']
    exp = []
    for idx, (ty, named, sb, eb, row, col, nk, field) in enumerate(nodes):
        snip = src[sb:eb]
        if ty in SUPPORTED:
            if ty == 'block_comment' and not snip.startswith(b'/*'):
                continue
            for k in SUPPORTED[ty]:
                exp.append((k, row + 1, snip))
        elif ty == 'binary_expression':
            # operator = type of the child with field 'operator' (direct children follow in pre-order)
            op = None
            j = idx + 1
            for _ in range(nk):
                if nodes[j][7] == 'operator' and op is None:   # ChildByFieldName: the first such child
                    op = nodes[j][0]
                cnt = 1
                while cnt > 0:
                    cnt += nodes[j][6] - 1
                    j += 1
            exp.append(('binary_expression', row + 1, snip))
            if op in BINOP_KIND:
                exp.append((BINOP_KIND[op], row + 1, snip))
    return exp


def oracle_census(rec, cstrec):
    """C03 for one file. -> (violations, known_hits, stats)"""
    from collections import Counter
    exp = Counter(independent_census(cstrec))
    got = Counter((unhx(n['type']).decode(), int(n['line']), unhx(n['snippet'])) for n in rec.get('impl_nodes', []))
    viol, known = [], []
    spurious = got - exp
    lost = exp - got
    for k in spurious:
        viol.append(('spurious-entity', k[0], k[1], k[2][:60]))
    if lost:
        # which census identities collide?  (model knows every identity pre-image)
        ids = Counter(e['idpre'] for e in rec.get('census', []))
        byocc = {}
        for e in rec.get('census', []):
            byocc.setdefault((unhx(e['type']).decode(), int(e['line']), unhx(e['snippet'])), []).append(e)
        for k, cnt in lost.items():
            ents = byocc.get(k, [])
            collide = [e for e in ents if ids[e['idpre']] > 1]
            if k[0] in COLLIDING_KINDS and len(collide) >= 1:
                known.append(k[0])
            else:
                viol.append(('lost-entity', k[0], k[1], k[2][:60]))
    return viol, known, dict(expected=sum(exp.values()), got=sum(got.values()))


def disk_locations(cases, workdir, harness):
    """C04/C09 through the real read path: the cases are written to disk, scanned with graph.Initialize (harness
    init-dump) and every reported entity is checked against the bytes ON DISK. -> (stats, failures)"""
    import shutil
    from collections import Counter
    root = os.path.join(workdir, 'disk')
    shutil.rmtree(root, ignore_errors=True)
    written = {}
    for c in cases:
        if os.path.isabs(c['path']):
            continue
        p = os.path.join(root, c['id'], c['path'])
        os.makedirs(os.path.dirname(p), exist_ok=True)
        with open(p, 'wb') as f:
            f.write(c['data'])
        written[p.encode('utf-8')] = c
    # several LARGE files (>= 64 KiB, similar sizes) in the same scan: more of them than there are workers, so some
    # worker handles two (what a reused read buffer, or views into it, get wrong)
    fam = [c for c in cases if c.get('origin') == 'family' and not os.path.isabs(c['path'])]
    if fam:
        for k in range(7):
            parts, size, j = [], 0, k
            while size < 66000 + 900 * k:
                d = fam[j % len(fam)]['data']
                parts.append(d + b'\n')
                size += len(d) + 1
                j += 3
            data = b''.join(parts)
            p = os.path.join(root, 'big', 'Big%d.java' % k)
            os.makedirs(os.path.dirname(p), exist_ok=True)
            with open(p, 'wb') as f:
                f.write(data)
            written[p.encode('utf-8')] = dict(id='big%d' % k, path='big/Big%d.java' % k, data=data, origin='mutant')
    out = os.path.join(workdir, 'disk_dump.txt')
    p = subprocess.run([harness, 'init-dump', root, out], capture_output=True, timeout=1800, env=dict(os.environ, HOME=workdir))
    stats, bad = Counter(files=len(written)), []
    if p.returncode != 0:
        # which file is it?  each written file is scanned alone (its directory holds nothing else); the first that
        # fails alone is the replay, otherwise the failure needs the whole set and is reported as such
        msg = 'rc=%d %s' % (p.returncode, p.stderr.decode(errors='replace')[-300:])
        for fp, c in written.items():
            d = os.path.dirname(fp.decode('utf-8', 'surrogateescape'))
            others = [x for x in written if x != fp and os.path.dirname(x.decode('utf-8', 'surrogateescape')).startswith(d)]
            if others:
                continue
            try:
                q = subprocess.run([harness, 'init-dump', d, out + '.one'], capture_output=True, timeout=120, env=dict(os.environ, HOME=workdir))
                rc1, err1 = q.returncode, q.stderr.decode(errors='replace')[-300:]
            except subprocess.TimeoutExpired:
                rc1, err1 = 124, 'no answer within 120 s'
            if rc1 != 0:
                return stats, [dict(what='graph.Initialize fails on a directory holding just this file', case=c, detail=['rc=%d %s' % (rc1, err1)])]
        return stats, [dict(what='graph.Initialize on the written files failed (no single file fails alone): ' + msg)]
    by_file = {}
    for line in open(out):
        if line.startswith('NODE '):
            n = parse_kv(line.rstrip('\n'))
            by_file.setdefault(unhx(n['file']), []).append(n)
    # a part of the inputs once more under other environments (variables, locale, CPUs, open-file limit): the scan
    # must end normally and report the same number of entities
    from common import ENV_MATRIX, run_env
    envroot = os.path.join(workdir, 'disk_env')
    shutil.rmtree(envroot, ignore_errors=True)
    sub = [c for c in cases if not os.path.isabs(c['path'])]
    sub = sub[:25] + [c for c in sub[25:] if c['id'][0] in 'wblj'][:70]
    for c in sub:
        p_ = os.path.join(envroot, c['id'], c['path'])
        os.makedirs(os.path.dirname(p_), exist_ok=True)
        with open(p_, 'wb') as f:
            f.write(c['data'])
    counts = []
    for ov in [('default', {}, None)] + ENV_MATRIX:
        rc, so, se = run_env([harness, 'init-dump', envroot, out + '.env'], ov, timeout=900, base=dict(os.environ, HOME=workdir))
        stats['environments'] += 1
        n_ = sum(1 for l in open(out + '.env') if l.startswith('NODE ')) if rc == 0 else -1
        counts.append(n_)
        if rc != 0 or n_ != counts[0]:
            bad.append(dict(what='graph.Initialize on %d of the written files %s in another environment (%s)' % (len(sub), 'fails (rc=%d)' % rc if rc != 0 else 'reports %d entities instead of %d' % (n_, counts[0]), ov[0]),
                            file='environment %r, limit on open files %r; %s' % (ov[1], ov[2], se.decode(errors='replace')[-300:])))
            break
    for f, nodes in by_file.items():
        c = written.get(f)
        if c is None:
            bad.append(dict(what='an entity is reported for a file that was not scanned', file=f.decode('utf-8', 'replace')))
            continue
        stats['entities'] += len(nodes)
        b = oracle_location(dict(case=dict(data=c['data'], path=f.decode('utf-8', 'surrogateescape')), impl_nodes=nodes))
        if b:
            bad.append(dict(what='entity location does not denote the text on disk', case=c, detail=b[:3]))
    return stats, bad


def disk_census(cases, recs, workdir, harness, ncopies=12):
    """C03 through the real scan of a whole project: family files are written to disk TOGETHER with byte-identical
    copies under other paths and a hard link; every file must be represented by the entities the builder gives for
    its bytes (same multiset of kind / line / snippet as the in-memory run). -> (stats, failures)"""
    import shutil
    from collections import Counter
    root = os.path.join(workdir, 'census')
    shutil.rmtree(root, ignore_errors=True)
    expect = {}
    fam = [c for c in cases if c['origin'] == 'family' and not os.path.isabs(c['path'])][:ncopies]
    for c in fam:
        r = recs.get(c['id'])
        if not r or r.get('impl_outcome') != 'ok':
            continue
        want = Counter((unhx(n['type']), int(n['line']), unhx(n['snippet'])) for n in r['impl_nodes'])
        base = os.path.basename(c['path'])
        for rel in ('a/%s/%s' % (c['id'], base), '.vendor/%s/%s' % (c['id'], base), 'zz/copy.of/%s/%s' % (c['id'], base)):
            p = os.path.join(root, rel)
            os.makedirs(os.path.dirname(p), exist_ok=True)
            with open(p, 'wb') as f:
                f.write(c['data'])
            expect[p.encode('utf-8')] = (want, c)
        lk = os.path.join(root, 'a/%s/Linked_%s' % (c['id'], base))
        try:
            os.link(os.path.join(root, 'a/%s/%s' % (c['id'], base)), lk)
            expect[lk.encode('utf-8')] = (want, c)
        except OSError:
            pass
        # the same content reached through symbolic links: a relative one to a file of the project, an absolute one
        # to a file OUTSIDE the project (shared / generated sources linked into a workspace)
        sl = os.path.join(root, 'a/%s/Sym_%s' % (c['id'], base))
        os.symlink(base, sl)
        expect[sl.encode('utf-8')] = (want, c)
        outside = os.path.join(workdir, 'census_outside', c['id'] + '.java')
        os.makedirs(os.path.dirname(outside), exist_ok=True)
        with open(outside, 'wb') as f:
            f.write(c['data'])
        sl2 = os.path.join(root, 'linked/%s/%s' % (c['id'], base))
        os.makedirs(os.path.dirname(sl2), exist_ok=True)
        os.symlink(outside, sl2)
        expect[sl2.encode('utf-8')] = (want, c)
    # more files than a small limit on open files allows at once (walked before the family's directories)
    for k in range(150):
        p = os.path.join(root, '0crowd/d%d/T%03d.java' % (k % 7, k))
        os.makedirs(os.path.dirname(p), exist_ok=True)
        with open(p, 'wb') as f:
            f.write(b'class T%03d { int f%d = %d + 1; void m() { g(%d); } }\n' % (k, k, k, k))
    out = os.path.join(workdir, 'census_dump.txt')
    p = subprocess.run([harness, 'init-dump', root, out], capture_output=True, timeout=1800, env=dict(os.environ, HOME=workdir))
    stats, bad = Counter(census_files=len(expect)), []
    if p.returncode != 0:
        return stats, [dict(what='graph.Initialize on the project failed: rc=%d %s' % (p.returncode, p.stderr.decode(errors='replace')[-300:]))]
    got = {}
    for line in open(out):
        if line.startswith('NODE '):
            n = parse_kv(line.rstrip('\n'))
            got.setdefault(unhx(n['file']), Counter())[(unhx(n['type']), int(n['line']), unhx(n['snippet']))] += 1
    for f, (want, c) in expect.items():
        g = got.get(f, Counter())
        stats['census_entities'] += sum(g.values())
        if g != want:
            miss = list((want - g).items())[:2]
            extra = list((g - want).items())[:2]
            bad.append(dict(what='a file of a project is not represented by the entities of its own content (byte-identical copies elsewhere in the project)',
                            case=c, detail=dict(file=f.decode('utf-8', 'replace'), entities=sum(g.values()), expected=sum(want.values()),
                                                missing=[(k[0].decode(), k[1], k[2][:60].decode('utf-8', 'replace')) for k, _ in miss],
                                                unexpected=[(k[0].decode(), k[1], k[2][:60].decode('utf-8', 'replace')) for k, _ in extra])))
    crowd = os.path.join(root, '0crowd').encode('utf-8')
    for f in got:
        if f not in expect and not f.startswith(crowd):
            bad.append(dict(what='an entity is reported for a file that is not in the project', detail=dict(file=f.decode('utf-8', 'replace'))))
    ncrowd = sum(1 for f in got if f.startswith(crowd))
    if ncrowd != 150:
        bad.append(dict(what='%d of 150 small files of the project are represented' % ncrowd, detail=dict(files='0crowd/d<k>/T<nnn>.java: class T<nnn> { int f = n + 1; void m() { g(n); } }')))
    # the same scan in other environments (variables, locale, number of CPUs, limit on open files): same entities
    from common import ENV_MATRIX, run_env
    for ov in ENV_MATRIX:
        out2 = os.path.join(workdir, 'census_dump_env.txt')
        rc, so, se = run_env([harness, 'init-dump', root, out2], ov, timeout=900, base=dict(os.environ, HOME=workdir))
        stats['census_environments'] += 1
        if rc != 0:
            bad.append(dict(what='graph.Initialize on the project fails in another environment (%s): rc=%d' % (ov[0], rc), detail=dict(environment=ov[1], open_files=ov[2], stderr=se.decode(errors='replace')[-300:])))
            break
        got2 = {}
        for line in open(out2):
            if line.startswith('NODE '):
                n = parse_kv(line.rstrip('\n'))
                got2.setdefault(unhx(n['file']), Counter())[(unhx(n['type']), int(n['line']), unhx(n['snippet']))] += 1
        if got2 != got:
            lost = [f for f in got if got2.get(f) != got[f]][:3]
            bad.append(dict(what='the entities of a project depend on the environment of the scan (%s)' % ov[0],
                            detail=dict(environment=ov[1], open_files=ov[2], files_differing=len([f for f in set(got) | set(got2) if got2.get(f) != got.get(f)]),
                                        e_g=[(f.decode('utf-8', 'replace'), sum(got[f].values()), sum(got2.get(f, Counter()).values())) for f in lost],
                                        project='%d files: family files with byte-identical copies, a hard link, symbolic links, and 150 small files under 0crowd/' % len(got))))
            break
    return stats, bad
