#!/opt/veriftools/pyvenv/bin/python
"""Independent general CFG recogniser for antlr/Query.g4 (lark Earley) over token-type sequences.
usage: earley_check.py <Query.g4> <in> <out>;  in: one case per line "<id> <t1.t2...>" (ANTLR token
type numbers, empty for no tokens); out: "<id> 1|0"."""
import re, sys
from lark import Lark

LIT = ['(', ')', '{', '}', ',', '||', '&&', '==', '!=', '<', '>', '<=', '>=', ' in ', '+', '-', '*', '/', '!', '.', '[', ']', 'LIKE', 'in']
NAMED = {25: 'STRING', 26: 'STRING_WITH_WILDCARD', 27: 'NUMBER', 28: 'PREDICATE', 29: 'FROM', 30: 'WHERE', 31: 'AS', 32: 'SELECT', 33: 'IDENTIFIER'}


def convert(g4):
    """parser rules of the .g4 -> lark grammar over terminals T<n> (one per ANTLR token type)"""
    txt = re.sub(r'//[^\n]*', '', open(g4).read())
    rules = []
    for m in re.finditer(r'(?m)^([a-z][A-Za-z_]*)\s*:(.*?);\s*$', txt, re.S):
        name, body = m.group(1), m.group(2)
        def lit(mm):
            s = mm.group(1)
            return ' T%d ' % (LIT.index(s) + 1)
        body = re.sub(r"'((?:[^'\\]|\\.)*)'", lit, body)
        for num, nm in NAMED.items():
            body = re.sub(r'\b%s\b' % nm, ' T%d ' % num, body)
        rules.append('%s: %s' % (name.lower(), re.sub(r'([a-z][A-Za-z_]*)', lambda x: x.group(1).lower(), body)))
    terms = ['T%d: "t%d_"' % (i, i) for i in list(range(1, 25)) + sorted(NAMED)]
    # the documented grammar requires the whole input to be the query
    return 'start: query\n' + '\n'.join(rules) + '\n' + '\n'.join(terms) + '\n%ignore " "\n'


def main():
    g = convert(sys.argv[1])
    parser = Lark(g, parser='earley', lexer='basic', start='start')
    with open(sys.argv[2]) as fin, open(sys.argv[3], 'w') as fout:
        for line in fin:
            w = line.rstrip('\n').split(' ')
            toks = [t for t in (w[1].split('.') if len(w) > 1 and w[1] else [])]
            text = ' '.join('t%s_' % t for t in toks)
            try:
                parser.parse(text)
                ok = 1
            except Exception:
                ok = 0
            fout.write('%s %d\n' % (w[0], ok))

if __name__ == '__main__':
    main()
