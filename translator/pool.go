// pool.go: extracts the concurrency skeleton of graph.Initialize (goroutines, channel operations, wait group,
// loops around them) as a small structured program. Statements that cannot touch channels, goroutines or the
// wait group are dropped; calls to functions outside the ignore list are kept (they might block); any channel
// or sync operation in a shape that is not recognised is a loud failure.
package main

import (
	"fmt"
	"go/ast"
	"go/token"
	"strconv"
	"strings"
)

type pstmt struct {
	op   string   // constructor name
	args []string // string arguments
	body []pstmt  // nested statements (loops)
	cases [][]pstmt
	chans []string
}

// calls that neither block nor touch shared state of the protocol
var poolIgnoreCalls = map[string]bool{
	"Log": true, "Fmt": true, "fmt.Print": true, "fmt.Printf": true, "fmt.Println": true, "fmt.Sprintf": true,
	"time.Now": true, "end.Sub": true, "len": true, "int": true, "make": true, "filepath.Base": true,
	"NewCodeGraph": true, "sitter.NewParser": true, "parser.Close": true, "parser.SetLanguage": true,
	"java.GetLanguage": true, "tree.Close": true, "tree.RootNode": true, "context.TODO": true,
	"codeGraph.AddNode": true, "codeGraph.AddEdge": true,
}

type poolTr struct {
	fset   *token.FileSet
	src    []byte
	chans  map[string]bool
	wgs    map[string]bool
	funcs  map[string]*ast.FuncLit // named local closures (worker := func…)
	gor    []string                // goroutine names in order
	bodies map[string][]pstmt
	anon   int
}

func (t *poolTr) line(n ast.Node) int { return t.fset.Position(n.Pos()).Line }

func callName(e ast.Expr) string {
	switch f := e.(type) {
	case *ast.Ident:
		return f.Name
	case *ast.SelectorExpr:
		if x, ok := f.X.(*ast.Ident); ok {
			return x.Name + "." + f.Sel.Name
		}
		return "?." + f.Sel.Name
	}
	return "?"
}

// mentions reports whether the expression tree contains a channel receive, a call that is not ignorable,
// or a function literal
func (t *poolTr) exprEffects(e ast.Node) (calls []string) {
	ast.Inspect(e, func(n ast.Node) bool {
		switch x := n.(type) {
		case *ast.UnaryExpr:
			if x.Op == token.ARROW {
				die("construct.go:%d: channel receive inside an expression (not modelled)", t.line(x))
			}
		case *ast.FuncLit:
			die("construct.go:%d: function literal inside an expression (not modelled)", t.line(x))
		case *ast.CallExpr:
			nm := callName(x.Fun)
			if !poolIgnoreCalls[nm] {
				calls = append(calls, nm)
			}
		}
		return true
	})
	return
}

func (t *poolTr) isErrNotNil(e ast.Expr) bool {
	b, ok := e.(*ast.BinaryExpr)
	if !ok || b.Op != token.NEQ {
		return false
	}
	x, ok1 := b.X.(*ast.Ident)
	y, ok2 := b.Y.(*ast.Ident)
	return ok1 && ok2 && x.Name == "err" && y.Name == "nil"
}

func (t *poolTr) stmts(list []ast.Stmt) []pstmt {
	var out []pstmt
	for i := 0; i < len(list); i++ {
		s := list[i]
		// x, err := f(...) ; if err != nil { ...; continue|return }
		if as, ok := s.(*ast.AssignStmt); ok && len(as.Lhs) == 2 && len(as.Rhs) == 1 && i+1 < len(list) {
			if id, ok := as.Lhs[1].(*ast.Ident); ok && id.Name == "err" {
				if ce, ok := as.Rhs[0].(*ast.CallExpr); ok {
					if ifs, ok := list[i+1].(*ast.IfStmt); ok && ifs.Init == nil && ifs.Else == nil && t.isErrNotNil(ifs.Cond) {
						exit := ""
						for _, bs := range ifs.Body.List {
							switch b := bs.(type) {
							case *ast.BranchStmt:
								if b.Tok == token.CONTINUE {
									exit = "continue"
								}
							case *ast.ReturnStmt:
								exit = "return"
							default:
								inner := t.stmts([]ast.Stmt{bs})
								if len(inner) != 0 {
									die("construct.go:%d: error branch does more than log", t.line(bs))
								}
							}
						}
						if exit == "" {
							die("construct.go:%d: error branch neither continues nor returns", t.line(ifs))
						}
						for _, a := range ce.Args {
							t.exprEffects(a)
						}
						op := "SErrContinue"
						if exit == "return" {
							op = "SErrReturn"
						}
						out = append(out, pstmt{op: op, args: []string{callName(ce.Fun)}})
						i++
						continue
					}
				}
			}
		}
		out = append(out, t.stmt(s)...)
	}
	return out
}

func (t *poolTr) stmt(s ast.Stmt) []pstmt {
	switch x := s.(type) {
	case *ast.SendStmt:
		ch, ok := x.Chan.(*ast.Ident)
		if !ok || !t.chans[ch.Name] {
			die("construct.go:%d: send on something that is not a known channel", t.line(x))
		}
		var out []pstmt
		for _, c := range t.exprEffects(x.Value) {
			out = append(out, pstmt{op: "SCall", args: []string{c}})
		}
		return append(out, pstmt{op: "SSend", args: []string{ch.Name}})
	case *ast.GoStmt:
		if fl, ok := x.Call.Fun.(*ast.FuncLit); ok {
			t.anon++
			name := "go#" + strconv.Itoa(t.anon)
			t.gor = append(t.gor, name)
			t.bodies[name] = t.stmts(fl.Body.List)
			return []pstmt{{op: "SGo", args: []string{name}}}
		}
		if id, ok := x.Call.Fun.(*ast.Ident); ok && t.funcs[id.Name] != nil {
			return []pstmt{{op: "SGo", args: []string{id.Name}}}
		}
		die("construct.go:%d: go statement with an unknown callee", t.line(x))
	case *ast.DeferStmt:
		nm := callName(x.Call.Fun)
		if nm == "close" && len(x.Call.Args) == 1 {
			if id, ok := x.Call.Args[0].(*ast.Ident); ok && t.chans[id.Name] {
				return []pstmt{{op: "SDeferClose", args: []string{id.Name}}}
			}
		}
		if poolIgnoreCalls[nm] {
			return nil
		}
		die("construct.go:%d: defer of %s (not modelled)", t.line(x), nm)
	case *ast.ExprStmt:
		if u, ok := x.X.(*ast.UnaryExpr); ok && u.Op == token.ARROW {
			if id, ok := u.X.(*ast.Ident); ok && t.chans[id.Name] {
				return []pstmt{{op: "SRecv", args: []string{id.Name}}}
			}
			die("construct.go:%d: receive from something that is not a known channel", t.line(x))
		}
		ce, ok := x.X.(*ast.CallExpr)
		if !ok {
			die("construct.go:%d: expression statement that is not a call", t.line(x))
		}
		nm := callName(ce.Fun)
		if nm == "close" && len(ce.Args) == 1 {
			id, ok := ce.Args[0].(*ast.Ident)
			if !ok || !t.chans[id.Name] {
				die("construct.go:%d: close of something that is not a known channel", t.line(x))
			}
			return []pstmt{{op: "SClose", args: []string{id.Name}}}
		}
		if se, ok := ce.Fun.(*ast.SelectorExpr); ok {
			if id, ok := se.X.(*ast.Ident); ok && t.wgs[id.Name] {
				switch se.Sel.Name {
				case "Add":
					return []pstmt{{op: "SWgAdd", args: []string{exprString(t.fset, ce.Args[0], t.src)}}}
				case "Done":
					return []pstmt{{op: "SWgDone"}}
				case "Wait":
					return []pstmt{{op: "SWgWait"}}
				}
				die("construct.go:%d: unknown WaitGroup method %s", t.line(x), se.Sel.Name)
			}
		}
		var out []pstmt
		for _, a := range ce.Args {
			for _, c := range t.exprEffects(a) {
				out = append(out, pstmt{op: "SCall", args: []string{c}})
			}
		}
		if strings.HasPrefix(nm, "verif") {
			return append(out, pstmt{op: "SHook", args: []string{nm}})
		}
		if poolIgnoreCalls[nm] {
			return out
		}
		return append(out, pstmt{op: "SCall", args: []string{nm}})
	case *ast.AssignStmt:
		// closures: name := func(...) {...}
		if len(x.Lhs) == 1 && len(x.Rhs) == 1 {
			if fl, ok := x.Rhs[0].(*ast.FuncLit); ok {
				id := x.Lhs[0].(*ast.Ident)
				t.funcs[id.Name] = fl
				t.gor = append(t.gor, id.Name)
				t.bodies[id.Name] = t.stmts(fl.Body.List)
				return nil
			}
			// ch := make(chan T, cap)
			if ce, ok := x.Rhs[0].(*ast.CallExpr); ok && callName(ce.Fun) == "make" && len(ce.Args) >= 1 {
				if _, ok := ce.Args[0].(*ast.ChanType); ok {
					id := x.Lhs[0].(*ast.Ident)
					t.chans[id.Name] = true
					capx := "0"
					if len(ce.Args) == 2 {
						capx = exprString(t.fset, ce.Args[1], t.src)
					}
					return []pstmt{{op: "SMake", args: []string{id.Name, capx}}}
				}
			}
			// constants and lengths the capacities refer to
			if id, ok := x.Lhs[0].(*ast.Ident); ok && x.Tok == token.DEFINE {
				if bl, ok := x.Rhs[0].(*ast.BasicLit); ok && bl.Kind == token.INT {
					return []pstmt{{op: "SConst", args: []string{id.Name, bl.Value}}}
				}
				if ce, ok := x.Rhs[0].(*ast.CallExpr); ok && callName(ce.Fun) == "len" {
					return []pstmt{{op: "SLen", args: []string{id.Name, exprString(t.fset, ce.Args[0], t.src)}}}
				}
			}
		}
		var out []pstmt
		for _, r := range x.Rhs {
			if u, ok := r.(*ast.UnaryExpr); ok && u.Op == token.ARROW {
				if id, ok := u.X.(*ast.Ident); ok && t.chans[id.Name] {
					out = append(out, pstmt{op: "SRecv", args: []string{id.Name}})
					continue
				}
			}
			for _, c := range t.exprEffects(r) {
				out = append(out, pstmt{op: "SCall", args: []string{c}})
			}
		}
		return out
	case *ast.DeclStmt:
		gd := x.Decl.(*ast.GenDecl)
		for _, sp := range gd.Specs {
			if vs, ok := sp.(*ast.ValueSpec); ok {
				if exprString(t.fset, vs.Type, t.src) == "sync.WaitGroup" {
					for _, n := range vs.Names {
						t.wgs[n.Name] = true
					}
					return []pstmt{{op: "SWaitGroup", args: []string{vs.Names[0].Name}}}
				}
				for _, v := range vs.Values {
					t.exprEffects(v)
				}
			}
		}
		return nil
	case *ast.RangeStmt:
		if id, ok := x.X.(*ast.Ident); ok && t.chans[id.Name] {
			return []pstmt{{op: "SRange", args: []string{id.Name}, body: t.stmts(x.Body.List)}}
		}
		t.exprEffects(x.X)
		body := t.stmts(x.Body.List)
		if len(body) == 0 {
			return nil
		}
		return []pstmt{{op: "SForEach", args: []string{exprString(t.fset, x.X, t.src)}, body: body}}
	case *ast.ForStmt:
		body := t.stmts(x.Body.List)
		if x.Cond == nil && x.Init == nil && x.Post == nil {
			return []pstmt{{op: "SForever", body: body}}
		}
		// for i := 0; i < N; i++
		if be, ok := x.Cond.(*ast.BinaryExpr); ok && be.Op == token.LSS && x.Init != nil && x.Post != nil {
			t.exprEffects(be)
			if len(body) == 0 {
				return nil
			}
			return []pstmt{{op: "SLoopN", args: []string{exprString(t.fset, be.Y, t.src)}, body: body}}
		}
		die("construct.go:%d: for statement of an unrecognised shape around the protocol", t.line(x))
	case *ast.SelectStmt:
		st := pstmt{op: "SSelect"}
		for _, c := range x.Body.List {
			cc := c.(*ast.CommClause)
			as, ok := cc.Comm.(*ast.AssignStmt)
			if !ok || len(as.Rhs) != 1 || len(as.Lhs) != 2 {
				die("construct.go:%d: select case that is not `v, ok := <-ch`", t.line(cc))
			}
			u, ok := as.Rhs[0].(*ast.UnaryExpr)
			if !ok || u.Op != token.ARROW {
				die("construct.go:%d: select case that is not a receive", t.line(cc))
			}
			id, ok := u.X.(*ast.Ident)
			if !ok || !t.chans[id.Name] {
				die("construct.go:%d: select on an unknown channel", t.line(cc))
			}
			st.chans = append(st.chans, id.Name)
			st.cases = append(st.cases, t.stmts(cc.Body))
		}
		return []pstmt{st}
	case *ast.IfStmt:
		// if !ok { return }
		if u, ok := x.Cond.(*ast.UnaryExpr); ok && u.Op == token.NOT && x.Init == nil && x.Else == nil && len(x.Body.List) == 1 {
			if id, ok := u.X.(*ast.Ident); ok && id.Name == "ok" {
				if _, ok := x.Body.List[0].(*ast.ReturnStmt); ok {
					return []pstmt{{op: "SIfClosedReturn"}}
				}
			}
		}
		t.exprEffects(x.Cond)
		body := t.stmts(x.Body.List)
		var els []pstmt
		if x.Else != nil {
			els = t.stmt(x.Else)
		}
		if len(body) == 0 && len(els) == 0 {
			return nil
		}
		die("construct.go:%d: conditional around protocol operations (not modelled)", t.line(x))
	case *ast.BlockStmt:
		return t.stmts(x.List)
	case *ast.IncDecStmt:
		return nil
	case *ast.ReturnStmt:
		for _, r := range x.Results {
			t.exprEffects(r)
		}
		return []pstmt{{op: "SRet"}}
	case *ast.BranchStmt:
		die("construct.go:%d: %s outside an error branch (not modelled)", t.line(x), x.Tok)
	case *ast.EmptyStmt:
		return nil
	}
	die("construct.go:%d: statement of an unrecognised kind in Initialize: %T", t.line(s), s)
	return nil
}

func renderP(ss []pstmt, ind string) string {
	if len(ss) == 0 {
		return "[]"
	}
	var parts []string
	for _, s := range ss {
		var b strings.Builder
		b.WriteString(s.op)
		for _, a := range s.args {
			b.WriteString(" " + coqStr(a))
		}
		if s.op == "SSelect" {
			var cs []string
			for i, c := range s.cases {
				cs = append(cs, "("+coqStr(s.chans[i])+", "+renderP(c, ind+"    ")+")")
			}
			b.WriteString(" [" + strings.Join(cs, ";\n"+ind+"    ") + "]")
		} else if s.op == "SRange" || s.op == "SForEach" || s.op == "SLoopN" || s.op == "SForever" {
			b.WriteString("\n" + ind + "    " + renderP(s.body, ind+"    "))
		}
		parts = append(parts, b.String())
	}
	return "[" + strings.Join(parts, ";\n"+ind+" ") + "]"
}

// poolSkeleton returns the Coq text defining pool_program
func poolSkeleton(fset *token.FileSet, cf *ast.File, src []byte) string {
	fd := findFunc(cf, "Initialize")
	if fd == nil {
		die("graph/construct.go: func Initialize not found")
	}
	t := &poolTr{fset: fset, src: src, chans: map[string]bool{}, wgs: map[string]bool{}, funcs: map[string]*ast.FuncLit{}, bodies: map[string][]pstmt{}}
	mainBody := t.stmts(fd.Body.List)
	// integer constants and lengths are kept only when a capacity, a loop bound or a WaitGroup count names them
	used := map[string]bool{}
	var scan func(ss []pstmt)
	scan = func(ss []pstmt) {
		for _, s := range ss {
			switch s.op {
			case "SMake":
				used[s.args[1]] = true
			case "SLoopN", "SWgAdd":
				used[s.args[0]] = true
			}
			scan(s.body)
			for _, c := range s.cases {
				scan(c)
			}
		}
	}
	var prune func(ss []pstmt) []pstmt
	prune = func(ss []pstmt) []pstmt {
		var out []pstmt
		for _, s := range ss {
			if (s.op == "SConst" || s.op == "SLen") && !used[s.args[0]] {
				continue
			}
			s.body = prune(s.body)
			for i := range s.cases {
				s.cases[i] = prune(s.cases[i])
			}
			out = append(out, s)
		}
		return out
	}
	scan(mainBody)
	for _, g := range t.gor {
		scan(t.bodies[g])
	}
	mainBody = prune(mainBody)
	for _, g := range t.gor {
		t.bodies[g] = prune(t.bodies[g])
	}
	// canonical names, so that renaming a channel, a counter or a closure does not change the skeleton:
	// channels c0 c1 ... and sizes n0 n1 ... in order of creation, wait groups w0 ..., goroutines g0 ... in
	// order of declaration; callee names of SCall / SErr* / SHook stay (they carry meaning)
	ren := map[string]string{}
	cnt := map[string]int{}
	fresh := func(prefix, old string) {
		if _, ok := ren[old]; !ok {
			ren[old] = prefix + strconv.Itoa(cnt[prefix])
			cnt[prefix]++
		}
	}
	var declare func(ss []pstmt)
	declare = func(ss []pstmt) {
		for _, s := range ss {
			switch s.op {
			case "SConst", "SLen":
				fresh("n", s.args[0])
			case "SMake":
				fresh("c", s.args[0])
			case "SWaitGroup":
				fresh("w", s.args[0])
			}
			declare(s.body)
			for _, c := range s.cases {
				declare(c)
			}
		}
	}
	declare(mainBody)
	for _, g := range t.gor {
		fresh("g", g)
		declare(t.bodies[g])
	}
	rn := func(x string) string {
		if y, ok := ren[x]; ok {
			return y
		}
		return x
	}
	var apply func(ss []pstmt) []pstmt
	apply = func(ss []pstmt) []pstmt {
		out := make([]pstmt, len(ss))
		for i, s := range ss {
			n := s
			n.args = append([]string{}, s.args...)
			switch s.op {
			case "SConst":
				n.args[0] = rn(s.args[0])
			case "SLen":
				n.args[0] = rn(s.args[0]) // the measured collection keeps its name
			case "SMake":
				n.args[0], n.args[1] = rn(s.args[0]), rn(s.args[1])
			case "SWaitGroup", "SSend", "SRecv", "SClose", "SDeferClose", "SRange", "SLoopN", "SWgAdd", "SGo":
				n.args[0] = rn(s.args[0])
			}
			n.body = apply(s.body)
			n.chans = nil
			for _, c := range s.chans {
				n.chans = append(n.chans, rn(c))
			}
			n.cases = nil
			for _, c := range s.cases {
				n.cases = append(n.cases, apply(c))
			}
			out[i] = n
		}
		return out
	}
	mainBody = apply(mainBody)
	gor := make([]string, len(t.gor))
	for i, g := range t.gor {
		t.bodies[rn(g)] = apply(t.bodies[g])
		gor[i] = rn(g)
	}
	t.gor = gor
	var b strings.Builder
	b.WriteString("(* graph.Initialize: goroutines and their channel / wait-group operations, in source order;\n   names are canonical: channels c<i>, sizes n<i>, wait groups w<i>, goroutines g<i> in order of creation *)\n")
	b.WriteString("Definition pool_program : list (bytes * list pstmt) :=\n  [")
	b.WriteString("(" + coqStr("Initialize") + ",\n    " + renderP(mainBody, "    ") + ")")
	for _, g := range t.gor {
		b.WriteString(";\n   (" + coqStr(g) + ",\n    " + renderP(t.bodies[g], "    ") + ")")
	}
	b.WriteString("].\n")
	_ = fmt.Sprint
	return b.String()
}
