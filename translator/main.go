// translator: regenerates coq/gen/Tables.v from /repo's Go sources (go/ast only).
// It recognises a small set of syntactic shapes; anything else is a loud failure
// (exit status 2 and a message naming the shape that was not found).
package main

import (
	"fmt"
	"go/ast"
	"go/parser"
	"go/token"
	"os"
	"path/filepath"
	"sort"
	"strconv"
	"strings"
)

func die(format string, a ...interface{}) {
	fmt.Fprintf(os.Stderr, "translator: "+format+"\n", a...)
	os.Exit(2)
}

func coqStr(s string) string {
	plain := true
	for i := 0; i < len(s); i++ {
		if s[i] < 0x20 || s[i] > 0x7e {
			plain = false
		}
	}
	if plain {
		return "\"" + strings.ReplaceAll(s, "\"", "\"\"") + "\""
	}
	parts := make([]string, len(s))
	for i := 0; i < len(s); i++ {
		parts[i] = fmt.Sprintf("x%02x", s[i])
	}
	return "[" + strings.Join(parts, "; ") + "]"
}

func coqList(ss []string) string {
	q := make([]string, len(ss))
	for i, s := range ss {
		q[i] = coqStr(s)
	}
	return "[" + strings.Join(q, "; ") + "]"
}

func strLit(e ast.Expr) (string, bool) {
	if b, ok := e.(*ast.BasicLit); ok && b.Kind == token.STRING {
		s, err := strconv.Unquote(b.Value)
		if err == nil {
			return s, true
		}
	}
	return "", false
}

func findFunc(f *ast.File, name string) *ast.FuncDecl {
	for _, d := range f.Decls {
		if fd, ok := d.(*ast.FuncDecl); ok && fd.Name.Name == name && fd.Recv == nil {
			return fd
		}
	}
	return nil
}

// fields of a composite literal `&Node{...}` / `Node{...}`
func nodeLitFields(cl *ast.CompositeLit) map[string]ast.Expr {
	id, ok := cl.Type.(*ast.Ident)
	if !ok || id.Name != "Node" {
		return nil
	}
	m := map[string]ast.Expr{}
	for _, el := range cl.Elts {
		kv, ok := el.(*ast.KeyValueExpr)
		if !ok {
			return nil
		}
		k, ok := kv.Key.(*ast.Ident)
		if !ok {
			return nil
		}
		m[k.Name] = kv.Value
	}
	return m
}

func exprString(fset *token.FileSet, e ast.Expr, src []byte) string {
	return string(src[fset.Position(e.Pos()).Offset:fset.Position(e.End()).Offset])
}

func main() {
	if len(os.Args) != 3 {
		die("usage: translator <repo/sourcecode-parser> <out.v>")
	}
	root := os.Args[1]
	fset := token.NewFileSet()

	// ---------------- construct.go ----------------
	cpath := filepath.Join(root, "graph", "construct.go")
	csrc, err := os.ReadFile(cpath)
	if err != nil {
		die("%v", err)
	}
	cf, err := parser.ParseFile(fset, cpath, csrc, 0)
	if err != nil {
		die("%v", err)
	}
	build := findFunc(cf, "visitAST")
	if build == nil {
		die("graph/construct.go: func visitAST not found")
	}
	// scanner kinds: every Type: "<lit>" of a Node literal inside buildGraphFromAST
	kindSet := map[string]bool{}
	var kinds []string
	ast.Inspect(build, func(n ast.Node) bool {
		if cl, ok := n.(*ast.CompositeLit); ok {
			if m := nodeLitFields(cl); m != nil {
				t, ok := m["Type"]
				if !ok {
					die("construct.go:%d: Node literal without Type", fset.Position(cl.Pos()).Line)
				}
				s, ok := strLit(t)
				if !ok {
					die("construct.go:%d: Node literal whose Type is not a string literal", fset.Position(cl.Pos()).Line)
				}
				if !kindSet[s] {
					kindSet[s] = true
					kinds = append(kinds, s)
				}
			}
		}
		return true
	})
	if len(kinds) == 0 {
		die("no Node literals found in buildGraphFromAST")
	}

	// binop table: `switch operatorType { case ops...: ... &Node{ID: GenerateSha256("<p>" + node.Content(sourceCode)), Type: "<t>", ...} }`
	type binop struct {
		ops    []string
		idp, t string
	}
	var binops []binop
	found := false
	ast.Inspect(build, func(n ast.Node) bool {
		sw, ok := n.(*ast.SwitchStmt)
		if !ok {
			return true
		}
		id, ok := sw.Tag.(*ast.Ident)
		if !ok || id.Name != "operatorType" {
			return true
		}
		found = true
		for _, st := range sw.Body.List {
			cc := st.(*ast.CaseClause)
			if cc.List == nil {
				die("construct.go:%d: operatorType switch has a default clause (not modelled)", fset.Position(cc.Pos()).Line)
			}
			var ops []string
			for _, e := range cc.List {
				s, ok := strLit(e)
				if !ok {
					die("construct.go:%d: non-literal operator case", fset.Position(e.Pos()).Line)
				}
				ops = append(ops, s)
			}
			var lits []map[string]ast.Expr
			var adds int
			for _, s := range cc.Body {
				ast.Inspect(s, func(n ast.Node) bool {
					if cl, ok := n.(*ast.CompositeLit); ok {
						if m := nodeLitFields(cl); m != nil {
							lits = append(lits, m)
						}
					}
					if ce, ok := n.(*ast.CallExpr); ok {
						if se, ok := ce.Fun.(*ast.SelectorExpr); ok && se.Sel.Name == "AddNode" {
							adds++
						}
					}
					return true
				})
			}
			if len(lits) != 1 || adds != 1 {
				die("construct.go:%d: operator case %v: expected exactly one Node literal and one AddNode, got %d/%d", fset.Position(cc.Pos()).Line, ops, len(lits), adds)
			}
			m := lits[0]
			t, _ := strLit(m["Type"])
			// ID: GenerateSha256("<p>" + node.Content(sourceCode))
			idp := ""
			okID := false
			if ce, ok := m["ID"].(*ast.CallExpr); ok {
				if f, ok := ce.Fun.(*ast.Ident); ok && f.Name == "GenerateSha256" && len(ce.Args) == 1 {
					// "<lit>" + file + "\x00" + node.Content(sourceCode)
					arg := exprString(fset, ce.Args[0], csrc)
					const tail = ` + file + "\x00" + node.Content(sourceCode)`
					if strings.HasSuffix(arg, tail) {
						if p, err := strconv.Unquote(strings.TrimSuffix(arg, tail)); err == nil {
							idp, okID = p, true
						}
					}
				}
			}
			if !okID {
				die("construct.go:%d: operator case %v: ID is not GenerateSha256(\"<lit>\" + file + \"\\x00\" + node.Content(sourceCode))", fset.Position(cc.Pos()).Line, ops)
			}
			want := map[string]string{
				"Name": "node.Content(sourceCode)", "CodeSnippet": "node.Content(sourceCode)",
				"LineNumber": "node.StartPoint().Row + 1", "File": "file",
				"isJavaSourceFile": "isJavaSourceFile", "BinaryExpr": "&expressionNode",
			}
			for k, w := range want {
				e, ok := m[k]
				if !ok || exprString(fset, e, csrc) != w {
					die("construct.go:%d: operator case %v: field %s is not `%s`", fset.Position(cc.Pos()).Line, ops, k, w)
				}
			}
			if len(m) != len(want)+2 {
				die("construct.go:%d: operator case %v: unexpected extra fields in Node literal", fset.Position(cc.Pos()).Line, ops)
			}
			binops = append(binops, binop{ops, idp, t})
		}
		return true
	})
	if !found {
		die("construct.go: `switch operatorType` not found")
	}

	// ---------------- query.go ----------------
	qpath := filepath.Join(root, "graph", "query.go")
	qsrc, err := os.ReadFile(qpath)
	if err != nil {
		die("%v", err)
	}
	qf, err := parser.ParseFile(fset, qpath, qsrc, 0)
	if err != nil {
		die("%v", err)
	}
	penv := findFunc(qf, "generateProxyEnv")
	if penv == nil {
		die("graph/query.go: func generateProxyEnv not found")
	}
	varDefault := map[string]string{} // variable -> default kind string
	var varOrder []string
	kindVar := map[string]string{} // FROM kind -> variable rebound to the alias
	var engineKinds []string
	envTable := map[string][]string{} // variable -> accessor keys
	envBind := map[string][][3]string{}
	var envOrder []string
	var topKeys []string // literal top-level keys of the env (not alias-bound)
	sawSwitch, sawEnv := false, false
	for _, st := range penv.Body.List {
		switch s := st.(type) {
		case *ast.AssignStmt:
			if s.Tok == token.DEFINE && len(s.Lhs) == 1 && len(s.Rhs) == 1 {
				if id, ok := s.Lhs[0].(*ast.Ident); ok {
					if lit, ok := strLit(s.Rhs[0]); ok {
						varDefault[id.Name] = lit
						varOrder = append(varOrder, id.Name)
					} else if cl, ok := s.Rhs[0].(*ast.CompositeLit); ok && id.Name == "env" {
						sawEnv = true
						for _, el := range cl.Elts {
							kv := el.(*ast.KeyValueExpr)
							switch k := kv.Key.(type) {
							case *ast.Ident:
								inner, ok := kv.Value.(*ast.CompositeLit)
								if !ok {
									die("query.go:%d: env[%s] is not a map literal", fset.Position(kv.Pos()).Line, k.Name)
								}
								if _, ok := varDefault[k.Name]; !ok {
									die("query.go:%d: env key %s is not one of the kind variables", fset.Position(kv.Pos()).Line, k.Name)
								}
								var accs []string
								for _, e2 := range inner.Elts {
									kv2 := e2.(*ast.KeyValueExpr)
									a, ok := strLit(kv2.Key)
									if !ok {
										die("query.go:%d: accessor key is not a literal", fset.Position(kv2.Pos()).Line)
									}
									accs = append(accs, a)
									// binding: proxyenv.Method (a bound method value) or a string constant
									switch v := kv2.Value.(type) {
									case *ast.SelectorExpr:
										if x, ok := v.X.(*ast.Ident); !ok || x.Name != "proxyenv" {
											die("query.go:%d: accessor %s is not bound to a proxyenv method", fset.Position(kv2.Pos()).Line, a)
										}
										envBind[k.Name] = append(envBind[k.Name], [3]string{a, "method", v.Sel.Name})
									case *ast.BasicLit:
										c, ok := strLit(v)
										if !ok {
											die("query.go:%d: accessor %s bound to a non-string literal", fset.Position(kv2.Pos()).Line, a)
										}
										envBind[k.Name] = append(envBind[k.Name], [3]string{a, "const", c})
									default:
										die("query.go:%d: accessor %s: unrecognised binding shape", fset.Position(kv2.Pos()).Line, a)
									}
								}
								if _, dup := envTable[k.Name]; dup {
									die("query.go:%d: env key %s bound twice", fset.Position(kv.Pos()).Line, k.Name)
								}
								envTable[k.Name] = accs
								envOrder = append(envOrder, k.Name)
							case *ast.BasicLit:
								s, _ := strLit(k)
								topKeys = append(topKeys, s)
							default:
								die("query.go:%d: unrecognised env key shape", fset.Position(kv.Pos()).Line)
							}
						}
					}
				}
			}
		case *ast.RangeStmt:
			// for _, entity := range query.SelectList { switch entity.Entity { case "k": v = entity.Alias } }
			ast.Inspect(s, func(n ast.Node) bool {
				sw, ok := n.(*ast.SwitchStmt)
				if !ok {
					return true
				}
				if exprString(fset, sw.Tag, qsrc) != "entity.Entity" {
					return true
				}
				sawSwitch = true
				for _, c := range sw.Body.List {
					cc := c.(*ast.CaseClause)
					if cc.List == nil {
						die("query.go:%d: default clause in entity switch (not modelled)", fset.Position(cc.Pos()).Line)
					}
					if len(cc.Body) != 1 {
						die("query.go:%d: entity case body is not a single assignment", fset.Position(cc.Pos()).Line)
					}
					as, ok := cc.Body[0].(*ast.AssignStmt)
					if !ok || len(as.Lhs) != 1 || exprString(fset, as.Rhs[0], qsrc) != "entity.Alias" {
						die("query.go:%d: entity case body is not `v = entity.Alias`", fset.Position(cc.Pos()).Line)
					}
					v := as.Lhs[0].(*ast.Ident).Name
					for _, e := range cc.List {
						k, ok := strLit(e)
						if !ok {
							die("query.go:%d: non-literal entity case", fset.Position(e.Pos()).Line)
						}
						if _, dup := kindVar[k]; dup {
							die("query.go:%d: entity kind %q handled twice", fset.Position(e.Pos()).Line, k)
						}
						kindVar[k] = v
						engineKinds = append(engineKinds, k)
					}
				}
				return false
			})
		}
	}
	if !sawSwitch || !sawEnv {
		die("query.go: generateProxyEnv: entity switch or env literal not found (shape changed)")
	}
	sort.Strings(topKeys)

	// Env methods: `func (env *Env) M() T { return env.Node.<path> }`
	type envMethod struct{ name, path string }
	var envMethods []envMethod
	for _, d := range qf.Decls {
		fd, ok := d.(*ast.FuncDecl)
		if !ok || fd.Recv == nil || len(fd.Recv.List) != 1 {
			continue
		}
		if exprString(fset, fd.Recv.List[0].Type, qsrc) != "*Env" {
			continue
		}
		body := fd.Body.List
		path := ""
		switch {
		case len(body) == 1:
			if r, ok := body[0].(*ast.ReturnStmt); ok && len(r.Results) == 1 {
				t := exprString(fset, r.Results[0], qsrc)
				if strings.HasPrefix(t, "env.Node.") {
					path = strings.TrimPrefix(t, "env.Node.")
				} else if strings.HasPrefix(t, "fmt.Sprintf(") && fd.Name.Name == "ToString" {
					path = "<ToString>"
				}
			}
		case fd.Name.Name == "GetDoc" && len(body) == 2:
			// if env.Node.JavaDoc == nil { return &model.Javadoc{} }; return env.Node.JavaDoc
			raw := string(qsrc[fset.Position(fd.Body.Pos()).Offset:fset.Position(fd.Body.End()).Offset])
			var kept []string
			for _, ln := range strings.Split(raw, "\n") {
				if i := strings.Index(ln, "//"); i >= 0 {
					ln = ln[:i]
				}
				kept = append(kept, ln)
			}
			norm := strings.Join(strings.Fields(strings.Join(kept, " ")), " ")
			if strings.Contains(norm, "if env.Node.JavaDoc == nil {") && strings.Contains(norm, "return &model.Javadoc{} }") &&
				strings.HasSuffix(norm, "return env.Node.JavaDoc }") && !strings.Contains(norm, "env.Node.JavaDoc = ") {
				path = "<JavaDocOrEmpty>"
			}
		}
		if path == "" {
			die("query.go:%d: Env method %s has an unrecognised body", fset.Position(fd.Pos()).Line, fd.Name.Name)
		}
		envMethods = append(envMethods, envMethod{fd.Name.Name, path})
	}

	// ---------------- emit ----------------
	var b strings.Builder
	b.WriteString("(* GENERATED by /verif/translator from /repo/sourcecode-parser/graph/{construct,query}.go — do not edit *)\n")
	b.WriteString("From CPF Require Import Base.Bytes Base.Skel.\nOpen Scope bs_scope.\n\n")
	b.WriteString("(* every `Type:` literal of a Node literal in buildGraphFromAST, in source order *)\n")
	b.WriteString("Definition scanner_kinds : list bytes :=\n  " + coqList(kinds) + ".\n\n")
	b.WriteString("(* switch operatorType: (operators, identity prefix, kind) *)\n")
	b.WriteString("Definition binop_table : list (list bytes * bytes * bytes) :=\n  [")
	for i, bo := range binops {
		if i > 0 {
			b.WriteString(";\n   ")
		}
		b.WriteString("(" + coqList(bo.ops) + ", " + coqStr(bo.idp) + ", " + coqStr(bo.t) + ")")
	}
	b.WriteString("].\n\n")
	b.WriteString("(* generateProxyEnv: FROM kind -> Go variable rebound to the alias *)\n")
	b.WriteString("Definition engine_kind_var : list (bytes * bytes) :=\n  [")
	for i, k := range engineKinds {
		if i > 0 {
			b.WriteString(";\n   ")
		}
		b.WriteString("(" + coqStr(k) + ", " + coqStr(kindVar[k]) + ")")
	}
	b.WriteString("].\n\n")
	b.WriteString("(* generateProxyEnv: variable -> default env key *)\n")
	b.WriteString("Definition engine_var_default : list (bytes * bytes) :=\n  [")
	for i, v := range varOrder {
		if i > 0 {
			b.WriteString(";\n   ")
		}
		b.WriteString("(" + coqStr(v) + ", " + coqStr(varDefault[v]) + ")")
	}
	b.WriteString("].\n\n")
	b.WriteString("(* generateProxyEnv: env literal, variable -> accessor names *)\n")
	b.WriteString("Definition engine_env_table : list (bytes * list bytes) :=\n  [")
	for i, v := range envOrder {
		if i > 0 {
			b.WriteString(";\n   ")
		}
		b.WriteString("(" + coqStr(v) + ", " + coqList(envTable[v]) + ")")
	}
	b.WriteString("].\n\n")
	b.WriteString("Definition engine_top_keys : list bytes := " + coqList(topKeys) + ".\n\n")
	b.WriteString("(* env literal: variable -> (accessor, binding kind, Env method name | constant) *)\n")
	b.WriteString("Definition engine_env_bind : list (bytes * list (bytes * bytes * bytes)) :=\n  [")
	for i, v := range envOrder {
		if i > 0 {
			b.WriteString(";\n   ")
		}
		var q []string
		for _, t := range envBind[v] {
			q = append(q, "("+coqStr(t[0])+", "+coqStr(t[1])+", "+coqStr(t[2])+")")
		}
		b.WriteString("(" + coqStr(v) + ", [" + strings.Join(q, "; ") + "])")
	}
	b.WriteString("].\n\n")
	b.WriteString("(* methods of Env: name -> Node field path it returns *)\n")
	b.WriteString("Definition engine_env_methods : list (bytes * bytes) :=\n  [")
	for i, m := range envMethods {
		if i > 0 {
			b.WriteString(";\n   ")
		}
		b.WriteString("(" + coqStr(m.name) + ", " + coqStr(m.path) + ")")
	}
	b.WriteString("].\n\n")
	b.WriteString(poolSkeleton(fset, cf, csrc))
	if err := os.WriteFile(os.Args[2]+".tmp", []byte(b.String()), 0o644); err != nil {
		die("%v", err)
	}
	// only replace when changed, so make does not rebuild needlessly
	old, _ := os.ReadFile(os.Args[2])
	if string(old) == b.String() {
		os.Remove(os.Args[2] + ".tmp")
	} else if err := os.Rename(os.Args[2]+".tmp", os.Args[2]); err != nil {
		die("%v", err)
	}
}
