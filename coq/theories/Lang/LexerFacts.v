(* Proofs about Lang/Lexer.v: fuel sufficiency, and the round trip
   lex_query (render toks lay) = Some toks  for well-formed tokens and separable layouts. *)
From CPF Require Import Lang.Lexer.
From Coq Require Import Lia.
Open Scope bs_scope.

(* ---------- character classes ---------- *)
Lemma is_quote_eq c : is_quote c = true -> c = x22.
Proof. destruct c; cbn; intro H; try discriminate H; reflexivity. Qed.
Lemma is_space_eq c : is_space c = true -> c = x20.
Proof. destruct c; cbn; intro H; try discriminate H; reflexivity. Qed.
Lemma digit_not_idstart c : is_digit c = true -> is_id_start c = false.
Proof. destruct c; cbn; intro H; try discriminate H; reflexivity. Qed.
Lemma digit_not_dot c : is_digit c = true -> is_dot c = false.
Proof. destruct c; cbn; intro H; try discriminate H; reflexivity. Qed.

Definition plain (c : byte) : bool := negb (is_ws c) && negb (is_quote c).
Lemma idchar_plain c : is_id_char c = true -> plain c = true.
Proof. destruct c; cbn; intro H; try discriminate H; reflexivity. Qed.
Lemma idstart_idchar c : is_id_start c = true -> is_id_char c = true.
Proof. unfold is_id_char. intros ->. reflexivity. Qed.
Lemma digit_idchar c : is_digit c = true -> is_id_char c = true.
Proof. unfold is_id_char. intros ->. apply orb_true_r. Qed.
Lemma dot_plain c : is_dot c = true -> plain c = true.
Proof. destruct c; cbn; intro H; try discriminate H; reflexivity. Qed.
Lemma plain_not_ws c : plain c = true -> is_ws c = false.
Proof. unfold plain. destruct (is_ws c); [discriminate | reflexivity]. Qed.

(* ---------- span / drop_while ---------- *)
Lemma span_spec p s a b :
  span p s = (a, b) -> s = a ++ b /\ forallb p a = true /\ next_is p b = false.
Proof.
  revert a b. induction s as [|c s IH]; intros a b H; cbn in H.
  - inversion H; subst. auto.
  - destruct (p c) eqn:Hc.
    + destruct (span p s) as [a' b'] eqn:Hs. inversion H; subst.
      destruct (IH a' b eq_refl) as (E & Ha & Hb). subst s.
      cbn. rewrite Hc, Ha. auto.
    + inversion H; subst. cbn. auto.
Qed.

Lemma span_app p a b :
  forallb p a = true -> next_is p b = false -> span p (a ++ b) = (a, b).
Proof.
  intros Ha Hb. induction a as [|c a IH]; cbn in *.
  - destruct b as [|d b]; cbn in *; [reflexivity | rewrite Hb; reflexivity].
  - apply andb_true_iff in Ha. destruct Ha as [Hc Ha]. rewrite Hc, (IH Ha). reflexivity.
Qed.

Lemma drop_while_app p a b :
  forallb p a = true -> next_is p b = false -> drop_while p (a ++ b) = b.
Proof.
  intros Ha Hb. induction a as [|c a IH]; cbn in *.
  - destruct b as [|d b]; cbn in *; [reflexivity | rewrite Hb; reflexivity].
  - apply andb_true_iff in Ha. destruct Ha as [Hc Ha]. rewrite Hc. exact (IH Ha).
Qed.

Lemma drop_while_len p s : length (drop_while p s) <= length s.
Proof. induction s as [|c s IH]; cbn; [lia|]. destruct (p c); cbn; lia. Qed.

Lemma strip_prefix_spec p s r : strip_prefix p s = Some r -> s = p ++ r.
Proof.
  revert s. induction p as [|x p IH]; intros s H; cbn in H.
  - inversion H. reflexivity.
  - destruct s as [|y s]; [discriminate|].
    destruct (beqb x y) eqn:E; [|discriminate].
    apply Byte.byte_dec_bl in E. subst y. rewrite (IH _ H). reflexivity.
Qed.

Lemma scan_str_spec : forall n s b r, length s <= n ->
  scan_str s = Some (b, r) -> s = b ++ r /\ b <> [].
Proof.
  induction n as [|n IH]; intros s b r Hn H.
  - destruct s; [discriminate H | cbn in Hn; lia].
  - destruct s as [|c s]; [discriminate H|]. cbn in Hn. cbn [scan_str] in H.
    destruct (is_quote c).
    + inversion H; subst. split; [reflexivity | discriminate].
    + destruct (is_bslash c).
      * destruct s as [|d s]; [discriminate H|].
        destruct (scan_str s) as [[b' r']|] eqn:E; [|discriminate H].
        inversion H; subst. cbn in Hn.
        destruct (IH s b' r ltac:(lia) E) as [-> _]. split; [reflexivity | discriminate].
      * destruct (scan_str s) as [[b' r']|] eqn:E; [|discriminate H].
        inversion H; subst.
        destruct (IH s b' r ltac:(lia) E) as [-> _]. split; [reflexivity | discriminate].
Qed.

(* ---------- every step consumes input; fuel ---------- *)
Lemma lex_step_len s o r : lex_step s = Some (o, r) -> length r < length s.
Proof.
  destruct s as [|c s]; [discriminate|]. unfold lex_step.
  destruct (is_id_start c).
  { destruct (span is_id_char s) as [w rest] eqn:E. intro H; inversion H; subst.
    apply span_spec in E. destruct E as [-> _]. cbn. rewrite app_length. lia. }
  destruct (is_digit c) eqn:Hd.
  { unfold scan_num. cbn [span]. rewrite Hd.
    destruct (span is_digit s) as [a b] eqn:E. apply span_spec in E. destruct E as [-> _].
    assert (Hlen : length b < length (c :: a ++ b)) by (cbn; rewrite app_length; lia).
    destruct b as [|d b'].
    - intro H; inversion H; subst. exact Hlen.
    - destruct (is_dot d).
      + destruct (span is_digit b') as [d2 r''] eqn:E2. apply span_spec in E2.
        destruct E2 as [-> _].
        destruct d2; intro H; inversion H; subst; try exact Hlen.
        cbn in *. rewrite !app_length in *. cbn in *. rewrite app_length. lia.
      + intro H; inversion H; subst. exact Hlen. }
  destruct (is_ws c).
  { destruct (if is_space c then strip_prefix "in " s else None) as [r'|] eqn:E.
    - intro H; inversion H; subst. destruct (is_space c); [|discriminate].
      apply strip_prefix_spec in E. subst s. cbn. lia.
    - intro H; inversion H; subst. pose proof (drop_while_len is_ws s). cbn. lia. }
  destruct (is_quote c).
  { destruct (scan_str s) as [[b rest]|] eqn:E; [|discriminate].
    intro H; inversion H; subst.
    apply (scan_str_spec _ _ _ _ (le_n _)) in E. destruct E as [-> _].
    cbn. rewrite app_length. lia. }
  unfold punct, eat.
  destruct c; try discriminate;
    try (intro H; inversion H; subst; cbn; lia);
    destruct s as [|d s']; try discriminate;
    try (intro H; inversion H; subst; cbn; lia);
    match goal with |- context [if ?p d then _ else _] => destruct (p d) end;
    try discriminate; intro H; inversion H; subst; cbn; lia.
Qed.

(* fuel sufficiency: any fuel >= length of the input gives the same result *)
Lemma lex_f_fuel : forall f1 f2 s acc,
  length s <= f1 -> length s <= f2 -> lex_f f1 s acc = lex_f f2 s acc.
Proof.
  induction f1 as [|f1 IH]; intros f2 s acc H1 H2.
  - destruct s; [|cbn in H1; lia]. destruct f2; reflexivity.
  - destruct s as [|c s]; [destruct f2; reflexivity|].
    destruct f2 as [|f2]; [cbn in H2; lia|].
    cbn [lex_f]. destruct (lex_step (c :: s)) as [[[t|] r]|] eqn:E; [| |reflexivity];
      apply lex_step_len in E; apply IH; lia.
Qed.

(* the lexer without fuel bookkeeping *)
Definition lexa (s : bytes) (acc : list token) : option (list token) := lex_f (length s) s acc.

Lemma lexa_nil acc : lexa [] acc = Some (rev acc).
Proof. unfold lexa. cbn. rewrite rev_append_rev, app_nil_r. reflexivity. Qed.

Lemma lexa_step s acc : s <> [] ->
  lexa s acc = match lex_step s with
               | None => None
               | Some (None, r) => lexa r acc
               | Some (Some t, r) => lexa r (t :: acc)
               end.
Proof.
  intro Hs. unfold lexa. destruct s as [|c s]; [congruence|].
  cbn [length lex_f]. destruct (lex_step (c :: s)) as [[[t|] r]|] eqn:E; [| |reflexivity];
    apply lex_step_len in E; apply lex_f_fuel; cbn in E; lia.
Qed.

Lemma lex_lexa s : lex s = lexa s [].
Proof. reflexivity. Qed.

(* ---------- one token, followed by an admissible continuation ---------- *)
Lemma next_is_app (p : byte -> bool) a b : a <> [] -> next_is p (a ++ b) = next_is p a.
Proof. destruct a; [congruence | reflexivity]. Qed.

Lemma kw_tok_ident s s' : kw_tok s = TIdent s' -> s' = s.
Proof.
  unfold kw_tok.
  repeat match goal with |- context [if ?b then _ else _] => destruct b; try discriminate end.
  intro H; inversion H; reflexivity.
Qed.

Lemma lex_step_word c w rest :
  is_id_start c = true -> forallb is_id_char w = true -> next_is is_id_char rest = false ->
  lex_step ((c :: w) ++ rest) = Some (Some (kw_tok (c :: w)), rest).
Proof.
  intros Hc Hw Hr. cbn [app lex_step]. rewrite Hc, (span_app _ _ _ Hw Hr). reflexivity.
Qed.

Lemma str_body_ind' (P : bytes -> Prop) :
  (forall c, is_quote c = true -> P [c]) ->
  (forall c d r, is_quote c = false -> is_bslash c = true -> str_body r = true -> P r ->
                 P (c :: d :: r)) ->
  (forall c r, is_quote c = false -> is_bslash c = false -> str_body r = true -> P r ->
               P (c :: r)) ->
  forall b, str_body b = true -> P b.
Proof.
  intros H1 H2 H3.
  assert (G : forall n b, length b <= n -> str_body b = true -> P b).
  { induction n as [|n IH]; intros b Hn Hb.
    - destruct b; [discriminate Hb | cbn in Hn; lia].
    - destruct b as [|c r]; [discriminate Hb|]. cbn in Hn. cbn [str_body] in Hb.
      destruct (is_quote c) eqn:Hq.
      + destruct r; [|discriminate Hb]. apply H1, Hq.
      + destruct (is_bslash c) eqn:Hs.
        * destruct r as [|d r']; [discriminate Hb|]. cbn in Hn.
          apply H2; auto. apply IH; [lia | exact Hb].
        * apply H3; auto. apply IH; [lia | exact Hb]. }
  intros b Hb. exact (G _ _ (le_n _) Hb).
Qed.

Lemma scan_str_body b rest : str_body b = true -> scan_str (b ++ rest) = Some (b, rest).
Proof.
  intro Hb. pattern b. apply str_body_ind'; [ | | | exact Hb].
  - intros c Hq. cbn [app scan_str]. rewrite Hq. reflexivity.
  - intros c d r Hq Hs Hr IH. cbn [app scan_str]. rewrite Hq, Hs, IH. reflexivity.
  - intros c r Hq Hs Hr IH. cbn [app scan_str]. rewrite Hq, Hs, IH. reflexivity.
Qed.

Lemma number_shape s : number_okb s = true ->
  exists d1, d1 <> [] /\ forallb is_digit d1 = true /\
    (s = d1 \/ exists c d2, s = d1 ++ c :: d2 /\ is_dot c = true /\ d2 <> [] /\
                            forallb is_digit d2 = true).
Proof.
  unfold number_okb. destruct (span is_digit s) as [d1 r] eqn:E.
  apply span_spec in E. destruct E as (-> & Hd1 & _). intro H.
  apply andb_true_iff in H. destruct H as [Hn H].
  exists d1. split; [destruct d1; [discriminate Hn | discriminate]|]. split; [exact Hd1|].
  destruct r as [|c d2].
  - left. apply app_nil_r.
  - right. apply andb_true_iff in H. destruct H as [H H2]. apply andb_true_iff in H.
    destruct H as [Hc Hn2]. exists c, d2. repeat split; auto.
    destruct d2; [discriminate Hn2 | discriminate].
Qed.

Lemma scan_num_ok s rest :
  number_okb s = true -> next_is (fun c => is_digit c || is_dot c) rest = false ->
  scan_num (s ++ rest) = (s, rest).
Proof.
  intros Hs Hr.
  assert (Hrd : next_is is_digit rest = false).
  { destruct rest; [reflexivity|]. cbn in *. apply orb_false_iff in Hr. tauto. }
  destruct (number_shape _ Hs) as (d1 & Hne & Hd1 & [-> | (c & d2 & -> & Hc & Hne2 & Hd2)]).
  - unfold scan_num. rewrite (span_app _ _ _ Hd1 Hrd).
    destruct rest as [|c r]; [reflexivity|]. cbn in Hr. apply orb_false_iff in Hr.
    destruct Hr as [_ ->]. reflexivity.
  - unfold scan_num. rewrite <- app_assoc. cbn [app].
    rewrite (span_app is_digit d1 (c :: d2 ++ rest) Hd1).
    2:{ cbn. destruct (is_digit c) eqn:E; [|reflexivity].
        apply digit_not_dot in E. congruence. }
    rewrite Hc, (span_app _ _ _ Hd2 Hrd).
    destruct d2; [congruence | reflexivity].
Qed.

Lemma number_head s : number_okb s = true -> exists c s', s = c :: s' /\ is_digit c = true.
Proof.
  intro Hs. destruct (number_shape _ Hs) as (d1 & Hne & Hd1 & H).
  destruct d1 as [|c d1']; [congruence|]. cbn in Hd1. apply andb_true_iff in Hd1.
  destruct H as [-> | (c' & d2 & -> & _)]; eexists _, _; (split; [reflexivity | tauto]).
Qed.

Lemma lex_step_tok t rest :
  tok_wfb t = true -> is_tin t = false -> follow_ok t rest = true ->
  lex_step (render_tok t ++ rest) = Some (Some t, rest).
Proof.
  intros Hwf Hin Hf.
  assert (Hid : forall r, negb (next_is is_id_char r) = true -> next_is is_id_char r = false)
    by (intros r; destruct (next_is is_id_char r); [discriminate | reflexivity]).
  destruct t; try discriminate Hin; try reflexivity; cbn [render_tok token_text];
    try (match goal with |- lex_step ((?c :: ?w) ++ rest) = _ =>
           exact (lex_step_word c w rest eq_refl eq_refl (Hid _ Hf)) end).
  - (* TLt *) destruct rest as [|d r]; [reflexivity|]. cbn in *. destruct (is_eq d); [discriminate Hf | reflexivity].
  - (* TGt *) destruct rest as [|d r]; [reflexivity|]. cbn in *. destruct (is_eq d); [discriminate Hf | reflexivity].
  - (* TBang *) destruct rest as [|d r]; [reflexivity|]. cbn in *. destruct (is_eq d); [discriminate Hf | reflexivity].
  - (* TString *)
    cbn in Hwf. destruct s as [|c b]; [discriminate Hwf|]. cbn in Hwf.
    apply andb_true_iff in Hwf. destruct Hwf as [Hq Hb]. apply is_quote_eq in Hq. subst c.
    cbn [app lex_step]. cbn [is_id_start is_digit is_ws is_quote].
    rewrite (scan_str_body _ rest Hb). reflexivity.
  - (* TNumber *)
    cbn in Hwf. cbn in Hf.
    destruct (number_head _ Hwf) as (c & s' & -> & Hc).
    cbn [app lex_step]. rewrite (digit_not_idstart _ Hc), Hc.
    change (c :: s' ++ rest) with ((c :: s') ++ rest).
    rewrite (scan_num_ok _ rest Hwf); [reflexivity|].
    destruct (next_is _ rest); [discriminate Hf | reflexivity].
  - (* TIdent *)
    cbn in Hwf. apply andb_true_iff in Hwf. destruct Hwf as [Hi Hk].
    destruct s as [|c w]; [discriminate Hi|]. cbn in Hi. apply andb_true_iff in Hi.
    destruct Hi as [Hc Hw]. rewrite (lex_step_word _ _ rest Hc Hw (Hid _ Hf)).
    destruct (kw_tok (c :: w)) eqn:E; try discriminate Hk.
    apply kw_tok_ident in E. subst. reflexivity.
Qed.

(* ---------- the normaliser ---------- *)
(* the Go form of the white-space case: write one space, skip the rest of the run *)
Lemma norm_out_cons c s :
  norm false (c :: s) =
  if is_ws c then
    match s with
    | d :: _ => if is_ws d then norm false s else x20 :: norm false s
    | [] => [x20]
    end
  else if is_quote c then c :: norm true s else c :: norm false s.
Proof. reflexivity. Qed.

Lemma norm_ws_run : forall s c, is_ws c = true ->
  norm false (c :: s) = x20 :: norm false (drop_while is_ws s).
Proof.
  induction s as [|d s IH]; intros c Hc; rewrite (norm_out_cons c), Hc; [reflexivity|].
  cbn [drop_while]. destruct (is_ws d) eqn:Hd; [apply IH, Hd | reflexivity].
Qed.

Definition squash (l : bytes) : bytes := match l with [] => [] | _ => [x20] end.

Lemma norm_lay l rest : all_ws l = true -> next_is is_ws rest = false ->
  norm false (l ++ rest) = squash l ++ norm false rest.
Proof.
  intros Hl Hr. destruct l as [|c l]; [reflexivity|].
  cbn in Hl. apply andb_true_iff in Hl. destruct Hl as [Hc Hl].
  cbn [app]. rewrite (norm_ws_run _ _ Hc), (drop_while_app _ _ _ Hl Hr). reflexivity.
Qed.

Lemma norm_plain_app s rest : forallb plain s = true ->
  norm false (s ++ rest) = s ++ norm false rest.
Proof.
  induction s as [|c s IH]; intro H; [reflexivity|].
  cbn in H. apply andb_true_iff in H. destruct H as [Hc Hs].
  unfold plain in Hc. apply andb_true_iff in Hc. destruct Hc as [H1 H2].
  apply negb_true_iff in H1, H2. cbn [app norm]. rewrite H1, H2, (IH Hs). reflexivity.
Qed.

Lemma norm_str_body b rest : str_body b = true ->
  norm true (b ++ rest) = b ++ norm false rest.
Proof.
  intro Hb. pattern b. apply str_body_ind'; [ | | | exact Hb].
  - intros c Hq. cbn [app norm]. rewrite Hq.
    destruct (is_bslash c) eqn:E; [|reflexivity].
    apply is_quote_eq in Hq. subst c. discriminate E.
  - intros c d r Hq Hs Hr IH. cbn [app norm]. rewrite Hs, IH. reflexivity.
  - intros c r Hq Hs Hr IH. cbn [app norm]. rewrite Hq, Hs, IH. reflexivity.
Qed.

Lemma forallb_imp (p q : byte -> bool) l :
  (forall c, p c = true -> q c = true) -> forallb p l = true -> forallb q l = true.
Proof.
  intros Hpq. induction l as [|c l IH]; cbn; [reflexivity|]. intro H.
  apply andb_true_iff in H. destruct H as [Hc Hl]. rewrite (Hpq _ Hc), (IH Hl). reflexivity.
Qed.

Lemma digit_plain c : is_digit c = true -> plain c = true.
Proof. intro H. apply idchar_plain, digit_idchar, H. Qed.

Lemma norm_tok t rest : tok_wfb t = true ->
  norm false (render_tok t ++ rest) = render_tok t ++ norm false rest.
Proof.
  intro Hwf. destruct t; try reflexivity; cbn [render_tok token_text]; cbn in Hwf.
  - (* TString *)
    destruct s as [|c b]; [discriminate Hwf|]. cbn in Hwf.
    apply andb_true_iff in Hwf. destruct Hwf as [Hq Hb]. apply is_quote_eq in Hq. subst c.
    cbn [app norm is_ws is_quote]. rewrite (norm_str_body _ _ Hb). reflexivity.
  - (* TNumber *)
    apply norm_plain_app.
    destruct (number_shape _ Hwf) as (d1 & _ & Hd1 & [-> | (c & d2 & -> & Hc & _ & Hd2)]).
    + exact (forallb_imp _ _ _ digit_plain Hd1).
    + rewrite forallb_app. cbn [forallb].
      rewrite (forallb_imp _ _ _ digit_plain Hd1), (forallb_imp _ _ _ digit_plain Hd2),
        (dot_plain _ Hc). reflexivity.
  - (* TIdent *)
    apply norm_plain_app. apply andb_true_iff in Hwf. destruct Hwf as [Hi _].
    destruct s as [|c w]; [discriminate Hi|]. cbn in Hi. apply andb_true_iff in Hi.
    destruct Hi as [Hc Hw]. cbn [forallb].
    rewrite (idchar_plain _ (idstart_idchar _ Hc)), (forallb_imp _ _ _ idchar_plain Hw).
    reflexivity.
Qed.

Lemma tok_head t : tok_wfb t = true ->
  exists c r, render_tok t = c :: r /\ is_ws c = false.
Proof.
  intro Hwf. destruct t; try (eexists _, _; split; reflexivity); cbn [render_tok token_text];
    cbn in Hwf.
  - destruct s as [|c b]; [discriminate Hwf|]. cbn in Hwf.
    apply andb_true_iff in Hwf. destruct Hwf as [Hq Hb]. apply is_quote_eq in Hq. subst c.
    eexists _, _; split; reflexivity.
  - destruct (number_head _ Hwf) as (c & s' & -> & Hc). exists c, s'. split; [reflexivity|].
    apply plain_not_ws, digit_plain, Hc.
  - apply andb_true_iff in Hwf. destruct Hwf as [Hi _].
    destruct s as [|c w]; [discriminate Hi|]. cbn in Hi. apply andb_true_iff in Hi.
    destruct Hi as [Hc Hw]. exists c, w. split; [reflexivity|].
    apply plain_not_ws, idchar_plain, idstart_idchar, Hc.
Qed.

Lemma norm_render : forall lay toks,
  forallb tok_wfb toks = true -> forallb all_ws lay = true ->
  normalize_ws (render toks lay) = render toks (map squash lay).
Proof.
  unfold normalize_ws.
  induction lay as [|l lay IH]; intros toks Ht Hl; [reflexivity|].
  cbn in Hl. apply andb_true_iff in Hl. destruct Hl as [Hl Hlay].
  cbn [render map]. destruct toks as [|t toks].
  - rewrite !app_nil_r. rewrite <- (app_nil_r l) at 1.
    rewrite (norm_lay l [] Hl eq_refl). apply app_nil_r.
  - cbn in Ht. apply andb_true_iff in Ht. destruct Ht as [Ht Htoks].
    rewrite norm_lay; [|exact Hl|].
    + rewrite (norm_tok _ _ Ht), (IH _ Htoks Hlay). reflexivity.
    + destruct (tok_head _ Ht) as (c & r & -> & Hc). exact Hc.
Qed.

(* ---------- separability ---------- *)
Lemma andb4 a b c d :
  a && b && c && d = true -> a = true /\ b = true /\ c = true /\ d = true.
Proof. destruct a, b, c, d; cbn; intro H; try discriminate H; auto. Qed.
Lemma glue_okb_inv t1 t2 : glue_okb t1 t2 = true ->
  is_tin t1 = false /\ is_tin t2 = false /\ follow_ok t1 (render_tok t2) = true.
Proof.
  unfold glue_okb. destruct (is_tin t1), (is_tin t2), (follow_ok t1 (render_tok t2));
    cbn; intro H; try discriminate H; auto.
Qed.

Definition squashed (l : bytes) : Prop := l = [] \/ l = [x20].

Lemma squash_squashed l : squashed (squash l).
Proof. destruct l; [left | right]; reflexivity. Qed.

Lemma Forall_squashed_map lay : Forall squashed (map squash lay).
Proof. induction lay; cbn; constructor; auto using squash_squashed. Qed.

Lemma sep_from_ws : forall toks prev lay,
  sep_from prev toks lay = true -> forallb all_ws lay = true.
Proof.
  induction toks as [|t toks IH]; intros prev lay H; cbn [sep_from] in H.
  - destruct lay as [|l [|? ?]]; try discriminate H.
    apply andb_true_iff in H. destruct H as [H _]. cbn. rewrite H. reflexivity.
  - destruct lay as [|l [|l2 lay]]; try discriminate H.
    apply andb4 in H. destruct H as (Hws & _ & _ & Hrest).
    cbn [forallb]. rewrite Hws. exact (IH _ _ Hrest).
Qed.

Lemma nonempty_squash l : nonempty (squash l) = nonempty l.
Proof. destruct l; reflexivity. Qed.
Lemma all_ws_squash l : all_ws (squash l) = true.
Proof. destruct l; reflexivity. Qed.
Lemma gap_okb_squash prev l t : gap_okb prev (squash l) t = gap_okb prev l t.
Proof. destruct l; reflexivity. Qed.

Lemma sep_from_squash : forall toks prev lay,
  sep_from prev toks lay = true -> sep_from prev toks (map squash lay) = true.
Proof.
  induction toks as [|t toks IH]; intros prev lay H; cbn [sep_from] in H.
  - destruct lay as [|l [|? ?]]; try discriminate H.
    apply andb_true_iff in H. destruct H as [_ H].
    cbn [map sep_from]. rewrite all_ws_squash, nonempty_squash. exact H.
  - destruct lay as [|l [|l2 lay]]; try discriminate H.
    apply andb4 in H. destruct H as (_ & Hgap & Hinw & Hrest).
    specialize (IH _ _ Hrest). cbn [map] in *. cbn [sep_from].
    rewrite all_ws_squash, gap_okb_squash, Hgap, IH. unfold inword_okb in *.
    rewrite !nonempty_squash, Hinw. reflexivity.
Qed.

Lemma sep_weaken t toks lay :
  sep_from (Some t) toks lay = true -> sep_from None toks lay = true.
Proof.
  destruct toks as [|t2 toks]; cbn [sep_from]; intro H.
  - destruct lay as [|l [|? ?]]; try discriminate H.
    apply andb_true_iff in H. destruct H as [H _]. rewrite H. reflexivity.
  - destruct lay as [|l [|l2 lay]]; try discriminate H.
    apply andb4 in H. destruct H as (Hws & Hgap & Hinw & Hrest).
    rewrite Hws, Hinw, Hrest, !andb_true_r. cbn [andb].
    destruct l; [|reflexivity]. cbn in Hgap |- *.
    apply glue_okb_inv in Hgap. destruct Hgap as (_ & Ht2 & _). rewrite Ht2. reflexivity.
Qed.

Lemma inword_okb_nil t l : inword_okb t [] l = true.
Proof. unfold inword_okb. cbn [nonempty]. rewrite andb_false_r. reflexivity. Qed.

Lemma follow_space t r : follow_ok t (x20 :: r) = true.
Proof. destruct t; reflexivity. Qed.
Lemma follow_nil t : follow_ok t [] = true.
Proof. destruct t; reflexivity. Qed.
Lemma follow_app t a b : a <> [] -> follow_ok t (a ++ b) = follow_ok t a.
Proof. destruct a; [congruence|]. intros _. destruct t; reflexivity. Qed.

Lemma render_cons_lay toks l lay : render toks (l :: lay) = l ++ render toks ([] :: lay).
Proof. reflexivity. Qed.

Lemma render_head_ws toks lay :
  forallb tok_wfb toks = true -> next_is is_ws (render toks ([] :: lay)) = false.
Proof.
  destruct toks as [|t toks]; intro H; [reflexivity|].
  cbn in H. apply andb_true_iff in H. destruct H as [Ht _].
  cbn [render app]. destruct (tok_head _ Ht) as (c & r & -> & Hc). exact Hc.
Qed.

Lemma sep_follow t toks lay :
  forallb tok_wfb toks = true -> Forall squashed lay ->
  sep_from (Some t) toks lay = true -> follow_ok t (render toks lay) = true.
Proof.
  intros Hwf Hsq H. destruct toks as [|t2 toks]; cbn [sep_from] in H.
  - destruct lay as [|l [|? ?]]; try discriminate H.
    inversion Hsq as [|? ? Hl _]; subst.
    destruct Hl as [-> | ->]; [apply follow_nil | apply follow_space].
  - destruct lay as [|l [|l2 lay]]; try discriminate H.
    apply andb4 in H. destruct H as (_ & Hgap & _ & _).
    inversion Hsq as [|? ? Hl _]; subst.
    destruct Hl as [-> | ->]; [|apply follow_space].
    cbn in Hwf. apply andb_true_iff in Hwf. destruct Hwf as [Ht2 _].
    cbn [render app]. rewrite follow_app.
    + cbn in Hgap. apply glue_okb_inv in Hgap. tauto.
    + destruct (tok_head _ Ht2) as (c & r & -> & _). discriminate.
Qed.

(* the round trip on squashed layouts (what the normaliser produces) *)
Lemma lexa_render : forall toks lay acc,
  forallb tok_wfb toks = true -> Forall squashed lay -> sep_from None toks lay = true ->
  lexa (render toks lay) acc = Some (rev acc ++ toks).
Proof.
  induction toks as [|t toks IH]; intros lay acc Hwf Hsq Hsep; cbn [sep_from] in Hsep.
  - destruct lay as [|l [|? ?]]; try discriminate Hsep.
    inversion Hsq as [|? ? Hl _]; subst. rewrite app_nil_r.
    destruct Hl as [-> | ->]; cbn [render app].
    + apply lexa_nil.
    + rewrite lexa_step by discriminate. cbn. apply lexa_nil.
  - destruct lay as [|l [|l2 lay]]; try discriminate Hsep.
    apply andb4 in Hsep. destruct Hsep as (_ & Hgap & Hinw & Hrest).
    inversion Hsq as [|? ? Hl Hsq']; subst. inversion Hsq' as [|? ? Hl2 Hsq'']; subst.
    cbn in Hwf. apply andb_true_iff in Hwf. destruct Hwf as [Ht Hwf].
    destruct (is_tin t) eqn:Htin.
    + (* the token ' in ': it takes one space from each neighbouring layout *)
      destruct t; try discriminate Htin.
      assert (El : l = [x20]) by (destruct Hl as [-> | ->]; [discriminate Hgap | reflexivity]).
      assert (El2 : l2 = [x20]).
      { destruct Hl2 as [-> | ->]; [|reflexivity]. exfalso.
        destruct toks as [|t2 toks]; cbn [sep_from] in Hrest.
        - destruct lay; discriminate Hrest.
        - destruct lay; [discriminate Hrest|]. cbn in Hrest. discriminate Hrest. }
      subst l l2.
      assert (Hsep' : sep_from None toks ([] :: lay) = true).
      { destruct toks as [|t2 toks]; cbn [sep_from] in Hrest |- *.
        - destruct lay; [reflexivity | discriminate Hrest].
        - destruct lay as [|l3 lay]; [discriminate Hrest|].
          apply andb_true_iff in Hrest. destruct Hrest as [Hrest Hr4].
          apply andb_true_iff in Hrest. destruct Hrest as [Hrest Hr3].
          apply andb_true_iff in Hrest. destruct Hrest as [Hr1 Hr2].
          rewrite Hr4, inword_okb_nil. cbn in Hr2 |- *. rewrite Hr2. reflexivity. }
      change (render (TIn :: toks) ([x20] :: [x20] :: lay))
        with (" in " ++ render toks ([] :: lay)).
      rewrite lexa_step by discriminate.
      change (lex_step (" in " ++ render toks ([] :: lay)))
        with (Some (Some TIn, render toks ([] :: lay))).
      cbn iota. rewrite (IH ([] :: lay) (TIn :: acc) Hwf).
      * cbn [rev]. rewrite <- app_assoc. reflexivity.
      * constructor; [left; reflexivity | exact Hsq''].
      * exact Hsep'.
    + change (render (t :: toks) (l :: l2 :: lay))
        with (l ++ render_tok t ++ render toks (l2 :: lay)).
      pose proof (sep_follow _ _ _ Hwf Hsq' Hrest) as Hfollow.
      assert (Hhead : l2 = [] -> next_is is_ws (render toks (l2 :: lay)) = false)
        by (intros ->; apply render_head_ws, Hwf).
      pose proof (IH _ (t :: acc) Hwf Hsq' (sep_weaken _ _ _ Hrest)) as IH'.
      remember (render toks (l2 :: lay)) as rest eqn:Erest. clear Erest.
      pose proof (lex_step_tok t _ Ht Htin Hfollow) as Hstep.
      destruct (tok_head _ Ht) as (c & r & Ec & Hc).
      assert (Hmain : lexa (render_tok t ++ rest) acc = Some (rev acc ++ t :: toks)).
      { rewrite lexa_step by (rewrite Ec; discriminate).
        rewrite Hstep, IH'. cbn [rev]. rewrite <- app_assoc. reflexivity. }
      destruct Hl as [-> | ->]; [exact Hmain|].
      change ([x20] ++ render_tok t ++ rest) with (x20 :: render_tok t ++ rest).
      rewrite lexa_step by discriminate.
      cbn [lex_step is_id_start is_digit is_ws is_space].
      destruct (strip_prefix "in " (render_tok t ++ rest)) as [r'|] eqn:E.
      * exfalso. apply strip_prefix_spec in E. rewrite E in Hstep.
        change (lex_step ("in " ++ r')) with (Some (Some TInWord, x20 :: r')) in Hstep.
        inversion Hstep as [[Et Er]]. subst t.
        cbn in Hinw. destruct Hl2 as [-> | ->]; [|discriminate Hinw].
        specialize (Hhead eq_refl). rewrite <- Er in Hhead. discriminate Hhead.
      * rewrite Ec in *. cbn [app drop_while]. rewrite Hc. exact Hmain.
Qed.

(* ---------- main theorem ---------- *)
Theorem lex_render : forall toks lay,
  forallb tok_wfb toks = true -> separable toks lay = true ->
  lex_query (render toks lay) = Some toks.
Proof.
  intros toks lay Hwf Hsep. unfold lex_query, separable in *.
  rewrite (norm_render _ _ Hwf (sep_from_ws _ _ _ Hsep)), lex_lexa.
  exact (lexa_render toks (map squash lay) [] Hwf (Forall_squashed_map lay)
           (sep_from_squash _ _ _ Hsep)).
Qed.
Print Assumptions lex_render.

Corollary lex_layout_irrelevant : forall toks lay1 lay2,
  forallb tok_wfb toks = true -> separable toks lay1 = true -> separable toks lay2 = true ->
  lex_query (render toks lay1) = lex_query (render toks lay2).
Proof. intros toks lay1 lay2 Hwf H1 H2. rewrite !lex_render; auto. Qed.
Print Assumptions lex_layout_irrelevant.

(* fuel sufficiency, stated for the top-level function *)
Corollary lex_fuel : forall s f, length s <= f -> lex_f f s [] = lex s.
Proof. intros s f H. apply lex_f_fuel; auto. Qed.

(* ---------- examples ---------- *)
(* a query with tabs, newlines, CR LF and glued tokens; its one-line form is [ex_text] *)
Definition ex_toks : list token :=
  [TFrom; TIdent "method_declaration"; TAs; TIdent "md"; TWhere;
   TIdent "md"; TDot; TIdent "getName"; TLParen; TRParen; TEqEq; TString """x  \"" y""";
   TAndAnd; TBang; TLParen; TIdent "a"; TLt; TNumber "2.5"; TRParen; TOrOr;
   TIdent "x"; TIn; TLBrack; TNumber "1"; TComma; TNumber "2"; TRBrack;
   TSelect; TIdent "md"].
Definition ex_lay : list bytes :=
  [[x0a; x09]; " "; [x09]; " "; [x0a];
   "  "; ""; ""; ""; ""; ""; "";
   ""; ""; ""; ""; ""; ""; ""; "";
   ""; [x20; x0a; x20]; [x09]; ""; ""; ""; "";
   [x0d; x0a]; " "; ""].

Example ex_wf : forallb tok_wfb ex_toks = true.
Proof. vm_compute; reflexivity. Qed.
Example ex_sep : separable ex_toks ex_lay = true.
Proof. vm_compute; reflexivity. Qed.
Example ex_lex : lex_query (render ex_toks ex_lay) = Some ex_toks.
Proof. vm_compute; reflexivity. Qed.
(* the same text, all on one line with single spaces *)
Example ex_text :
  normalize_ws (render ex_toks ex_lay) =
  " FROM method_declaration AS md WHERE md.getName()==""x  \"" y""&&!(a<2.5)||x in [1,2] SELECT md".
Proof. vm_compute; reflexivity. Qed.

(* why [separable] has its side conditions *)
Example ex_maximal_munch : lex "x  in y" = Some [TIdent "x"; TInWord; TIdent "y"].
Proof. vm_compute; reflexivity. Qed.
Example ex_after_normalising : lex_query "x  in y" = Some [TIdent "x"; TIn; TIdent "y"].
Proof. vm_compute; reflexivity. Qed.
Example ex_in_in : lex_query " in in " = Some [TIn; TInWord].
Proof. vm_compute; reflexivity. Qed.
Example ex_glued_number : lex_query "1.5" = Some [TNumber "1.5"]
                          /\ lex_query "1 .5" = Some [TNumber "1"; TDot; TNumber "5"].
Proof. split; vm_compute; reflexivity. Qed.
Example ex_no_rule : lex_query "a | b" = None /\ lex_query """abc" = None /\ lex_query "a # b" = None.
Proof. repeat split; vm_compute; reflexivity. Qed.
