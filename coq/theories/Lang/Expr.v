(* Abstract syntax of the query language, flat view (what the evaluator and the emitter consume).
   The stratified, grammar-shaped AST used by the parser proofs lives in Lang/Ast.v and is
   mapped here by [flatten]. *)
From CPF Require Export Lang.Token.

Inductive value := VStr (tok : bytes)     (* STRING token text, quotes included *)
                 | VNum (tok : bytes).    (* NUMBER token text *)

Inductive unop := UNot | UNeg.
Inductive binop := BOr | BAnd | BEq | BNe | BLt | BGt | BLe | BGe | BIn | BAdd | BSub | BMul | BDiv.

Inductive expr :=
| EVal (v : value)
| EList (vs : list value)                 (* '[' value (',' value)* ']' *)
| EChain (x : bytes) (ms : list emov)     (* IDENT ('.' method_or_variable)* ; a bare variable when ms = [] *)
| ECall (f : bytes) (args : list expr)    (* predicate_invocation in primary position *)
| EParen (e : expr)
| EUn (o : unop) (e : expr)
| EBin (o : binop) (a b : expr)
with emov :=
| MVar (x : bytes)
| MCall (f : bytes) (args : list expr).

Record pred_decl := { pd_name : bytes;
                      pd_params : list (bytes * bytes);   (* (type, name) in order *)
                      pd_body : expr }.

Inductive sel_item :=
| SelVar (x : bytes)                       (* select_expression : variable *)
| SelChain (m : emov) (ms : list emov)     (* method_chain; never (MVar _, []) *)
| SelStr (tok : bytes).                    (* STRING token text *)

Record query := { q_preds : list pred_decl;
                  q_from : list (bytes * bytes);          (* (entity kind, alias) in FROM order, non-empty *)
                  q_where : option expr;
                  q_select : list sel_item }.             (* non-empty *)
