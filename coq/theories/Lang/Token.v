(* The token vocabulary of antlr/Query.g4 (implicit literal tokens first, in order of first
   appearance in the parser rules, then the named lexer rules). *)
From CPF Require Export Base.Bytes.
Open Scope bs_scope.

Inductive token :=
| TLParen | TRParen | TLBrace | TRBrace | TComma
| TOrOr | TAndAnd | TEqEq | TNeq | TLt | TGt | TLe | TGe
| TIn            (* the literal ' in ' — its text includes one space on each side *)
| TPlus | TMinus | TStar | TSlash | TBang | TDot | TLBrack | TRBrack
| TLike          (* 'LIKE'  — only in the unused rule `comparator` *)
| TInWord        (* 'in'    — only in the unused rule `comparator` *)
| TString (s : bytes)   (* whole token text, quotes included *)
| TNumber (s : bytes)
| TPredicate | TFrom | TWhere | TAs | TSelect
| TIdent (s : bytes).

Definition token_text (t : token) : bytes :=
  match t with
  | TLParen => "(" | TRParen => ")" | TLBrace => "{" | TRBrace => "}" | TComma => ","
  | TOrOr => "||" | TAndAnd => "&&" | TEqEq => "==" | TNeq => "!=" | TLt => "<" | TGt => ">"
  | TLe => "<=" | TGe => ">=" | TIn => " in " | TPlus => "+" | TMinus => "-" | TStar => "*"
  | TSlash => "/" | TBang => "!" | TDot => "." | TLBrack => "[" | TRBrack => "]"
  | TLike => "LIKE" | TInWord => "in"
  | TString s => s | TNumber s => s
  | TPredicate => "predicate" | TFrom => "FROM" | TWhere => "WHERE" | TAs => "AS" | TSelect => "SELECT"
  | TIdent s => s
  end.
