(* Grammar-shaped AST of antlr/Query.g4, stratified by precedence: every loop  x (op x)*  of the
   grammar is a head plus a list, so the printer is injective on the shapes the parser builds and
   the round trip is structural.  Also: the printer to tokens, well-formedness, and the map to
   the flat AST of Lang/Expr.v.  Definitions only. *)
From CPF Require Export Lang.Expr Lang.Lexer.
Open Scope bs_scope.

Inductive eqop := OEq | ONe.
Inductive relop := OLt | OGt | OLe | OGe | OIn.
Inductive addop := OAdd | OSub.
Inductive mulop := OMul | ODiv.

(* (Or/And/Eq/UNot/UNeg are taken by Coq's comparison and by Expr.unop, hence the A prefix) *)
Inductive orx := AOr (a : andx) (r : list andx)                  (* a || r1 || r2 ... *)
with andx := AAnd (a : eqx) (r : list eqx)                       (* a && r1 && ... *)
with eqx := AEq (a : relx) (r : list (eqop * relx))             (* a (==|!=) r1 ... *)
with relx := ARel (a : addx) (r : list (relop * addx))
with addx := AAdd (a : mulx) (r : list (addop * mulx))
with mulx := AMul (a : unx) (r : list (mulop * unx))
with unx := ANot (u : unx) | ANeg (u : unx) | APrim (p : prim)
with prim :=
  | PVal (v : value)
  | PList (v : value) (vs : list value)        (* '[' v (',' vs)* ']' *)
  | PChain (x : bytes) (ms : list mov)         (* x ('.' m)* ; a bare variable when ms = [] *)
  | PCall (f : bytes) (args : list orx)        (* predicate invocation; no chain may follow *)
  | PParen (e : orx)
with mov := AMVar (x : bytes) | AMCall (f : bytes) (args : list orx).

Record apred := { ap_name : bytes;
                  ap_params : list (bytes * bytes);      (* (type, name) *)
                  ap_body : orx }.

Inductive asel :=
| ASelVar (x : bytes)
| ASelChain (m : mov) (ms : list mov)          (* m ('.' ms)* ; never (AMVar _, []) *)
| ASelStr (s : bytes).

Record aquery := { aq_preds : list apred;
                   aq_from : list (bytes * bytes);       (* (entity, alias), non-empty *)
                   aq_where : option orx;
                   aq_select : list asel }.              (* non-empty *)

(* ---------- printer ---------- *)
Definition tok_eqop (o : eqop) : token := match o with OEq => TEqEq | ONe => TNeq end.
Definition tok_relop (o : relop) : token :=
  match o with OLt => TLt | OGt => TGt | OLe => TLe | OGe => TGe | OIn => TIn end.
Definition tok_addop (o : addop) : token := match o with OAdd => TPlus | OSub => TMinus end.
Definition tok_mulop (o : mulop) : token := match o with OMul => TStar | ODiv => TSlash end.

Definition pr_value (v : value) : token :=
  match v with VStr s => TString s | VNum s => TNumber s end.
Definition pr_value1 (v : value) : list token := [pr_value v].

(* head (sep item)* *)
Definition pr_sep1 {A} (sep : token) (pr : A -> list token) (a : A) (r : list A) : list token :=
  pr a ++ flat_map (fun x => sep :: pr x) r.
(* head (op item)* *)
Definition pr_op1 {O A} (tok_of : O -> token) (pr : A -> list token) (a : A) (r : list (O * A))
  : list token :=
  pr a ++ flat_map (fun p => tok_of (fst p) :: pr (snd p)) r.
(* possibly empty comma separated list *)
Definition pr_list1 {A} (pr : A -> list token) (l : list A) : list token :=
  match l with
  | [] => []
  | a :: r => pr_sep1 TComma pr a r
  end.

Fixpoint pr_or (e : orx) : list token :=
  match e with AOr a r => pr_sep1 TOrOr pr_and a r end
with pr_and (e : andx) : list token :=
  match e with AAnd a r => pr_sep1 TAndAnd pr_eq a r end
with pr_eq (e : eqx) : list token :=
  match e with AEq a r => pr_op1 tok_eqop pr_rel a r end
with pr_rel (e : relx) : list token :=
  match e with ARel a r => pr_op1 tok_relop pr_add a r end
with pr_add (e : addx) : list token :=
  match e with AAdd a r => pr_op1 tok_addop pr_mul a r end
with pr_mul (e : mulx) : list token :=
  match e with AMul a r => pr_op1 tok_mulop pr_un a r end
with pr_un (u : unx) : list token :=
  match u with
  | ANot u' => TBang :: pr_un u'
  | ANeg u' => TMinus :: pr_un u'
  | APrim p => pr_prim p
  end
with pr_prim (p : prim) : list token :=
  match p with
  | PVal v => pr_value1 v
  | PList v vs => TLBrack :: pr_sep1 TComma pr_value1 v vs ++ [TRBrack]
  | PChain x ms => TIdent x :: flat_map (fun m => TDot :: pr_mov m) ms
  | PCall f args => TIdent f :: TLParen :: pr_list1 pr_or args ++ [TRParen]
  | PParen e => TLParen :: pr_or e ++ [TRParen]
  end
with pr_mov (m : mov) : list token :=
  match m with
  | AMVar x => [TIdent x]
  | AMCall f args => TIdent f :: TLParen :: pr_list1 pr_or args ++ [TRParen]
  end.

Definition tokens_of_orx : orx -> list token := pr_or.

Definition pr_param (p : bytes * bytes) : list token := [TIdent (fst p); TIdent (snd p)].

(* a predicate declaration without its leading keyword *)
Definition pr_pred_rest (d : apred) : list token :=
  TIdent (ap_name d) :: TLParen :: pr_list1 pr_param (ap_params d) ++
  TRParen :: TLBrace :: pr_or (ap_body d) ++ [TRBrace].

Definition pr_from_item (p : bytes * bytes) : list token := [TIdent (fst p); TAs; TIdent (snd p)].

Definition pr_sel (s : asel) : list token :=
  match s with
  | ASelVar x => [TIdent x]
  | ASelChain m ms => pr_mov m ++ flat_map (fun m' => TDot :: pr_mov m') ms
  | ASelStr s => [TString s]
  end.

Definition pr_where (w : option orx) : list token :=
  match w with Some e => TWhere :: pr_or e | None => [] end.

Definition tokens_of_query (q : aquery) : list token :=
  flat_map (fun d => TPredicate :: pr_pred_rest d) (aq_preds q) ++
  TFrom :: pr_list1 pr_from_item (aq_from q) ++
  pr_where (aq_where q) ++
  TSelect :: pr_list1 pr_sel (aq_select q).

(* ---------- well-formedness ---------- *)
Definition sel_okb (s : asel) : bool :=
  match s with
  | ASelChain (AMVar _) [] => false
  | _ => true
  end.

(* what the token-level round trip needs *)
Definition aquery_shapeb (q : aquery) : bool :=
  nonempty (aq_from q) && nonempty (aq_select q) && forallb sel_okb (aq_select q).

(* shape, and every identifier / string / number in the query is a well-formed lexeme
   (all other printed tokens satisfy tok_wfb trivially) *)
Definition aquery_wfb (q : aquery) : bool :=
  aquery_shapeb q && forallb tok_wfb (tokens_of_query q).

(* ---------- flattening to Lang/Expr.v ---------- *)
Definition bin_eqop (o : eqop) : binop := match o with OEq => BEq | ONe => BNe end.
Definition bin_relop (o : relop) : binop :=
  match o with OLt => BLt | OGt => BGt | OLe => BLe | OGe => BGe | OIn => BIn end.
Definition bin_addop (o : addop) : binop := match o with OAdd => BAdd | OSub => BSub end.
Definition bin_mulop (o : mulop) : binop := match o with OMul => BMul | ODiv => BDiv end.

(* left-associative fold of an operator loop *)
Definition fold_sep {A} (o : binop) (fl : A -> expr) (a : A) (r : list A) : expr :=
  fold_left (fun acc x => EBin o acc (fl x)) r (fl a).
Definition fold_op {O A} (bin : O -> binop) (fl : A -> expr) (a : A) (r : list (O * A)) : expr :=
  fold_left (fun acc p => EBin (bin (fst p)) acc (fl (snd p))) r (fl a).

Fixpoint fl_or (e : orx) : expr :=
  match e with AOr a r => fold_sep BOr fl_and a r end
with fl_and (e : andx) : expr :=
  match e with AAnd a r => fold_sep BAnd fl_eq a r end
with fl_eq (e : eqx) : expr :=
  match e with AEq a r => fold_op bin_eqop fl_rel a r end
with fl_rel (e : relx) : expr :=
  match e with ARel a r => fold_op bin_relop fl_add a r end
with fl_add (e : addx) : expr :=
  match e with AAdd a r => fold_op bin_addop fl_mul a r end
with fl_mul (e : mulx) : expr :=
  match e with AMul a r => fold_op bin_mulop fl_un a r end
with fl_un (u : unx) : expr :=
  match u with
  | ANot u' => EUn UNot (fl_un u')
  | ANeg u' => EUn UNeg (fl_un u')
  | APrim p => fl_prim p
  end
with fl_prim (p : prim) : expr :=
  match p with
  | PVal v => EVal v
  | PList v vs => EList (v :: vs)
  | PChain x ms => EChain x (map fl_mov ms)
  | PCall f args => ECall f (map fl_or args)
  | PParen e => EParen (fl_or e)
  end
with fl_mov (m : mov) : emov :=
  match m with
  | AMVar x => MVar x
  | AMCall f args => MCall f (map fl_or args)
  end.

Definition flatten : orx -> expr := fl_or.

Definition flatten_pred (d : apred) : pred_decl :=
  {| pd_name := ap_name d; pd_params := ap_params d; pd_body := fl_or (ap_body d) |}.

Definition flatten_sel (s : asel) : sel_item :=
  match s with
  | ASelVar x => SelVar x
  | ASelChain m ms => SelChain (fl_mov m) (map fl_mov ms)
  | ASelStr s => SelStr s
  end.

Definition flatten_query (q : aquery) : query :=
  {| q_preds := map flatten_pred (aq_preds q);
     q_from := aq_from q;
     q_where := option_map fl_or (aq_where q);
     q_select := map flatten_sel (aq_select q) |}.
