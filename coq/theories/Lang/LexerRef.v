(* A direct transcription of ANTLR's lexer semantics, used only to cross-check Lang/Lexer.v:
   every lexer rule reports its own longest match at the current position; the longest of these
   wins, ties going to the rule listed first.  [lex_step] of Lexer.v instead dispatches on the
   first byte.  The two are compared on a set of tricky inputs by computation (this is a test,
   not a proof; the proofs about [lex] are in LexerFacts.v and do not depend on this file). *)
From CPF Require Import Lang.Lexer.
Open Scope bs_scope.

Inductive rule :=
| RLit (t : token)      (* a rule with a fixed text: implicit literals and keywords *)
| RString | RNumber | RIdent | RWs.

(* the rules in ANTLR's order *)
Definition rules : list rule :=
  map RLit [TLParen; TRParen; TLBrace; TRBrace; TComma; TOrOr; TAndAnd; TEqEq; TNeq; TLt; TGt;
            TLe; TGe; TIn; TPlus; TMinus; TStar; TSlash; TBang; TDot; TLBrack; TRBrack;
            TLike; TInWord]
  ++ [RString; RNumber]
  ++ map RLit [TPredicate; TFrom; TWhere; TAs; TSelect]
  ++ [RIdent; RWs].

(* longest match of one rule: its length and the token it produces (None = skipped) *)
Definition rule_match (r : rule) (s : bytes) : option (nat * option token) :=
  match r with
  | RLit t => if has_prefix (token_text t) s then Some (length (token_text t), Some t) else None
  | RString =>
      match s with
      | c :: s' =>
          if is_quote c then
            match scan_str s' with
            | Some (b, _) => Some (S (length b), Some (TString (c :: b)))
            | None => None
            end
          else None
      | [] => None
      end
  | RNumber =>
      if next_is is_digit s then
        let (n, _) := scan_num s in Some (length n, Some (TNumber n))
      else None
  | RIdent =>
      if next_is is_id_start s then
        let (w, _) := span is_id_char s in Some (length w, Some (TIdent w))
      else None
  | RWs =>
      match span is_ws s with
      | ([], _) => None
      | (w, _) => Some (length w, None)
      end
  end.

(* keep the earlier candidate unless the later one is strictly longer *)
Fixpoint best (rs : list rule) (s : bytes) (cur : option (nat * option token))
  : option (nat * option token) :=
  match rs with
  | [] => cur
  | r :: rs' =>
      let cur' :=
        match rule_match r s, cur with
        | Some (n, o), Some (m, _) => if Nat.ltb m n then Some (n, o) else cur
        | Some c, None => Some c
        | None, _ => cur
        end in
      best rs' s cur'
  end.

Definition lex_step_ref (s : bytes) : option (option token * bytes) :=
  match best rules s None with
  | Some (n, o) => Some (o, skipn n s)
  | None => None
  end.

Fixpoint lex_ref_f (fuel : nat) (s : bytes) : option (list token) :=
  match s with
  | [] => Some []
  | _ :: _ =>
      match fuel with
      | O => None
      | S f =>
          match lex_step_ref s with
          | None => None
          | Some (None, r) => lex_ref_f f r
          | Some (Some t, r) => option_map (cons t) (lex_ref_f f r)
          end
      end
  end.
Definition lex_ref (s : bytes) : option (list token) := lex_ref_f (length s) s.

(* comparison through the printed text plus a constructor tag *)
Definition tok_tag (t : token) : nat :=
  match t with
  | TString _ => 1 | TNumber _ => 2 | TIdent _ => 3 | TIn => 4 | TInWord => 5 | _ => 0
  end.
Definition tok_eqb (a b : token) : bool :=
  Nat.eqb (tok_tag a) (tok_tag b) && bytes_eqb (token_text a) (token_text b).
Fixpoint toks_eqb (a b : list token) : bool :=
  match a, b with
  | [], [] => true
  | x :: a', y :: b' => tok_eqb x y && toks_eqb a' b'
  | _, _ => false
  end.
Definition agree (s : bytes) : bool :=
  match lex s, lex_ref s with
  | Some a, Some b => toks_eqb a b
  | None, None => true
  | _, _ => false
  end.

Definition samples : list bytes :=
  [ ""; " "; "x"; "x in y"; "x  in y"; " in "; " in in "; "  in  "; "x in[1]"; "x inx y"; " inx";
    [x09; x69; x6e; x20]; [x20; x69; x6e; x09]; [x0a; x0d; x09; x20; x78];
    "in"; "inn"; "LIKE"; "LIKEx"; "LIK"; "like"; "predicate"; "predicates"; "predicat";
    "FROM"; "FROMAGE"; "from"; "WHERE"; "AS"; "ASx"; "A"; "SELECT"; "SELECT1"; "_x1"; "_"; "x_9 y";
    "1"; "12.5"; "1."; "1.x"; "1.5.6"; ".5"; "1..2"; "007"; "1e5"; "9a";
    """"""; """a"""; """a\""b"""; """a\\"""; """a\"; """abc"; """a""b"""; """%x%"""; """a
b"""; """\"; """";
    "<"; "<="; "<=="; "<<="; ">"; ">="; ">=="; "!"; "!="; "!=="; "!!"; "=="; "="; "==="; "|"; "||";
    "|||"; "&"; "&&"; "&&&"; "+-*/"; "--1"; "a.b"; "a . b"; "a..b"; "[1,2]"; "{}"; "()"; "(,)";
    "#"; "a#b"; "a;b"; "'x'"; "a%b"; [xc3; xa9]; "x"++[xe2; x80; x8a]++"y";
    "md.getName()==""x""&&!(a<b)";
    "FROM method_declaration AS md WHERE md.getName() == ""onCreate"" SELECT md";
    "predicate p(int n){n>=100}FROM a AS b,c AS d WHERE p(1)||!b.x in [1,""s""] SELECT b.x,""t""" ].

Example lexers_agree : forallb agree samples = true.
Proof. vm_compute; reflexivity. Qed.

Example lexers_agree_normalised : forallb (fun s => agree (normalize_ws s)) samples = true.
Proof. vm_compute; reflexivity. Qed.

(* all suffixes of a realistic query, so that every token boundary and every mid-token
   position is a starting position *)
Fixpoint suffixes (s : bytes) : list bytes :=
  match s with
  | [] => [[]]
  | _ :: r => s :: suffixes r
  end.
Example lexers_agree_suffixes :
  forallb agree (suffixes "predicate p(int n){n>=100} FROM a AS b, c AS d
WHERE p(1) || !b.x in [1.5,""s\""t""] && b.f(-2*3).g != c.LIKE / 4 SELECT b.x, ""t""") = true.
Proof. vm_compute; reflexivity. Qed.
