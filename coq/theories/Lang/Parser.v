(* Fuelled recursive-descent parser for antlr/Query.g4 over the tokens of Lang/Token.v, producing
   the stratified AST of Lang/Ast.v.  Definitions only; the round-trip proofs are in
   ParserFacts.v.  The grammar is LL(1) on the token language (one token of look-ahead after an
   identifier decides call / chain), so no backtracking is needed. *)
From CPF Require Export Lang.Ast.
Open Scope bs_scope.

Definition parser (A : Type) : Type := list token -> option (A * list token).

(* ---------- token tests ---------- *)
Definition is_lparen (t : token) : bool := match t with TLParen => true | _ => false end.
Definition is_rparen (t : token) : bool := match t with TRParen => true | _ => false end.
Definition is_lbrace (t : token) : bool := match t with TLBrace => true | _ => false end.
Definition is_rbrace (t : token) : bool := match t with TRBrace => true | _ => false end.
Definition is_rbrack (t : token) : bool := match t with TRBrack => true | _ => false end.
Definition is_comma (t : token) : bool := match t with TComma => true | _ => false end.
Definition is_tdot (t : token) : bool := match t with TDot => true | _ => false end.
Definition is_oror (t : token) : bool := match t with TOrOr => true | _ => false end.
Definition is_andand (t : token) : bool := match t with TAndAnd => true | _ => false end.
Definition is_bang (t : token) : bool := match t with TBang => true | _ => false end.
Definition is_minus (t : token) : bool := match t with TMinus => true | _ => false end.
Definition is_predicate (t : token) : bool := match t with TPredicate => true | _ => false end.
Definition is_from (t : token) : bool := match t with TFrom => true | _ => false end.
Definition is_where (t : token) : bool := match t with TWhere => true | _ => false end.
Definition is_as (t : token) : bool := match t with TAs => true | _ => false end.
Definition is_select (t : token) : bool := match t with TSelect => true | _ => false end.

Definition pop_eq (t : token) : option eqop :=
  match t with TEqEq => Some OEq | TNeq => Some ONe | _ => None end.
Definition pop_rel (t : token) : option relop :=
  match t with
  | TLt => Some OLt | TGt => Some OGt | TLe => Some OLe | TGe => Some OGe | TIn => Some OIn
  | _ => None
  end.
Definition pop_add (t : token) : option addop :=
  match t with TPlus => Some OAdd | TMinus => Some OSub | _ => None end.
Definition pop_mul (t : token) : option mulop :=
  match t with TStar => Some OMul | TSlash => Some ODiv | _ => None end.

(* consume one token satisfying [p] *)
Definition eat_tok (p : token -> bool) (ts : list token) : option (list token) :=
  match ts with
  | t :: r => if p t then Some r else None
  | [] => None
  end.

(* ---------- generic loops ---------- *)
(* (sep item)*  ; [g] bounds the number of iterations *)
Fixpoint many_sep {A} (is_sep : token -> bool) (p : parser A) (g : nat) (ts : list token)
  {struct g} : option (list A * list token) :=
  match ts with
  | [] => Some ([], [])
  | t :: ts' =>
      if is_sep t then
        match g with
        | O => None
        | S g' =>
            match p ts' with
            | Some (x, ts1) =>
                match many_sep is_sep p g' ts1 with
                | Some (xs, ts2) => Some (x :: xs, ts2)
                | None => None
                end
            | None => None
            end
        end
      else Some ([], ts)
  end.

(* (op item)* *)
Fixpoint many_op {O A} (pop : token -> option O) (p : parser A) (g : nat) (ts : list token)
  {struct g} : option (list (O * A) * list token) :=
  match ts with
  | [] => Some ([], [])
  | t :: ts' =>
      match pop t with
      | Some o =>
          match g with
          | O => None
          | S g' =>
              match p ts' with
              | Some (x, ts1) =>
                  match many_op pop p g' ts1 with
                  | Some (xs, ts2) => Some ((o, x) :: xs, ts2)
                  | None => None
                  end
              | None => None
              end
          end
      | None => Some ([], ts)
      end
  end.

(* item (sep item)* *)
Definition lvl_sep {A B} (mk : A -> list A -> B) (is_sep : token -> bool) (p : parser A) (g : nat)
  : parser B := fun ts =>
  match p ts with
  | Some (a, ts1) =>
      match many_sep is_sep p g ts1 with
      | Some (r, ts2) => Some (mk a r, ts2)
      | None => None
      end
  | None => None
  end.

(* item (op item)* *)
Definition lvl_op {O A B} (mk : A -> list (O * A) -> B) (pop : token -> option O) (p : parser A)
  (g : nat) : parser B := fun ts =>
  match p ts with
  | Some (a, ts1) =>
      match many_op pop p g ts1 with
      | Some (r, ts2) => Some (mk a r, ts2)
      | None => None
      end
  | None => None
  end.

(* ( item (',' item)* )? ')'   -- the opening parenthesis has been consumed *)
Definition p_list_rparen {A} (p : parser A) (g : nat) : parser (list A) := fun ts =>
  match eat_tok is_rparen ts with
  | Some r => Some ([], r)
  | None =>
      match lvl_sep cons is_comma p g ts with
      | Some (l, ts1) =>
          match eat_tok is_rparen ts1 with
          | Some ts2 => Some (l, ts2)
          | None => None
          end
      | None => None
      end
  end.

Definition p_value : parser value := fun ts =>
  match ts with
  | TString s :: r => Some (VStr s, r)
  | TNumber s :: r => Some (VNum s, r)
  | _ => None
  end.

(* ---------- expressions ---------- *)
Fixpoint p_or (f : nat) (ts : list token) {struct f} : option (orx * list token) :=
  match f with
  | O => None
  | S f' => lvl_sep AOr is_oror (p_and f') f' ts
  end
with p_and (f : nat) (ts : list token) {struct f} : option (andx * list token) :=
  match f with
  | O => None
  | S f' => lvl_sep AAnd is_andand (p_eq f') f' ts
  end
with p_eq (f : nat) (ts : list token) {struct f} : option (eqx * list token) :=
  match f with
  | O => None
  | S f' => lvl_op AEq pop_eq (p_rel f') f' ts
  end
with p_rel (f : nat) (ts : list token) {struct f} : option (relx * list token) :=
  match f with
  | O => None
  | S f' => lvl_op ARel pop_rel (p_add f') f' ts
  end
with p_add (f : nat) (ts : list token) {struct f} : option (addx * list token) :=
  match f with
  | O => None
  | S f' => lvl_op AAdd pop_add (p_mul f') f' ts
  end
with p_mul (f : nat) (ts : list token) {struct f} : option (mulx * list token) :=
  match f with
  | O => None
  | S f' => lvl_op AMul pop_mul (p_un f') f' ts
  end
with p_un (f : nat) (ts : list token) {struct f} : option (unx * list token) :=
  match f with
  | O => None
  | S f' =>
      match ts with
      | [] => None
      | t :: r =>
          if is_bang t then
            match p_un f' r with Some (u, r1) => Some (ANot u, r1) | None => None end
          else if is_minus t then
            match p_un f' r with Some (u, r1) => Some (ANeg u, r1) | None => None end
          else
            match p_prim f' ts with Some (p, r1) => Some (APrim p, r1) | None => None end
      end
  end
with p_prim (f : nat) (ts : list token) {struct f} : option (prim * list token) :=
  match f with
  | O => None
  | S f' =>
      match ts with
      | [] => None
      | t :: r =>
          match t with
          | TString s => Some (PVal (VStr s), r)
          | TNumber s => Some (PVal (VNum s), r)
          | TLBrack =>
              match lvl_sep PList is_comma p_value f' r with
              | Some (pl, r1) =>
                  match eat_tok is_rbrack r1 with
                  | Some r2 => Some (pl, r2)
                  | None => None
                  end
              | None => None
              end
          | TIdent x =>
              match eat_tok is_lparen r with
              | Some r1 =>
                  match p_list_rparen (p_or f') f' r1 with
                  | Some (args, r2) => Some (PCall x args, r2)
                  | None => None
                  end
              | None =>
                  match many_sep is_tdot (p_mov f') f' r with
                  | Some (ms, r1) => Some (PChain x ms, r1)
                  | None => None
                  end
              end
          | TLParen =>
              match p_or f' r with
              | Some (e, r1) =>
                  match eat_tok is_rparen r1 with
                  | Some r2 => Some (PParen e, r2)
                  | None => None
                  end
              | None => None
              end
          | _ => None
          end
      end
  end
with p_mov (f : nat) (ts : list token) {struct f} : option (mov * list token) :=
  match f with
  | O => None
  | S f' =>
      match ts with
      | TIdent x :: r =>
          match eat_tok is_lparen r with
          | Some r1 =>
              match p_list_rparen (p_or f') f' r1 with
              | Some (args, r2) => Some (AMCall x args, r2)
              | None => None
              end
          | None => Some (AMVar x, r)
          end
      | _ => None
      end
  end.

(* ---------- the query ---------- *)
Definition p_param : parser (bytes * bytes) := fun ts =>
  match ts with
  | TIdent ty :: TIdent nm :: r => Some ((ty, nm), r)
  | _ => None
  end.

Definition p_from_item : parser (bytes * bytes) := fun ts =>
  match ts with
  | TIdent e :: TAs :: TIdent a :: r => Some ((e, a), r)
  | _ => None
  end.

(* predicate_declaration without the keyword *)
Definition p_pred_rest (f : nat) : parser apred := fun ts =>
  match ts with
  | TIdent name :: r =>
      match eat_tok is_lparen r with
      | Some r1 =>
          match p_list_rparen p_param f r1 with
          | Some (params, r2) =>
              match eat_tok is_lbrace r2 with
              | Some r3 =>
                  match p_or f r3 with
                  | Some (body, r4) =>
                      match eat_tok is_rbrace r4 with
                      | Some r5 =>
                          Some ({| ap_name := name; ap_params := params; ap_body := body |}, r5)
                      | None => None
                      end
                  | None => None
                  end
              | None => None
              end
          | None => None
          end
      | None => None
      end
  | _ => None
  end.

Definition mk_sel (m : mov) (ms : list mov) : asel :=
  match m, ms with
  | AMVar x, [] => ASelVar x
  | _, _ => ASelChain m ms
  end.

Definition p_sel (f : nat) : parser asel := fun ts =>
  match ts with
  | TString s :: r => Some (ASelStr s, r)
  | _ => lvl_sep mk_sel is_tdot (p_mov f) f ts
  end.

Definition p_where (f : nat) : parser (option orx) := fun ts =>
  match eat_tok is_where ts with
  | Some r =>
      match p_or f r with
      | Some (e, r1) => Some (Some e, r1)
      | None => None
      end
  | None => Some (None, ts)
  end.

Definition p_query (f : nat) (ts : list token) : option aquery :=
  match many_sep is_predicate (p_pred_rest f) f ts with
  | Some (preds, r1) =>
      match eat_tok is_from r1 with
      | Some r2 =>
          match lvl_sep cons is_comma p_from_item f r2 with
          | Some (from, r3) =>
              match p_where f r3 with
              | Some (w, r4) =>
                  match eat_tok is_select r4 with
                  | Some r5 =>
                      match lvl_sep cons is_comma (p_sel f) f r5 with
                      | Some (sel, []) =>
                          Some {| aq_preds := preds; aq_from := from; aq_where := w;
                                  aq_select := sel |}
                      | _ => None
                      end
                  | None => None
                  end
              | None => None
              end
          | None => None
          end
      | None => None
      end
  | None => None
  end.

(* Every call descends one level (9 levels from p_or to a nested p_or) and every nesting consumes
   a token, so this fuel is ample: ParserFacts.parse_print shows it never runs out on printed
   queries.  Running out of fuel can only reject, never mis-parse (ParserFacts.print_parse). *)
Definition parse_fuel (ts : list token) : nat := 8 + 4 * length ts.

Definition parse_tokens (ts : list token) : option aquery := p_query (parse_fuel ts) ts.

Definition parse_query (s : bytes) : option aquery :=
  match lex_query s with
  | Some ts => parse_tokens ts
  | None => None
  end.
