(* Proofs about Lang/Parser.v:
   (a) parse_print   : parsing the tokens printed from a well-shaped AST gives the AST back;
   (b) print_parse   : whatever the parser accepts is exactly the print of the AST it returns;
   (c) C11_roundtrip : text rendered from an AST with any separable layout parses to the AST. *)
From CPF Require Import Lang.Parser Lang.LexerFacts.
From Coq Require Import Lia Wf_nat PeanoNat.
Open Scope nat_scope.

Notation L := (@length token).

Definition hd_is (p : token -> bool) (ts : list token) : bool :=
  match ts with t :: _ => p t | [] => false end.

Definition is_pop {O} (pop : token -> option O) (t : token) : bool :=
  match pop t with Some _ => true | None => false end.

(* ---------- eat_tok ---------- *)
Lemma eat_tok_some p ts r : eat_tok p ts = Some r -> exists t, ts = t :: r /\ p t = true.
Proof.
  destruct ts as [|t ts]; cbn; [discriminate|]. destruct (p t) eqn:E; [|discriminate].
  intros [= <-]. eauto.
Qed.
Lemma eat_tok_none p ts : hd_is p ts = false -> eat_tok p ts = None.
Proof. destruct ts as [|t ts]; cbn; [reflexivity|]. intros ->. reflexivity. Qed.

Ltac tok_cases := let t := fresh "t" in intros t; destruct t; (reflexivity || discriminate).

Lemma is_lparen_inv : forall t, is_lparen t = true -> t = TLParen. Proof. tok_cases. Qed.
Lemma is_rparen_inv : forall t, is_rparen t = true -> t = TRParen. Proof. tok_cases. Qed.
Lemma is_lbrace_inv : forall t, is_lbrace t = true -> t = TLBrace. Proof. tok_cases. Qed.
Lemma is_rbrace_inv : forall t, is_rbrace t = true -> t = TRBrace. Proof. tok_cases. Qed.
Lemma is_rbrack_inv : forall t, is_rbrack t = true -> t = TRBrack. Proof. tok_cases. Qed.
Lemma is_comma_inv : forall t, is_comma t = true -> t = TComma. Proof. tok_cases. Qed.
Lemma is_tdot_inv : forall t, is_tdot t = true -> t = TDot. Proof. tok_cases. Qed.
Lemma is_oror_inv : forall t, is_oror t = true -> t = TOrOr. Proof. tok_cases. Qed.
Lemma is_andand_inv : forall t, is_andand t = true -> t = TAndAnd. Proof. tok_cases. Qed.
Lemma is_bang_inv : forall t, is_bang t = true -> t = TBang. Proof. tok_cases. Qed.
Lemma is_minus_inv : forall t, is_minus t = true -> t = TMinus. Proof. tok_cases. Qed.
Lemma is_predicate_inv : forall t, is_predicate t = true -> t = TPredicate. Proof. tok_cases. Qed.
Lemma is_from_inv : forall t, is_from t = true -> t = TFrom. Proof. tok_cases. Qed.
Lemma is_where_inv : forall t, is_where t = true -> t = TWhere. Proof. tok_cases. Qed.
Lemma is_select_inv : forall t, is_select t = true -> t = TSelect. Proof. tok_cases. Qed.

Lemma pop_eq_tok o : pop_eq (tok_eqop o) = Some o. Proof. destruct o; reflexivity. Qed.
Lemma pop_rel_tok o : pop_rel (tok_relop o) = Some o. Proof. destruct o; reflexivity. Qed.
Lemma pop_add_tok o : pop_add (tok_addop o) = Some o. Proof. destruct o; reflexivity. Qed.
Lemma pop_mul_tok o : pop_mul (tok_mulop o) = Some o. Proof. destruct o; reflexivity. Qed.
Lemma pop_eq_inv t o : pop_eq t = Some o -> t = tok_eqop o.
Proof. destruct t; try discriminate; intros [= <-]; reflexivity. Qed.
Lemma pop_rel_inv t o : pop_rel t = Some o -> t = tok_relop o.
Proof. destruct t; try discriminate; intros [= <-]; reflexivity. Qed.
Lemma pop_add_inv t o : pop_add t = Some o -> t = tok_addop o.
Proof. destruct t; try discriminate; intros [= <-]; reflexivity. Qed.
Lemma pop_mul_inv t o : pop_mul t = Some o -> t = tok_mulop o.
Proof. destruct t; try discriminate; intros [= <-]; reflexivity. Qed.

(* ---------- unfolding equations ---------- *)
Lemma p_or_S f ts : p_or (S f) ts = lvl_sep AOr is_oror (p_and f) f ts. Proof. reflexivity. Qed.
Lemma p_and_S f ts : p_and (S f) ts = lvl_sep AAnd is_andand (p_eq f) f ts. Proof. reflexivity. Qed.
Lemma p_eq_S f ts : p_eq (S f) ts = lvl_op AEq pop_eq (p_rel f) f ts. Proof. reflexivity. Qed.
Lemma p_rel_S f ts : p_rel (S f) ts = lvl_op ARel pop_rel (p_add f) f ts. Proof. reflexivity. Qed.
Lemma p_add_S f ts : p_add (S f) ts = lvl_op AAdd pop_add (p_mul f) f ts. Proof. reflexivity. Qed.
Lemma p_mul_S f ts : p_mul (S f) ts = lvl_op AMul pop_mul (p_un f) f ts. Proof. reflexivity. Qed.
Lemma p_un_S f t r : p_un (S f) (t :: r) =
  if is_bang t then
    match p_un f r with Some (u, r1) => Some (ANot u, r1) | None => None end
  else if is_minus t then
    match p_un f r with Some (u, r1) => Some (ANeg u, r1) | None => None end
  else
    match p_prim f (t :: r) with Some (p, r1) => Some (APrim p, r1) | None => None end.
Proof. reflexivity. Qed.
Lemma p_prim_S f t r : p_prim (S f) (t :: r) =
  match t with
  | TString s => Some (PVal (VStr s), r)
  | TNumber s => Some (PVal (VNum s), r)
  | TLBrack =>
      match lvl_sep PList is_comma p_value f r with
      | Some (pl, r1) =>
          match eat_tok is_rbrack r1 with Some r2 => Some (pl, r2) | None => None end
      | None => None
      end
  | TIdent x =>
      match eat_tok is_lparen r with
      | Some r1 =>
          match p_list_rparen (p_or f) f r1 with
          | Some (args, r2) => Some (PCall x args, r2)
          | None => None
          end
      | None =>
          match many_sep is_tdot (p_mov f) f r with
          | Some (ms, r1) => Some (PChain x ms, r1)
          | None => None
          end
      end
  | TLParen =>
      match p_or f r with
      | Some (e, r1) =>
          match eat_tok is_rparen r1 with Some r2 => Some (PParen e, r2) | None => None end
      | None => None
      end
  | _ => None
  end.
Proof. reflexivity. Qed.
Lemma p_mov_S f x r : p_mov (S f) (TIdent x :: r) =
  match eat_tok is_lparen r with
  | Some r1 =>
      match p_list_rparen (p_or f) f r1 with
      | Some (args, r2) => Some (AMCall x args, r2)
      | None => None
      end
  | None => Some (AMVar x, r)
  end.
Proof. reflexivity. Qed.

(* ---------- (a): the generic loops ---------- *)
Lemma many_sep_spec {A} is_sep sep (p : parser A) pr :
  is_sep sep = true ->
  forall r rest g,
  hd_is is_sep rest = false -> length r <= g ->
  (forall x rest', In x r -> hd_is is_sep rest' = true \/ rest' = rest ->
                   p (pr x ++ rest') = Some (x, rest')) ->
  many_sep is_sep p g (flat_map (fun x => sep :: pr x) r ++ rest) = Some (r, rest).
Proof.
  intros Hsep. induction r as [|x r IH]; intros rest g Hrest Hg Hp.
  - cbn [flat_map app]. destruct rest as [|t rest']; destruct g; cbn in *;
      rewrite ?Hrest; reflexivity.
  - cbn [flat_map]. rewrite <- app_assoc. cbn [app].
    destruct g as [|g]; [cbn in Hg; lia|]. cbn [many_sep]. rewrite Hsep.
    rewrite Hp.
    + rewrite IH; [reflexivity | exact Hrest | cbn in Hg; lia |].
      intros y rest' Hy Hr. apply Hp; [right; exact Hy | exact Hr].
    + left. reflexivity.
    + destruct r as [|y r']; [right; reflexivity | left; cbn; exact Hsep].
Qed.

Lemma many_op_spec {O A} (pop : token -> option O) tok_of (p : parser A) pr :
  (forall o, pop (tok_of o) = Some o) ->
  forall r rest g,
  hd_is (is_pop pop) rest = false -> length r <= g ->
  (forall q rest', In q r -> hd_is (is_pop pop) rest' = true \/ rest' = rest ->
                   p (pr (snd q) ++ rest') = Some (snd q, rest')) ->
  many_op pop p g (flat_map (fun q => tok_of (fst q) :: pr (snd q)) r ++ rest) = Some (r, rest).
Proof.
  intros Hpop. induction r as [|[o x] r IH]; intros rest g Hrest Hg Hp.
  - cbn [flat_map app]. destruct rest as [|t rest']; destruct g; cbn in *; try reflexivity;
      unfold is_pop in Hrest; destruct (pop t); (discriminate || reflexivity).
  - cbn [flat_map fst snd]. rewrite <- app_assoc. cbn [app].
    destruct g as [|g]; [cbn in Hg; lia|]. cbn [many_op]. rewrite Hpop.
    rewrite (Hp (o, x)).
    + rewrite IH; [reflexivity | exact Hrest | cbn in Hg; lia |].
      intros y rest' Hy Hr. apply Hp; [right; exact Hy | exact Hr].
    + left. reflexivity.
    + destruct r as [|[o' y] r']; [right; reflexivity|].
      left. cbn. unfold is_pop. rewrite Hpop. reflexivity.
Qed.

Lemma lvl_sep_spec {A B} (mk : A -> list A -> B) is_sep sep (p : parser A) pr g a r rest :
  is_sep sep = true -> hd_is is_sep rest = false -> length r <= g ->
  (forall x rest', x = a \/ In x r -> hd_is is_sep rest' = true \/ rest' = rest ->
                   p (pr x ++ rest') = Some (x, rest')) ->
  lvl_sep mk is_sep p g (pr_sep1 sep pr a r ++ rest) = Some (mk a r, rest).
Proof.
  intros Hsep Hrest Hg Hp. unfold lvl_sep, pr_sep1. rewrite <- app_assoc.
  rewrite Hp.
  - rewrite (many_sep_spec is_sep sep p pr Hsep r rest g Hrest Hg); [reflexivity|].
    intros x rest' Hx Hr. apply Hp; [right; exact Hx | exact Hr].
  - left. reflexivity.
  - destruct r as [|y r']; [right; reflexivity | left; cbn; exact Hsep].
Qed.

Lemma lvl_op_spec {O A B} (mk : A -> list (O * A) -> B) (pop : token -> option O) tok_of
  (p : parser A) pr g a r rest :
  (forall o, pop (tok_of o) = Some o) ->
  hd_is (is_pop pop) rest = false -> length r <= g ->
  (forall x rest', x = a \/ In x (map snd r) -> hd_is (is_pop pop) rest' = true \/ rest' = rest ->
                   p (pr x ++ rest') = Some (x, rest')) ->
  lvl_op mk pop p g (pr_op1 tok_of pr a r ++ rest) = Some (mk a r, rest).
Proof.
  intros Hpop Hrest Hg Hp. unfold lvl_op, pr_op1. rewrite <- app_assoc.
  rewrite Hp.
  - rewrite (many_op_spec pop tok_of p pr Hpop r rest g Hrest Hg); [reflexivity|].
    intros q rest' Hq Hr. apply Hp; [right; apply in_map, Hq | exact Hr].
  - left. reflexivity.
  - destruct r as [|[o y] r']; [right; reflexivity|].
    left. cbn. unfold is_pop. rewrite Hpop. reflexivity.
Qed.

(* ---------- lengths ---------- *)
Lemma len_flat_in {A} (f : A -> list token) x r : In x r -> L (f x) <= L (flat_map f r).
Proof.
  induction r as [|y r IH]; cbn; [tauto|]. rewrite app_length.
  intros [-> | H]; [lia | specialize (IH H); lia].
Qed.
Lemma len_flat_ge {A} (f : A -> list token) r :
  (forall x, 1 <= L (f x)) -> length r <= L (flat_map f r).
Proof.
  intro Hf. induction r as [|y r IH]; cbn; [lia|]. rewrite app_length.
  specialize (Hf y). lia.
Qed.

Lemma pr_sep1_len_in {A} sep (pr : A -> list token) a r x :
  x = a \/ In x r -> L (pr x) <= L (pr_sep1 sep pr a r).
Proof.
  unfold pr_sep1. rewrite app_length. intros [-> | H]; [lia|].
  pose proof (len_flat_in (fun x => sep :: pr x) x r H) as H'. cbn in H'. lia.
Qed.
Lemma pr_sep1_len_r {A} sep (pr : A -> list token) a r : length r <= L (pr_sep1 sep pr a r).
Proof.
  unfold pr_sep1. rewrite app_length.
  pose proof (len_flat_ge (fun x => sep :: pr x) r) as H. cbn in H.
  specialize (H ltac:(intros; lia)). lia.
Qed.
Lemma pr_op1_len_in {O A} (tok_of : O -> token) (pr : A -> list token) a r x :
  x = a \/ In x (map snd r) -> L (pr x) <= L (pr_op1 tok_of pr a r).
Proof.
  unfold pr_op1. rewrite app_length. intros [-> | H]; [lia|].
  apply in_map_iff in H. destruct H as (q & <- & Hq).
  pose proof (len_flat_in (fun q => tok_of (fst q) :: pr (snd q)) q r Hq) as H'. cbn in H'. lia.
Qed.
Lemma pr_op1_len_r {O A} (tok_of : O -> token) (pr : A -> list token) a r :
  length r <= L (pr_op1 tok_of pr a r).
Proof.
  unfold pr_op1. rewrite app_length.
  pose proof (len_flat_ge (fun q => tok_of (fst q) :: pr (snd q)) r) as H. cbn in H.
  specialize (H ltac:(intros; lia)). lia.
Qed.
Lemma pr_list1_len_in {A} (pr : A -> list token) l x : In x l -> L (pr x) <= L (pr_list1 pr l).
Proof.
  destruct l as [|a r]; [intros []|]. intro H. apply pr_sep1_len_in.
  destruct H as [-> | H]; auto.
Qed.
Lemma pr_list1_len {A} (pr : A -> list token) l : length l <= S (L (pr_list1 pr l)).
Proof.
  destruct l as [|a r]; cbn [length pr_list1]; [lia|].
  pose proof (pr_sep1_len_r TComma pr a r) as Hlen. lia.
Qed.

(* ---------- follow sets, as binding levels of the next token ---------- *)
Definition lvl (t : token) : nat :=
  match t with
  | TLParen | TDot => 0
  | TStar | TSlash => 1
  | TPlus | TMinus => 2
  | TLt | TGt | TLe | TGe | TIn => 3
  | TEqEq | TNeq => 4
  | TAndAnd => 5
  | TOrOr => 6
  | _ => 7
  end.

(* the next token does not continue an expression of level < k *)
Definition stop (k : nat) (rest : list token) : bool :=
  match rest with [] => true | t :: _ => k <=? lvl t end.

Lemma stop_mono j k rest : j <= k -> stop k rest = true -> stop j rest = true.
Proof.
  destruct rest as [|t r]; cbn [stop]; [reflexivity|]. rewrite !Nat.leb_le. lia.
Qed.
Lemma stop_hd (is_sep : token -> bool) k rest :
  (forall t, is_sep t = true -> lvl t = k) -> hd_is is_sep rest = true -> stop k rest = true.
Proof.
  intros H. destruct rest as [|t r]; cbn [stop hd_is]; [reflexivity|]. intro Ht.
  rewrite (H _ Ht). apply Nat.leb_refl.
Qed.
Lemma stop_not (is_sep : token -> bool) k rest :
  (forall t, is_sep t = true -> lvl t = k) -> stop (S k) rest = true -> hd_is is_sep rest = false.
Proof.
  intros H. destruct rest as [|t r]; cbn [stop hd_is]; [reflexivity|]. intro Hs.
  destruct (is_sep t) eqn:E; [|reflexivity]. rewrite (H _ E) in Hs.
  apply Nat.leb_le in Hs. lia.
Qed.

Lemma lvl_oror : forall t, is_oror t = true -> lvl t = 6. Proof. tok_cases. Qed.
Lemma lvl_andand : forall t, is_andand t = true -> lvl t = 5. Proof. tok_cases. Qed.
Lemma lvl_pop_eq : forall t, is_pop pop_eq t = true -> lvl t = 4. Proof. tok_cases. Qed.
Lemma lvl_pop_rel : forall t, is_pop pop_rel t = true -> lvl t = 3. Proof. tok_cases. Qed.
Lemma lvl_pop_add : forall t, is_pop pop_add t = true -> lvl t = 2. Proof. tok_cases. Qed.
Lemma lvl_pop_mul : forall t, is_pop pop_mul t = true -> lvl t = 1. Proof. tok_cases. Qed.
Lemma lvl_tdot : forall t, is_tdot t = true -> lvl t = 0. Proof. tok_cases. Qed.
Lemma lvl_lparen : forall t, is_lparen t = true -> lvl t = 0. Proof. tok_cases. Qed.
Lemma lvl_comma : forall t, is_comma t = true -> lvl t = 7. Proof. tok_cases. Qed.

(* ---------- (a): round trip for expressions ----------
   RT_gen pr p c k n : on the print of any e with at most n tokens, followed by a rest whose
   first token does not continue a level-k expression, p with fuel >= c + 4*tokens returns e. *)
Definition RT_gen {A} (pr : A -> list token) (p : nat -> parser A) (c k n : nat) : Prop :=
  forall e rest f, L (pr e) <= n -> c + 4 * L (pr e) <= f -> stop k rest = true ->
                   p f (pr e ++ rest) = Some (e, rest).

Definition RT_or := RT_gen pr_or p_or 8 7.
Definition RT_and := RT_gen pr_and p_and 7 6.
Definition RT_eq := RT_gen pr_eq p_eq 6 5.
Definition RT_rel := RT_gen pr_rel p_rel 5 4.
Definition RT_add := RT_gen pr_add p_add 4 3.
Definition RT_mul := RT_gen pr_mul p_mul 3 2.
Definition RT_un := RT_gen pr_un p_un 2 1.
Definition RT_prim := RT_gen pr_prim p_prim 1 1.
Definition RT_mov (n : nat) : Prop :=
  forall m rest f, L (pr_mov m) <= n -> 1 + 4 * L (pr_mov m) <= f ->
                   hd_is is_lparen rest = false ->
                   p_mov f (pr_mov m ++ rest) = Some (m, rest).

Lemma RT_sep_level {A B} (mk : A -> list A -> B) is_sep sep (prA : A -> list token)
  (pA : nat -> parser A) c k n :
  is_sep sep = true -> (forall t, is_sep t = true -> lvl t = k) ->
  RT_gen prA pA c k n ->
  forall a r rest f,
  L (pr_sep1 sep prA a r) <= n -> S c + 4 * L (pr_sep1 sep prA a r) <= S f ->
  stop (S k) rest = true ->
  lvl_sep mk is_sep (pA f) f (pr_sep1 sep prA a r ++ rest) = Some (mk a r, rest).
Proof.
  intros Hsep Hlvl H a r rest f Hn Hf Hs.
  apply lvl_sep_spec.
  - exact Hsep.
  - eapply stop_not; eauto.
  - pose proof (pr_sep1_len_r sep prA a r) as Hlen. lia.
  - intros x rest' Hx Hr. pose proof (pr_sep1_len_in sep prA a r x Hx) as Hlen.
    apply H; [lia | lia |].
    destruct Hr as [Hr | ->]; [eapply stop_hd; eauto | eapply stop_mono; [|exact Hs]; lia].
Qed.

Lemma RT_op_level {O A B} (mk : A -> list (O * A) -> B) (pop : token -> option O) tok_of
  (prA : A -> list token) (pA : nat -> parser A) c k n :
  (forall o, pop (tok_of o) = Some o) -> (forall t, is_pop pop t = true -> lvl t = k) ->
  RT_gen prA pA c k n ->
  forall a r rest f,
  L (pr_op1 tok_of prA a r) <= n -> S c + 4 * L (pr_op1 tok_of prA a r) <= S f ->
  stop (S k) rest = true ->
  lvl_op mk pop (pA f) f (pr_op1 tok_of prA a r ++ rest) = Some (mk a r, rest).
Proof.
  intros Hpop Hlvl H a r rest f Hn Hf Hs.
  apply lvl_op_spec.
  - exact Hpop.
  - eapply stop_not; eauto.
  - pose proof (pr_op1_len_r tok_of prA a r) as Hlen. lia.
  - intros x rest' Hx Hr. pose proof (pr_op1_len_in tok_of prA a r x Hx) as Hlen.
    apply H; [lia | lia |].
    destruct Hr as [Hr | ->]; [eapply stop_hd; eauto | eapply stop_mono; [|exact Hs]; lia].
Qed.

Lemma RT_or_step n : RT_and n -> RT_or n.
Proof.
  intros H [a r] rest f Hn Hf Hs. destruct f as [|f]; [lia|]. rewrite p_or_S.
  cbn [pr_or] in *. eapply RT_sep_level; eauto using lvl_oror.
Qed.
Lemma RT_and_step n : RT_eq n -> RT_and n.
Proof.
  intros H [a r] rest f Hn Hf Hs. destruct f as [|f]; [lia|]. rewrite p_and_S.
  cbn [pr_and] in *. eapply RT_sep_level; eauto using lvl_andand.
Qed.
Lemma RT_eq_step n : RT_rel n -> RT_eq n.
Proof.
  intros H [a r] rest f Hn Hf Hs. destruct f as [|f]; [lia|]. rewrite p_eq_S.
  cbn [pr_eq] in *. eapply RT_op_level; eauto using lvl_pop_eq, pop_eq_tok.
Qed.
Lemma RT_rel_step n : RT_add n -> RT_rel n.
Proof.
  intros H [a r] rest f Hn Hf Hs. destruct f as [|f]; [lia|]. rewrite p_rel_S.
  cbn [pr_rel] in *. eapply RT_op_level; eauto using lvl_pop_rel, pop_rel_tok.
Qed.
Lemma RT_add_step n : RT_mul n -> RT_add n.
Proof.
  intros H [a r] rest f Hn Hf Hs. destruct f as [|f]; [lia|]. rewrite p_add_S.
  cbn [pr_add] in *. eapply RT_op_level; eauto using lvl_pop_add, pop_add_tok.
Qed.
Lemma RT_mul_step n : RT_un n -> RT_mul n.
Proof.
  intros H [a r] rest f Hn Hf Hs. destruct f as [|f]; [lia|]. rewrite p_mul_S.
  cbn [pr_mul] in *. eapply RT_op_level; eauto using lvl_pop_mul, pop_mul_tok.
Qed.

(* first tokens *)
Definition starts_with (P : token -> bool) (ts : list token) : Prop :=
  exists t r, ts = t :: r /\ P t = true.
Lemma starts_app P a b : starts_with P a -> starts_with P (a ++ b).
Proof. intros (t & r & -> & H). exists t, (r ++ b). auto. Qed.

Definition prim_start (t : token) : bool :=
  match t with TString _ | TNumber _ | TLBrack | TIdent _ | TLParen => true | _ => false end.
Definition un_start (t : token) : bool := prim_start t || is_bang t || is_minus t.

Lemma pr_prim_start p : starts_with prim_start (pr_prim p).
Proof. destruct p as [[s|s]|v vs|x ms|f args|e]; cbn; eexists _, _; split; reflexivity. Qed.
Lemma pr_un_start u : starts_with un_start (pr_un u).
Proof.
  destruct u as [u|u|p]; cbn [pr_un]; try (eexists _, _; split; reflexivity).
  destruct (pr_prim_start p) as (t & r & -> & H). exists t, r. split; [reflexivity|].
  unfold un_start. rewrite H. reflexivity.
Qed.
Lemma pr_or_start e : starts_with un_start (pr_or e).
Proof.
  destruct e as [[[[[[u ?] ?] ?] ?] ?] ?].
  cbn [pr_or pr_and pr_eq pr_rel pr_add pr_mul]. unfold pr_sep1, pr_op1.
  repeat apply starts_app. apply pr_un_start.
Qed.
Lemma un_start_not_rparen ts rest : starts_with un_start ts -> hd_is is_rparen (ts ++ rest) = false.
Proof. intros (t & r & -> & H). cbn. destruct t; try discriminate H; reflexivity. Qed.

Lemma tdot_not_lparen rest : hd_is is_tdot rest = true -> hd_is is_lparen rest = false.
Proof. destruct rest as [|t r]; cbn; [reflexivity|]. destruct t; (discriminate || reflexivity). Qed.

(* ( item (',' item)* )? ')' *)
Lemma p_list_rparen_spec {A} (p : parser A) pr g l rest :
  (forall x rest', In x l -> hd_is is_rparen (pr x ++ rest') = false) ->
  (forall x rest', In x l -> hd_is is_comma rest' = true \/ rest' = TRParen :: rest ->
                   p (pr x ++ rest') = Some (x, rest')) ->
  length l <= S g ->
  p_list_rparen p g (pr_list1 pr l ++ TRParen :: rest) = Some (l, rest).
Proof.
  intros Hst Hp Hg. destruct l as [|a r]; [reflexivity|].
  cbn [pr_list1]. unfold p_list_rparen. rewrite eat_tok_none.
  2:{ unfold pr_sep1. rewrite <- app_assoc. apply Hst. left. reflexivity. }
  rewrite (lvl_sep_spec cons is_comma TComma p pr g a r (TRParen :: rest)); try reflexivity.
  - cbn in Hg. lia.
  - intros x rest' Hx Hr. apply Hp; [|exact Hr]. destruct Hx as [-> | Hx]; [left | right]; auto.
Qed.

Lemma args_spec n f args rest :
  (forall m, m < n -> RT_or m) ->
  L (pr_list1 pr_or args) < n -> 8 + 4 * L (pr_list1 pr_or args) <= f ->
  p_list_rparen (p_or f) f (pr_list1 pr_or args ++ TRParen :: rest) = Some (args, rest).
Proof.
  intros Hor Hn Hf. apply p_list_rparen_spec.
  - intros x rest' _. apply un_start_not_rparen, pr_or_start.
  - intros x rest' Hx Hr. pose proof (pr_list1_len_in pr_or args x Hx) as Hl.
    apply (Hor (L (pr_or x))); [lia | lia | lia |].
    destruct Hr as [Hr | ->]; [exact (stop_hd _ _ _ lvl_comma Hr) | reflexivity].
  - pose proof (pr_list1_len pr_or args) as Hlen. lia.
Qed.

Ltac lens := repeat (progress (cbn [length] in *; rewrite ?app_length in *)).

Lemma RT_mov_step n : (forall m, m < n -> RT_or m) -> RT_mov n.
Proof.
  intros Hor m rest f Hn Hf Hs. destruct f as [|f]; [lia|].
  destruct m as [x|g args]; cbn [pr_mov] in *.
  - cbn [app]. rewrite p_mov_S, (eat_tok_none _ _ Hs). reflexivity.
  - cbn [app]. rewrite <- app_assoc. cbn [app]. rewrite p_mov_S. cbn [eat_tok is_lparen].
    lens. rewrite (args_spec n); [reflexivity | exact Hor | lia | lia].
Qed.

Lemma RT_prim_step n :
  (forall m, m < n -> RT_or m) -> (forall m, m < n -> RT_mov m) -> RT_prim n.
Proof.
  intros Hor Hmov p rest f Hn Hf Hs. destruct f as [|f]; [lia|].
  destruct p as [[s|s]|v vs|x ms|g args|e]; cbn [pr_prim pr_value1 pr_value] in *.
  - reflexivity.
  - reflexivity.
  - cbn [app]. rewrite <- app_assoc. cbn [app]. rewrite p_prim_S.
    rewrite (lvl_sep_spec PList is_comma TComma p_value pr_value1 f v vs (TRBrack :: rest));
      try reflexivity.
    + pose proof (pr_sep1_len_r TComma pr_value1 v vs) as Hlen. lens. lia.
    + intros [s|s] rest' _ _; reflexivity.
  - cbn [app]. rewrite p_prim_S.
    assert (Hdot : hd_is is_tdot rest = false) by (eapply stop_not; eauto using lvl_tdot).
    assert (Hlp : hd_is is_lparen rest = false) by (eapply stop_not; eauto using lvl_lparen).
    rewrite eat_tok_none by (destruct ms; [exact Hlp | reflexivity]).
    rewrite (many_sep_spec is_tdot TDot (p_mov f) pr_mov eq_refl ms rest f Hdot); [reflexivity| |].
    + pose proof (len_flat_ge (fun m => TDot :: pr_mov m) ms ltac:(intros; cbn; lia)) as Hlen.
      lens. lia.
    + intros m rest' Hm Hr.
      pose proof (len_flat_in (fun m => TDot :: pr_mov m) m ms Hm) as Hl. lens.
      apply (Hmov (L (pr_mov m))); [lia | lia | lia |].
      destruct Hr as [Hr | ->]; [apply tdot_not_lparen, Hr | exact Hlp].
  - cbn [app]. rewrite <- app_assoc. cbn [app]. rewrite p_prim_S. cbn [eat_tok is_lparen].
    lens. rewrite (args_spec n); [reflexivity | exact Hor | lia | lia].
  - cbn [app]. rewrite <- app_assoc. cbn [app]. rewrite p_prim_S.
    lens. rewrite (Hor (L (pr_or e))); [reflexivity | lia | lia | lia | reflexivity].
Qed.

Lemma prim_start_not_op t : prim_start t = true -> is_bang t = false /\ is_minus t = false.
Proof. destruct t; try discriminate; auto. Qed.

Lemma RT_un_step n : RT_prim n -> (forall m, m < n -> RT_un m) -> RT_un n.
Proof.
  intros Hp IH u rest f Hn Hf Hs. destruct f as [|f]; [lia|].
  destruct u as [u|u|p]; cbn [pr_un] in *.
  - cbn [app]. rewrite p_un_S. cbn [is_bang]. lens.
    rewrite (IH (L (pr_un u))); [reflexivity | lia | lia | lia | exact Hs].
  - cbn [app]. rewrite p_un_S. cbn [is_bang is_minus]. lens.
    rewrite (IH (L (pr_un u))); [reflexivity | lia | lia | lia | exact Hs].
  - destruct (pr_prim_start p) as (t & r & E & Ht).
    destruct (prim_start_not_op _ Ht) as [Hb Hm].
    assert (E' : pr_prim p ++ rest = t :: (r ++ rest)) by (rewrite E; reflexivity).
    rewrite E', p_un_S, Hb, Hm, <- E'.
    rewrite Hp; [reflexivity | lia | lia | exact Hs].
Qed.

Definition RT (n : nat) : Prop :=
  RT_prim n /\ RT_mov n /\ RT_un n /\ RT_mul n /\ RT_add n /\ RT_rel n /\ RT_eq n /\
  RT_and n /\ RT_or n.

Lemma RT_all : forall n, RT n.
Proof.
  induction n as [n IH] using lt_wf_ind.
  assert (Hor : forall m, m < n -> RT_or m) by (intros m Hm; apply (IH m Hm)).
  assert (Hmov : forall m, m < n -> RT_mov m) by (intros m Hm; apply (IH m Hm)).
  assert (Hun : forall m, m < n -> RT_un m) by (intros m Hm; apply (IH m Hm)).
  pose proof (RT_prim_step n Hor Hmov) as H1.
  pose proof (RT_mov_step n Hor) as H2.
  pose proof (RT_un_step n H1 Hun) as H3.
  pose proof (RT_mul_step n H3) as H4.
  pose proof (RT_add_step n H4) as H5.
  pose proof (RT_rel_step n H5) as H6.
  pose proof (RT_eq_step n H6) as H7.
  pose proof (RT_and_step n H7) as H8.
  pose proof (RT_or_step n H8) as H9.
  unfold RT. tauto.
Qed.

Lemma p_or_print e rest f :
  8 + 4 * L (pr_or e) <= f -> stop 7 rest = true -> p_or f (pr_or e ++ rest) = Some (e, rest).
Proof. intros Hf Hs. apply (RT_all (L (pr_or e))); auto. Qed.

Lemma p_mov_print m rest f :
  1 + 4 * L (pr_mov m) <= f -> hd_is is_lparen rest = false ->
  p_mov f (pr_mov m ++ rest) = Some (m, rest).
Proof. intros Hf Hs. apply (RT_all (L (pr_mov m))); auto. Qed.

(* ---------- (a): the query ---------- *)
Lemma p_pred_rest_print d rest f :
  8 + 4 * L (pr_pred_rest d) <= f -> p_pred_rest f (pr_pred_rest d ++ rest) = Some (d, rest).
Proof.
  destruct d as [name params body]. unfold pr_pred_rest. cbn [ap_name ap_params ap_body].
  intro Hf. lens.
  cbn [app]. rewrite <- app_assoc. cbn [app]. rewrite <- app_assoc. cbn [app].
  unfold p_pred_rest. cbn [eat_tok is_lparen].
  rewrite (p_list_rparen_spec p_param pr_param f params).
  - cbn [eat_tok is_lbrace]. rewrite p_or_print; [reflexivity | lia | reflexivity].
  - intros [a b] rest' _. reflexivity.
  - intros [a b] rest' _ _. reflexivity.
  - pose proof (pr_list1_len pr_param params) as Hlen. lia.
Qed.

Lemma mk_sel_chain m ms : sel_okb (ASelChain m ms) = true -> mk_sel m ms = ASelChain m ms.
Proof. destruct m; destruct ms; cbn; (discriminate || reflexivity). Qed.

Lemma p_sel_print s rest f :
  sel_okb s = true -> 1 + 4 * L (pr_sel s) <= f ->
  hd_is is_tdot rest = false -> hd_is is_lparen rest = false ->
  p_sel f (pr_sel s ++ rest) = Some (s, rest).
Proof.
  intros Hok Hf Hd Hl.
  assert (G : forall m ms, 1 + 4 * L (pr_sep1 TDot pr_mov m ms) <= f ->
              lvl_sep mk_sel is_tdot (p_mov f) f (pr_sep1 TDot pr_mov m ms ++ rest)
              = Some (mk_sel m ms, rest)).
  { intros m ms Hf'. apply lvl_sep_spec; [reflexivity | exact Hd | |].
    - pose proof (pr_sep1_len_r TDot pr_mov m ms) as Hlen. lia.
    - intros x rest' Hx Hr. pose proof (pr_sep1_len_in TDot pr_mov m ms x Hx) as Hlen.
      apply p_mov_print; [lia|].
      destruct Hr as [Hr | ->]; [apply tdot_not_lparen, Hr | exact Hl]. }
  destruct s as [x|m ms|s]; cbn [pr_sel] in *.
  - exact (G (AMVar x) [] Hf).
  - fold (pr_sep1 TDot pr_mov m ms) in *. rewrite <- (mk_sel_chain _ _ Hok), <- (G m ms Hf).
    unfold pr_sep1. destruct m; reflexivity.
  - reflexivity.
Qed.

Lemma p_query_print q f :
  aquery_shapeb q = true -> 8 + 4 * L (tokens_of_query q) <= f ->
  p_query f (tokens_of_query q) = Some q.
Proof.
  destruct q as [preds from w sel]. unfold aquery_shapeb, tokens_of_query.
  cbn [aq_preds aq_from aq_where aq_select]. intros Hshape Hf.
  apply andb_true_iff in Hshape. destruct Hshape as [Hshape Hsel].
  apply andb_true_iff in Hshape. destruct Hshape as [Hfrom Hsel1].
  destruct from as [|fa fr]; [discriminate Hfrom|].
  destruct sel as [|sa sr]; [discriminate Hsel1|].
  cbn [pr_list1] in *.
  set (P := flat_map (fun d => TPredicate :: pr_pred_rest d) preds) in *.
  set (Fm := pr_sep1 TComma pr_from_item fa fr) in *.
  set (Sl := pr_sep1 TComma pr_sel sa sr) in *.
  assert (Hlen : L (P ++ TFrom :: Fm ++ pr_where w ++ TSelect :: Sl)
                 = L P + S (L Fm + (L (pr_where w) + S (L Sl)))) by (now lens).
  rewrite Hlen in Hf. clear Hlen.
  unfold p_query.
  (* predicate declarations *)
  unfold P at 1.
  rewrite (many_sep_spec is_predicate TPredicate (p_pred_rest f) pr_pred_rest eq_refl preds);
    [ | reflexivity | |].
  2:{ pose proof (len_flat_ge (fun d => TPredicate :: pr_pred_rest d) preds
                    ltac:(intros; cbn; lia)) as HlenP. fold P in HlenP. lia. }
  2:{ intros d rest' Hd _. apply p_pred_rest_print.
      pose proof (len_flat_in (fun d => TPredicate :: pr_pred_rest d) d preds Hd) as Hl.
      fold P in Hl. cbn [length] in Hl. lia. }
  cbn [eat_tok is_from].
  (* FROM list *)
  unfold Fm at 1.
  rewrite (lvl_sep_spec cons is_comma TComma p_from_item pr_from_item f fa fr).
  2: reflexivity.
  2:{ destruct w; reflexivity. }
  2:{ pose proof (pr_sep1_len_r TComma pr_from_item fa fr) as HlenF. fold Fm in HlenF. lia. }
  2:{ intros [a b] rest' _ _. reflexivity. }
  (* WHERE *)
  assert (Hw : p_where f (pr_where w ++ TSelect :: Sl) = Some (w, TSelect :: Sl)).
  { destruct w as [e|]; cbn [pr_where app]; unfold p_where; cbn [eat_tok is_where].
    - rewrite p_or_print; [reflexivity | cbn [pr_where length] in Hf; lia | reflexivity].
    - reflexivity. }
  rewrite Hw. cbn [eat_tok is_select].
  (* SELECT list *)
  rewrite <- (app_nil_r Sl). unfold Sl at 1.
  rewrite (lvl_sep_spec cons is_comma TComma (p_sel f) pr_sel f sa sr []); try reflexivity.
  - pose proof (pr_sep1_len_r TComma pr_sel sa sr) as HlenS. fold Sl in HlenS. lia.
  - intros s rest' Hs Hr. pose proof (pr_sep1_len_in TComma pr_sel sa sr s Hs) as Hl.
    fold Sl in Hl.
    assert (Hok : sel_okb s = true).
    { rewrite forallb_forall in Hsel. apply Hsel. destruct Hs as [-> | Hs]; [left | right]; auto. }
    apply p_sel_print; [exact Hok | lia | |];
      (destruct Hr as [Hr | ->]; [|reflexivity]);
      destruct rest' as [|t r']; try reflexivity; destruct t; (discriminate Hr || reflexivity).
Qed.

(* the token-level round trip only needs the shape conditions ... *)
Theorem parse_print_shape : forall q,
  aquery_shapeb q = true -> parse_tokens (tokens_of_query q) = Some q.
Proof. intros q Hq. apply p_query_print; [exact Hq | unfold parse_fuel; lia]. Qed.
Print Assumptions parse_print_shape.

(* ... so a fortiori it holds for well-formed queries *)
Theorem parse_print : forall q,
  aquery_wfb q = true -> parse_tokens (tokens_of_query q) = Some q.
Proof.
  intros q Hq. unfold aquery_wfb in Hq. apply andb_true_iff in Hq. apply parse_print_shape, Hq.
Qed.
Print Assumptions parse_print.

(* ---------- (c) ---------- *)
Theorem C11_roundtrip : forall q lay,
  aquery_wfb q = true -> separable (tokens_of_query q) lay = true ->
  parse_query (render (tokens_of_query q) lay) = Some q.
Proof.
  intros q lay Hq Hsep. unfold aquery_wfb in Hq. apply andb_true_iff in Hq.
  destruct Hq as [Hshape Hwf]. unfold parse_query.
  rewrite (lex_render _ _ Hwf Hsep). apply parse_print_shape, Hshape.
Qed.
Print Assumptions C11_roundtrip.

(* ---------- (b): soundness ---------- *)
Definition SD_gen {A} (pr : A -> list token) (p : parser A) : Prop :=
  forall ts e rest, p ts = Some (e, rest) -> ts = pr e ++ rest.

Lemma many_sep_sound {A} is_sep sep (p : parser A) pr :
  (forall t, is_sep t = true -> t = sep) -> SD_gen pr p ->
  forall g ts r rest, many_sep is_sep p g ts = Some (r, rest) ->
                      ts = flat_map (fun x => sep :: pr x) r ++ rest.
Proof.
  intros Hsep Hp. induction g as [|g IH]; intros ts r rest H;
    destruct ts as [|t ts']; cbn [many_sep] in H.
  - inversion H; reflexivity.
  - destruct (is_sep t); [discriminate H | inversion H; reflexivity].
  - inversion H; reflexivity.
  - destruct (is_sep t) eqn:Et; [|inversion H; reflexivity].
    apply Hsep in Et. subst t.
    destruct (p ts') as [[x ts1]|] eqn:Ep; [|discriminate H].
    destruct (many_sep is_sep p g ts1) as [[xs ts2]|] eqn:Em; [|discriminate H].
    inversion H; subst. apply Hp in Ep. apply IH in Em. subst.
    cbn [flat_map]. rewrite <- app_assoc. reflexivity.
Qed.

Lemma many_op_sound {O A} (pop : token -> option O) tok_of (p : parser A) pr :
  (forall t o, pop t = Some o -> t = tok_of o) -> SD_gen pr p ->
  forall g ts r rest, many_op pop p g ts = Some (r, rest) ->
                      ts = flat_map (fun q => tok_of (fst q) :: pr (snd q)) r ++ rest.
Proof.
  intros Hpop Hp. induction g as [|g IH]; intros ts r rest H;
    destruct ts as [|t ts']; cbn [many_op] in H.
  - inversion H; reflexivity.
  - destruct (pop t); [discriminate H | inversion H; reflexivity].
  - inversion H; reflexivity.
  - destruct (pop t) as [o|] eqn:Et; [|inversion H; reflexivity].
    apply Hpop in Et. subst t.
    destruct (p ts') as [[x ts1]|] eqn:Ep; [|discriminate H].
    destruct (many_op pop p g ts1) as [[xs ts2]|] eqn:Em; [|discriminate H].
    inversion H; subst. apply Hp in Ep. apply IH in Em. subst.
    cbn [flat_map fst snd]. rewrite <- app_assoc. reflexivity.
Qed.

Lemma lvl_sep_sound {A B} (mk : A -> list A -> B) is_sep sep (p : parser A) pr :
  (forall t, is_sep t = true -> t = sep) -> SD_gen pr p ->
  forall g ts b rest, lvl_sep mk is_sep p g ts = Some (b, rest) ->
                      exists a r, b = mk a r /\ ts = pr_sep1 sep pr a r ++ rest.
Proof.
  intros Hsep Hp g ts b rest H. unfold lvl_sep in H.
  destruct (p ts) as [[a ts1]|] eqn:Ep; [|discriminate H].
  destruct (many_sep is_sep p g ts1) as [[r ts2]|] eqn:Em; [|discriminate H].
  inversion H; subst. apply Hp in Ep.
  apply (many_sep_sound is_sep sep p pr Hsep Hp) in Em. subst.
  exists a, r. split; [reflexivity|]. unfold pr_sep1. rewrite <- app_assoc. reflexivity.
Qed.

Lemma lvl_op_sound {O A B} (mk : A -> list (O * A) -> B) (pop : token -> option O) tok_of
  (p : parser A) pr :
  (forall t o, pop t = Some o -> t = tok_of o) -> SD_gen pr p ->
  forall g ts b rest, lvl_op mk pop p g ts = Some (b, rest) ->
                      exists a r, b = mk a r /\ ts = pr_op1 tok_of pr a r ++ rest.
Proof.
  intros Hpop Hp g ts b rest H. unfold lvl_op in H.
  destruct (p ts) as [[a ts1]|] eqn:Ep; [|discriminate H].
  destruct (many_op pop p g ts1) as [[r ts2]|] eqn:Em; [|discriminate H].
  inversion H; subst. apply Hp in Ep.
  apply (many_op_sound pop tok_of p pr Hpop Hp) in Em. subst.
  exists a, r. split; [reflexivity|]. unfold pr_op1. rewrite <- app_assoc. reflexivity.
Qed.

Lemma p_list_rparen_sound {A} (p : parser A) pr g :
  SD_gen pr p ->
  forall ts l rest, p_list_rparen p g ts = Some (l, rest) ->
                    ts = pr_list1 pr l ++ TRParen :: rest.
Proof.
  intros Hp ts l rest H. unfold p_list_rparen in H.
  destruct (eat_tok is_rparen ts) as [r|] eqn:E.
  - inversion H; subst. apply eat_tok_some in E. destruct E as (t & -> & Ht).
    apply is_rparen_inv in Ht. subst. reflexivity.
  - destruct (lvl_sep cons is_comma p g ts) as [[l' ts1]|] eqn:El; [|discriminate H].
    destruct (eat_tok is_rparen ts1) as [ts2|] eqn:E2; [|discriminate H].
    inversion H; subst.
    apply (lvl_sep_sound cons is_comma TComma p pr is_comma_inv Hp) in El.
    destruct El as (a & r & -> & ->).
    apply eat_tok_some in E2. destruct E2 as (t & -> & Ht).
    apply is_rparen_inv in Ht. subst. reflexivity.
Qed.

Lemma p_value_sound : SD_gen pr_value1 p_value.
Proof.
  intros ts e rest H. destruct ts as [|t r]; [discriminate H|].
  destruct t; try discriminate H; inversion H; reflexivity.
Qed.

Definition SD (f : nat) : Prop :=
  SD_gen pr_or (p_or f) /\ SD_gen pr_and (p_and f) /\ SD_gen pr_eq (p_eq f) /\
  SD_gen pr_rel (p_rel f) /\ SD_gen pr_add (p_add f) /\ SD_gen pr_mul (p_mul f) /\
  SD_gen pr_un (p_un f) /\ SD_gen pr_prim (p_prim f) /\ SD_gen pr_mov (p_mov f).

Lemma SD_all : forall f, SD f.
Proof.
  induction f as [|f IH].
  - unfold SD, SD_gen. repeat split; intros ts e rest H; discriminate H.
  - destruct IH as (Hor & Hand & Heq & Hrel & Hadd & Hmul & Hun & Hprim & Hmov).
    unfold SD. repeat split; intros ts e rest H.
    + rewrite p_or_S in H.
      apply (lvl_sep_sound AOr is_oror TOrOr (p_and f) pr_and is_oror_inv Hand) in H.
      destruct H as (a & r & -> & ->). reflexivity.
    + rewrite p_and_S in H.
      apply (lvl_sep_sound AAnd is_andand TAndAnd (p_eq f) pr_eq is_andand_inv Heq) in H.
      destruct H as (a & r & -> & ->). reflexivity.
    + rewrite p_eq_S in H.
      apply (lvl_op_sound AEq pop_eq tok_eqop (p_rel f) pr_rel pop_eq_inv Hrel) in H.
      destruct H as (a & r & -> & ->). reflexivity.
    + rewrite p_rel_S in H.
      apply (lvl_op_sound ARel pop_rel tok_relop (p_add f) pr_add pop_rel_inv Hadd) in H.
      destruct H as (a & r & -> & ->). reflexivity.
    + rewrite p_add_S in H.
      apply (lvl_op_sound AAdd pop_add tok_addop (p_mul f) pr_mul pop_add_inv Hmul) in H.
      destruct H as (a & r & -> & ->). reflexivity.
    + rewrite p_mul_S in H.
      apply (lvl_op_sound AMul pop_mul tok_mulop (p_un f) pr_un pop_mul_inv Hun) in H.
      destruct H as (a & r & -> & ->). reflexivity.
    + (* unary *)
      destruct ts as [|t r]; [discriminate H|]. rewrite p_un_S in H.
      destruct (is_bang t) eqn:Eb.
      { apply is_bang_inv in Eb. subst t.
        destruct (p_un f r) as [[u r1]|] eqn:E; [|discriminate H].
        inversion H; subst. apply Hun in E. subst. reflexivity. }
      destruct (is_minus t) eqn:Em.
      { apply is_minus_inv in Em. subst t.
        destruct (p_un f r) as [[u r1]|] eqn:E; [|discriminate H].
        inversion H; subst. apply Hun in E. subst. reflexivity. }
      destruct (p_prim f (t :: r)) as [[p r1]|] eqn:E; [|discriminate H].
      inversion H; subst. apply Hprim in E. exact E.
    + (* primary *)
      destruct ts as [|t r]; [discriminate H|]. rewrite p_prim_S in H.
      destruct t; try discriminate H.
      * (* ( e ) *)
        destruct (p_or f r) as [[e0 r1]|] eqn:E; [|discriminate H].
        destruct (eat_tok is_rparen r1) as [r2|] eqn:E2; [|discriminate H].
        inversion H; subst. apply Hor in E. apply eat_tok_some in E2.
        destruct E2 as (t & -> & Ht). apply is_rparen_inv in Ht. subst.
        cbn [pr_prim app]. rewrite <- app_assoc. reflexivity.
      * (* [ v, ... ] *)
        destruct (lvl_sep PList is_comma p_value f r) as [[pl r1]|] eqn:E; [|discriminate H].
        destruct (eat_tok is_rbrack r1) as [r2|] eqn:E2; [|discriminate H].
        inversion H; subst.
        apply (lvl_sep_sound PList is_comma TComma p_value pr_value1 is_comma_inv
                 p_value_sound) in E.
        destruct E as (v & vs & -> & ->). apply eat_tok_some in E2.
        destruct E2 as (t & -> & Ht). apply is_rbrack_inv in Ht. subst.
        cbn [pr_prim app]. rewrite <- app_assoc. reflexivity.
      * inversion H; reflexivity.
      * inversion H; reflexivity.
      * (* identifier: call or chain *)
        destruct (eat_tok is_lparen r) as [r1|] eqn:E1.
        { destruct (p_list_rparen (p_or f) f r1) as [[args r2]|] eqn:E; [|discriminate H].
          inversion H; subst. apply eat_tok_some in E1. destruct E1 as (t & -> & Ht).
          apply is_lparen_inv in Ht. subst.
          apply (p_list_rparen_sound (p_or f) pr_or f Hor) in E. subst.
          cbn [pr_prim app]. rewrite <- app_assoc. reflexivity. }
        destruct (many_sep is_tdot (p_mov f) f r) as [[ms r1]|] eqn:E; [|discriminate H].
        inversion H; subst.
        apply (many_sep_sound is_tdot TDot (p_mov f) pr_mov is_tdot_inv Hmov) in E. subst.
        reflexivity.
    + (* method or variable *)
      destruct ts as [|t r]; [discriminate H|]. destruct t; try discriminate H.
      rewrite p_mov_S in H.
      destruct (eat_tok is_lparen r) as [r1|] eqn:E1.
      { destruct (p_list_rparen (p_or f) f r1) as [[args r2]|] eqn:E; [|discriminate H].
        inversion H; subst. apply eat_tok_some in E1. destruct E1 as (t & -> & Ht).
        apply is_lparen_inv in Ht. subst.
        apply (p_list_rparen_sound (p_or f) pr_or f Hor) in E. subst.
        cbn [pr_mov app]. rewrite <- app_assoc. reflexivity. }
      inversion H; reflexivity.
Qed.

Lemma p_or_sound f : SD_gen pr_or (p_or f). Proof. apply SD_all. Qed.
Lemma p_mov_sound f : SD_gen pr_mov (p_mov f). Proof. apply SD_all. Qed.

Theorem tokens_of_orx_sound : forall f ts e rest,
  p_or f ts = Some (e, rest) -> ts = tokens_of_orx e ++ rest.
Proof. intros f ts e rest H. exact (p_or_sound f ts e rest H). Qed.

Lemma p_param_sound : SD_gen pr_param p_param.
Proof.
  intros ts e rest H. unfold p_param in H.
  destruct ts as [|t1 r1]; [discriminate H|]. destruct t1; try discriminate H.
  destruct r1 as [|t2 r2]; [discriminate H|]. destruct t2; try discriminate H.
  inversion H; reflexivity.
Qed.

Lemma p_from_item_sound : SD_gen pr_from_item p_from_item.
Proof.
  intros ts e rest H. unfold p_from_item in H.
  destruct ts as [|t1 r1]; [discriminate H|]. destruct t1; try discriminate H.
  destruct r1 as [|t2 r2]; [discriminate H|]. destruct t2; try discriminate H.
  destruct r2 as [|t3 r3]; [discriminate H|]. destruct t3; try discriminate H.
  inversion H; reflexivity.
Qed.

Lemma p_pred_rest_sound f : SD_gen pr_pred_rest (p_pred_rest f).
Proof.
  intros ts d rest H. unfold p_pred_rest in H.
  destruct ts as [|t r]; [discriminate H|]. destruct t; try discriminate H.
  destruct (eat_tok is_lparen r) as [r1|] eqn:E1; [|discriminate H].
  destruct (p_list_rparen p_param f r1) as [[params r2]|] eqn:E2; [|discriminate H].
  destruct (eat_tok is_lbrace r2) as [r3|] eqn:E3; [|discriminate H].
  destruct (p_or f r3) as [[body r4]|] eqn:E4; [|discriminate H].
  destruct (eat_tok is_rbrace r4) as [r5|] eqn:E5; [|discriminate H].
  inversion H; subst.
  apply eat_tok_some in E1. destruct E1 as (t1 & -> & Ht1). apply is_lparen_inv in Ht1.
  apply (p_list_rparen_sound p_param pr_param f p_param_sound) in E2.
  apply eat_tok_some in E3. destruct E3 as (t3 & -> & Ht3). apply is_lbrace_inv in Ht3.
  apply p_or_sound in E4.
  apply eat_tok_some in E5. destruct E5 as (t5 & -> & Ht5). apply is_rbrace_inv in Ht5.
  subst. unfold pr_pred_rest. cbn [ap_name ap_params ap_body app].
  rewrite <- !app_assoc. cbn [app]. rewrite <- app_assoc. reflexivity.
Qed.

Lemma pr_sel_mk m ms : pr_sel (mk_sel m ms) = pr_sep1 TDot pr_mov m ms.
Proof. destruct m; destruct ms; reflexivity. Qed.

Lemma p_sel_sound f : SD_gen pr_sel (p_sel f).
Proof.
  intros ts s rest H.
  assert (G : lvl_sep mk_sel is_tdot (p_mov f) f ts = Some (s, rest) -> ts = pr_sel s ++ rest).
  { intro H'.
    apply (lvl_sep_sound mk_sel is_tdot TDot (p_mov f) pr_mov is_tdot_inv (p_mov_sound f)) in H'.
    destruct H' as (m & ms & -> & ->). rewrite pr_sel_mk. reflexivity. }
  unfold p_sel in H. destruct ts as [|t r]; [exact (G H)|].
  destruct t; try exact (G H). inversion H; reflexivity.
Qed.

Lemma p_where_sound f ts w rest : p_where f ts = Some (w, rest) -> ts = pr_where w ++ rest.
Proof.
  unfold p_where. intro H. destruct (eat_tok is_where ts) as [r|] eqn:E.
  - destruct (p_or f r) as [[e r1]|] eqn:E1; [|discriminate H]. inversion H; subst.
    apply eat_tok_some in E. destruct E as (t & -> & Ht). apply is_where_inv in Ht. subst.
    apply p_or_sound in E1. subst. reflexivity.
  - inversion H; subst. reflexivity.
Qed.

Lemma p_query_sound f ts q : p_query f ts = Some q -> tokens_of_query q = ts.
Proof.
  unfold p_query. intro H.
  destruct (many_sep is_predicate (p_pred_rest f) f ts) as [[preds r1]|] eqn:E1; [|discriminate H].
  destruct (eat_tok is_from r1) as [r2|] eqn:E2; [|discriminate H].
  destruct (lvl_sep cons is_comma p_from_item f r2) as [[from r3]|] eqn:E3; [|discriminate H].
  destruct (p_where f r3) as [[w r4]|] eqn:E4; [|discriminate H].
  destruct (eat_tok is_select r4) as [r5|] eqn:E5; [|discriminate H].
  destruct (lvl_sep cons is_comma (p_sel f) f r5) as [[sel r6]|] eqn:E6; [|discriminate H].
  destruct r6; [|discriminate H]. inversion H; subst. clear H.
  apply (many_sep_sound is_predicate TPredicate (p_pred_rest f) pr_pred_rest is_predicate_inv
           (p_pred_rest_sound f)) in E1.
  apply eat_tok_some in E2. destruct E2 as (t2 & -> & Ht2). apply is_from_inv in Ht2.
  apply (lvl_sep_sound cons is_comma TComma p_from_item pr_from_item is_comma_inv
           p_from_item_sound) in E3.
  destruct E3 as (fa & fr & -> & ->).
  apply p_where_sound in E4.
  apply eat_tok_some in E5. destruct E5 as (t5 & -> & Ht5). apply is_select_inv in Ht5.
  apply (lvl_sep_sound cons is_comma TComma (p_sel f) pr_sel is_comma_inv (p_sel_sound f)) in E6.
  destruct E6 as (sa & sr & -> & ->).
  subst. unfold tokens_of_query. cbn [aq_preds aq_from aq_where aq_select pr_list1].
  rewrite app_nil_r. reflexivity.
Qed.

Theorem print_parse : forall ts q, parse_tokens ts = Some q -> tokens_of_query q = ts.
Proof. intros ts q H. exact (p_query_sound _ _ _ H). Qed.
Print Assumptions print_parse.

(* ---------- consequences ---------- *)
(* what the parser returns is well-shaped, so the accepted token language is exactly the image
   of the printer on well-shaped ASTs *)
Lemma many_sep_forall {A} (P : A -> Prop) is_sep (p : parser A) :
  (forall ts x rest, p ts = Some (x, rest) -> P x) ->
  forall g ts r rest, many_sep is_sep p g ts = Some (r, rest) -> Forall P r.
Proof.
  intros Hp. induction g as [|g IH]; intros ts r rest H;
    destruct ts as [|t ts']; cbn [many_sep] in H.
  - inversion H; constructor.
  - destruct (is_sep t); [discriminate H | inversion H; constructor].
  - inversion H; constructor.
  - destruct (is_sep t); [|inversion H; constructor].
    destruct (p ts') as [[x ts1]|] eqn:Ep; [|discriminate H].
    destruct (many_sep is_sep p g ts1) as [[xs ts2]|] eqn:Em; [|discriminate H].
    inversion H; subst. constructor; [exact (Hp _ _ _ Ep) | exact (IH _ _ _ Em)].
Qed.

Lemma p_sel_ok f ts s rest : p_sel f ts = Some (s, rest) -> sel_okb s = true.
Proof.
  assert (G : lvl_sep mk_sel is_tdot (p_mov f) f ts = Some (s, rest) -> sel_okb s = true).
  { intro H.
    apply (lvl_sep_sound mk_sel is_tdot TDot (p_mov f) pr_mov is_tdot_inv (p_mov_sound f)) in H.
    destruct H as (m & ms & -> & _). destruct m; destruct ms; reflexivity. }
  unfold p_sel. destruct ts as [|t r]; [exact G|].
  destruct t; try exact G. intro H; inversion H; reflexivity.
Qed.

Lemma p_query_shape f ts q : p_query f ts = Some q -> aquery_shapeb q = true.
Proof.
  unfold p_query. intro H.
  destruct (many_sep is_predicate (p_pred_rest f) f ts) as [[preds r1]|]; [|discriminate H].
  destruct (eat_tok is_from r1) as [r2|]; [|discriminate H].
  destruct (lvl_sep cons is_comma p_from_item f r2) as [[from r3]|] eqn:E3; [|discriminate H].
  destruct (p_where f r3) as [[w r4]|]; [|discriminate H].
  destruct (eat_tok is_select r4) as [r5|]; [|discriminate H].
  destruct (lvl_sep cons is_comma (p_sel f) f r5) as [[sel r6]|] eqn:E6; [|discriminate H].
  destruct r6; [|discriminate H]. inversion H; subst. clear H.
  unfold lvl_sep in E3, E6.
  destruct (p_from_item r2) as [[fa t1]|]; [|discriminate E3].
  destruct (many_sep is_comma p_from_item f t1) as [[fr t2]|]; [|discriminate E3].
  destruct (p_sel f r5) as [[sa t3]|] eqn:Es; [|discriminate E6].
  destruct (many_sep is_comma (p_sel f) f t3) as [[sr t4]|] eqn:Em; [|discriminate E6].
  inversion E3; inversion E6; subst.
  unfold aquery_shapeb. cbn [aq_from aq_select nonempty forallb andb].
  rewrite (p_sel_ok _ _ _ _ Es). cbn [andb].
  apply forallb_forall. apply Forall_forall.
  exact (many_sep_forall (fun s => sel_okb s = true) is_comma (p_sel f) (p_sel_ok f) _ _ _ _ Em).
Qed.

Theorem parse_tokens_iff : forall ts q,
  parse_tokens ts = Some q <-> aquery_shapeb q = true /\ tokens_of_query q = ts.
Proof.
  intros ts q. split.
  - intro H. split; [exact (p_query_shape _ _ _ H) | exact (print_parse _ _ H)].
  - intros [Hs <-]. apply parse_print_shape, Hs.
Qed.
Print Assumptions parse_tokens_iff.

(* the printer is injective on well-shaped queries *)
Corollary tokens_of_query_inj : forall q1 q2,
  aquery_shapeb q1 = true -> aquery_shapeb q2 = true ->
  tokens_of_query q1 = tokens_of_query q2 -> q1 = q2.
Proof.
  intros q1 q2 H1 H2 E. apply parse_print_shape in H1. apply parse_print_shape in H2.
  rewrite E in H1. congruence.
Qed.

(* layout is irrelevant to parsing *)
Corollary parse_layout_irrelevant : forall toks lay1 lay2,
  forallb tok_wfb toks = true -> separable toks lay1 = true -> separable toks lay2 = true ->
  parse_query (render toks lay1) = parse_query (render toks lay2).
Proof.
  intros toks lay1 lay2 Hwf H1 H2. unfold parse_query.
  rewrite (lex_layout_irrelevant toks lay1 lay2 Hwf H1 H2). reflexivity.
Qed.

(* a text that parses has exactly the printed tokens of the result *)
Corollary parse_query_tokens : forall s q,
  parse_query s = Some q -> lex_query s = Some (tokens_of_query q).
Proof.
  intros s q. unfold parse_query. destruct (lex_query s) as [ts|]; [|discriminate].
  intro H. apply print_parse in H. rewrite H. reflexivity.
Qed.

(* ---------- examples ---------- *)
Open Scope bs_scope.

Definition ex_src : bytes := "predicate isTest(string name, int n) { name == ""test"" || n > 3 }
FROM method_declaration AS md, class_declaration AS cd
WHERE (md.getName() == ""onCreate"" || isTest(md.getName(), 3))
  && !(cd.getVisibility() in [""public"", ""protected""])
  && md.getBody().size(1+2*3, -x).y != -4 / 2
SELECT md.getName(), cd, ""literal"", f(1)".

Definition ex_flat : query :=
  {| q_preds :=
       [{| pd_name := "isTest";
           pd_params := [("string", "name"); ("int", "n")];
           pd_body :=
             EBin BOr (EBin BEq (EChain "name" []) (EVal (VStr """test""")))
                      (EBin BGt (EChain "n" []) (EVal (VNum "3"))) |}];
     q_from := [("method_declaration", "md"); ("class_declaration", "cd")];
     q_where :=
       Some
         (EBin BAnd
            (EBin BAnd
               (EParen
                  (EBin BOr
                     (EBin BEq (EChain "md" [MCall "getName" []]) (EVal (VStr """onCreate""")))
                     (ECall "isTest" [EChain "md" [MCall "getName" []]; EVal (VNum "3")])))
               (EUn UNot
                  (EParen
                     (EBin BIn (EChain "cd" [MCall "getVisibility" []])
                        (EList [VStr """public"""; VStr """protected"""])))))
            (EBin BNe
               (EChain "md"
                  [MCall "getBody" [];
                   MCall "size"
                     [EBin BAdd (EVal (VNum "1")) (EBin BMul (EVal (VNum "2")) (EVal (VNum "3")));
                      EUn UNeg (EChain "x" [])];
                   MVar "y"])
               (EBin BDiv (EUn UNeg (EVal (VNum "4"))) (EVal (VNum "2")))));
     q_select :=
       [SelChain (MVar "md") [MCall "getName" []]; SelVar "cd"; SelStr """literal""";
        SelChain (MCall "f" [EVal (VNum "1")]) []] |}.

Example ex_parse : option_map flatten_query (parse_query ex_src) = Some ex_flat.
Proof. vm_compute; reflexivity. Qed.

Example ex_parse_wf : option_map aquery_wfb (parse_query ex_src) = Some true.
Proof. vm_compute; reflexivity. Qed.

(* the same query with every optional white space removed, and with extra tabs / newlines *)
Definition ex_src_compact : bytes := "predicate isTest(string name,int n){name==""test""||n>3}FROM method_declaration AS md,class_declaration AS cd WHERE(md.getName()==""onCreate""||isTest(md.getName(),3))&&!(cd.getVisibility() in [""public"",""protected""])&&md.getBody().size(1+2*3,-x).y!=-4/2 SELECT md.getName(),cd,""literal"",f(1)".
Example ex_parse_compact : parse_query ex_src_compact = parse_query ex_src.
Proof. vm_compute; reflexivity. Qed.

(* printing the parsed AST and parsing again is the identity *)
Example ex_reprint :
  match parse_query ex_src with
  | Some q => parse_tokens (tokens_of_query q) = Some q
  | None => False
  end.
Proof. vm_compute; reflexivity. Qed.

(* rejected inputs *)
Example ex_reject_chain_after_call :           (* predicate_invocation takes no chain *)
  parse_query "FROM a AS b WHERE f(x).y SELECT b" = None.
Proof. vm_compute; reflexivity. Qed.
Example ex_reject_in_without_space :            (* the operator is the 4-byte literal ' in ' *)
  parse_query "FROM a AS b WHERE x in[1] SELECT b" = None
  /\ lex_query "x in[1]" = Some [TIdent "x"; TInWord; TLBrack; TNumber "1"; TRBrack].
Proof. split; vm_compute; reflexivity. Qed.
Example ex_reject_trailing : parse_query "FROM a AS b SELECT b b" = None.
Proof. vm_compute; reflexivity. Qed.
Example ex_reject_empty_select : parse_query "FROM a AS b WHERE x SELECT" = None.
Proof. vm_compute; reflexivity. Qed.
Example ex_reject_keyword_ident : parse_query "FROM a AS SELECT SELECT b" = None.
Proof. vm_compute; reflexivity. Qed.
Example ex_accept_select_chain_after_call :
  option_map flatten_query (parse_query "FROM a AS b SELECT f(x).y, b.c") =
  Some {| q_preds := []; q_from := [("a", "b")]; q_where := None;
          q_select := [SelChain (MCall "f" [EChain "x" []]) [MVar "y"];
                       SelChain (MVar "b") [MVar "c"]] |}.
Proof. vm_compute; reflexivity. Qed.
