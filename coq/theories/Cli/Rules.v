(* Rule files: cmd.ParseQuery (ci), cmd.ParseCommentLine, cmd.ExtractQueryFromFile (scan and
   query --query-file), written from the Go code line by line.  Definitions only. *)
From CPF Require Export Base.Bytes.
Open Scope bs_scope.

Record rule := { r_id : bytes; r_desc : bytes; r_impact : bytes; r_severity : bytes;
                 r_provider : bytes; r_query : bytes }.
Definition empty_rule : rule :=
  {| r_id := []; r_desc := []; r_impact := []; r_severity := []; r_provider := []; r_query := [] |}.

(* ParseCommentLine: "* @key value with spaces" -> (key, value) ; fewer than two fields -> ("","") *)
Definition parse_comment_line (line : bytes) : bytes * bytes :=
  let c := trim_space (trim_prefix "*" (trim_space line)) in
  match split_on x20 c with
  | k :: ((_ :: _) as rest) => (k, join " " rest)
  | _ => ([], [])
  end.

Definition set_field (r : rule) (key value : bytes) : rule :=
  if bytes_eqb key "@id" then
    {| r_id := value; r_desc := r_desc r; r_impact := r_impact r; r_severity := r_severity r; r_provider := r_provider r; r_query := r_query r |}
  else if bytes_eqb key "@description" then
    {| r_id := r_id r; r_desc := value; r_impact := r_impact r; r_severity := r_severity r; r_provider := r_provider r; r_query := r_query r |}
  else if bytes_eqb key "@problem.severity" then
    {| r_id := r_id r; r_desc := r_desc r; r_impact := r_impact r; r_severity := value; r_provider := r_provider r; r_query := r_query r |}
  else if bytes_eqb key "@security-severity" then
    {| r_id := r_id r; r_desc := r_desc r; r_impact := value; r_severity := r_severity r; r_provider := r_provider r; r_query := r_query r |}
  else if bytes_eqb key "@ruleprovider" then
    {| r_id := r_id r; r_desc := r_desc r; r_impact := r_impact r; r_severity := r_severity r; r_provider := value; r_query := r_query r |}
  else r.

Definition starts_query (line : bytes) : bool :=
  let t := trim_space line in has_prefix "predicate" t || has_prefix "FROM" t.

(* cmd.ParseQuery: one pass over strings.Split(text, "\n") *)
Fixpoint parse_ci_lines (lines : list bytes) (find comment : bool) (query : bytes) (r : rule) : rule * bytes :=
  match lines with
  | [] => (r, query)
  | line :: rest =>
      if has_prefix "/*" (trim_space line) then parse_ci_lines rest find true query r
      else if starts_query line then parse_ci_lines rest true comment (query ++ line ++ " ") r
      else if find then parse_ci_lines rest find comment (query ++ line ++ " ") r
      else if comment then
        let '(k, v) := parse_comment_line line in parse_ci_lines rest find comment query (set_field r k v)
      else parse_ci_lines rest find comment query r
  end.

Definition parse_ci (text : bytes) : rule :=
  let '(r, q) := parse_ci_lines (split_on nl text) false false [] empty_rule in
  {| r_id := r_id r; r_desc := r_desc r; r_impact := r_impact r; r_severity := r_severity r;
     r_provider := r_provider r; r_query := trim_space q |}.

(* bufio.Scanner with ScanLines: lines without their terminator, a trailing CR dropped, no empty
   last line *)
Definition drop_cr (l : bytes) : bytes := trim_suffix [x0d] l.
Definition scan_lines (text : bytes) : list bytes :=
  let ls := split_on nl text in
  let ls' := match rev ls with [] :: r => rev r | _ => ls end in
  List.map drop_cr ls'.

Fixpoint extract_lines (lines : list bytes) (find : bool) (query : bytes) : bytes :=
  match lines with
  | [] => query
  | line :: rest =>
      if starts_query line then extract_lines rest true (query ++ line ++ " ")
      else if find then extract_lines rest find (query ++ line ++ " ")
      else extract_lines rest find query
  end.

(* cmd.ExtractQueryFromFile on the file's content *)
Definition extract_file (text : bytes) : bytes := trim_space (extract_lines (scan_lines text) false []).

(* ---------- the rule-file family: header fields + query tokens, rendered with a layout ---------- *)
(* header: "/**", one line " * <key> <value>" per field (any order, any subset, other keys allowed),
   " */"; then the query text, starting at the beginning of a line *)
Definition header_line (kv : bytes * bytes) : bytes := " * " ++ fst kv ++ " " ++ snd kv.
Definition render_rule (eol : bytes) (fields : list (bytes * bytes)) (query_text : bytes) : bytes :=
  "/**" ++ eol ++ concat (List.map (fun kv => header_line kv ++ eol) fields) ++ " */" ++ eol ++ eol ++ query_text.

(* the value the header gives a key: the last line that sets it *)
Fixpoint last_value (key : bytes) (fields : list (bytes * bytes)) (acc : bytes) : bytes :=
  match fields with
  | [] => acc
  | (k, v) :: r => last_value key r (if bytes_eqb k key then v else acc)
  end.
