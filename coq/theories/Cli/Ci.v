(* The ci command: per-rule evaluation on one graph, JSON and SARIF aggregation, report placement;
   and the hosted-bundle round trip.  Definitions only. *)
From CPF Require Export Base.Json Cli.Rules Engine.Process.
Open Scope bs_scope.

(* one entry of the JSON report *)
Record ci_entry := { e_rule : rule; e_outcome : outcome }.

Definition ci_run (rules : list bytes) (g : list node) : list ci_entry :=
  List.map (fun text => let r := parse_ci text in {| e_rule := r; e_outcome := process_query (r_query r) g |}) rules.

(* strings.ToLower on ASCII *)
Definition lower_byte (b : byte) : byte :=
  let n := Byte.to_N b in
  if ((65 <=? n) && (n <=? 90))%N then match Byte.of_N (n + 32) with Some c => c | None => b end else b.
Definition to_lower (s : bytes) : bytes := List.map lower_byte s.

(* one SARIF result per finding: file, line, rule id, level, message *)
Record sarif_result := { s_file : bytes; s_line : N; s_rule : bytes; s_level : bytes; s_message : bytes }.

Definition findings (o : outcome) : list node :=
  match o with Answer a => concat (a_results a) | SyntaxError => [] end.

Definition sarif_of_entry (e : ci_entry) : list sarif_result :=
  List.map (fun n => {| s_file := n_file n; s_line := n_line n; s_rule := r_id (e_rule e);
                        s_level := to_lower (r_severity (e_rule e)); s_message := r_desc (e_rule e) |})
           (findings (e_outcome e)).

Definition ci_sarif (rules : list bytes) (g : list node) : list sarif_result :=
  flat_map sarif_of_entry (ci_run rules g).

(* report placement *)
Definition report_path (github_actions : bool) (workspace output_file : bytes) : bytes :=
  if github_actions then workspace ++ "/" ++ output_file else output_file.

(* ---------- bundles ---------- *)
(* pathfinder-rules/gen-script: one directory -> {ruleset, files:[{file_name, content}]} via
   json.MarshalIndent; only when the directory holds at least one .cql file *)
Definition is_cql (name : bytes) : bool := bytes_eqb (path_ext name) ".cql".

Definition bundle_value (dirname : bytes) (entries : list (bytes * bytes)) : json :=
  JObj [("ruleset", JStr dirname);
        ("files", JArr (List.map (fun '(n, c) => JObj [("file_name", JStr n); ("content", JStr c)])
                                 (filter (fun '(n, _) => is_cql n) entries)))].

Definition produce (dirname : bytes) (entries : list (bytes * bytes)) : option bytes :=
  match filter (fun '(n, _) => is_cql n) entries with
  | [] => None
  | _ => Some (encode_indent (bundle_value dirname entries))
  end.

(* cmd.downloadRuleset on the response body: files[*].content *)
Definition obj_get (k : bytes) (l : list (bytes * json)) : option json :=
  match find (fun '(k', _) => bytes_eqb k k') (rev l) with Some (_, v) => Some v | None => None end.

Definition consume (body : bytes) : option (list bytes) :=
  match decode body with
  | Some (JObj top) =>
      match obj_get "files" top with
      | Some (JArr files) =>
          Some (flat_map (fun f => match f with
                                   | JObj m => match obj_get "content" m with Some (JStr c) => [c] | _ => [] end
                                   | _ => [] end) files)
      | _ => Some []
      end
  | _ => None
  end.

(* cmd.loadRules on a flat directory (entries in lexical order, as Walk and ReadDir both list them) *)
Definition load_local (entries : list (bytes * bytes)) : list bytes :=
  List.map snd (filter (fun '(n, _) => has_suffix ".cql" n) entries).
