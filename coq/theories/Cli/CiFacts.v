(* Facts about Cli/Ci.v: the ci report is computed rule by rule (conservation, isolation of a
   failing rule), the shape of SARIF results, report placement, and the hosted-bundle round trip
   gen-script (produce) -> downloadRuleset (consume) = loadRules on the local directory. *)
From CPF Require Import Base.Bytes Base.BytesFacts Base.Json Base.JsonFacts Cli.Rules Cli.Ci.
From Coq Require Import Lia.
Open Scope bs_scope.

(* the entry the ci command computes for one rule text *)
Definition entry_of (g : list node) (text : bytes) : ci_entry :=
  {| e_rule := parse_ci text; e_outcome := process_query (r_query (parse_ci text)) g |}.

(* ---------- B1: the JSON report ---------- *)
Theorem ci_run_conserves rules g :
  ci_run rules g =
  map (fun text => {| e_rule := parse_ci text;
                      e_outcome := process_query (r_query (parse_ci text)) g |}) rules.
Proof. reflexivity. Qed.
Print Assumptions ci_run_conserves.

Theorem ci_run_app a b g : ci_run (a ++ b) g = ci_run a g ++ ci_run b g.
Proof. unfold ci_run. apply map_app. Qed.
Print Assumptions ci_run_app.

Theorem ci_run_length rules g : length (ci_run rules g) = length rules.
Proof. unfold ci_run. apply map_length. Qed.
Print Assumptions ci_run_length.

(* a failing (or any) rule does not change the entries of the others *)
Theorem ci_isolation rs1 bad rs2 g :
  ci_run (rs1 ++ bad :: rs2) g = ci_run rs1 g ++ ci_run [bad] g ++ ci_run rs2 g.
Proof. change (bad :: rs2) with ([bad] ++ rs2). rewrite !ci_run_app. reflexivity. Qed.
Print Assumptions ci_isolation.

(* the entry of the i-th rule depends on that rule text and the graph only *)
Theorem ci_run_nth rules g i text :
  nth_error rules i = Some text -> nth_error (ci_run rules g) i = Some (entry_of g text).
Proof. intro H. unfold ci_run. rewrite nth_error_map, H. reflexivity. Qed.
Print Assumptions ci_run_nth.

(* ---------- B2: SARIF ---------- *)
Theorem ci_sarif_conserves rules g :
  ci_sarif rules g =
  flat_map (fun text => sarif_of_entry
              {| e_rule := parse_ci text;
                 e_outcome := process_query (r_query (parse_ci text)) g |}) rules.
Proof.
  unfold ci_sarif, ci_run. induction rules as [|t rules IH]; [reflexivity|].
  cbn [map flat_map]. rewrite IH. reflexivity.
Qed.
Print Assumptions ci_sarif_conserves.

Theorem ci_sarif_app a b g : ci_sarif (a ++ b) g = ci_sarif a g ++ ci_sarif b g.
Proof. unfold ci_sarif. rewrite ci_run_app. apply flat_map_app. Qed.
Print Assumptions ci_sarif_app.

(* a rule whose query does not parse contributes no result and leaves the others' results alone *)
Theorem sarif_bad_rule rs1 bad rs2 g :
  process_query (r_query (parse_ci bad)) g = SyntaxError ->
  ci_sarif (rs1 ++ bad :: rs2) g = ci_sarif (rs1 ++ rs2) g.
Proof.
  intro Hbad. change (bad :: rs2) with ([bad] ++ rs2). rewrite !ci_sarif_app.
  assert (E : ci_sarif [bad] g = []).
  { unfold ci_sarif, ci_run, sarif_of_entry. cbn [map flat_map e_outcome]. rewrite Hbad. reflexivity. }
  rewrite E. reflexivity.
Qed.
Print Assumptions sarif_bad_rule.

Theorem sarif_length e : length (sarif_of_entry e) = length (findings (e_outcome e)).
Proof. unfold sarif_of_entry. apply map_length. Qed.
Print Assumptions sarif_length.

(* the locations are those of the findings, in order, one result per finding *)
Theorem sarif_locations e :
  map (fun s => (s_file s, s_line s)) (sarif_of_entry e) =
  map (fun n => (n_file n, n_line n)) (findings (e_outcome e)).
Proof. unfold sarif_of_entry. rewrite map_map. reflexivity. Qed.
Print Assumptions sarif_locations.

Theorem sarif_fields e s :
  In s (sarif_of_entry e) ->
  s_rule s = r_id (e_rule e) /\ s_level s = to_lower (r_severity (e_rule e)) /\
  s_message s = r_desc (e_rule e) /\
  exists n, In n (findings (e_outcome e)) /\ s_file s = n_file n /\ s_line s = n_line n.
Proof.
  unfold sarif_of_entry. intro H. apply in_map_iff in H. destruct H as (n & <- & Hn).
  cbn. repeat split. exists n. auto.
Qed.
Print Assumptions sarif_fields.

(* ---------- B3: report placement ---------- *)
Theorem report_path_spec ws f :
  report_path true ws f = ws ++ "/" ++ f /\ report_path false ws f = f.
Proof. split; reflexivity. Qed.
Print Assumptions report_path_spec.

(* ---------- B4: bundles ---------- *)
Lemma has_prefix_true p : forall s, has_prefix p s = true <-> exists q, s = p ++ q.
Proof.
  induction p as [|x p IH]; intro s; cbn [has_prefix].
  - split; [intros _; exists s; reflexivity | reflexivity].
  - destruct s as [|y s].
    + split; [discriminate | intros (q & H); discriminate H].
    + split.
      * intro H. apply andb_true_iff in H. destruct H as [H1 H2]. apply beqb_true in H1. subst y.
        apply IH in H2. destruct H2 as (q & ->). exists q. reflexivity.
      * intros (q & H). inversion H; subst. apply andb_true_iff. split; [apply beqb_refl|].
        apply IH. exists q. reflexivity.
Qed.

Lemma ext_aux_len m : forall acc, ext_aux m acc = [] \/ length acc < length (ext_aux m acc).
Proof.
  induction m as [|x m IH]; intro acc; cbn [ext_aux]; [left; reflexivity|].
  destruct (beqb x slash); [left; reflexivity|].
  destruct (beqb x dot); [right; cbn; lia|].
  destruct (IH (x :: acc)) as [H | H]; [left; exact H | right; cbn in H; lia].
Qed.

(* filepath.Ext(name) == ".cql"  iff  strings.HasSuffix(name, ".cql"); no hypothesis on the name
   is needed (".cql" contains no slash) *)
Theorem ext_iff_suffix n : bytes_eqb (path_ext n) ".cql" = true <-> has_suffix ".cql" n = true.
Proof.
  unfold path_ext, has_suffix. change (rev ".cql") with "lqc.". generalize (rev n) as m. intro m.
  rewrite bytes_eqb_true, has_prefix_true. split.
  - intro H.
    assert (F : forall (P : Prop), ".cql" = @nil byte -> P) by (intros P HP; discriminate HP).
    destruct m as [|a m]; cbn [ext_aux] in H; [discriminate H|].
    destruct (beqb a slash); [discriminate H|]. destruct (beqb a dot); [discriminate H|].
    destruct m as [|b m]; cbn [ext_aux] in H; [discriminate H|].
    destruct (beqb b slash); [discriminate H|]. destruct (beqb b dot); [discriminate H|].
    destruct m as [|c m]; cbn [ext_aux] in H; [discriminate H|].
    destruct (beqb c slash); [discriminate H|]. destruct (beqb c dot); [discriminate H|].
    destruct m as [|d m]; cbn [ext_aux] in H; [discriminate H|].
    destruct (beqb d slash); [discriminate H|]. destruct (beqb d dot) eqn:Ed.
    + apply beqb_true in Ed. inversion H; subst. exists m. reflexivity.
    + exfalso. destruct (ext_aux_len m [d; c; b; a]) as [E | E]; rewrite H in E;
        [discriminate E | cbn in E; lia].
  - intros (q & ->). reflexivity.
Qed.
Print Assumptions ext_iff_suffix.

Lemma is_cql_suffix n : is_cql n = has_suffix ".cql" n.
Proof.
  unfold is_cql. pose proof (ext_iff_suffix n) as H.
  destruct (bytes_eqb (path_ext n) ".cql"), (has_suffix ".cql" n); try reflexivity.
  - symmetry. apply H. reflexivity.
  - apply H. reflexivity.
Qed.

Definition file_json (e : bytes * bytes) : json :=
  let '(n, c) := e in JObj [("file_name", JStr n); ("content", JStr c)].
Definition content_of (f : json) : list bytes :=
  match f with
  | JObj m => match obj_get "content" m with Some (JStr c) => [c] | _ => [] end
  | _ => []
  end.

Lemma files_wf entries :
  (forall n c, In (n, c) entries -> valid_utf8b n = true /\ valid_utf8b c = true) ->
  forallb wf_json (map file_json entries) = true.
Proof.
  induction entries as [|[n c] es IH]; intro H; [reflexivity|].
  cbn [map forallb]. rewrite IH by (intros n' c' Hin; apply (H n' c'); right; exact Hin).
  destruct (H n c (or_introl eq_refl)) as [Hn Hc].
  cbn [file_json wf_json forallb fst snd]. rewrite Hn, Hc. reflexivity.
Qed.

Lemma contents_of_files entries :
  flat_map content_of (map file_json entries) = map snd entries.
Proof.
  induction entries as [|[n c] es IH]; [reflexivity|].
  cbn [map flat_map snd]. rewrite IH. reflexivity.
Qed.

Lemma bundle_value_eq dirname entries :
  bundle_value dirname entries =
  JObj [("ruleset", JStr dirname);
        ("files", JArr (map file_json (filter (fun '(n, _) => is_cql n) entries)))].
Proof. reflexivity. Qed.

Lemma filter_cql_suffix (entries : list (bytes * bytes)) :
  filter (fun '(n, _) => is_cql n) entries = filter (fun '(n, _) => has_suffix ".cql" n) entries.
Proof. apply filter_ext. intros [n c]. apply is_cql_suffix. Qed.

(* what the hosted bundle delivers is what the local directory delivers: the contents of the
   .cql files, in directory order *)
Theorem bundle_roundtrip : forall dirname entries,
  valid_utf8b dirname = true ->
  (forall n c, In (n, c) entries -> valid_utf8b n = true /\ valid_utf8b c = true) ->
  forall body, produce dirname entries = Some body -> consume body = Some (load_local entries).
Proof.
  intros dirname entries Hd He body Hp. unfold produce in Hp.
  assert (Hb : body = encode_indent (bundle_value dirname entries)).
  { destruct (filter (fun '(n, _) => is_cql n) entries); [discriminate Hp|]. inversion Hp. reflexivity. }
  clear Hp. subst body. unfold consume. rewrite decode_encode_indent.
  - rewrite bundle_value_eq.
    change (obj_get "files" _) with
      (Some (JArr (map file_json (filter (fun '(n, _) => is_cql n) entries)))).
    cbv beta iota. change (fun f : json => match f with JObj m => _ | _ => [] end) with content_of.
    rewrite contents_of_files, filter_cql_suffix. reflexivity.
  - rewrite bundle_value_eq. cbn [wf_json forallb fst snd]. rewrite Hd.
    rewrite files_wf; [reflexivity|].
    intros n c Hin. apply filter_In in Hin. apply (He n c), Hin.
Qed.
Print Assumptions bundle_roundtrip.

(* no bundle is written exactly when the directory holds no .cql file *)
Theorem produce_none_iff d es :
  produce d es = None <-> (forall n c, In (n, c) es -> is_cql n = false).
Proof.
  unfold produce. split.
  - intros H n c Hin. destruct (is_cql n) eqn:E; [|reflexivity]. exfalso.
    assert (Hf : In (n, c) (filter (fun '(n, _) => is_cql n) es)) by (apply filter_In; auto).
    destruct (filter (fun '(n, _) => is_cql n) es); [exact Hf | discriminate H].
  - intro H. destruct (filter (fun '(n, _) => is_cql n) es) as [|[n c] l] eqn:E; [reflexivity|].
    exfalso. assert (Hin : In (n, c) (filter (fun '(n, _) => is_cql n) es)) by (rewrite E; left; reflexivity).
    apply filter_In in Hin. destruct Hin as [Hin Hc]. rewrite (H n c Hin) in Hc. discriminate Hc.
Qed.
Print Assumptions produce_none_iff.

Corollary produce_empty d : produce d [] = None.
Proof. reflexivity. Qed.

(* ---------- example: two .cql files (the second with quotes, a backslash, '<', a line feed and
   a non-ASCII character, U+00E9) and a decoy that is not a .cql file ---------- *)
Definition ex_entries : list (bytes * bytes) :=
  [("a.cql", "FROM method_declaration AS md SELECT md");
   ("b.cql.txt", "FROM decoy AS d SELECT d");
   ("c.cql", "FROM x AS y WHERE y.getName() == ""caf" ++ [xc3; xa9] ++ "\<""" ++ [x0a] ++ "SELECT y")].

Example ex_bundle_hyps :
  forallb (fun e => valid_utf8b (fst e) && valid_utf8b (snd e)) ex_entries = true.
Proof. vm_compute. reflexivity. Qed.

Example ex_bundle :
  match produce "java" ex_entries with
  | Some body => consume body
  | None => None
  end = Some (load_local ex_entries)
  /\ load_local ex_entries = [snd (nth 0 ex_entries ([], [])); snd (nth 2 ex_entries ([], []))].
Proof. split; vm_compute; reflexivity. Qed.
