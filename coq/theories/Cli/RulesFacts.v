(* Facts about Cli/Rules.v: the header metadata the ci command extracts, and that the three
   query extractors (ci, scan, query --query-file) return a re-layout of the query as written.
   First part: strings.TrimSpace ([trim_space], rune-wise, UTF-8 aware) around ASCII bytes. *)
From CPF Require Import Base.Bytes Base.BytesFacts Lang.Lexer Lang.LexerFacts Cli.Rules.
From Coq Require Import Arith Lia.
Open Scope bs_scope.

(* ================================================================== *)
(* 1. runes and trim_space                                             *)
(* ================================================================== *)
Definition ascii (c : byte) : bool := (code c <? 128)%N.

Lemma ascii_space_ascii c : ascii_space c = true -> ascii c = true.
Proof. destruct c; intro H; try discriminate H; reflexivity. Qed.

Lemma in_range_ascii lo hi c : ascii c = true -> (128 <= lo)%N -> in_range lo hi c = false.
Proof.
  unfold ascii, in_range. intros H Hlo. apply N.ltb_lt in H.
  apply andb_false_iff. left. apply N.leb_gt. lia.
Qed.

(* one decoding step: (is it white space, width) *)
Definition step (s : bytes) : bool * nat :=
  match space_width s with Some w => (true, w) | None => (false, rune_width s) end.

(* ---- rune_width ---- *)
Lemma rune_width_bounds b r : 1 <= rune_width (b :: r) <= length (b :: r).
Proof.
  unfold rune_width.
  repeat match goal with
         | |- context [if ?c then _ else _] => destruct c
         | |- context [match ?l with [] => _ | _ :: _ => _ end] => destruct l
         end; cbn [length]; lia.
Qed.

Lemma rune_width_app b r c t : ascii c = true ->
  rune_width (b :: r ++ c :: t) = rune_width (b :: r).
Proof.
  intro Hc.
  assert (C : is_cont c = false) by (apply in_range_ascii; [exact Hc | lia]).
  assert (C1 : in_range 160 191 c = false) by (apply in_range_ascii; [exact Hc | lia]).
  assert (C2 : in_range 128 159 c = false) by (apply in_range_ascii; [exact Hc | lia]).
  assert (C3 : in_range 144 191 c = false) by (apply in_range_ascii; [exact Hc | lia]).
  assert (C4 : in_range 128 143 c = false) by (apply in_range_ascii; [exact Hc | lia]).
  unfold rune_width.
  destruct (code b <? 128)%N; [reflexivity|].
  destruct (in_range 194 223 b).
  { destruct r as [|b1 r]; cbn [app]; [rewrite C|]; reflexivity. }
  destruct (in_range 224 239 b).
  { destruct r as [|b1 [|b2 r]]; cbn [app].
    - destruct t; [reflexivity|]. rewrite C1, C2, C.
      destruct (code b =? 224)%N; [reflexivity|]. destruct (code b =? 237)%N; reflexivity.
    - rewrite C, andb_false_r. reflexivity.
    - reflexivity. }
  destruct (in_range 240 244 b); [|reflexivity].
  destruct r as [|b1 [|b2 [|b3 r]]]; cbn [app].
  - destruct t as [|? [|? ?]]; try reflexivity. rewrite C3, C4, C.
    destruct (code b =? 240)%N; [reflexivity|]. destruct (code b =? 244)%N; reflexivity.
  - destruct t; [reflexivity|]. rewrite C, andb_false_r. reflexivity.
  - rewrite C, andb_false_r. reflexivity.
  - reflexivity.
Qed.

(* ---- space_width: by enumeration of the lead bytes ---- *)
Lemma space_width_bounds s :
  match space_width s with Some w => (1 <=? w) && (w <=? length s) | None => true end = true.
Proof.
  destruct s as [|b0 [|b1 [|b2 r]]].
  - reflexivity.
  - destruct b0; reflexivity.
  - destruct b0; try reflexivity; destruct b1; reflexivity.
  - destruct b0; try reflexivity; destruct b1; try reflexivity; destruct b2; reflexivity.
Qed.

Lemma space_width_app b r c t : ascii c = true ->
  space_width (b :: r ++ c :: t) = space_width (b :: r).
Proof.
  intro Hc. destruct r as [|b1 [|b2 r]]; cbn [app].
  - destruct b; try reflexivity; destruct c; try discriminate Hc; reflexivity.
  - destruct b; try reflexivity; destruct b1; try reflexivity;
      destruct c; try discriminate Hc; reflexivity.
  - destruct b; try reflexivity; destruct b1; try reflexivity; destruct b2; reflexivity.
Qed.

Lemma space_width_ascii b r : ascii b = true ->
  space_width (b :: r) = if ascii_space b then Some 1 else None.
Proof. unfold ascii. intro H. unfold space_width. rewrite H. reflexivity. Qed.

(* ---- step ---- *)
Lemma step_bounds b r : 1 <= snd (step (b :: r)) <= length (b :: r).
Proof.
  unfold step. pose proof (space_width_bounds (b :: r)) as H.
  destruct (space_width (b :: r)) as [w|].
  - apply andb_true_iff in H. destruct H as [H1 H2].
    apply Nat.leb_le in H1. apply Nat.leb_le in H2. cbn [snd]. lia.
  - cbn [snd]. apply rune_width_bounds.
Qed.

Lemma step_app b r c t : ascii c = true -> step (b :: r ++ c :: t) = step (b :: r).
Proof. intro Hc. unfold step. rewrite space_width_app, rune_width_app by exact Hc. reflexivity. Qed.

Lemma step_ascii b r : ascii b = true -> step (b :: r) = (ascii_space b, 1).
Proof.
  intro H. unfold step. rewrite space_width_ascii by exact H.
  destruct (ascii_space b); [reflexivity|]. unfold rune_width. unfold ascii in H. rewrite H. reflexivity.
Qed.

(* ---- runes ---- *)
Lemma runes_f_S f b r :
  runes_f (S f) (b :: r) =
  (fst (step (b :: r)), firstn (snd (step (b :: r))) (b :: r))
    :: runes_f f (skipn (snd (step (b :: r))) (b :: r)).
Proof. unfold step. cbn [runes_f]. destruct (space_width (b :: r)); reflexivity. Qed.

Lemma skipn_step_len b r : length (skipn (snd (step (b :: r))) (b :: r)) < length (b :: r).
Proof. pose proof (step_bounds b r). rewrite skipn_length. cbn [length] in *. lia. Qed.

Lemma runes_f_fuel : forall f1 f2 s, length s <= f1 -> length s <= f2 -> runes_f f1 s = runes_f f2 s.
Proof.
  induction f1 as [|f1 IH]; intros f2 s H1 H2.
  - destruct s; [|cbn in H1; lia]. destruct f2; reflexivity.
  - destruct s as [|b r]; [destruct f2; reflexivity|].
    destruct f2 as [|f2]; [cbn in H2; lia|].
    rewrite !runes_f_S. f_equal. pose proof (skipn_step_len b r). apply IH; cbn [length] in *; lia.
Qed.

Lemma runes_nil : runes [] = [].
Proof. reflexivity. Qed.

Lemma runes_cons b r :
  runes (b :: r) =
  (fst (step (b :: r)), firstn (snd (step (b :: r))) (b :: r))
    :: runes (skipn (snd (step (b :: r))) (b :: r)).
Proof.
  unfold runes. cbn [length]. rewrite runes_f_S. f_equal.
  pose proof (skipn_step_len b r). apply runes_f_fuel; cbn [length] in *; lia.
Qed.

Lemma runes_ascii c t : ascii c = true -> runes (c :: t) = (ascii_space c, [c]) :: runes t.
Proof. intro H. rewrite runes_cons, step_ascii by exact H. reflexivity. Qed.

(* the chunks of the runes concatenate back to the string *)
Lemma runes_concat : forall n s, length s <= n -> concat (map snd (runes s)) = s.
Proof.
  induction n as [|n IH]; intros s Hn.
  - destruct s; [reflexivity | cbn in Hn; lia].
  - destruct s as [|b r]; [reflexivity|]. rewrite runes_cons. cbn [map concat snd].
    rewrite IH by (pose proof (skipn_step_len b r); cbn [length] in *; lia).
    apply firstn_skipn.
Qed.

(* an ASCII byte is always a rune of its own, whatever precedes it *)
Lemma runes_app_ascii : forall n s c t, length s <= n -> ascii c = true ->
  runes (s ++ c :: t) = runes s ++ (ascii_space c, [c]) :: runes t.
Proof.
  induction n as [|n IH]; intros s c t Hn Hc.
  - destruct s; [|cbn in Hn; lia]. cbn [app]. rewrite runes_nil. apply runes_ascii, Hc.
  - destruct s as [|b r]; [cbn [app]; rewrite runes_nil; apply runes_ascii, Hc|].
    change ((b :: r) ++ c :: t) with (b :: r ++ c :: t).
    rewrite (runes_cons b (r ++ c :: t)), (runes_cons b r), step_app by exact Hc.
    pose proof (step_bounds b r) as Hb. pose proof (skipn_step_len b r) as Hl.
    set (w := snd (step (b :: r))) in *.
    change (b :: r ++ c :: t) with ((b :: r) ++ c :: t).
    rewrite firstn_app, skipn_app.
    replace (w - length (b :: r)) with 0 by lia. cbn [firstn skipn]. rewrite app_nil_r.
    rewrite IH by (cbn [length] in *; lia || exact Hc). reflexivity.
Qed.

Lemma runes_snoc s c t : ascii c = true ->
  runes (s ++ c :: t) = runes s ++ (ascii_space c, [c]) :: runes t.
Proof. apply (runes_app_ascii (length s)), le_n. Qed.

Definition sp_runes (ws : bytes) : list (bool * bytes) := map (fun c => (true, [c])) ws.

Lemma runes_ws ws : forallb ascii_space ws = true -> runes ws = sp_runes ws.
Proof.
  induction ws as [|c ws IH]; intro H; [reflexivity|].
  cbn [forallb] in H. apply andb_true_iff in H. destruct H as [Hc Hws].
  rewrite runes_ascii by (apply ascii_space_ascii, Hc). rewrite Hc, IH by exact Hws. reflexivity.
Qed.

Lemma runes_app_ws s ws : forallb ascii_space ws = true -> runes (s ++ ws) = runes s ++ sp_runes ws.
Proof.
  intro H. destruct ws as [|c ws]; [cbn; rewrite !app_nil_r; reflexivity|].
  cbn [forallb] in H. apply andb_true_iff in H. destruct H as [Hc Hws].
  rewrite runes_snoc by (apply ascii_space_ascii, Hc). rewrite Hc, (runes_ws ws) by exact Hws. reflexivity.
Qed.

Lemma runes_ws_app ws s : forallb ascii_space ws = true -> runes (ws ++ s) = sp_runes ws ++ runes s.
Proof.
  induction ws as [|c ws IH]; intro H; [reflexivity|].
  cbn [forallb] in H. apply andb_true_iff in H. destruct H as [Hc Hws].
  cbn [app]. rewrite runes_ascii by (apply ascii_space_ascii, Hc). rewrite Hc, IH by exact Hws. reflexivity.
Qed.

(* ---- left and right trimming of rune lists ---- *)
Definition rtrim (l : list (bool * bytes)) := rev (drop_while_space (rev l)).
Definition unrunes (l : list (bool * bytes)) : bytes := concat (map snd l).

Lemma trim_space_eq s : trim_space s = unrunes (rtrim (drop_while_space (runes s))).
Proof. reflexivity. Qed.

Lemma unrunes_runes s : unrunes (runes s) = s.
Proof. apply (runes_concat (length s)), le_n. Qed.

Lemma unrunes_app a b : unrunes (a ++ b) = unrunes a ++ unrunes b.
Proof. unfold unrunes. rewrite map_app, concat_app. reflexivity. Qed.

Lemma dws_sp ws l : drop_while_space (sp_runes ws ++ l) = drop_while_space l.
Proof. induction ws as [|c ws IH]; [reflexivity | exact IH]. Qed.

Lemma dws_app_false x w y :
  drop_while_space (x ++ (false, w) :: y) = drop_while_space x ++ (false, w) :: y.
Proof. induction x as [|[[|] u] x IH]; [reflexivity | exact IH | reflexivity]. Qed.

Lemma rtrim_sp l ws : rtrim (l ++ sp_runes ws) = rtrim l.
Proof.
  unfold rtrim, sp_runes. rewrite rev_app_distr, <- map_rev.
  change (map (fun c => (true, [c])) (rev ws)) with (sp_runes (rev ws)). rewrite dws_sp. reflexivity.
Qed.

Lemma rtrim_false a w b : rtrim (a ++ (false, w) :: b) = a ++ (false, w) :: rtrim b.
Proof.
  unfold rtrim. rewrite rev_app_distr. cbn [rev]. rewrite <- app_assoc. cbn [app].
  rewrite dws_app_false, rev_app_distr. cbn [rev]. rewrite rev_involutive, <- app_assoc. reflexivity.
Qed.

Lemma rtrim_cons_false w b : rtrim ((false, w) :: b) = (false, w) :: rtrim b.
Proof. exact (rtrim_false [] w b). Qed.

Lemma rtrim_nil : rtrim [] = [].
Proof. reflexivity. Qed.

Lemma rtrim_snoc_false a w : rtrim (a ++ [(false, w)]) = a ++ [(false, w)].
Proof. rewrite rtrim_false, rtrim_nil. reflexivity. Qed.

(* ---- trim_space ---- *)
Lemma trim_space_ws_app ws s : forallb ascii_space ws = true -> trim_space (ws ++ s) = trim_space s.
Proof. intro H. rewrite !trim_space_eq, runes_ws_app, dws_sp by exact H. reflexivity. Qed.

Lemma dws_app_sp l ws :
  drop_while_space (l ++ sp_runes ws) = drop_while_space l ++ sp_runes ws
  \/ (drop_while_space (l ++ sp_runes ws) = [] /\ drop_while_space l = []).
Proof.
  induction l as [|[[|] u] l IH].
  - right. split; [|reflexivity]. rewrite <- (app_nil_r (sp_runes ws)). apply dws_sp.
  - exact IH.
  - left. reflexivity.
Qed.

Lemma trim_space_app_ws s ws : forallb ascii_space ws = true -> trim_space (s ++ ws) = trim_space s.
Proof.
  intro H. rewrite !trim_space_eq, runes_app_ws by exact H.
  destruct (dws_app_sp (runes s) ws) as [E | [E1 E2]].
  - rewrite E, rtrim_sp. reflexivity.
  - rewrite E1, E2. reflexivity.
Qed.

(* a string whose first and last bytes are ASCII and not white space is its own trimming *)
Definition solid (c : byte) : bool := ascii c && negb (ascii_space c).

Lemma trim_space_solid c m c2 :
  solid c = true -> solid c2 = true ->
  forall s, s = c :: m -> (exists m', s = m' ++ [c2]) -> trim_space s = s.
Proof.
  unfold solid. intros Hc Hc2 s E1 (m' & E2).
  apply andb_true_iff in Hc. destruct Hc as [Ha Hs]. apply negb_true_iff in Hs.
  apply andb_true_iff in Hc2. destruct Hc2 as [Ha2 Hs2]. apply negb_true_iff in Hs2.
  rewrite trim_space_eq.
  assert (R1 : runes s = (false, [c]) :: runes m) by (rewrite E1, runes_ascii, Hs by exact Ha; reflexivity).
  assert (R2 : runes s = runes m' ++ [(false, [c2])]).
  { rewrite E2, runes_snoc, Hs2 by exact Ha2. reflexivity. }
  rewrite R1. cbn [drop_while_space]. rewrite <- R1, R2, rtrim_snoc_false.
  transitivity (unrunes (runes s)); [f_equal; symmetry; exact R2 | apply unrunes_runes].
Qed.

(* white space around a string that starts with a solid byte *)
Lemma trim_space_head c m : solid c = true -> exists y, trim_space (c :: m) = c :: y.
Proof.
  unfold solid. intro Hc. apply andb_true_iff in Hc. destruct Hc as [Ha Hs]. apply negb_true_iff in Hs.
  rewrite trim_space_eq, runes_ascii, Hs by exact Ha. cbn [drop_while_space].
  rewrite rtrim_cons_false. cbn [app unrunes map concat snd]. eexists. reflexivity.
Qed.

(* ---- strings that are their own trimming ---- *)
Definition chunk_ne (p : bool * bytes) : Prop := snd p <> [].

Lemma runes_chunks_ne : forall n s, length s <= n -> Forall chunk_ne (runes s).
Proof.
  induction n as [|n IH]; intros s Hn.
  - destruct s; [constructor | cbn in Hn; lia].
  - destruct s as [|b r]; [constructor|]. rewrite runes_cons. constructor.
    + unfold chunk_ne. cbn [snd]. pose proof (step_bounds b r) as Hb.
      destruct (snd (step (b :: r))); [lia | discriminate].
    + apply IH. pose proof (skipn_step_len b r). cbn [length] in *. lia.
Qed.

Definition rlen (l : list (bool * bytes)) : nat := length (unrunes l).

Lemma rlen_cons p l : rlen (p :: l) = length (snd p) + rlen l.
Proof. unfold rlen, unrunes. cbn [map concat]. apply app_length. Qed.

Lemma rlen_app a b : rlen (a ++ b) = rlen a + rlen b.
Proof. unfold rlen. rewrite unrunes_app. apply app_length. Qed.

Lemma rlen_rev l : rlen (rev l) = rlen l.
Proof.
  induction l as [|p l IH]; [reflexivity|]. cbn [rev]. rewrite rlen_app, IH, !rlen_cons.
  unfold rlen at 2. cbn. lia.
Qed.

Lemma dws_rlen l : Forall chunk_ne l ->
  rlen (drop_while_space l) <= rlen l /\ (rlen (drop_while_space l) = rlen l -> drop_while_space l = l).
Proof.
  induction 1 as [|[[|] w] l Hp Hl IH]; cbn [drop_while_space].
  - split; [lia | reflexivity].
  - rewrite rlen_cons. cbn [snd]. unfold chunk_ne in Hp. cbn [snd] in Hp.
    destruct w; [congruence|]. cbn [length]. destruct IH as [IH1 IH2]. split; [lia | intro; lia].
  - split; [lia | reflexivity].
Qed.

Lemma dws_chunks l : Forall chunk_ne l -> Forall chunk_ne (drop_while_space l).
Proof. induction 1 as [|[[|] w] l Hp Hl IH]; cbn [drop_while_space]; [constructor | exact IH | constructor; assumption]. Qed.

Lemma rtrim_rlen l : Forall chunk_ne l ->
  rlen (rtrim l) <= rlen l /\ (rlen (rtrim l) = rlen l -> rtrim l = l).
Proof.
  intro H. unfold rtrim. rewrite rlen_rev.
  assert (Hr : Forall chunk_ne (rev l)) by (apply Forall_rev, H).
  destruct (dws_rlen _ Hr) as [H1 H2]. rewrite rlen_rev in H1, H2. split; [exact H1|].
  intro E. rewrite (H2 E). apply rev_involutive.
Qed.

Lemma trimmed_runes v : trim_space v = v ->
  drop_while_space (runes v) = runes v /\ rtrim (runes v) = runes v.
Proof.
  intro H. pose proof (runes_chunks_ne _ v (le_n _)) as Hc.
  assert (E : rlen (rtrim (drop_while_space (runes v))) = rlen (runes v)).
  { unfold rlen. rewrite <- trim_space_eq, H, unrunes_runes. reflexivity. }
  destruct (dws_rlen _ Hc) as [A1 A2].
  destruct (rtrim_rlen _ (dws_chunks _ Hc)) as [B1 B2].
  assert (E1 : drop_while_space (runes v) = runes v) by (apply A2; lia).
  split; [exact E1|]. rewrite E1 in B2. apply B2. rewrite E1 in E. exact E.
Qed.

Lemma dws_length l : length (drop_while_space l) <= length l.
Proof. induction l as [|[[|] w] l IH]; cbn [drop_while_space length]; lia. Qed.

(* a non-empty trimmed string starts and ends with a non-space rune *)
Lemma trimmed_shape v : trim_space v = v -> v <> [] ->
  (exists w l, runes v = (false, w) :: l) /\ (exists l w, runes v = l ++ [(false, w)]).
Proof.
  intros H Hne. destruct (trimmed_runes v H) as [H1 H2].
  assert (Hl : runes v <> []) by (destruct v; [congruence | rewrite runes_cons; discriminate]).
  split.
  - destruct (runes v) as [|[[|] w] l]; [congruence | | eauto].
    exfalso. cbn [drop_while_space] in H1. pose proof (dws_length l) as Hd. rewrite H1 in Hd.
    cbn [length] in Hd. lia.
  - unfold rtrim in H2. apply (f_equal (@rev _)) in H2. rewrite rev_involutive in H2.
    assert (Hr : rev (runes v) <> []).
    { intro E. apply (f_equal (@rev _)) in E. rewrite rev_involutive in E. exact (Hl E). }
    destruct (rev (runes v)) as [|[[|] w] l] eqn:Er; [congruence | |].
    + exfalso. cbn [drop_while_space] in H2. pose proof (dws_length l) as Hd. rewrite H2 in Hd.
      cbn [length] in Hd. lia.
    + exists (rev l), w. apply (f_equal (@rev _)) in Er. rewrite rev_involutive in Er. exact Er.
Qed.

(* white space around a trimmed string is trimmed away, whatever the string's encoding *)
Lemma trim_space_around ws1 v ws2 :
  forallb ascii_space ws1 = true -> forallb ascii_space ws2 = true ->
  trim_space v = v -> trim_space (ws1 ++ v ++ ws2) = v.
Proof.
  intros H1 H2 Hv. rewrite trim_space_ws_app, trim_space_app_ws by assumption. exact Hv.
Qed.

(* a solid byte, anything, an ASCII byte, a trimmed non-empty string: already trimmed *)
Lemma trim_space_solid_trimmed c m d v :
  solid c = true -> ascii d = true -> trim_space v = v -> v <> [] ->
  trim_space (c :: m ++ d :: v) = c :: m ++ d :: v.
Proof.
  unfold solid. intros Hc Hd Hv Hne.
  apply andb_true_iff in Hc. destruct Hc as [Ha Hs]. apply negb_true_iff in Hs.
  destruct (trimmed_shape v Hv Hne) as [_ (l & w & El)].
  rewrite trim_space_eq.
  assert (R : runes (c :: m ++ d :: v) = ((false, [c]) :: runes m ++ (ascii_space d, [d]) :: l) ++ [(false, w)]).
  { rewrite runes_ascii, Hs by exact Ha. rewrite runes_snoc by exact Hd. rewrite El.
    cbn [app]. rewrite <- app_assoc. reflexivity. }
  assert (D : drop_while_space (runes (c :: m ++ d :: v)) = runes (c :: m ++ d :: v)).
  { rewrite runes_ascii, Hs by exact Ha. reflexivity. }
  rewrite D, R, rtrim_snoc_false.
  transitivity (unrunes (runes (c :: m ++ d :: v))); [f_equal; symmetry; exact R | apply unrunes_runes].
Qed.

(* ================================================================== *)
(* 2. split_on / join                                                  *)
(* ================================================================== *)
Definition lacks (c : byte) (s : bytes) : bool := forallb (fun b => negb (beqb b c)) s.

Lemma split_on_lacks c a b : lacks c a = true -> split_on c (a ++ c :: b) = a :: split_on c b.
Proof.
  induction a as [|x a IH]; intro H.
  - cbn [app split_on]. rewrite beqb_refl. reflexivity.
  - cbn [lacks forallb] in H. apply andb_true_iff in H. destruct H as [Hx Ha].
    apply negb_true_iff in Hx. cbn [app]. rewrite split_on_cons_ne by exact Hx.
    rewrite (IH Ha). reflexivity.
Qed.

Lemma split_on_lacks_all c a : lacks c a = true -> split_on c a = [a].
Proof.
  induction a as [|x a IH]; intro H; [reflexivity|].
  cbn [lacks forallb] in H. apply andb_true_iff in H. destruct H as [Hx Ha].
  apply negb_true_iff in Hx. rewrite split_on_cons_ne by exact Hx. rewrite (IH Ha). reflexivity.
Qed.

Lemma join_cons sep x l : l <> [] -> join sep (x :: l) = x ++ sep ++ join sep l.
Proof. destruct l; [congruence | reflexivity]. Qed.

Lemma join_split_on c s : join [c] (split_on c s) = s.
Proof.
  induction s as [|x s IH]; [reflexivity|].
  pose proof (split_on_nonempty c s) as N. destruct (beqb x c) eqn:E.
  - cbn [split_on]. rewrite E, join_cons by exact N. rewrite IH. apply beqb_true in E. subst. reflexivity.
  - rewrite split_on_cons_ne by exact E. destruct (split_on c s) as [|p ps]; [congruence|].
    cbn [hd tl]. destruct ps as [|q qs].
    + cbn [join] in *. rewrite IH. reflexivity.
    + rewrite join_cons in * by discriminate. cbn [app] in *. rewrite IH. reflexivity.
Qed.

Lemma lacks_app c a b : lacks c (a ++ b) = lacks c a && lacks c b.
Proof. apply forallb_app. Qed.

(* ================================================================== *)
(* 3. A1: one header line                                              *)
(* ================================================================== *)
(* keys: non-empty, first byte ASCII and not white space, no space and no line feed inside;
   values: non-empty, no line feed, no white space (in the sense of strings.TrimSpace, Unicode
   included) at either end.  Keys and values are otherwise arbitrary byte strings. *)
Definition key_okb (k : bytes) : bool :=
  match k with c :: _ => solid c | [] => false end && lacks x20 k && lacks nl k.
Definition value_okb (v : bytes) : bool :=
  nonempty v && bytes_eqb (trim_space v) v && lacks nl v.
Definition field_okb (kv : bytes * bytes) : bool := key_okb (fst kv) && value_okb (snd kv).

Lemma solid_star : solid x2a = true.
Proof. reflexivity. Qed.

Lemma field_ok_inv k v : field_okb (k, v) = true ->
  (exists c k', k = c :: k' /\ solid c = true) /\ lacks x20 k = true /\ lacks nl k = true /\
  v <> [] /\ trim_space v = v /\ lacks nl v = true.
Proof.
  unfold field_okb, key_okb, value_okb. cbn [fst snd]. intro H.
  apply andb_true_iff in H. destruct H as [Hk Hv].
  apply andb_true_iff in Hk. destruct Hk as [Hk K3]. apply andb_true_iff in Hk. destruct Hk as [K1 K2].
  apply andb_true_iff in Hv. destruct Hv as [Hv V3]. apply andb_true_iff in Hv. destruct Hv as [V1 V2].
  repeat split; try assumption.
  - destruct k as [|c k']; [discriminate K1|]. eauto.
  - destruct v; [discriminate V1 | discriminate].
  - apply bytes_eqb_true. assumption.
Qed.

(* the trailer [e] is what remains of the line terminator: nothing, or a CR under CRLF *)
Theorem parse_comment_line_field_gen k v e :
  field_okb (k, v) = true -> forallb ascii_space e = true ->
  parse_comment_line (" * " ++ k ++ " " ++ v ++ e) = (k, v).
Proof.
  intros H He. destruct (field_ok_inv k v H) as ((c & k' & -> & Hc) & Hsp & _ & Hne & Hv & _).
  unfold parse_comment_line.
  assert (T1 : trim_space (" * " ++ (c :: k') ++ " " ++ v ++ e) = x2a :: (x20 :: c :: k') ++ x20 :: v).
  { change (" * " ++ (c :: k') ++ " " ++ v ++ e)
      with ([x20] ++ (x2a :: (x20 :: c :: k') ++ x20 :: v ++ e)).
    replace (x2a :: (x20 :: c :: k') ++ x20 :: v ++ e)
      with ((x2a :: (x20 :: c :: k') ++ x20 :: v) ++ e)
      by (cbn [app]; rewrite <- app_assoc; reflexivity).
    apply trim_space_around; [reflexivity | exact He |].
    apply trim_space_solid_trimmed; [exact solid_star | reflexivity | exact Hv | exact Hne]. }
  rewrite T1.
  change (trim_prefix "*" (x2a :: (x20 :: c :: k') ++ x20 :: v)) with ([x20] ++ (c :: k' ++ x20 :: v)).
  rewrite trim_space_ws_app by reflexivity.
  rewrite trim_space_solid_trimmed by (assumption || reflexivity).
  change (c :: k' ++ x20 :: v) with ((c :: k') ++ x20 :: v).
  rewrite split_on_lacks by exact Hsp.
  pose proof (split_on_nonempty x20 v) as N. pose proof (join_split_on x20 v) as J.
  destruct (split_on x20 v) as [|p ps]; [congruence|]. rewrite J. reflexivity.
Qed.

Theorem parse_comment_line_field k v : field_okb (k, v) = true ->
  parse_comment_line (" * " ++ k ++ " " ++ v) = (k, v)
  /\ parse_comment_line (" * " ++ k ++ " " ++ v ++ [x0d]) = (k, v).
Proof.
  intro H. split.
  - rewrite <- (app_nil_r v) at 1. apply parse_comment_line_field_gen; [exact H | reflexivity].
  - apply parse_comment_line_field_gen; [exact H | reflexivity].
Qed.
Print Assumptions parse_comment_line_field.

(* ================================================================== *)
(* 4. the lines of a rendered rule file                                *)
(* ================================================================== *)
(* eol = e ++ "\n" with e = "" (LF) or e = "\r" (CRLF) *)
Definition cr_ok (e : bytes) : Prop := e = [] \/ e = [x0d].
Definition eol_ok (eol : bytes) : Prop := eol = [nl] \/ eol = [x0d; nl].

Lemma eol_ok_inv eol : eol_ok eol -> exists e, cr_ok e /\ eol = e ++ [nl].
Proof. intros [-> | ->]; [exists [] | exists [x0d]]; (split; [unfold cr_ok; auto | reflexivity]). Qed.

Definition hdr_lines (e : bytes) (fields : list (bytes * bytes)) : list bytes :=
  map (fun kv => header_line kv ++ e) fields.

Definition field_nl_okb (kv : bytes * bytes) : bool := lacks nl (fst kv) && lacks nl (snd kv).

Lemma field_ok_nl kv : field_okb kv = true -> field_nl_okb kv = true.
Proof.
  destruct kv as [k v]. intro H. destruct (field_ok_inv k v H) as (_ & _ & Hk & _ & _ & Hv).
  unfold field_nl_okb. cbn [fst snd]. rewrite Hk, Hv. reflexivity.
Qed.

Lemma fields_ok_nl fields : forallb field_okb fields = true -> forallb field_nl_okb fields = true.
Proof.
  induction fields as [|kv fs IH]; [reflexivity|]. cbn [forallb]. intro H.
  apply andb_true_iff in H. destruct H as [H1 H2]. rewrite (field_ok_nl _ H1), (IH H2). reflexivity.
Qed.

Lemma header_line_lacks e kv : cr_ok e -> field_nl_okb kv = true -> lacks nl (header_line kv ++ e) = true.
Proof.
  intros He H. unfold field_nl_okb in H. apply andb_true_iff in H. destruct H as [Hk Hv].
  unfold header_line. rewrite !lacks_app, Hk, Hv. destruct He as [-> | ->]; reflexivity.
Qed.

Lemma split_header_lines e fields rest : cr_ok e -> forallb field_nl_okb fields = true ->
  split_on nl (concat (map (fun kv => header_line kv ++ e ++ [nl]) fields) ++ rest)
  = hdr_lines e fields ++ split_on nl rest.
Proof.
  intros He. induction fields as [|kv fs IH]; intro H; [reflexivity|].
  cbn [forallb] in H. apply andb_true_iff in H. destruct H as [H1 H2].
  cbn [map concat hdr_lines].
  replace (((header_line kv ++ e ++ [nl]) ++ concat (map (fun kv0 => header_line kv0 ++ e ++ [nl]) fs)) ++ rest)
    with ((header_line kv ++ e) ++ nl :: (concat (map (fun kv0 => header_line kv0 ++ e ++ [nl]) fs) ++ rest))
    by (rewrite <- !app_assoc; reflexivity).
  rewrite split_on_lacks by (apply header_line_lacks; assumption).
  rewrite (IH H2). reflexivity.
Qed.

Lemma render_rule_lines e fields qt : cr_ok e -> forallb field_nl_okb fields = true ->
  split_on nl (render_rule (e ++ [nl]) fields qt)
  = ("/**" ++ e) :: hdr_lines e fields ++ (" */" ++ e) :: e :: split_on nl qt.
Proof.
  intros He H. unfold render_rule.
  replace ("/**" ++ (e ++ [nl]) ++ concat (map (fun kv => header_line kv ++ e ++ [nl]) fields)
             ++ " */" ++ (e ++ [nl]) ++ (e ++ [nl]) ++ qt)
    with (("/**" ++ e) ++ nl :: (concat (map (fun kv => header_line kv ++ e ++ [nl]) fields)
             ++ ((" */" ++ e) ++ nl :: (e ++ nl :: qt))))
    by (rewrite <- !app_assoc; reflexivity).
  assert (L1 : lacks nl ("/**" ++ e) = true) by (destruct He as [-> | ->]; reflexivity).
  assert (L2 : lacks nl (" */" ++ e) = true) by (destruct He as [-> | ->]; reflexivity).
  assert (L3 : lacks nl e = true) by (destruct He as [-> | ->]; reflexivity).
  rewrite split_on_lacks by exact L1. rewrite split_header_lines by assumption.
  rewrite split_on_lacks by exact L2. rewrite split_on_lacks by exact L3. reflexivity.
Qed.

(* ================================================================== *)
(* 5. A2: the metadata                                                 *)
(* ================================================================== *)
(* a line " *..." is neither a comment opener nor a query start *)
Lemma star_line y :
  has_prefix "/*" (trim_space (x20 :: x2a :: y)) = false /\ starts_query (x20 :: x2a :: y) = false.
Proof.
  unfold starts_query. change (x20 :: x2a :: y) with ([x20] ++ x2a :: y).
  rewrite trim_space_ws_app by reflexivity.
  destruct (trim_space_head x2a y solid_star) as (z & ->). split; reflexivity.
Qed.

Lemma starts_query_not_comment l : starts_query l = true -> has_prefix "/*" (trim_space l) = false.
Proof.
  unfold starts_query. destruct (trim_space l) as [|c t]; [reflexivity|].
  cbn [has_prefix]. destruct (beqb x2f c) eqn:E; [|reflexivity].
  apply beqb_true in E. subst c. intro H. discriminate H.
Qed.

Definition hdr_step (e : bytes) (r : rule) (kv : bytes * bytes) : rule :=
  let '(k, v) := parse_comment_line (header_line kv ++ e) in set_field r k v.

Lemma pcl_header e fields : forall rest r,
  parse_ci_lines (hdr_lines e fields ++ rest) false true [] r
  = parse_ci_lines rest false true [] (fold_left (hdr_step e) fields r).
Proof.
  induction fields as [|kv fs IH]; intros rest r; [reflexivity|].
  cbn [hdr_lines map app fold_left]. cbn [parse_ci_lines].
  destruct (star_line (x20 :: (fst kv ++ x20 :: snd kv) ++ e)) as [S1 S2].
  change (x20 :: x2a :: x20 :: (fst kv ++ x20 :: snd kv) ++ e) with (header_line kv ++ e) in S1, S2.
  rewrite S1, S2. fold (hdr_lines e fs).
  unfold hdr_step at 2. destruct (parse_comment_line (header_line kv ++ e)) as [k v]. apply IH.
Qed.

Lemma set_field_nil r : set_field r [] [] = r.
Proof. destruct r; reflexivity. Qed.

(* from the start of the file to the first line of the query *)
Lemma pcl_rule e fields qt : cr_ok e -> forallb field_nl_okb fields = true ->
  parse_ci_lines (split_on nl (render_rule (e ++ [nl]) fields qt)) false false [] empty_rule
  = parse_ci_lines (split_on nl qt) false true [] (fold_left (hdr_step e) fields empty_rule).
Proof.
  intros He H. rewrite render_rule_lines by assumption.
  cbn [parse_ci_lines].
  assert (E0 : has_prefix "/*" (trim_space ("/**" ++ e)) = true) by (destruct He as [-> | ->]; vm_compute; reflexivity).
  rewrite E0, pcl_header. cbn [parse_ci_lines].
  destruct (star_line (x2f :: e)) as [S1 S2].
  change (" */" ++ e) with (x20 :: x2a :: x2f :: e). rewrite S1, S2.
  assert (E1 : parse_comment_line (x20 :: x2a :: x2f :: e) = ([], [])) by (destruct He as [-> | ->]; vm_compute; reflexivity).
  assert (E2 : has_prefix "/*" (trim_space e) = false) by (destruct He as [-> | ->]; vm_compute; reflexivity).
  assert (E3 : starts_query e = false) by (destruct He as [-> | ->]; vm_compute; reflexivity).
  assert (E4 : parse_comment_line e = ([], [])) by (destruct He as [-> | ->]; vm_compute; reflexivity).
  rewrite E1, E2, E3, E4, !set_field_nil. reflexivity.
Qed.

Lemma pcl_find_fst : forall lines c q r, fst (parse_ci_lines lines true c q r) = r.
Proof.
  induction lines as [|l ls IH]; intros c q r; [reflexivity|]. cbn [parse_ci_lines].
  destruct (has_prefix "/*" (trim_space l)); [apply IH|]. destruct (starts_query l); apply IH.
Qed.

(* set_field, field by field *)
Ltac set_field_tac k :=
  unfold set_field;
  repeat match goal with
         | |- context [if bytes_eqb k ?s then _ else _] =>
             let E := fresh "E" in
             destruct (bytes_eqb k s) eqn:E; [apply bytes_eqb_true in E; subst k; reflexivity|]
         end; reflexivity.

Lemma set_field_id r k v : r_id (set_field r k v) = if bytes_eqb k "@id" then v else r_id r.
Proof. set_field_tac k. Qed.
Lemma set_field_desc r k v : r_desc (set_field r k v) = if bytes_eqb k "@description" then v else r_desc r.
Proof. set_field_tac k. Qed.
Lemma set_field_severity r k v :
  r_severity (set_field r k v) = if bytes_eqb k "@problem.severity" then v else r_severity r.
Proof. set_field_tac k. Qed.
Lemma set_field_impact r k v :
  r_impact (set_field r k v) = if bytes_eqb k "@security-severity" then v else r_impact r.
Proof. set_field_tac k. Qed.
Lemma set_field_provider r k v :
  r_provider (set_field r k v) = if bytes_eqb k "@ruleprovider" then v else r_provider r.
Proof. set_field_tac k. Qed.

Lemma fold_proj (proj : rule -> bytes) key :
  (forall r k v, proj (set_field r k v) = if bytes_eqb k key then v else proj r) ->
  forall fields r0,
    proj (fold_left (fun r kv => set_field r (fst kv) (snd kv)) fields r0)
    = last_value key fields (proj r0).
Proof.
  intros Hp. induction fields as [|[k v] fs IH]; intro r0; [reflexivity|].
  cbn [fold_left last_value fst snd]. rewrite IH, Hp. reflexivity.
Qed.

Lemma hdr_fold_ok e fields : forallb ascii_space e = true -> forallb field_okb fields = true ->
  forall r, fold_left (hdr_step e) fields r = fold_left (fun r kv => set_field r (fst kv) (snd kv)) fields r.
Proof.
  intros He. induction fields as [|[k v] fs IH]; intros H r; [reflexivity|].
  cbn [forallb] in H. apply andb_true_iff in H. destruct H as [H1 H2].
  cbn [fold_left fst snd]. rewrite (IH H2). f_equal. unfold hdr_step, header_line. cbn [fst snd].
  replace ((" * " ++ k ++ " " ++ v) ++ e) with (" * " ++ k ++ " " ++ v ++ e)
    by (cbn [app]; rewrite <- !app_assoc; reflexivity).
  rewrite parse_comment_line_field_gen by assumption. reflexivity.
Qed.

(* the rule the ci command builds *)
Definition header_rule (fields : list (bytes * bytes)) : rule :=
  fold_left (fun r kv => set_field r (fst kv) (snd kv)) fields empty_rule.

Lemma parse_ci_header eol fields qt :
  eol_ok eol -> forallb field_okb fields = true ->
  starts_query (hd [] (split_on nl qt)) = true ->
  exists q, parse_ci_lines (split_on nl (render_rule eol fields qt)) false false [] empty_rule
            = (header_rule fields, q).
Proof.
  intros Heol Hf Hq. destruct (eol_ok_inv _ Heol) as (e & He & ->).
  rewrite pcl_rule by (exact He || apply fields_ok_nl, Hf).
  rewrite hdr_fold_ok by (exact Hf || destruct He as [-> | ->]; reflexivity).
  fold (header_rule fields).
  pose proof (split_on_nonempty nl qt) as N. destruct (split_on nl qt) as [|l0 ls]; [congruence|].
  cbn [hd] in Hq. cbn [parse_ci_lines]. rewrite (starts_query_not_comment _ Hq), Hq.
  pose proof (pcl_find_fst ls true ([] ++ l0 ++ " ") (header_rule fields)) as F.
  destruct (parse_ci_lines ls true true ([] ++ l0 ++ " ") (header_rule fields)) as [r q].
  cbn [fst] in F. subst r. exists q. reflexivity.
Qed.

Theorem parse_ci_metadata eol fields qt :
  eol_ok eol -> forallb field_okb fields = true ->
  starts_query (hd [] (split_on nl qt)) = true ->
  let r := parse_ci (render_rule eol fields qt) in
  r_id r = last_value "@id" fields []
  /\ r_desc r = last_value "@description" fields []
  /\ r_severity r = last_value "@problem.severity" fields []
  /\ r_impact r = last_value "@security-severity" fields []
  /\ r_provider r = last_value "@ruleprovider" fields [].
Proof.
  intros Heol Hf Hq. destruct (parse_ci_header eol fields qt Heol Hf Hq) as (q & E).
  unfold parse_ci. rewrite E. cbn [r_id r_desc r_severity r_impact r_provider]. unfold header_rule.
  rewrite (fold_proj r_id "@id" set_field_id), (fold_proj r_desc "@description" set_field_desc),
    (fold_proj r_severity "@problem.severity" set_field_severity),
    (fold_proj r_impact "@security-severity" set_field_impact),
    (fold_proj r_provider "@ruleprovider" set_field_provider).
  repeat split; reflexivity.
Qed.
Print Assumptions parse_ci_metadata.

(* ================================================================== *)
(* 6. line-wise text transformations                                   *)
(* ================================================================== *)
Lemma beqb_sym a b : beqb a b = beqb b a.
Proof.
  destruct (beqb a b) eqn:E1, (beqb b a) eqn:E2; try reflexivity.
  - apply beqb_true in E1. subst. rewrite beqb_refl in E2. discriminate.
  - apply beqb_true in E2. subst. rewrite beqb_refl in E1. discriminate.
Qed.

(* ci: every line followed by a space = every line feed replaced by a space, plus one space *)
Definition nl_to_sp (s : bytes) : bytes := map (fun b => if beqb b nl then x20 else b) s.

Lemma ci_join s : concat (map (fun l => l ++ " ") (split_on nl s)) = nl_to_sp s ++ " ".
Proof.
  induction s as [|x s IH]; [reflexivity|]. cbn [nl_to_sp map]. fold (nl_to_sp s).
  destruct (beqb x nl) eqn:E.
  - cbn [split_on]. rewrite E. cbn [map concat app]. rewrite IH. reflexivity.
  - rewrite split_on_cons_ne by exact E. pose proof (split_on_nonempty nl s) as N.
    destruct (split_on nl s) as [|p ps]; [congruence|]. cbn [hd tl map concat] in *.
    rewrite <- app_assoc. cbn [app]. rewrite <- IH, <- app_assoc. reflexivity.
Qed.

Lemma nl_to_sp_app a b : nl_to_sp (a ++ b) = nl_to_sp a ++ nl_to_sp b.
Proof. apply map_app. Qed.

Lemma nl_to_sp_lacks t : lacks nl t = true -> nl_to_sp t = t.
Proof.
  induction t as [|x t IH]; intro H; [reflexivity|].
  cbn [lacks forallb] in H. apply andb_true_iff in H. destruct H as [Hx Ht]. apply negb_true_iff in Hx.
  cbn [nl_to_sp map]. rewrite Hx. fold (nl_to_sp t). rewrite (IH Ht). reflexivity.
Qed.

(* scan/query: bufio.ScanLines drops a CR at the end of each line *)
Lemma drop_cr_snoc_cr a : drop_cr (a ++ [x0d]) = a.
Proof.
  unfold drop_cr, trim_suffix, has_suffix. rewrite rev_app_distr. cbn [rev app has_prefix].
  rewrite beqb_refl. cbn [andb]. rewrite app_length. cbn [length].
  replace (length a + 1 - 1) with (length a + 0) by lia. rewrite firstn_app_2. cbn [firstn]. apply app_nil_r.
Qed.

Lemma drop_cr_snoc_other a c : beqb c x0d = false -> drop_cr (a ++ [c]) = a ++ [c].
Proof.
  intro H. unfold drop_cr, trim_suffix, has_suffix. rewrite rev_app_distr. cbn [rev app has_prefix].
  rewrite beqb_sym, H. reflexivity.
Qed.

Lemma drop_cr_cons x h : (beqb x x0d = false \/ h <> []) -> drop_cr (x :: h) = x :: drop_cr h.
Proof.
  intro H. destruct h as [|y h'].
  - destruct H as [H | H]; [|congruence]. exact (drop_cr_snoc_other [] x H).
  - destruct (exists_last (l := y :: h') ltac:(discriminate)) as (h0 & c & ->).
    change (x :: h0 ++ [c]) with ((x :: h0) ++ [c]).
    destruct (beqb c x0d) eqn:E.
    + apply beqb_true in E. subst c. rewrite !drop_cr_snoc_cr. reflexivity.
    + rewrite !drop_cr_snoc_other by exact E. reflexivity.
Qed.

(* on the text: remove every CR that is followed by a line feed; [k] says whether a CR at the very
   end is kept (the text continues with something that is not a line feed) or dropped (end of
   the file) *)
Fixpoint Dk (k : bool) (s : bytes) : bytes :=
  match s with
  | [] => []
  | x :: s' =>
      if beqb x x0d then
        match s' with
        | [] => if k then [x] else []
        | y :: _ => if beqb y nl then Dk k s' else x :: Dk k s'
        end
      else x :: Dk k s'
  end.

Lemma Dk_cons k x s' :
  Dk k (x :: s') =
  if beqb x x0d then
    match s' with
    | [] => if k then [x] else []
    | y :: _ => if beqb y nl then Dk k s' else x :: Dk k s'
    end
  else x :: Dk k s'.
Proof. reflexivity. Qed.

Lemma scan_lines_Dk s : map drop_cr (split_on nl s) = split_on nl (Dk false s).
Proof.
  induction s as [|x s IH]; [reflexivity|].
  rewrite (Dk_cons false x s).
  destruct (beqb x nl) eqn:En.
  - assert (Ex : beqb x x0d = false).
    { apply beqb_true in En. subst x. reflexivity. }
    rewrite Ex. cbn [split_on]. rewrite En. cbn [map]. rewrite IH. reflexivity.
  - rewrite (split_on_cons_ne nl x s) by exact En. cbn [map].
    pose proof (split_on_nonempty nl s) as N.
    destruct (beqb x x0d) eqn:Ex.
    + destruct s as [|y s'].
      * apply beqb_true in Ex. subst x. reflexivity.
      * destruct (beqb y nl) eqn:Ey.
        -- rewrite <- IH. cbn [split_on]. rewrite Ey. cbn [hd tl map].
           apply beqb_true in Ex. subst x. reflexivity.
        -- rewrite (split_on_cons_ne nl x (Dk false (y :: s'))) by exact En. rewrite <- IH.
           rewrite (split_on_cons_ne nl y s') by exact Ey. cbn [hd tl map].
           rewrite drop_cr_cons by (right; discriminate). reflexivity.
    + rewrite (split_on_cons_ne nl x (Dk false s)) by exact En. rewrite <- IH.
      destruct (split_on nl s) as [|p ps]; [congruence|]. cbn [hd tl map].
      rewrite drop_cr_cons by (left; exact Ex). reflexivity.
Qed.

Lemma Dk_app_cont k a y b : beqb y nl = false -> Dk k (a ++ y :: b) = Dk true a ++ Dk k (y :: b).
Proof.
  intro Hy. induction a as [|x a IH]; [reflexivity|].
  cbn [app]. rewrite (Dk_cons k x (a ++ y :: b)), (Dk_cons true x a).
  destruct (beqb x x0d) eqn:Ex.
  - destruct a as [|z a'].
    + cbn [app]. rewrite Hy. reflexivity.
    + cbn [app] in *. destruct (beqb z nl); rewrite IH; reflexivity.
  - rewrite IH. reflexivity.
Qed.

Lemma Dk_lacks k t rest : lacks x0d t = true -> Dk k (t ++ rest) = t ++ Dk k rest.
Proof.
  induction t as [|x t IH]; intro H; [reflexivity|].
  cbn [lacks forallb] in H. apply andb_true_iff in H. destruct H as [Hx Ht]. apply negb_true_iff in Hx.
  cbn [app]. rewrite Dk_cons, Hx. rewrite (IH Ht). reflexivity.
Qed.

(* ================================================================== *)
(* 7. the transformations on a rendered token list                     *)
(* ================================================================== *)
(* no token text contains a line feed or a carriage return (no multi-line string literal) *)
Definition single_line_toks (toks : list token) : bool :=
  forallb (fun t => lacks nl (render_tok t) && lacks x0d (render_tok t)) toks.

Lemma single_line_inv t toks : single_line_toks (t :: toks) = true ->
  lacks nl (render_tok t) = true /\ lacks x0d (render_tok t) = true /\ single_line_toks toks = true.
Proof.
  unfold single_line_toks. cbn [forallb]. intro H. apply andb_true_iff in H. destruct H as [H H2].
  apply andb_true_iff in H. tauto.
Qed.

Lemma nl_to_sp_render : forall lay toks, single_line_toks toks = true ->
  nl_to_sp (render toks lay) = render toks (map nl_to_sp lay).
Proof.
  induction lay as [|l lay IH]; intros toks H; [reflexivity|].
  cbn [render map]. rewrite nl_to_sp_app. f_equal. destruct toks as [|t toks]; [reflexivity|].
  destruct (single_line_inv _ _ H) as (H1 & _ & H3).
  rewrite nl_to_sp_app, (nl_to_sp_lacks _ H1), (IH _ H3). reflexivity.
Qed.

Lemma Dk_render : forall toks lay0 ll, forallb tok_wfb toks = true -> single_line_toks toks = true ->
  length lay0 = length toks ->
  Dk false (render toks (lay0 ++ [ll])) = render toks (map (Dk true) lay0 ++ [Dk false ll]).
Proof.
  induction toks as [|t toks IH]; intros lay0 ll Hwf Hsl Hlen.
  - destruct lay0; [|discriminate Hlen]. cbn [app map render]. rewrite !app_nil_r. reflexivity.
  - destruct lay0 as [|l lay0]; [discriminate Hlen|]. cbn [length] in Hlen.
    cbn [forallb] in Hwf. apply andb_true_iff in Hwf. destruct Hwf as [Ht Hwf].
    destruct (single_line_inv _ _ Hsl) as (_ & H2 & H3).
    cbn [app map render].
    destruct (tok_head _ Ht) as (c & r & Ec & Hc).
    assert (Hcn : beqb c nl = false) by (destruct c; try reflexivity; discriminate Hc).
    rewrite Ec at 1. cbn [app]. rewrite Dk_app_cont by exact Hcn.
    change (c :: r ++ render toks (lay0 ++ [ll])) with ((c :: r) ++ render toks (lay0 ++ [ll])).
    rewrite <- Ec, Dk_lacks by exact H2. rewrite IH by (assumption || lia). reflexivity.
Qed.

Lemma render_last_app : forall toks lay0 a b, length lay0 = length toks ->
  render toks (lay0 ++ [a]) ++ b = render toks (lay0 ++ [a ++ b]).
Proof.
  induction toks as [|t toks IH]; intros lay0 a b Hlen.
  - destruct lay0; [|discriminate Hlen]. cbn [app render]. rewrite !app_nil_r. reflexivity.
  - destruct lay0 as [|l lay0]; [discriminate Hlen|]. cbn [length] in Hlen.
    cbn [app render]. rewrite <- !app_assoc, IH by lia. reflexivity.
Qed.

(* ---- separability only depends on which layout elements are empty ---- *)
Lemma gap_okb_ne prev l l' t : nonempty l' = nonempty l -> gap_okb prev l' t = gap_okb prev l t.
Proof. destruct l, l'; intro H; try discriminate H; reflexivity. Qed.

Lemma sep_from_map (f : bytes -> bytes) :
  (forall l, all_ws l = true -> all_ws (f l) = true) -> (forall l, nonempty (f l) = nonempty l) ->
  forall toks prev lay, sep_from prev toks lay = true -> sep_from prev toks (map f lay) = true.
Proof.
  intros Hws Hne. induction toks as [|t toks IH]; intros prev lay H; cbn [sep_from] in H.
  - destruct lay as [|l [|? ?]]; try discriminate H.
    apply andb_true_iff in H. destruct H as [H1 H2].
    cbn [map sep_from]. rewrite (Hws _ H1), Hne. exact H2.
  - destruct lay as [|l [|l2 lay]]; try discriminate H.
    apply andb4 in H. destruct H as (H1 & Hgap & Hinw & Hrest).
    specialize (IH _ _ Hrest). cbn [map] in *. cbn [sep_from].
    rewrite (Hws _ H1), (gap_okb_ne prev l (f l) t (Hne l)), Hgap, IH. unfold inword_okb in *.
    rewrite !Hne, Hinw. reflexivity.
Qed.

Lemma last_default {A} (l : list A) d d' : l <> [] -> last l d = last l d'.
Proof.
  induction l as [|x l IH]; [congruence|]. intros _. destruct l as [|y l]; [reflexivity|].
  cbn [last] in *. apply IH. discriminate.
Qed.

Lemma inword_okb_nil_r t l : inword_okb t l [] = true.
Proof. unfold inword_okb. cbn [nonempty]. rewrite andb_false_r. reflexivity. Qed.

(* the last layout element may be emptied unless the last token is ' in ' *)
Lemma sep_last_empty : forall toks prev lay0 ll,
  sep_from prev toks (lay0 ++ [ll]) = true -> length lay0 = length toks ->
  is_tin (last toks (match prev with Some p => p | None => TFrom end)) = false ->
  sep_from prev toks (lay0 ++ [[]]) = true.
Proof.
  induction toks as [|t toks IH]; intros prev lay0 ll H Hlen Hlast.
  - destruct lay0; [|discriminate Hlen]. cbn [app sep_from] in *.
    destruct prev as [p|]; [|reflexivity]. cbn [last] in Hlast. rewrite Hlast. reflexivity.
  - destruct lay0 as [|l lay0]; [discriminate Hlen|]. cbn [length] in Hlen.
    destruct lay0 as [|l2 lay0].
    + destruct toks; [|discriminate Hlen]. cbn [app sep_from] in *.
      apply andb4 in H. destruct H as (H1 & Hgap & _ & _).
      rewrite H1, Hgap, inword_okb_nil_r. cbn [last] in Hlast. rewrite Hlast. reflexivity.
    + cbn [app] in *. cbn [sep_from] in H |- *.
      apply andb4 in H. destruct H as (H1 & Hgap & Hinw & Hrest).
      rewrite H1, Hgap, Hinw. cbn [andb]. apply (IH (Some t) (l2 :: lay0) ll Hrest); [lia|].
      destruct toks as [|t2 toks]; [discriminate Hlen|].
      rewrite (last_default (t2 :: toks) t (match prev with Some p => p | None => TFrom end)) by discriminate.
      exact Hlast.
Qed.

(* ---- white-space layouts stay white space, empty stays empty ---- *)
Lemma is_ws_ascii_space c : is_ws c = true -> ascii_space c = true.
Proof. destruct c; intro H; try discriminate H; reflexivity. Qed.

Lemma all_ws_ascii_space l : all_ws l = true -> forallb ascii_space l = true.
Proof. apply forallb_imp, is_ws_ascii_space. Qed.

Lemma all_ws_nl_to_sp l : all_ws l = true -> all_ws (nl_to_sp l) = true.
Proof.
  unfold all_ws. induction l as [|x l IH]; [reflexivity|]. cbn [forallb nl_to_sp map]. intro H.
  apply andb_true_iff in H. destruct H as [Hx Hl]. fold (nl_to_sp l). rewrite (IH Hl).
  destruct (beqb x nl); [reflexivity | rewrite Hx; reflexivity].
Qed.

Lemma nonempty_nl_to_sp l : nonempty (nl_to_sp l) = nonempty l.
Proof. destruct l; reflexivity. Qed.

Lemma all_ws_Dk k l : all_ws l = true -> all_ws (Dk k l) = true.
Proof.
  unfold all_ws. induction l as [|x l IH]; [reflexivity|]. cbn [forallb]. intro H.
  apply andb_true_iff in H. destruct H as [Hx Hl]. specialize (IH Hl). rewrite Dk_cons.
  destruct (beqb x x0d).
  - destruct l as [|y l'].
    + destruct k; [cbn [forallb]; rewrite Hx|]; reflexivity.
    + destruct (beqb y nl); [exact IH | cbn [forallb]; rewrite Hx; exact IH].
  - cbn [forallb]. rewrite Hx. exact IH.
Qed.

Lemma nonempty_Dk_true l : nonempty (Dk true l) = nonempty l.
Proof.
  destruct l as [|x l]; [reflexivity|]. rewrite Dk_cons. destruct (beqb x x0d); [|reflexivity].
  destruct l as [|y l']; [reflexivity|]. destruct (beqb y nl) eqn:Ey; [|reflexivity].
  apply beqb_true in Ey. subst y. rewrite Dk_cons. reflexivity.
Qed.

(* ---- the last byte of a token ---- *)
Lemma last_app_ne {A} (a b : list A) d : b <> [] -> last (a ++ b) d = last b d.
Proof.
  intro Hb. induction a as [|x a IH]; [reflexivity|]. cbn [app].
  destruct (a ++ b) eqn:E; [|exact IH]. destruct a; [cbn in E; congruence | discriminate E].
Qed.

Lemma last_forallb (p : byte -> bool) l d : l <> [] -> forallb p l = true -> p (last l d) = true.
Proof.
  induction l as [|x l IH]; [congruence|]. intros _ H. cbn [forallb] in H.
  apply andb_true_iff in H. destruct H as [Hx Hl]. destruct l as [|y l]; [exact Hx|].
  apply IH; [discriminate | exact Hl].
Qed.

Lemma digit_solid c : is_digit c = true -> solid c = true.
Proof. destruct c; intro H; try discriminate H; reflexivity. Qed.
Lemma idchar_solid c : is_id_char c = true -> solid c = true.
Proof. destruct c; intro H; try discriminate H; reflexivity. Qed.

Lemma str_body_last b : str_body b = true -> b <> [] /\ last b x20 = x22.
Proof.
  intro Hb. pattern b. apply str_body_ind'; [ | | | exact Hb].
  - intros c Hq. apply is_quote_eq in Hq. subst c. split; [discriminate | reflexivity].
  - intros c d r _ _ _ [Hne Hl]. split; [discriminate|].
    change (c :: d :: r) with ([c; d] ++ r). rewrite last_app_ne by exact Hne. exact Hl.
  - intros c r _ _ _ [Hne Hl]. split; [discriminate|].
    change (c :: r) with ([c] ++ r). rewrite last_app_ne by exact Hne. exact Hl.
Qed.

Lemma tok_last_solid t : tok_wfb t = true -> solid (last (render_tok t) x20) = true.
Proof.
  intro Hwf. destruct t; try reflexivity; cbn [render_tok token_text]; cbn in Hwf.
  - (* TString *)
    destruct s as [|c b]; [discriminate Hwf|]. cbn in Hwf.
    apply andb_true_iff in Hwf. destruct Hwf as [_ Hb]. destruct (str_body_last _ Hb) as [Hne Hl].
    change (c :: b) with ([c] ++ b). rewrite last_app_ne by exact Hne. rewrite Hl. reflexivity.
  - (* TNumber *)
    destruct (number_shape _ Hwf) as (d1 & Hne & Hd1 & [-> | (c & d2 & -> & Hc & Hne2 & Hd2)]).
    + apply digit_solid, last_forallb; assumption.
    + change (d1 ++ c :: d2) with (d1 ++ [c] ++ d2). rewrite !last_app_ne by (exact Hne2 || (destruct d2; [congruence | discriminate])).
      apply digit_solid, last_forallb; assumption.
  - (* TIdent *)
    apply andb_true_iff in Hwf. destruct Hwf as [Hi _].
    destruct s as [|c w]; [discriminate Hi|]. cbn in Hi. apply andb_true_iff in Hi.
    destruct Hi as [Hc Hw]. apply idchar_solid, last_forallb; [discriminate|].
    cbn [forallb]. rewrite (idstart_idchar _ Hc), Hw. reflexivity.
Qed.

Lemma render_last_solid : forall toks lay0, toks <> [] -> forallb tok_wfb toks = true ->
  length lay0 = length toks -> solid (last (render toks (lay0 ++ [[]])) x20) = true.
Proof.
  induction toks as [|t toks IH]; intros lay0 Hne Hwf Hlen; [congruence|].
  destruct lay0 as [|l lay0]; [discriminate Hlen|]. cbn [length] in Hlen.
  cbn [forallb] in Hwf. apply andb_true_iff in Hwf. destruct Hwf as [Ht Hwf].
  cbn [app render].
  assert (Htt : render_tok t <> []) by (destruct (tok_head _ Ht) as (c & r & -> & _); discriminate).
  destruct toks as [|t2 toks].
  - destruct lay0; [|discriminate Hlen]. cbn [app render]. rewrite app_nil_r.
    rewrite last_app_ne by exact Htt. apply tok_last_solid, Ht.
  - specialize (IH lay0 ltac:(discriminate) Hwf ltac:(lia)).
    assert (HR : render (t2 :: toks) (lay0 ++ [[]]) <> []).
    { intro E. rewrite E in IH. discriminate IH. }
    rewrite app_assoc, last_app_ne by exact HR. exact IH.
Qed.

Lemma sep_from_length : forall toks prev lay, sep_from prev toks lay = true -> length lay = S (length toks).
Proof.
  induction toks as [|t toks IH]; intros prev lay H; cbn [sep_from] in H.
  - destruct lay as [|l [|? ?]]; try discriminate H. reflexivity.
  - destruct lay as [|l [|l2 lay]]; try discriminate H.
    apply andb4 in H. destruct H as (_ & _ & _ & Hrest). apply IH in Hrest. cbn [length] in *. lia.
Qed.

(* ---- the shape of the queries considered ---- *)
Definition starts_with_from (toks : list token) : bool :=
  match toks with TFrom :: _ | TPredicate :: _ => true | _ => false end.
Definition first_empty (lay : list bytes) : bool :=
  match lay with [] :: _ => true | _ => false end.

(* the common core: a text that is the tokens rendered with a layout obtained from a separable
   one by a map that keeps white space white and empty elements empty, with any white space at
   the end, lexes (after TrimSpace) to the tokens *)
Lemma relayout_lex toks lay0 ll (g : bytes -> bytes) wsfin :
  forallb tok_wfb toks = true -> starts_with_from toks = true -> is_tin (last toks TFrom) = false ->
  sep_from None toks (lay0 ++ [ll]) = true -> first_empty lay0 = true ->
  (forall l, all_ws l = true -> all_ws (g l) = true) -> (forall l, nonempty (g l) = nonempty l) ->
  forallb ascii_space wsfin = true ->
  lex_query (trim_space (render toks (map g lay0 ++ [wsfin]))) = Some toks.
Proof.
  intros Hwf Hfrom Hlast Hsep Hfirst Hg1 Hg2 Hws.
  assert (Hlen : length lay0 = length toks).
  { apply sep_from_length in Hsep. rewrite app_length in Hsep. cbn [length] in Hsep. lia. }
  assert (Hg0 : g [] = []) by (specialize (Hg2 []); destruct (g []); [reflexivity | discriminate Hg2]).
  rewrite <- (app_nil_l wsfin), <- render_last_app by (rewrite map_length; exact Hlen).
  rewrite trim_space_app_ws by exact Hws.
  set (X := render toks (map g lay0 ++ [[]])).
  change (lex_query (trim_space X) = Some toks).
  assert (Hsep' : separable toks (map g lay0 ++ [[]]) = true).
  { unfold separable.
    replace (map g lay0 ++ [[]]) with (map g (lay0 ++ [[]]))
      by (rewrite map_app; cbn [map]; rewrite Hg0; reflexivity).
    apply sep_from_map; [exact Hg1 | exact Hg2|]. apply (sep_last_empty toks None lay0 ll); assumption. }
  assert (Hne : toks <> []) by (destruct toks; [discriminate Hfrom | discriminate]).
  pose proof (render_last_solid toks (map g lay0) Hne Hwf ltac:(rewrite map_length; exact Hlen)) as Hsol.
  change (solid (last X x20) = true) in Hsol.
  assert (HX : X <> []) by (intro E; rewrite E in Hsol; discriminate Hsol).
  assert (Htrim : trim_space X = X).
  { destruct lay0 as [|[|] lay0']; try discriminate Hfirst.
    destruct toks as [|t0 toks']; [discriminate Hfrom|].
    assert (Hc : exists c m, X = c :: m /\ solid c = true).
    { unfold X. cbn [map app render]. rewrite Hg0.
      destruct t0; try discriminate Hfrom; cbn [render_tok token_text app]; eexists _, _; split; reflexivity. }
    destruct Hc as (c & m & Ec & Hc).
    apply (trim_space_solid c m (last X x20) Hc Hsol X Ec).
    exists (removelast X). apply app_removelast_last, HX. }
  rewrite Htrim. apply lex_render; assumption.
Qed.

(* ================================================================== *)
(* 8. the first line of the query                                      *)
(* ================================================================== *)
Definition nsp_runes (p : bytes) : list (bool * bytes) := map (fun c => (false, [c])) p.

Lemma runes_solid_app p x : forallb solid p = true -> runes (p ++ x) = nsp_runes p ++ runes x.
Proof.
  induction p as [|c p IH]; intro H; [reflexivity|].
  cbn [forallb] in H. apply andb_true_iff in H. destruct H as [Hc Hp].
  unfold solid in Hc. apply andb_true_iff in Hc. destruct Hc as [Ha Hs]. apply negb_true_iff in Hs.
  cbn [app]. rewrite runes_ascii, Hs, (IH Hp) by exact Ha. reflexivity.
Qed.

Lemma rtrim_nsp p l : rtrim (nsp_runes p ++ l) = nsp_runes p ++ rtrim l.
Proof. induction p as [|c p IH]; [reflexivity|]. cbn [nsp_runes map app]. rewrite rtrim_cons_false. f_equal. exact IH. Qed.

Lemma unrunes_nsp p l : unrunes (nsp_runes p ++ l) = p ++ unrunes l.
Proof. induction p as [|c p IH]; [reflexivity|]. cbn [nsp_runes map app]. unfold unrunes in *. cbn [map concat snd app]. f_equal. exact IH. Qed.

Lemma trim_space_prefix p x : forallb solid p = true -> p <> [] -> exists y, trim_space (p ++ x) = p ++ y.
Proof.
  intros H Hne. rewrite trim_space_eq, runes_solid_app by exact H.
  destruct p as [|c p]; [congruence|]. cbn [nsp_runes map app drop_while_space].
  change ((false, [c]) :: map (fun c0 => (false, [c0])) p ++ runes x) with (nsp_runes (c :: p) ++ runes x).
  rewrite rtrim_nsp, unrunes_nsp. eexists. reflexivity.
Qed.

Lemma hd_split_lacks p R : lacks nl p = true -> hd [] (split_on nl (p ++ R)) = p ++ hd [] (split_on nl R).
Proof.
  induction p as [|x p IH]; intro H; [reflexivity|].
  cbn [lacks forallb] in H. apply andb_true_iff in H. destruct H as [Hx Hp]. apply negb_true_iff in Hx.
  cbn [app]. rewrite split_on_cons_ne by exact Hx. cbn [hd]. rewrite (IH Hp). reflexivity.
Qed.

Lemma starts_query_from x : starts_query ("FROM" ++ x) = true /\ starts_query ("predicate" ++ x) = true.
Proof.
  unfold starts_query. split.
  - destruct (trim_space_prefix "FROM" x eq_refl ltac:(discriminate)) as (y & ->). reflexivity.
  - destruct (trim_space_prefix "predicate" x eq_refl ltac:(discriminate)) as (y & ->). reflexivity.
Qed.

Lemma first_line_starts toks lay : starts_with_from toks = true -> first_empty lay = true ->
  starts_query (hd [] (split_on nl (render toks lay))) = true.
Proof.
  intros Hf Hl. destruct lay as [|[|] lay']; try discriminate Hl.
  destruct toks as [|t0 toks']; [discriminate Hf|]. cbn [render app].
  destruct t0; try discriminate Hf; cbn [render_tok token_text]; rewrite hd_split_lacks by reflexivity.
  - exact (proj2 (starts_query_from _)).
  - exact (proj1 (starts_query_from _)).
Qed.

(* ================================================================== *)
(* 9. the ci extractor                                                 *)
(* ================================================================== *)
(* no line of the query text opens a comment: ParseQuery silently drops such a line *)
Definition no_comment_open (qt : bytes) : bool :=
  forallb (fun l => negb (has_prefix "/*" (trim_space l))) (split_on nl qt).

Lemma pcl_query : forall lines c q r,
  forallb (fun l => negb (has_prefix "/*" (trim_space l))) lines = true ->
  parse_ci_lines lines true c q r = (r, q ++ concat (map (fun l => l ++ " ") lines)).
Proof.
  induction lines as [|l ls IH]; intros c q r H; [cbn; rewrite app_nil_r; reflexivity|].
  cbn [forallb] in H. apply andb_true_iff in H. destruct H as [Hl Hls]. apply negb_true_iff in Hl.
  cbn [parse_ci_lines map concat]. rewrite Hl.
  destruct (starts_query l); rewrite (IH _ _ _ Hls), <- !app_assoc; reflexivity.
Qed.

Lemma parse_ci_query eol fields qt :
  eol_ok eol -> forallb field_nl_okb fields = true ->
  starts_query (hd [] (split_on nl qt)) = true -> no_comment_open qt = true ->
  r_query (parse_ci (render_rule eol fields qt)) = trim_space (nl_to_sp qt ++ " ").
Proof.
  intros Heol Hf Hq Hno. destruct (eol_ok_inv _ Heol) as (e & He & ->).
  unfold parse_ci. rewrite pcl_rule by assumption.
  unfold no_comment_open in Hno. rewrite <- ci_join.
  pose proof (split_on_nonempty nl qt) as N. destruct (split_on nl qt) as [|l0 ls]; [congruence|].
  cbn [hd] in Hq. cbn [parse_ci_lines]. rewrite (starts_query_not_comment _ Hq), Hq.
  cbn [forallb] in Hno. apply andb_true_iff in Hno. destruct Hno as [_ Hno].
  rewrite (pcl_query _ _ _ _ Hno). cbn [r_query map concat app]. rewrite <- app_assoc. reflexivity.
Qed.

(* ================================================================== *)
(* 10. the scan / query --query-file extractor                         *)
(* ================================================================== *)
Lemma extract_lines_snoc_nil : forall a f q,
  exists pad, forallb ascii_space pad = true /\ extract_lines (a ++ [[]]) f q = extract_lines a f q ++ pad.
Proof.
  induction a as [|l a IH]; intros f q.
  - cbn [app extract_lines]. change (starts_query []) with false. cbv iota.
    destruct f; [exists " " | exists []]; (split; [reflexivity|]); [reflexivity | symmetry; apply app_nil_r].
  - cbn [app extract_lines]. destruct (starts_query l); [apply IH|]. destruct f; apply IH.
Qed.

Lemma map_drop_cr_snoc a : map drop_cr (a ++ [[]]) = map drop_cr a ++ [[]].
Proof. rewrite map_app. reflexivity. Qed.

Lemma extract_file_eq text :
  extract_file text = trim_space (extract_lines (map drop_cr (split_on nl text)) false []).
Proof.
  unfold extract_file, scan_lines.
  destruct (rev (split_on nl text)) as [|[|] r] eqn:E; try reflexivity.
  apply (f_equal (@rev _)) in E. rewrite rev_involutive in E. cbn [rev] in E. rewrite E, map_drop_cr_snoc.
  destruct (extract_lines_snoc_nil (map drop_cr (rev r)) false []) as (pad & Hp & Ep).
  symmetry. etransitivity; [apply f_equal; exact Ep|]. apply trim_space_app_ws, Hp.
Qed.

Lemma ext_header e fields : forall rest,
  extract_lines (map drop_cr (hdr_lines e fields) ++ rest) false [] = extract_lines rest false [].
Proof.
  induction fields as [|kv fs IH]; intro rest; [reflexivity|].
  cbn [hdr_lines map app extract_lines].
  assert (S : starts_query (drop_cr (header_line kv ++ e)) = false).
  { change (header_line kv ++ e) with (x20 :: x2a :: x20 :: (fst kv ++ x20 :: snd kv) ++ e).
    rewrite !drop_cr_cons by (right; discriminate). apply star_line. }
  rewrite S. apply IH.
Qed.

Lemma extract_lines_query : forall ls q,
  extract_lines ls true q = q ++ concat (map (fun l => l ++ " ") ls).
Proof.
  induction ls as [|l ls IH]; intro q; [cbn; rewrite app_nil_r; reflexivity|].
  cbn [extract_lines map concat]. destruct (starts_query l); rewrite IH, <- !app_assoc; reflexivity.
Qed.

Lemma extract_file_query eol fields qt :
  eol_ok eol -> forallb field_nl_okb fields = true ->
  starts_query (hd [] (split_on nl (Dk false qt))) = true ->
  extract_file (render_rule eol fields qt) = trim_space (nl_to_sp (Dk false qt) ++ " ").
Proof.
  intros Heol Hf Hq. destruct (eol_ok_inv _ Heol) as (e & He & ->).
  rewrite extract_file_eq, render_rule_lines by assumption.
  cbn [map]. rewrite map_app. cbn [map extract_lines].
  assert (E0 : starts_query (drop_cr ("/**" ++ e)) = false) by (destruct He as [-> | ->]; vm_compute; reflexivity).
  assert (E1 : starts_query (drop_cr (" */" ++ e)) = false) by (destruct He as [-> | ->]; vm_compute; reflexivity).
  assert (E2 : starts_query (drop_cr e) = false) by (destruct He as [-> | ->]; vm_compute; reflexivity).
  rewrite E0. fold (hdr_lines e fields). rewrite ext_header. cbn [extract_lines]. rewrite E1, E2.
  rewrite scan_lines_Dk, <- ci_join.
  pose proof (split_on_nonempty nl (Dk false qt)) as N.
  destruct (split_on nl (Dk false qt)) as [|l0 ls]; [congruence|].
  cbn [hd] in Hq. cbn [extract_lines]. rewrite Hq, extract_lines_query.
  cbn [map concat app]. rewrite <- app_assoc. reflexivity.
Qed.

(* ================================================================== *)
(* 11. A3: the extracted query is the query as written, token for token *)
(* ================================================================== *)
Lemma lay_split toks lay : separable toks lay = true -> toks <> [] -> first_empty lay = true ->
  exists lay0 ll, lay = lay0 ++ [ll] /\ first_empty lay0 = true /\ all_ws ll = true
                  /\ length lay0 = length toks.
Proof.
  intros Hsep Hne Hfirst. pose proof (sep_from_length _ _ _ Hsep) as Hlen.
  pose proof (sep_from_ws _ _ _ Hsep) as Hws.
  assert (Hl : lay <> []) by (destruct lay; [discriminate Hlen | discriminate]).
  exists (removelast lay), (last lay []).
  pose proof (app_removelast_last [] Hl) as E. split; [exact E|].
  rewrite E, forallb_app in Hws. apply andb_true_iff in Hws. destruct Hws as [_ Hws].
  cbn [forallb] in Hws. rewrite andb_true_r in Hws.
  assert (Hlen0 : length (removelast lay) = length toks).
  { pose proof (f_equal (@length _) E) as EL. rewrite app_length in EL. cbn [length] in EL.
    unfold bytes in *. lia. }
  repeat split; [|exact Hws|exact Hlen0].
  destruct lay as [|[|] lay']; try discriminate Hfirst.
  destruct lay' as [|l2 lay']; [|reflexivity].
  destruct toks; [congruence | discriminate Hlen].
Qed.

Lemma ws_fin ll : all_ws ll = true -> forallb ascii_space (nl_to_sp ll ++ " ") = true.
Proof.
  intro H. rewrite forallb_app. rewrite (all_ws_ascii_space _ (all_ws_nl_to_sp _ H)). reflexivity.
Qed.

(* the ci command *)
Theorem ci_query_tokens eol fields toks lay :
  eol_ok eol -> forallb field_nl_okb fields = true ->
  forallb tok_wfb toks = true -> single_line_toks toks = true ->
  starts_with_from toks = true -> is_tin (last toks TFrom) = false ->
  first_empty lay = true -> separable toks lay = true ->
  no_comment_open (render toks lay) = true ->
  lex_query (r_query (parse_ci (render_rule eol fields (render toks lay)))) = Some toks.
Proof.
  intros Heol Hf Hwf Hsl Hfrom Hlast Hfirst Hsep Hno.
  rewrite parse_ci_query; try assumption; [|apply first_line_starts; assumption].
  assert (Hne : toks <> []) by (destruct toks; [discriminate Hfrom | discriminate]).
  destruct (lay_split toks lay Hsep Hne Hfirst) as (lay0 & ll & -> & Hfirst0 & Hll & Hlen).
  rewrite nl_to_sp_render by exact Hsl. rewrite map_app. cbn [map].
  rewrite render_last_app by (rewrite map_length; exact Hlen).
  apply (relayout_lex toks lay0 ll nl_to_sp); try assumption.
  - exact all_ws_nl_to_sp.
  - exact nonempty_nl_to_sp.
  - apply ws_fin, Hll.
Qed.
Print Assumptions ci_query_tokens.

(* scan and query --query-file *)
Theorem extract_query_tokens eol fields toks lay :
  eol_ok eol -> forallb field_nl_okb fields = true ->
  forallb tok_wfb toks = true -> single_line_toks toks = true ->
  starts_with_from toks = true -> is_tin (last toks TFrom) = false ->
  first_empty lay = true -> separable toks lay = true ->
  lex_query (extract_file (render_rule eol fields (render toks lay))) = Some toks.
Proof.
  intros Heol Hf Hwf Hsl Hfrom Hlast Hfirst Hsep.
  assert (Hne : toks <> []) by (destruct toks; [discriminate Hfrom | discriminate]).
  destruct (lay_split toks lay Hsep Hne Hfirst) as (lay0 & ll & -> & Hfirst0 & Hll & Hlen).
  assert (HD : Dk false (render toks (lay0 ++ [ll])) = render toks (map (Dk true) lay0 ++ [Dk false ll]))
    by (apply Dk_render; assumption).
  rewrite extract_file_query; try assumption.
  - rewrite HD, nl_to_sp_render by exact Hsl. rewrite map_app, map_map. cbn [map].
    rewrite render_last_app by (rewrite map_length; exact Hlen).
    apply (relayout_lex toks lay0 ll (fun l => nl_to_sp (Dk true l))); try assumption.
    + intros l Hl. apply all_ws_nl_to_sp, all_ws_Dk, Hl.
    + intro l. rewrite nonempty_nl_to_sp. apply nonempty_Dk_true.
    + apply ws_fin, all_ws_Dk, Hll.
  - rewrite HD. apply first_line_starts; [exact Hfrom|].
    destruct lay0 as [|[|] lay0']; try discriminate Hfirst0. reflexivity.
Qed.
Print Assumptions extract_query_tokens.

(* the three commands see the same token sequence, and it is the one written in the file *)
Theorem same_tokens eol fields toks lay :
  eol_ok eol -> forallb field_nl_okb fields = true ->
  forallb tok_wfb toks = true -> single_line_toks toks = true ->
  starts_with_from toks = true -> is_tin (last toks TFrom) = false ->
  first_empty lay = true -> separable toks lay = true ->
  no_comment_open (render toks lay) = true ->
  let text := render_rule eol fields (render toks lay) in
  lex_query (r_query (parse_ci text)) = Some toks
  /\ lex_query (extract_file text) = Some toks
  /\ lex_query (render toks lay) = Some toks.
Proof.
  intros. repeat split.
  - apply ci_query_tokens; assumption.
  - apply extract_query_tokens; assumption.
  - apply lex_render; assumption.
Qed.
Print Assumptions same_tokens.

(* ================================================================== *)
(* 12. examples, and why the hypotheses are there                      *)
(* ================================================================== *)
Definition crlf : bytes := [x0d; nl].

(* a rule file with CRLF line endings, the severity before the id, an unknown key, and a query
   wrapped over three indented lines *)
Definition ex_fields : list (bytes * bytes) :=
  [("@problem.severity", "HIGH"); ("@name", "Demo rule"); ("@id", "java/demo id");
   ("@description", "finds  things")].
Definition ex_rtoks : list token :=
  [TFrom; TIdent "method_declaration"; TAs; TIdent "md"; TWhere; TIdent "md"; TDot;
   TIdent "getName"; TLParen; TRParen; TEqEq; TString """a  b"""; TSelect; TIdent "md"].
Definition ex_rlay : list bytes :=
  [""; " "; " "; " "; crlf ++ "  "; " "; ""; ""; ""; ""; " "; " "; crlf ++ [x09]; " "; crlf].
Definition ex_rule : bytes := render_rule crlf ex_fields (render ex_rtoks ex_rlay).

Example ex_rule_text :
  ex_rule = "/**" ++ crlf ++ " * @problem.severity HIGH" ++ crlf ++ " * @name Demo rule" ++ crlf
            ++ " * @id java/demo id" ++ crlf ++ " * @description finds  things" ++ crlf ++ " */" ++ crlf ++ crlf
            ++ "FROM method_declaration AS md" ++ crlf
            ++ "  WHERE md.getName() == ""a  b""" ++ crlf
            ++ [x09] ++ "SELECT md" ++ crlf.
Proof. vm_compute. reflexivity. Qed.

Example ex_rule_hyps :
  forallb field_okb ex_fields = true /\ forallb tok_wfb ex_rtoks = true
  /\ single_line_toks ex_rtoks = true /\ starts_with_from ex_rtoks = true
  /\ is_tin (last ex_rtoks TFrom) = false /\ first_empty ex_rlay = true
  /\ separable ex_rtoks ex_rlay = true /\ no_comment_open (render ex_rtoks ex_rlay) = true.
Proof. repeat split; vm_compute; reflexivity. Qed.

(* A2 instantiated *)
Example ex_rule_metadata :
  let r := parse_ci ex_rule in
  r_id r = "java/demo id" /\ r_desc r = "finds  things" /\ r_severity r = "HIGH"
  /\ r_impact r = "" /\ r_provider r = "".
Proof.
  destruct ex_rule_hyps as (Hf & _).
  assert (Hq : starts_query (hd [] (split_on nl (render ex_rtoks ex_rlay))) = true)
    by (apply first_line_starts; reflexivity).
  exact (parse_ci_metadata crlf ex_fields _ (or_intror eq_refl) Hf Hq).
Qed.

(* A3 instantiated; and the same facts by computation *)
Example ex_rule_tokens :
  lex_query (r_query (parse_ci ex_rule)) = Some ex_rtoks
  /\ lex_query (extract_file ex_rule) = Some ex_rtoks
  /\ lex_query (render ex_rtoks ex_rlay) = Some ex_rtoks.
Proof.
  destruct ex_rule_hyps as (Hf & H1 & H2 & H3 & H4 & H5 & H6 & H7).
  exact (same_tokens crlf ex_fields ex_rtoks ex_rlay (or_intror eq_refl) (fields_ok_nl _ Hf)
           H1 H2 H3 H4 H5 H6 H7).
Qed.

Example ex_rule_computed :
  r_query (parse_ci ex_rule)
  = "FROM method_declaration AS md" ++ [x0d; x20] ++ "  WHERE md.getName() == ""a  b""" ++ [x0d; x20; x09] ++ "SELECT md"
  /\ extract_file ex_rule
  = "FROM method_declaration AS md" ++ " " ++ "  WHERE md.getName() == ""a  b""" ++ [x20; x09] ++ "SELECT md".
Proof. split; vm_compute; reflexivity. Qed.

(* A4: a string literal that spans two lines is NOT preserved: the line break inside the literal
   becomes a space (LF) or CR + space in ci and a space in scan/query (CRLF) *)
Definition ml_query (brk : bytes) : bytes :=
  "FROM method_declaration AS md" ++ brk ++ "WHERE md.getName() == ""a" ++ brk ++ "b""" ++ brk ++ "SELECT md".
Definition ml_rule (eol : bytes) : bytes := render_rule eol [("@id", "demo")] (ml_query eol).
Definition ml_toks (inside : bytes) : list token :=
  [TFrom; TIdent "method_declaration"; TAs; TIdent "md"; TWhere; TIdent "md"; TDot;
   TIdent "getName"; TLParen; TRParen; TEqEq; TString ("""a" ++ inside ++ "b"""); TSelect; TIdent "md"].

Theorem multiline_string_changes :
  (* LF files: both extractors change the literal *)
  lex_query (ml_query [nl]) = Some (ml_toks [nl])
  /\ lex_query (r_query (parse_ci (ml_rule [nl]))) = Some (ml_toks " ")
  /\ lex_query (extract_file (ml_rule [nl])) = Some (ml_toks " ")
  /\ lex_query (r_query (parse_ci (ml_rule [nl]))) <> lex_query (ml_query [nl])
  (* CRLF files: they change it differently *)
  /\ lex_query (ml_query crlf) = Some (ml_toks crlf)
  /\ lex_query (r_query (parse_ci (ml_rule crlf))) = Some (ml_toks [x0d; x20])
  /\ lex_query (extract_file (ml_rule crlf)) = Some (ml_toks " ")
  /\ lex_query (r_query (parse_ci (ml_rule crlf))) <> lex_query (extract_file (ml_rule crlf)).
Proof. repeat split; vm_compute; (reflexivity || discriminate). Qed.
Print Assumptions multiline_string_changes.

(* why [is_tin (last toks _) = false]: TrimSpace removes the space the token ' in ' ends with *)
Example last_in_counterexample :
  let toks := [TFrom; TIdent "x"; TIn] in let lay := [""; " "; " "; " "] in
  separable toks lay = true /\ lex_query (render toks lay) = Some toks
  /\ lex_query (r_query (parse_ci (render_rule [nl] [] (render toks lay)))) = Some [TFrom; TIdent "x"; TInWord].
Proof. repeat split; vm_compute; reflexivity. Qed.

(* why [no_comment_open]: ParseQuery drops a query line that starts with "/*"; the file-based
   extractor does not *)
Example comment_open_counterexample :
  let toks := [TFrom; TIdent "x"; TSlash; TStar; TNumber "2"] in
  let lay := [""; " "; [nl]; ""; ""; ""] in
  separable toks lay = true /\ no_comment_open (render toks lay) = false
  /\ lex_query (r_query (parse_ci (render_rule [nl] [] (render toks lay)))) = Some [TFrom; TIdent "x"]
  /\ lex_query (extract_file (render_rule [nl] [] (render toks lay))) = Some toks.
Proof. repeat split; vm_compute; reflexivity. Qed.

(* why values must be trimmed and keys must not contain a space *)
Example field_counterexamples :
  parse_comment_line " * @id  padded " = ("@id", " padded")
  /\ parse_comment_line " * @my key value" = ("@my", "key value").
Proof. split; vm_compute; reflexivity. Qed.

(* ================================================================== *)
(* 13. a token-level sufficient condition for [no_comment_open]        *)
(* ================================================================== *)
(* a line opens a comment only if the token '/' is directly followed by the token '*' *)
Definition is_slash (t : token) : bool := match t with TSlash => true | _ => false end.
Definition is_star (t : token) : bool := match t with TStar => true | _ => false end.

Fixpoint no_slash_star (toks : list token) (lay : list bytes) : bool :=
  match toks, lay with
  | t1 :: ((t2 :: _) as toks'), _ :: ((l2 :: _) as lay') =>
      negb (is_slash t1 && is_star t2 && negb (nonempty l2)) && no_slash_star toks' lay'
  | _, _ => true
  end.

Definition badl (L : bytes) : bool := has_prefix "/*" (trim_space L).
Definition blankb (b : byte) : bool := ascii_space b && negb (beqb b nl).
Definition blank (p : bytes) : bool := forallb blankb p.
Definition st_done (p : bytes) : Prop := forall x, badl (p ++ x) = false.
Definition pend (p : bytes) : Prop := exists ws, blank ws = true /\ p = ws ++ "/".

Lemma nco_nl p s : lacks nl p = true -> no_comment_open (p ++ nl :: s) = negb (badl p) && no_comment_open s.
Proof. intro H. unfold no_comment_open. rewrite split_on_lacks by exact H. reflexivity. Qed.

Lemma nco_last p : lacks nl p = true -> no_comment_open p = negb (badl p).
Proof. intro H. unfold no_comment_open. rewrite split_on_lacks_all by exact H. cbn [forallb]. apply andb_true_r. Qed.

Lemma blank_ascii_space p : blank p = true -> forallb ascii_space p = true.
Proof. apply forallb_imp. unfold blankb. intros c H. apply andb_true_iff in H. tauto. Qed.

Lemma blank_lacks p : blank p = true -> lacks nl p = true.
Proof. apply forallb_imp. unfold blankb. intros c H. apply andb_true_iff in H. tauto. Qed.

Lemma badl_blank_app ws x : blank ws = true -> badl (ws ++ x) = badl x.
Proof. intro H. unfold badl. rewrite trim_space_ws_app by (apply blank_ascii_space, H). reflexivity. Qed.

Lemma badl_blank ws : blank ws = true -> badl ws = false.
Proof. intro H. rewrite <- (app_nil_r ws), badl_blank_app by exact H. reflexivity. Qed.

Lemma dws_suffix l : exists pre, l = pre ++ drop_while_space l.
Proof.
  induction l as [|[[|] w] l IH]; [exists []; reflexivity | | exists []; reflexivity].
  destruct IH as (pre & E). exists ((true, w) :: pre). cbn [app drop_while_space]. rewrite <- E. reflexivity.
Qed.

Lemma rtrim_prefix l : exists post, l = rtrim l ++ post.
Proof.
  unfold rtrim. destruct (dws_suffix (rev l)) as (pre & E). exists (rev pre).
  rewrite <- rev_app_distr, <- E. symmetry. apply rev_involutive.
Qed.

Lemma trim_space_cons_solid c m : solid c = true -> trim_space (c :: m) = c :: unrunes (rtrim (runes m)).
Proof.
  unfold solid. intro Hc. apply andb_true_iff in Hc. destruct Hc as [Ha Hs]. apply negb_true_iff in Hs.
  rewrite trim_space_eq, runes_ascii, Hs by exact Ha. cbn [drop_while_space].
  rewrite rtrim_cons_false. reflexivity.
Qed.

Lemma badl_solid c x : solid c = true -> badl (c :: x) = true -> c = x2f /\ exists x', x = x2a :: x'.
Proof.
  intros Hc H. unfold badl in H. rewrite trim_space_cons_solid in H by exact Hc.
  destruct (rtrim_prefix (runes x)) as (post & E).
  apply (f_equal unrunes) in E. rewrite unrunes_runes, unrunes_app in E.
  set (y := unrunes (rtrim (runes x))) in *. cbn [has_prefix] in H.
  apply andb_true_iff in H. destruct H as [H1 H2]. apply beqb_true in H1. split; [congruence|].
  destruct y as [|d y']; [discriminate H2|]. apply andb_true_iff in H2. destruct H2 as [H2 _].
  apply beqb_true in H2. subst d. rewrite E. eexists. reflexivity.
Qed.

Lemma done_app p x : st_done p -> st_done (p ++ x).
Proof. intros H y. rewrite <- app_assoc. apply H. Qed.

Lemma done_solid ws c r : blank ws = true -> solid c = true -> c <> x2f -> st_done (ws ++ c :: r).
Proof.
  intros Hws Hc Hn x. rewrite <- app_assoc, badl_blank_app by exact Hws. cbn [app].
  destruct (badl (c :: r ++ x)) eqn:E; [|reflexivity].
  destruct (badl_solid _ _ Hc E) as [E1 _]. congruence.
Qed.

Lemma done_slash ws d r : blank ws = true -> d <> x2a -> st_done (ws ++ x2f :: d :: r).
Proof.
  intros Hws Hn x. rewrite <- app_assoc, badl_blank_app by exact Hws. cbn [app].
  destruct (badl (x2f :: d :: r ++ x)) eqn:E; [|reflexivity].
  destruct (badl_solid x2f _ eq_refl E) as [_ (x' & E2)]. congruence.
Qed.

Lemma pend_not_bad p : pend p -> badl p = false.
Proof. intros (ws & Hws & ->). rewrite badl_blank_app by exact Hws. reflexivity. Qed.

Lemma pend_lacks p : pend p -> lacks nl p = true.
Proof. intros (ws & Hws & ->). rewrite lacks_app, (blank_lacks _ Hws). reflexivity. Qed.

(* token heads *)
Lemma tok_head_solid t : tok_wfb t = true -> exists c r, render_tok t = c :: r /\ solid c = true.
Proof.
  intro Hwf. destruct t; try (eexists _, _; split; reflexivity); cbn [render_tok token_text]; cbn in Hwf.
  - destruct s as [|c b]; [discriminate Hwf|]. cbn in Hwf.
    apply andb_true_iff in Hwf. destruct Hwf as [Hq Hb]. apply is_quote_eq in Hq. subst c.
    eexists _, _; split; reflexivity.
  - destruct (number_head _ Hwf) as (c & s' & -> & Hc). exists c, s'. split; [reflexivity|]. apply digit_solid, Hc.
  - apply andb_true_iff in Hwf. destruct Hwf as [Hi _].
    destruct s as [|c w]; [discriminate Hi|]. cbn in Hi. apply andb_true_iff in Hi.
    destruct Hi as [Hc Hw]. exists c, w. split; [reflexivity|]. apply idchar_solid, idstart_idchar, Hc.
Qed.

Lemma tok_head_char t c r : tok_wfb t = true -> render_tok t = c :: r ->
  (c = x2f -> t = TSlash) /\ (c = x2a -> t = TStar).
Proof.
  intros Hwf E. destruct t; cbn [render_tok token_text] in E;
    try (inversion E; subst; split; intro H; (reflexivity || discriminate H)); cbn in Hwf.
  - destruct s as [|c' b]; [discriminate Hwf|]. cbn in Hwf.
    apply andb_true_iff in Hwf. destruct Hwf as [Hq _]. apply is_quote_eq in Hq. subst c'.
    inversion E; subst. split; intro H; discriminate H.
  - destruct (number_head _ Hwf) as (c' & s' & -> & Hc). inversion E; subst.
    split; intro H; subst c; discriminate Hc.
  - apply andb_true_iff in Hwf. destruct Hwf as [Hi _].
    destruct s as [|c' w]; [discriminate Hi|]. cbn in Hi. apply andb_true_iff in Hi.
    destruct Hi as [Hc _]. inversion E; subst. split; intro H; subst c; discriminate Hc.
Qed.

Definition kont (R : bytes) : Prop :=
  forall p', lacks nl p' = true -> (blank p' = true \/ st_done p') -> no_comment_open (p' ++ R) = true.

Lemma nco_layout l : forall p R, all_ws l = true -> lacks nl p = true ->
  (blank p = true \/ st_done p) -> kont R -> no_comment_open (p ++ l ++ R) = true.
Proof.
  induction l as [|c l IH]; intros p R Hl Hp Hst K; [apply K; assumption|].
  unfold all_ws in Hl. cbn [forallb] in Hl. apply andb_true_iff in Hl. destruct Hl as [Hc Hl].
  destruct (beqb c nl) eqn:E.
  - apply beqb_true in E. subst c. cbn [app]. rewrite nco_nl by exact Hp.
    assert (Hb : badl p = false).
    { destruct Hst as [Hb | Hd]; [apply badl_blank, Hb | specialize (Hd []); rewrite app_nil_r in Hd; exact Hd]. }
    rewrite Hb. cbn [negb andb]. apply (IH [] R Hl eq_refl (or_introl eq_refl) K).
  - replace (p ++ (c :: l) ++ R) with ((p ++ [c]) ++ l ++ R) by (rewrite <- app_assoc; reflexivity).
    apply IH; [exact Hl | | | exact K].
    + rewrite lacks_app, Hp. cbn. rewrite E. reflexivity.
    + destruct Hst as [Hb | Hd]; [left | right; apply done_app, Hd].
      unfold blank. rewrite forallb_app. fold (blank p). rewrite Hb. cbn. unfold blankb.
      rewrite (is_ws_ascii_space _ Hc), E. reflexivity.
Qed.

Lemma pend_layout l p R : pend p -> all_ws l = true -> kont R ->
  (l = [] -> no_comment_open (p ++ R) = true) -> no_comment_open (p ++ l ++ R) = true.
Proof.
  intros Hp Hl K K0. destruct l as [|c l]; [apply K0; reflexivity|].
  unfold all_ws in Hl. cbn [forallb] in Hl. apply andb_true_iff in Hl. destruct Hl as [Hc Hl].
  destruct (beqb c nl) eqn:E.
  - apply beqb_true in E. subst c. cbn [app]. rewrite nco_nl by (apply pend_lacks, Hp).
    rewrite (pend_not_bad _ Hp). cbn [negb andb]. apply (nco_layout l [] R Hl eq_refl (or_introl eq_refl) K).
  - replace (p ++ (c :: l) ++ R) with ((p ++ [c]) ++ l ++ R) by (rewrite <- app_assoc; reflexivity).
    apply nco_layout; [exact Hl | | | exact K].
    + rewrite lacks_app, (pend_lacks _ Hp). cbn. rewrite E. reflexivity.
    + right. destruct Hp as (ws & Hws & ->). rewrite <- app_assoc. cbn [app].
      apply done_slash; [exact Hws|]. intro Ec. subst c. discriminate Hc.
Qed.

Definition next_ok (toks : list token) (lay : list bytes) : Prop :=
  match lay with
  | l :: _ => nonempty l = true \/ match toks with t :: _ => is_star t = false | [] => True end
  | [] => True
  end.

Lemma nco_render : forall toks lay p,
  forallb tok_wfb toks = true -> single_line_toks toks = true -> forallb all_ws lay = true ->
  length lay = S (length toks) -> no_slash_star toks lay = true -> lacks nl p = true ->
  (blank p = true \/ st_done p \/ (pend p /\ next_ok toks lay)) ->
  no_comment_open (p ++ render toks lay) = true.
Proof.
  induction toks as [|t toks IH]; intros lay p Hwf Hsl Hws Hlen Hns Hp Hst.
  - destruct lay as [|l [|? ?]]; try discriminate Hlen. cbn [render].
    cbn [forallb] in Hws. rewrite andb_true_r in Hws.
    assert (K : kont []).
    { intros p' Hp' Hst'. rewrite app_nil_r, nco_last by exact Hp'.
      destruct Hst' as [Hb | Hd]; [rewrite badl_blank by exact Hb; reflexivity|].
      specialize (Hd []). rewrite app_nil_r in Hd. rewrite Hd. reflexivity. }
    destruct Hst as [Hb | [Hd | [Hpe _]]].
    + apply nco_layout; auto.
    + apply nco_layout; auto.
    + apply pend_layout; auto. intros _. rewrite app_nil_r, nco_last by exact Hp.
      rewrite (pend_not_bad _ Hpe). reflexivity.
  - destruct lay as [|l [|l2 lay]]; try discriminate Hlen.
    cbn [forallb] in Hwf, Hws. apply andb_true_iff in Hwf. destruct Hwf as [Ht Hwf].
    apply andb_true_iff in Hws. destruct Hws as [Hl Hws].
    destruct (single_line_inv _ _ Hsl) as (Hnl & _ & Hsl').
    assert (Hns' : no_slash_star toks (l2 :: lay) = true).
    { destruct toks as [|t2 toks]; [reflexivity|]. cbn [no_slash_star] in Hns.
      destruct lay as [|l3 lay]; [discriminate Hlen|]. apply andb_true_iff in Hns. tauto. }
    assert (Hlen' : length (l2 :: lay) = S (length toks)) by (cbn [length] in *; lia).
    destruct (tok_head_solid _ Ht) as (c & r & Ec & Hc).
    destruct (tok_head_char _ _ _ Ht Ec) as [Hslash Hstar].
    change (render (t :: toks) (l :: l2 :: lay)) with (l ++ render_tok t ++ render toks (l2 :: lay)).
    assert (K : kont (render_tok t ++ render toks (l2 :: lay))).
    { intros p' Hp' Hst'. rewrite app_assoc.
      apply IH; try assumption; [rewrite lacks_app, Hp', Hnl; reflexivity|].
      destruct Hst' as [Hb | Hd]; [|right; left; apply done_app, Hd].
      destruct (Byte.byte_eq_dec c x2f) as [E | E].
      - right. right. rewrite (Hslash E). split; [exists p'; split; [exact Hb | reflexivity]|].
        cbn [next_ok]. destruct toks as [|t2 toks]; [right; exact I|].
        rewrite (Hslash E) in Hns. cbn [no_slash_star is_slash andb] in Hns.
        destruct lay as [|l3 lay]; [discriminate Hlen|].
        apply andb_true_iff in Hns. destruct Hns as [Hns _].
        destruct (nonempty l2); [left; reflexivity | right].
        destruct (is_star t2); [discriminate Hns | reflexivity].
      - right. left. rewrite Ec. apply done_solid; assumption. }
    destruct Hst as [Hb | [Hd | [Hpe Hnx]]].
    + apply nco_layout; auto.
    + apply nco_layout; auto.
    + apply pend_layout; auto. intros ->. cbn [next_ok nonempty] in Hnx.
      destruct Hnx as [Hnx | Hnx]; [discriminate Hnx|].
      rewrite app_assoc. apply IH; try assumption; [rewrite lacks_app, Hp, Hnl; reflexivity|].
      right. left. destruct Hpe as (ws & Hws' & ->). rewrite Ec, <- app_assoc. cbn [app].
      apply done_slash; [exact Hws'|]. intro E. rewrite (Hstar E) in Hnx. discriminate Hnx.
Qed.

Theorem no_comment_open_toks toks lay :
  forallb tok_wfb toks = true -> single_line_toks toks = true -> separable toks lay = true ->
  no_slash_star toks lay = true -> no_comment_open (render toks lay) = true.
Proof.
  intros Hwf Hsl Hsep Hns.
  apply (nco_render toks lay [] Hwf Hsl (sep_from_ws _ _ _ Hsep) (sep_from_length _ _ _ Hsep) Hns eq_refl).
  left. reflexivity.
Qed.
Print Assumptions no_comment_open_toks.

(* A3 with token-level hypotheses only *)
Theorem same_tokens_toks eol fields toks lay :
  eol_ok eol -> forallb field_nl_okb fields = true ->
  forallb tok_wfb toks = true -> single_line_toks toks = true ->
  starts_with_from toks = true -> is_tin (last toks TFrom) = false ->
  first_empty lay = true -> separable toks lay = true -> no_slash_star toks lay = true ->
  let text := render_rule eol fields (render toks lay) in
  lex_query (r_query (parse_ci text)) = Some toks
  /\ lex_query (extract_file text) = Some toks
  /\ lex_query (render toks lay) = Some toks.
Proof.
  intros. apply same_tokens; try assumption. apply no_comment_open_toks; assumption.
Qed.
Print Assumptions same_tokens_toks.

Example ex_rule_no_slash_star : no_slash_star ex_rtoks ex_rlay = true.
Proof. vm_compute. reflexivity. Qed.
