(* Skel.v -- the statement language in which the translator describes the concurrency skeleton of
   graph.Initialize (coq/gen/Tables.v, pool_program).  Everything that cannot touch a channel, a goroutine or
   the wait group has been dropped by the translator; what it could not classify made it fail. *)
From CPF Require Import Base.Bytes.

Inductive pstmt : Type :=
| SConst (x v : bytes)                 (* x := <integer literal> *)
| SLen (x src : bytes)                 (* x := len(src) *)
| SMake (ch cap : bytes)               (* ch := make(chan T, cap) *)
| SWaitGroup (wg : bytes)              (* var wg sync.WaitGroup *)
| SSend (ch : bytes)                   (* ch <- v *)
| SRecv (ch : bytes)                   (* <-ch *)
| SClose (ch : bytes)                  (* close(ch) *)
| SDeferClose (ch : bytes)             (* defer close(ch) *)
| SRange (ch : bytes) (body : list pstmt)     (* for v := range ch { body } *)
| SForEach (coll : bytes) (body : list pstmt) (* for _, v := range coll { body } *)
| SLoopN (n : bytes) (body : list pstmt)      (* for i := 0; i < n; i++ { body } *)
| SForever (body : list pstmt)                (* for { body } *)
| SSelect (cases : list (bytes * list pstmt)) (* select { case v, ok := <-ch: body ... } *)
| SIfClosedReturn                      (* if !ok { return } *)
| SErrContinue (fn : bytes)            (* x, err := fn(..); if err != nil { log; continue } *)
| SErrReturn (fn : bytes)              (* x, err := fn(..); if err != nil { log; return } *)
| SGo (g : bytes)                      (* go g(..) *)
| SCall (fn : bytes)                   (* call of a function the translator does not know to be local and non-blocking *)
| SHook (h : bytes)                    (* verif hook (no-op without the build tag) *)
| SWgAdd (n : bytes) | SWgDone | SWgWait
| SRet.
