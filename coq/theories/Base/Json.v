(* A model of Go 1.23 encoding/json *encoding* (json.Marshal / json.MarshalIndent(v, "", "  "),
   escapeHTML = true) for null / bool / integer / string / array / ordered-object values, and an
   RFC 8259 decoder.  Definitions only (proofs live in JsonFacts.v); everything is executable
   and extractable.

   Encoders are written in continuation style ([f x k] = "text of x" ++ k) so that no
   quadratic appends occur. *)
From Coq Require Import ZArith.
From CPF Require Import Base.Bytes.
Local Open Scope bs_scope.

Inductive json :=
| JNull
| JBool (b : bool)
| JNum (z : Z)
| JStr (s : bytes)
| JArr (l : list json)
| JObj (l : list (bytes * json)).

(* ------------------------------------------------------------------ *)
(* UTF-8 validity, rune by rune, as Go's utf8.DecodeRune sees it        *)
(* ------------------------------------------------------------------ *)

(* every rune step is ASCII or a complete valid multi-byte sequence (i.e. DecodeRune never
   returns (RuneError, 1)) *)
Fixpoint valid_utf8b (s : bytes) : bool :=
  match s with
  | [] => true
  | b0 :: r =>
      if (code b0 <? 128)%N then valid_utf8b r
      else
        match rune_width (b0 :: r) with
        | 2 => match r with _ :: r2 => valid_utf8b r2 | _ => false end
        | 3 => match r with _ :: _ :: r3 => valid_utf8b r3 | _ => false end
        | 4 => match r with _ :: _ :: _ :: r4 => valid_utf8b r4 | _ => false end
        | _ => false
        end
  end.

Fixpoint wf_json (v : json) : bool :=
  match v with
  | JStr s => valid_utf8b s
  | JArr l => forallb wf_json l
  | JObj l => forallb (fun kv => valid_utf8b (fst kv) && wf_json (snd kv)) l
  | _ => true
  end.

(* ------------------------------------------------------------------ *)
(* String encoding: encode.go appendString with escapeHTML = true       *)
(* ------------------------------------------------------------------ *)

(* const hex = "0123456789abcdef" *)
Definition hexd (n : N) : byte :=
  match n with
  | 0 => x30 | 1 => x31 | 2 => x32 | 3 => x33 | 4 => x34 | 5 => x35 | 6 => x36 | 7 => x37
  | 8 => x38 | 9 => x39 | 10 => x61 | 11 => x62 | 12 => x63 | 13 => x64 | 14 => x65 | _ => x66
  end%N.

(* \u00XX *)
Definition esc_u00 (b : byte) (k : bytes) : bytes :=
  x5c :: x75 :: x30 :: x30 :: hexd (code b / 16) :: hexd (code b mod 16) :: k.

(* one byte < utf8.RuneSelf.  htmlSafeSet is true for 0x20..0x7f except the double quote, & < > and
   backslash (so DEL is copied); the switch gives short forms to backslash, quote, \b \f \n \r \t and \u00XX to the
   remaining control characters and to < > &. *)
Definition esc_ascii (b : byte) (k : bytes) : bytes :=
  match b with
  | x22 => x5c :: x22 :: k
  | x5c => x5c :: x5c :: k
  | x08 => x5c :: x62 :: k
  | x0c => x5c :: x66 :: k
  | x0a => x5c :: x6e :: k
  | x0d => x5c :: x72 :: k
  | x09 => x5c :: x74 :: k
  | x3c | x3e | x26 => esc_u00 b k
  | _ => if (code b <? 32)%N then esc_u00 b k else b :: k
  end.

Definition esc_fffd (k : bytes) : bytes := x5c :: x75 :: x66 :: x66 :: x66 :: x64 :: k.
Definition esc_202x (last : byte) (k : bytes) : bytes := x5c :: x75 :: x32 :: x30 :: x32 :: last :: k.

(* the loop body of appendString.  [rune_width] = 1 on a byte >= 0x80 is exactly
   DecodeRune = (RuneError, 1); a literal U+FFFD (EF BF BD) has width 3 and is copied. *)
Fixpoint enc_str (s : bytes) (k : bytes) : bytes :=
  match s with
  | [] => k
  | b0 :: r =>
      if (code b0 <? 128)%N then esc_ascii b0 (enc_str r k)
      else
        match rune_width (b0 :: r) with
        | 2 => match r with
               | b1 :: r2 => b0 :: b1 :: enc_str r2 k
               | _ => esc_fffd (enc_str r k)        (* unreachable *)
               end
        | 3 => match r with
               | b1 :: b2 :: r3 =>
                   if beqb b0 xe2 && beqb b1 x80 && beqb b2 xa8 then esc_202x x38 (enc_str r3 k)
                   else if beqb b0 xe2 && beqb b1 x80 && beqb b2 xa9 then esc_202x x39 (enc_str r3 k)
                   else b0 :: b1 :: b2 :: enc_str r3 k
               | _ => esc_fffd (enc_str r k)        (* unreachable *)
               end
        | 4 => match r with
               | b1 :: b2 :: b3 :: r4 => b0 :: b1 :: b2 :: b3 :: enc_str r4 k
               | _ => esc_fffd (enc_str r k)        (* unreachable *)
               end
        | _ => esc_fffd (enc_str r k)
        end
  end.

Definition enc_string (s : bytes) (k : bytes) : bytes := x22 :: enc_str s (x22 :: k).

(* json.Marshal of a Go string *)
Definition encode_string (s : bytes) : bytes := enc_string s [].

(* ------------------------------------------------------------------ *)
(* Value encoding                                                       *)
(* ------------------------------------------------------------------ *)

(* strconv.AppendInt(_, z, 10) *)
Definition enc_num (z : Z) : bytes :=
  if (z <? 0)%Z then x2d :: dec (Z.abs_N z) else dec (Z.to_N z).

(* indent.go appendNewline with prefix "" and indent "  " ([m] = true), or nothing ([m] = false) *)
Fixpoint spaces (d : nat) (k : bytes) : bytes :=
  match d with O => k | S d' => x20 :: x20 :: spaces d' k end.
Definition nl (m : bool) (d : nat) (k : bytes) : bytes := if m then x0a :: spaces d k else k.
(* ':' is followed by one space when indenting *)
Definition colon (m : bool) (k : bytes) : bytes := if m then x3a :: x20 :: k else x3a :: k.

(* elements after the first, then the closing bracket (at the outer depth [d]) *)
Fixpoint pr_elems (pr : json -> bytes -> bytes) (m : bool) (d : nat) (l : list json) (k : bytes) : bytes :=
  match l with
  | [] => nl m d (x5d :: k)
  | x :: r => x2c :: nl m (S d) (pr x (pr_elems pr m d r k))
  end.

Fixpoint pr_members (pr : json -> bytes -> bytes) (m : bool) (d : nat) (l : list (bytes * json)) (k : bytes) : bytes :=
  match l with
  | [] => nl m d (x7d :: k)
  | (key, x) :: r => x2c :: nl m (S d) (enc_string key (colon m (pr x (pr_members pr m d r k))))
  end.

(* [m] = false: json.Marshal.  [m] = true: json.MarshalIndent(v, "", "  ") at nesting depth [d].
   Empty arrays / objects print as [] / {} in both modes (appendIndent's needIndent delay). *)
Fixpoint pr (m : bool) (d : nat) (v : json) (k : bytes) {struct v} : bytes :=
  match v with
  | JNull => x6e :: x75 :: x6c :: x6c :: k
  | JBool true => x74 :: x72 :: x75 :: x65 :: k
  | JBool false => x66 :: x61 :: x6c :: x73 :: x65 :: k
  | JNum z => enc_num z ++ k
  | JStr s => enc_string s k
  | JArr [] => x5b :: x5d :: k
  | JArr (x :: r) => x5b :: nl m (S d) (pr m (S d) x (pr_elems (pr m (S d)) m d r k))
  | JObj [] => x7b :: x7d :: k
  | JObj ((key, x) :: r) =>
      x7b :: nl m (S d) (enc_string key (colon m (pr m (S d) x (pr_members (pr m (S d)) m d r k))))
  end.

Definition encode (v : json) : bytes := pr false 0 v [].
Definition encode_indent (v : json) : bytes := pr true 0 v [].

(* ------------------------------------------------------------------ *)
(* Decoder (RFC 8259, integers only)                                    *)
(* ------------------------------------------------------------------ *)

Definition is_ws (b : byte) : bool :=
  match b with x20 | x09 | x0a | x0d => true | _ => false end.

Fixpoint skip_ws (s : bytes) : bytes :=
  match s with
  | b :: r => if is_ws b then skip_ws r else s
  | [] => []
  end.

Definition hexval (b : byte) : option N :=
  match b with
  | x30 => Some 0 | x31 => Some 1 | x32 => Some 2 | x33 => Some 3 | x34 => Some 4
  | x35 => Some 5 | x36 => Some 6 | x37 => Some 7 | x38 => Some 8 | x39 => Some 9
  | x61 | x41 => Some 10 | x62 | x42 => Some 11 | x63 | x43 => Some 12
  | x64 | x44 => Some 13 | x65 | x45 => Some 14 | x66 | x46 => Some 15
  | _ => None
  end%N.

Definition hex4 (a b c d : byte) : option N :=
  match hexval a, hexval b, hexval c, hexval d with
  | Some p, Some q, Some r, Some s => Some (((p * 16 + q) * 16 + r) * 16 + s)%N
  | _, _, _, _ => None
  end.

Definition byte_of (n : N) : byte := match Byte.of_N n with Some b => b | None => x00 end.

(* UTF-8 encoding of a scalar value < 0x110000 *)
Definition utf8_enc (c : N) : bytes :=
  (if c <? 128 then [byte_of c]
   else if c <? 2048 then [byte_of (192 + c / 64); byte_of (128 + c mod 64)]
   else if c <? 65536 then
     [byte_of (224 + c / 4096); byte_of (128 + (c / 64) mod 64); byte_of (128 + c mod 64)]
   else
     [byte_of (240 + c / 262144); byte_of (128 + (c / 4096) mod 64);
      byte_of (128 + (c / 64) mod 64); byte_of (128 + c mod 64)])%N.

Definition is_high (c : N) : bool := ((55296 <=? c) && (c <? 56320))%N.   (* D800..DBFF *)
Definition is_low (c : N) : bool := ((56320 <=? c) && (c <? 57344))%N.    (* DC00..DFFF *)
Definition surr (hi lo : N) : N := (65536 + (hi - 55296) * 1024 + (lo - 56320))%N.
Definition fffd_rev : bytes := [xbd; xbf; xef].                           (* U+FFFD, reversed *)

(* the single-character escapes: quote, backslash, slash, b f n r t *)
Definition simple_esc (e : byte) : option byte :=
  match e with
  | x22 => Some x22 | x5c => Some x5c | x2f => Some x2f
  | x62 => Some x08 | x66 => Some x0c | x6e => Some x0a | x72 => Some x0d | x74 => Some x09
  | _ => None
  end.

(* Body of a string, after the opening quote; [acc] is the decoded prefix, reversed.  Returns the
   string and the input after the closing quote.  Raw bytes >= 0x20 other than quote and backslash are copied
   verbatim; control characters are rejected.  A \uXXXX that is an unpaired surrogate decodes to
   U+FFFD (what Go's decoder does); RFC 8259 leaves this case open. *)
Fixpoint dec_str (acc : bytes) (s : bytes) {struct s} : option (bytes * bytes) :=
  match s with
  | [] => None
  | b :: r =>
      if beqb b x22 then Some (rev_append acc [], r)
      else if beqb b x5c then
        match r with
        | [] => None
        | e :: r1 =>
            match simple_esc e with
            | Some c => dec_str (c :: acc) r1
            | None =>
                if beqb e x75 then
                  match r1 with
                  | h1 :: h2 :: h3 :: h4 :: r5 =>
                      match hex4 h1 h2 h3 h4 with
                      | None => None
                      | Some cu =>
                          if is_high cu then
                            match r5 with
                            | c1 :: c2 :: g1 :: g2 :: g3 :: g4 :: r11 =>
                                if beqb c1 x5c && beqb c2 x75 then
                                  match hex4 g1 g2 g3 g4 with
                                  | Some lo =>
                                      if is_low lo
                                      then dec_str (rev_append (utf8_enc (surr cu lo)) acc) r11
                                      else dec_str (fffd_rev ++ acc) r5
                                  | None => dec_str (fffd_rev ++ acc) r5
                                  end
                                else dec_str (fffd_rev ++ acc) r5
                            | _ => dec_str (fffd_rev ++ acc) r5
                            end
                          else if is_low cu then dec_str (fffd_rev ++ acc) r5
                          else dec_str (rev_append (utf8_enc cu) acc) r5
                      end
                  | _ => None
                  end
                else None
            end
        end
      else if (code b <? 32)%N then None
      else dec_str (b :: acc) r
  end.

(* digits, collected as a Decimal.uint (most significant first) *)
Definition digit_ctor (b : byte) : option (Decimal.uint -> Decimal.uint) :=
  match b with
  | x30 => Some Decimal.D0 | x31 => Some Decimal.D1 | x32 => Some Decimal.D2
  | x33 => Some Decimal.D3 | x34 => Some Decimal.D4 | x35 => Some Decimal.D5
  | x36 => Some Decimal.D6 | x37 => Some Decimal.D7 | x38 => Some Decimal.D8
  | x39 => Some Decimal.D9
  | _ => None
  end.

Fixpoint read_uint (s : bytes) : Decimal.uint * bytes :=
  match s with
  | [] => (Decimal.Nil, [])
  | b :: r =>
      match digit_ctor b with
      | Some c => let (u, rest) := read_uint r in (c u, rest)
      | None => (Decimal.Nil, s)
      end
  end.

(* '.', 'e', 'E' after the integer part: a fraction or exponent, which this decoder rejects *)
Definition frac_start (s : bytes) : bool :=
  match s with
  | b :: _ => beqb b x2e || beqb b x65 || beqb b x45
  | [] => false
  end.

(* int = zero / ( digit1-9 *DIGIT ): at least one digit, no leading zeros ([unorm u = u]) *)
Definition read_nat (s : bytes) : option (N * bytes) :=
  let (u, rest) := read_uint s in
  if Decimal.uint_beq (Decimal.unorm u) u then
    if frac_start rest then None else Some (N.of_uint u, rest)
  else None.

Definition parse_number (s : bytes) : option (Z * bytes) :=
  match s with
  | [] => None
  | c :: r =>
      if beqb c x2d then
        match read_nat r with Some (n, rest) => Some (Z.opp (Z.of_N n), rest) | None => None end
      else
        match read_nat s with Some (n, rest) => Some (Z.of_N n, rest) | None => None end
  end.

Definition lit_null : bytes := "null".
Definition lit_true : bytes := "true".
Definition lit_false : bytes := "false".

(* [parse_value f s]: skip white space, read one value, return it with the remaining input.
   [parse_elems] / [parse_members] read "value (, value)* ]" / "member (, member)* }"; [acc] is
   reversed.  Fuel: one unit per value and per element; [S (length s)] suffices for any input [s]
   (JsonFacts.parse_value_fuel: if some fuel succeeds, this one does with the same result). *)
Fixpoint parse_value (f : nat) (s : bytes) {struct f} : option (json * bytes) :=
  match f with
  | O => None
  | S f' =>
      match skip_ws s with
      | [] => None
      | c :: r =>
          if beqb c x5b then
            match skip_ws r with
            | [] => None
            | c2 :: r2 => if beqb c2 x5d then Some (JArr [], r2) else parse_elems f' [] (c2 :: r2)
            end
          else if beqb c x7b then
            match skip_ws r with
            | [] => None
            | c2 :: r2 => if beqb c2 x7d then Some (JObj [], r2) else parse_members f' [] (c2 :: r2)
            end
          else if beqb c x22 then
            match dec_str [] r with
            | Some (str, rest) => Some (JStr str, rest)
            | None => None
            end
          else if beqb c x6e then
            if has_prefix lit_null (c :: r) then Some (JNull, skipn 3 r) else None
          else if beqb c x74 then
            if has_prefix lit_true (c :: r) then Some (JBool true, skipn 3 r) else None
          else if beqb c x66 then
            if has_prefix lit_false (c :: r) then Some (JBool false, skipn 4 r) else None
          else
            match parse_number (c :: r) with
            | Some (z, rest) => Some (JNum z, rest)
            | None => None
            end
      end
  end
with parse_elems (f : nat) (acc : list json) (s : bytes) {struct f} : option (json * bytes) :=
  match f with
  | O => None
  | S f' =>
      match parse_value f' s with
      | None => None
      | Some (v, rest) =>
          match skip_ws rest with
          | [] => None
          | c :: r =>
              if beqb c x2c then parse_elems f' (v :: acc) r
              else if beqb c x5d then Some (JArr (rev_append acc [v]), r)
              else None
          end
      end
  end
with parse_members (f : nat) (acc : list (bytes * json)) (s : bytes) {struct f} : option (json * bytes) :=
  match f with
  | O => None
  | S f' =>
      match skip_ws s with
      | [] => None
      | q :: r0 =>
          if beqb q x22 then
            match dec_str [] r0 with
            | None => None
            | Some (key, rest0) =>
                match skip_ws rest0 with
                | [] => None
                | c0 :: r1 =>
                    if beqb c0 x3a then
                      match parse_value f' r1 with
                      | None => None
                      | Some (v, rest) =>
                          match skip_ws rest with
                          | [] => None
                          | c :: r =>
                              if beqb c x2c then parse_members f' ((key, v) :: acc) r
                              else if beqb c x7d then Some (JObj (rev_append acc [(key, v)]), r)
                              else None
                          end
                      end
                    else None
                end
            end
          else None
      end
  end.

(* the whole input must be one value surrounded by optional white space *)
Definition decode (s : bytes) : option json :=
  match parse_value (S (length s)) s with
  | Some (v, rest) => match skip_ws rest with [] => Some v | _ => None end
  | None => None
  end.
