(* Byte strings and the Go library functions the modelled code uses.
   Definitions only (proofs live in BytesFacts.v) so the executable model
   still builds when a proof breaks. *)
From Coq Require Export List NArith Bool.
From Coq.Strings Require Export Byte.
From Coq Require Decimal DecimalN.
Export ListNotations.

Definition bytes := list byte.

(* string literals for [bytes] *)
Inductive lb := lnil | lcons (b : byte) (l : lb).
Fixpoint to_lb (l : list byte) : lb := match l with [] => lnil | x :: r => lcons x (to_lb r) end.
Fixpoint of_lb (l : lb) : list byte := match l with lnil => [] | lcons x r => x :: of_lb r end.
Declare Scope bs_scope.
Delimit Scope bs_scope with bs.
Set Warnings "-via-type-remapping,-via-type-mismatch".
String Notation bytes to_lb of_lb (via lb mapping [[nil] => lnil, [cons] => lcons]) : bs_scope.
Set Warnings "via-type-remapping,via-type-mismatch".

Definition beqb (a b : byte) : bool := Byte.eqb a b.

Fixpoint bytes_eqb (a b : bytes) : bool :=
  match a, b with
  | [], [] => true
  | x :: a', y :: b' => beqb x y && bytes_eqb a' b'
  | _, _ => false
  end.

Definition code (b : byte) : N := Byte.to_N b.

(* ---------- prefix / suffix / search ---------- *)
Fixpoint has_prefix (p s : bytes) : bool :=
  match p, s with
  | [], _ => true
  | x :: p', y :: s' => beqb x y && has_prefix p' s'
  | _ :: _, [] => false
  end.

Definition has_suffix (p s : bytes) : bool := has_prefix (rev p) (rev s).

Definition trim_prefix (p s : bytes) : bytes :=
  if has_prefix p s then skipn (length p) s else s.

Definition trim_suffix (p s : bytes) : bytes :=
  if has_suffix p s then firstn (length s - length p) s else s.

Fixpoint contains (sub s : bytes) : bool :=
  has_prefix sub s || match s with [] => false | _ :: s' => contains sub s' end.

(* strings.Split(s, [c]) for a one-byte separator: always >= 1 piece *)
Fixpoint split_on (c : byte) (s : bytes) : list bytes :=
  match s with
  | [] => [[]]
  | x :: s' =>
      if beqb x c then [] :: split_on c s'
      else match split_on c s' with
           | [] => [[x]]            (* unreachable: split_on is never empty *)
           | p :: ps => (x :: p) :: ps
           end
  end.

(* strings.SplitN(s, [c], 2) *)
Fixpoint splitn2 (c : byte) (s : bytes) : list bytes :=
  match s with
  | [] => [[]]
  | x :: s' =>
      if beqb x c then [[]; s']
      else match splitn2 c s' with
           | [p] => [x :: p]
           | [p; q] => [x :: p; q]
           | _ => [[x]]
           end
  end.

Fixpoint join (sep : bytes) (l : list bytes) : bytes :=
  match l with
  | [] => []
  | [x] => x
  | x :: r => x ++ sep ++ join sep r
  end.

Definition remove_byte (c : byte) (s : bytes) : bytes := filter (fun x => negb (beqb x c)) s.

(* ---------- UTF-8 aware white space, as Go's unicode.IsSpace over decoded runes ---------- *)
Definition in_range (lo hi : N) (b : byte) : bool := (lo <=? code b)%N && (code b <=? hi)%N.
Definition is_cont (b : byte) : bool := in_range 128 191 b.

(* width of the rune Go's utf8.DecodeRune reads at the head of [s] (1 for invalid encodings) *)
Definition rune_width (s : bytes) : nat :=
  match s with
  | [] => 0
  | b0 :: r =>
      if (code b0 <? 128)%N then 1
      else if in_range 194 223 b0 then
        match r with b1 :: _ => if is_cont b1 then 2 else 1 | _ => 1 end
      else if in_range 224 239 b0 then
        match r with
        | b1 :: b2 :: _ =>
            let ok1 := if (code b0 =? 224)%N then in_range 160 191 b1
                       else if (code b0 =? 237)%N then in_range 128 159 b1
                       else is_cont b1 in
            if ok1 && is_cont b2 then 3 else 1
        | _ => 1
        end
      else if in_range 240 244 b0 then
        match r with
        | b1 :: b2 :: b3 :: _ =>
            let ok1 := if (code b0 =? 240)%N then in_range 144 191 b1
                       else if (code b0 =? 244)%N then in_range 128 143 b1
                       else is_cont b1 in
            if ok1 && is_cont b2 && is_cont b3 then 4 else 1
        | _ => 1
        end
      else 1
  end.

Definition ascii_space (b : byte) : bool :=
  match code b with
  | 9%N | 10%N | 11%N | 12%N | 13%N | 32%N => true
  | _ => false
  end.

(* is the rune at the head of [s] a Unicode white space?  returns its width *)
Definition space_width (s : bytes) : option nat :=
  match s with
  | [] => None
  | b0 :: r =>
      if (code b0 <? 128)%N then (if ascii_space b0 then Some 1 else None)
      else match List.map code (b0 :: r) with
           | 194%N :: 133%N :: _ => Some 2       (* U+0085 *)
           | 194%N :: 160%N :: _ => Some 2       (* U+00A0 *)
           | 225%N :: 154%N :: 128%N :: _ => Some 3  (* U+1680 *)
           | 226%N :: 128%N :: c :: _ =>
               if ((128 <=? c) && (c <=? 138))%N then Some 3   (* U+2000..U+200A *)
               else if ((c =? 168) || (c =? 169) || (c =? 175))%N then Some 3 (* U+2028 U+2029 U+202F *)
               else None
           | 226%N :: 129%N :: 159%N :: _ => Some 3  (* U+205F *)
           | 227%N :: 128%N :: 128%N :: _ => Some 3  (* U+3000 *)
           | _ => None
           end
  end.

(* scan forward rune by rune; fuel = length s is always enough *)
Fixpoint trim_left_f (fuel : nat) (s : bytes) : bytes :=
  match fuel with
  | O => s
  | S f => match space_width s with
           | Some w => trim_left_f f (skipn w s)
           | None => s
           end
  end.
Definition trim_left (s : bytes) : bytes := trim_left_f (length s) s.

(* rune-wise scan producing, for every rune start, (is_space, width); used for right trim and Fields *)
Fixpoint runes_f (fuel : nat) (s : bytes) : list (bool * bytes) :=
  match fuel with
  | O => []
  | S f =>
      match s with
      | [] => []
      | _ =>
          match space_width s with
          | Some w => (true, firstn w s) :: runes_f f (skipn w s)
          | None => let w := rune_width s in (false, firstn w s) :: runes_f f (skipn w s)
          end
      end
  end.
Definition runes (s : bytes) : list (bool * bytes) := runes_f (length s) s.

Fixpoint drop_while_space (l : list (bool * bytes)) : list (bool * bytes) :=
  match l with
  | (true, _) :: r => drop_while_space r
  | _ => l
  end.

(* strings.TrimSpace.  Right trimming by forward rune decoding coincides with Go's
   backward DecodeLastRune on the white-space encodings (they are complete, valid sequences
   and a trailing continuation byte is never itself a rune start). *)
Definition trim_space (s : bytes) : bytes :=
  let l := drop_while_space (runes s) in
  let l' := rev (drop_while_space (rev l)) in
  concat (List.map snd l').

(* strings.Fields *)
Fixpoint fields_aux (l : list (bool * bytes)) (cur : bytes) (incur : bool) : list bytes :=
  match l with
  | [] => if incur then [cur] else []
  | (true, _) :: r => if incur then cur :: fields_aux r [] false else fields_aux r [] false
  | (false, w) :: r => fields_aux r (cur ++ w) true
  end.
Definition fields (s : bytes) : list bytes := fields_aux (runes s) [] false.

(* ---------- numbers ---------- *)
Definition digit_byte (d : N) : byte :=
  match Byte.of_N (48 + d) with Some b => b | None => x30 end.

Fixpoint uint_bytes (u : Decimal.uint) : bytes :=
  match u with
  | Decimal.Nil => []
  | Decimal.D0 r => x30 :: uint_bytes r
  | Decimal.D1 r => x31 :: uint_bytes r
  | Decimal.D2 r => x32 :: uint_bytes r
  | Decimal.D3 r => x33 :: uint_bytes r
  | Decimal.D4 r => x34 :: uint_bytes r
  | Decimal.D5 r => x35 :: uint_bytes r
  | Decimal.D6 r => x36 :: uint_bytes r
  | Decimal.D7 r => x37 :: uint_bytes r
  | Decimal.D8 r => x38 :: uint_bytes r
  | Decimal.D9 r => x39 :: uint_bytes r
  end.

(* fmt's %d / strconv.Itoa on a non-negative number *)
Definition dec (n : N) : bytes := uint_bytes (N.to_uint n).

(* ---------- slices and lines ---------- *)
Definition slice (s : bytes) (a b : N) : bytes :=
  firstn (N.to_nat (b - a)) (skipn (N.to_nat a) s).

Definition nl : byte := x0a.

Fixpoint count_nl (s : bytes) : N :=
  match s with
  | [] => 0
  | x :: r => (if beqb x nl then 1 else 0) + count_nl r
  end%N.

(* ---------- paths (filepath on a slash-separated OS) ---------- *)
Definition slash : byte := x2f.
Definition dot : byte := x2e.

(* filepath.Ext: suffix starting at the last dot of the last path element, or empty *)
Fixpoint ext_aux (s : bytes) (acc : bytes) : bytes :=
  (* [s] is the path reversed; [acc] accumulates the extension without the dot *)
  match s with
  | [] => []
  | x :: r =>
      if beqb x slash then []
      else if beqb x dot then dot :: acc
      else ext_aux r (x :: acc)
  end.
Definition path_ext (p : bytes) : bytes := ext_aux (rev p) [].

(* fmt.Sprintf("%s", []string{...}) *)
Definition fmt_strs (l : list bytes) : bytes := (x5b :: join [x20] l) ++ [x5d].
