(* Facts about byte strings: lines of a slice (C04), decimal rendering. *)
From CPF Require Import Base.Bytes.
From Coq Require Import Arith Lia.

Lemma beqb_true a b : beqb a b = true <-> a = b.
Proof. unfold beqb. apply Byte.byte_dec_bl || idtac. split; intro H.
  - apply Byte.byte_dec_bl. exact H.
  - apply Byte.byte_dec_lb. exact H. Qed.

Lemma beqb_refl a : beqb a a = true.
Proof. apply beqb_true. reflexivity. Qed.

Lemma bytes_eqb_true a : forall b, bytes_eqb a b = true <-> a = b.
Proof.
  induction a as [|x a IH]; intros [|y b]; cbn [bytes_eqb]; split; intro H; try reflexivity; try discriminate.
  - apply andb_true_iff in H as [H1 H2]. apply beqb_true in H1. apply IH in H2. congruence.
  - inversion H; subst. apply andb_true_iff. split; [apply beqb_refl | apply IH; reflexivity].
Qed.

Lemma bytes_eqb_refl a : bytes_eqb a a = true.
Proof. apply bytes_eqb_true. reflexivity. Qed.

(* ---------- split_on ---------- *)
Lemma split_on_nonempty c s : split_on c s <> [].
Proof. destruct s as [|x s]; cbn [split_on]; [discriminate|].
  destruct (beqb x c); [discriminate|]. destruct (split_on c s); discriminate. Qed.

Lemma split_on_cons_ne c x s : beqb x c = false ->
  split_on c (x :: s) = (x :: hd [] (split_on c s)) :: tl (split_on c s).
Proof. intro H. cbn [split_on]. rewrite H. pose proof (split_on_nonempty c s) as N.
  destruct (split_on c s); [contradiction|reflexivity]. Qed.

(* the pieces of a concatenation: all pieces of a but the last, the last piece of a glued to
   the first piece of b, then the remaining pieces of b *)
Lemma split_on_app c a : forall b,
  split_on c (a ++ b) =
  removelast (split_on c a) ++ (last (split_on c a) [] ++ hd [] (split_on c b)) :: tl (split_on c b).
Proof.
  induction a as [|x a IH]; intro b.
  - cbn. pose proof (split_on_nonempty c b). destruct (split_on c b); [contradiction|reflexivity].
  - cbn [app]. destruct (beqb x c) eqn:E.
    + cbn [split_on]. rewrite E. rewrite IH.
      pose proof (split_on_nonempty c a) as N. destruct (split_on c a) as [|p ps] eqn:Ea; [contradiction|].
      reflexivity.
    + rewrite !split_on_cons_ne by exact E. rewrite IH.
      pose proof (split_on_nonempty c a) as N. destruct (split_on c a) as [|p ps] eqn:Ea; [contradiction|].
      cbn [hd tl]. destruct ps as [|q qs]; reflexivity.
Qed.

Lemma count_nl_app a b : count_nl (a ++ b) = (count_nl a + count_nl b)%N.
Proof. induction a as [|x a IH]; cbn [app count_nl]; [reflexivity|]. rewrite IH. lia. Qed.

Lemma split_on_length s : length (split_on nl s) = S (N.to_nat (count_nl s)).
Proof.
  induction s as [|x s IH]; [reflexivity|].
  cbn [count_nl]. destruct (beqb x nl) eqn:E.
  - cbn [split_on]. rewrite E. cbn [length]. rewrite IH. lia.
  - rewrite split_on_cons_ne by exact E. pose proof (split_on_nonempty nl s) as N.
    destruct (split_on nl s); [contradiction|]. cbn [length tl] in *. lia.
Qed.

Lemma removelast_length {A} (l : list A) : l <> [] -> length (removelast l) = length l - 1.
Proof. induction l as [|x l IH]; [contradiction|]. intros _. destruct l; [reflexivity|].
  cbn [removelast length] in *. rewrite IH by discriminate. lia. Qed.

(* ---------- C04: the lines of a snippet are the lines of the file ---------- *)
(* If src = pre ++ snip ++ post then the i-th line of the snippet sits in file line
   (count_nl pre + i), with nothing before it unless i = 0 and nothing after it unless it is the
   snippet's last line. *)
Theorem snippet_lines (pre snip post : bytes) (i : nat) (s_i : bytes) :
  nth_error (split_on nl snip) i = Some s_i ->
  exists L a b,
    nth_error (split_on nl (pre ++ snip ++ post)) (N.to_nat (count_nl pre) + i) = Some L
    /\ L = a ++ s_i ++ b
    /\ (0 < i -> a = [])
    /\ (i < N.to_nat (count_nl snip) -> b = []).
Proof.
  intro Hi.
  rewrite (split_on_app nl pre (snip ++ post)).
  pose proof (split_on_nonempty nl pre) as Npre.
  assert (Lpre : length (removelast (split_on nl pre)) = N.to_nat (count_nl pre)).
  { rewrite removelast_length by exact Npre. rewrite split_on_length. lia. }
  set (P := removelast (split_on nl pre)) in *.
  set (lp := last (split_on nl pre) []).
  rewrite (split_on_app nl snip post).
  pose proof (split_on_nonempty nl snip) as Nsn.
  assert (Lsn : length (split_on nl snip) = S (N.to_nat (count_nl snip))) by apply split_on_length.
  set (k := N.to_nat (count_nl snip)) in *.
  set (S' := split_on nl snip) in *.
  set (hp := hd [] (split_on nl post)). set (tp := tl (split_on nl post)).
  (* S' = removelast S' ++ [last S'] *)
  assert (HS : S' = removelast S' ++ [last S' []]) by (apply app_removelast_last; exact Nsn).
  assert (Lr : length (removelast S') = k) by (rewrite removelast_length by exact Nsn; lia).
  assert (Hik : i <= k).
  { assert (i < length S') by (apply nth_error_Some; congruence). lia. }
  rewrite <- Lpre.
  destruct i as [|i'].
  - (* first snippet line *)
    rewrite Nat.add_0_r. rewrite nth_error_app2 by lia. rewrite Nat.sub_diag. cbn [nth_error].
    destruct (removelast S') as [|r0 rs] eqn:Er.
    + (* single-line snippet *)
      cbn [app hd tl]. exists (lp ++ (last S' [] ++ hp)), lp, hp.
      assert (s_i = last S' []). { rewrite HS in Hi. try rewrite Er in Hi. cbn in Hi. congruence. }
      subst s_i. repeat split; try reflexivity; try lia.
      cbn [length] in Lr. lia.
    + cbn [app hd tl]. exists (lp ++ r0), lp, [].
      assert (s_i = r0). { rewrite HS in Hi. try rewrite Er in Hi. cbn in Hi. congruence. }
      subst s_i. rewrite app_nil_r. repeat split; try reflexivity; lia.
  - (* later snippet lines *)
    rewrite nth_error_app2 by lia.
    replace (length P + S i' - length P) with (S i') by lia. cbn [nth_error].
    destruct (removelast S') as [|r0 rs] eqn:Er.
    + cbn [length] in Lr. lia.
    + cbn [app hd tl].
      rewrite HS in Hi. try rewrite Er in Hi. cbn [app nth_error] in Hi.
      cbn [length] in Lr.
      destruct (Nat.lt_ge_cases i' (length rs)) as [Hlt|Hge].
      * rewrite nth_error_app1 in Hi by exact Hlt.
        exists s_i, [], []. rewrite app_nil_r. cbn [app].
        rewrite nth_error_app1 by exact Hlt. repeat split; auto.
      * assert (i' = length rs) by lia. subst i'.
        rewrite nth_error_app2 in Hi by lia. rewrite Nat.sub_diag in Hi. cbn in Hi.
        injection Hi as Hi. subst s_i.
        exists (last S' [] ++ hp), [], hp. cbn [app].
        rewrite nth_error_app2 by lia. rewrite Nat.sub_diag. cbn [nth_error].
        repeat split; auto. lia.
Qed.

Lemma skipn_skipn' {A} (n : nat) : forall (m : nat) (l : list A), skipn n (skipn m l) = skipn (m + n) l.
Proof. induction m as [|m IH]; intro l; [reflexivity|]. destruct l; [now rewrite !skipn_nil|]. cbn [skipn plus]. apply IH. Qed.

(* slices: inside bounds a slice splits the source *)
Lemma slice_split (src : bytes) (a b : N) :
  (a <= b)%N -> (b <= N.of_nat (length src))%N ->
  src = firstn (N.to_nat a) src ++ slice src a b ++ skipn (N.to_nat b) src.
Proof.
  intros Hab Hb. unfold slice.
  rewrite <- (firstn_skipn (N.to_nat a) src) at 1. f_equal.
  set (r := skipn (N.to_nat a) src).
  rewrite <- (firstn_skipn (N.to_nat (b - a)) r) at 1. f_equal.
  unfold r. rewrite skipn_skipn'. f_equal. lia.
Qed.
