(* Facts about the JSON model: examples checked against real Go 1.23 output, and the
   decode/encode round trip. *)
From Coq Require Import ZArith Lia ZifyN ZifyNat ZifyBool.
From Coq Require DecimalFacts DecimalPos DecimalN.
From CPF Require Import Base.Bytes Base.Json.
Local Open Scope bs_scope.

(* ------------------------------------------------------------------ *)
(* Examples.  Expected values are the output of a Go 1.23 program calling json.Marshal on the
   string with bytes [ex_str_in] (quote, backslash, newline, tab, 0x01, <>&, U+2028, U+2029,
   U+1F600, an invalid byte 0xff, DEL, \b, \f, \r, slash, U+00E9), and json.MarshalIndent(v, "", "  ")
   / json.Marshal(v) on a struct value [v] with the shape of [ex_val]. *)
(* ------------------------------------------------------------------ *)

Definition ex_str_in : bytes :=
  [
   x61; x22; x62; x5c; x63; x0a; x64; x09; x65; x01; x66; x3c; x3e; x26; x67; xe2;
   x80; xa8; x68; xe2; x80; xa9; x69; xf0; x9f; x98; x80; x6a; xff; x6b; x7f; x08;
   x0c; x0d; x2f; xc3; xa9].

Definition ex_str_out : bytes :=
  [
   x22; x61; x5c; x22; x62; x5c; x5c; x63; x5c; x6e; x64; x5c; x74; x65; x5c; x75;
   x30; x30; x30; x31; x66; x5c; x75; x30; x30; x33; x63; x5c; x75; x30; x30; x33;
   x65; x5c; x75; x30; x30; x32; x36; x67; x5c; x75; x32; x30; x32; x38; x68; x5c;
   x75; x32; x30; x32; x39; x69; xf0; x9f; x98; x80; x6a; x5c; x75; x66; x66; x66;
   x64; x6b; x7f; x5c; x62; x5c; x66; x5c; x72; x2f; xc3; xa9; x22].

Definition ex_indent_out : bytes :=
  [
   x7b; x0a; x20; x20; x22; x61; x22; x3a; x20; x5b; x5d; x2c; x0a; x20; x20; x22;
   x62; x22; x3a; x20; x5b; x0a; x20; x20; x20; x20; x31; x2c; x0a; x20; x20; x20;
   x20; x5b; x5d; x2c; x0a; x20; x20; x20; x20; x5b; x0a; x20; x20; x20; x20; x20;
   x20; x2d; x32; x2c; x0a; x20; x20; x20; x20; x20; x20; x33; x0a; x20; x20; x20;
   x20; x5d; x2c; x0a; x20; x20; x20; x20; x7b; x7d; x2c; x0a; x20; x20; x20; x20;
   x7b; x0a; x20; x20; x20; x20; x20; x20; x22; x6b; x22; x3a; x20; x30; x0a; x20;
   x20; x20; x20; x7d; x0a; x20; x20; x5d; x2c; x0a; x20; x20; x22; x63; x22; x3a;
   x20; x7b; x7d; x2c; x0a; x20; x20; x22; x64; x22; x3a; x20; x7b; x0a; x20; x20;
   x20; x20; x22; x78; x5c; x75; x30; x30; x33; x63; x79; x22; x3a; x20; x22; x73;
   x22; x2c; x0a; x20; x20; x20; x20; x22; x79; x22; x3a; x20; x5b; x0a; x20; x20;
   x20; x20; x20; x20; x5b; x0a; x20; x20; x20; x20; x20; x20; x20; x20; x5b; x5d;
   x0a; x20; x20; x20; x20; x20; x20; x5d; x0a; x20; x20; x20; x20; x5d; x2c; x0a;
   x20; x20; x20; x20; x22; x7a; x22; x3a; x20; x74; x72; x75; x65; x2c; x0a; x20;
   x20; x20; x20; x22; x77; x22; x3a; x20; x6e; x75; x6c; x6c; x0a; x20; x20; x7d;
   x2c; x0a; x20; x20; x22; x65; x22; x3a; x20; x2d; x31; x37; x0a; x7d].

Definition ex_compact_out : bytes :=
  [
   x7b; x22; x61; x22; x3a; x5b; x5d; x2c; x22; x62; x22; x3a; x5b; x31; x2c; x5b;
   x5d; x2c; x5b; x2d; x32; x2c; x33; x5d; x2c; x7b; x7d; x2c; x7b; x22; x6b; x22;
   x3a; x30; x7d; x5d; x2c; x22; x63; x22; x3a; x7b; x7d; x2c; x22; x64; x22; x3a;
   x7b; x22; x78; x5c; x75; x30; x30; x33; x63; x79; x22; x3a; x22; x73; x22; x2c;
   x22; x79; x22; x3a; x5b; x5b; x5b; x5d; x5d; x5d; x2c; x22; x7a; x22; x3a; x74;
   x72; x75; x65; x2c; x22; x77; x22; x3a; x6e; x75; x6c; x6c; x7d; x2c; x22; x65;
   x22; x3a; x2d; x31; x37; x7d].

Definition ex_val : json :=
  JObj [("a", JArr []);
        ("b", JArr [JNum 1; JArr []; JArr [JNum (-2); JNum 3]; JObj []; JObj [("k", JNum 0)]]);
        ("c", JObj []);
        ("d", JObj [("x<y", JStr "s"); ("y", JArr [JArr [JArr []]]); ("z", JBool true); ("w", JNull)]);
        ("e", JNum (-17))].

Example ex_string : encode_string ex_str_in = ex_str_out.
Proof. vm_compute. reflexivity. Qed.

Example ex_string_value : encode (JStr ex_str_in) = ex_str_out.
Proof. vm_compute. reflexivity. Qed.

Example ex_indent : encode_indent ex_val = ex_indent_out.
Proof. vm_compute. reflexivity. Qed.

Example ex_compact : encode ex_val = ex_compact_out.
Proof. vm_compute. reflexivity. Qed.

Example ex_empty_arr : encode_indent (JArr []) = "[]".
Proof. vm_compute. reflexivity. Qed.

Example ex_empty_obj : encode_indent (JObj []) = "{}".
Proof. vm_compute. reflexivity. Qed.

(* the decoder on the same data *)
Example ex_decode_indent : decode ex_indent_out = Some ex_val.
Proof. vm_compute. reflexivity. Qed.

Example ex_decode_compact : decode ex_compact_out = Some ex_val.
Proof. vm_compute. reflexivity. Qed.

(* escapes the encoder never produces: \/ , upper-case hex, a surrogate pair (U+1F600), a lone
   surrogate (-> U+FFFD); and some rejections *)
Example ex_decode_escapes :
  decode " ""\/é😀\ud83dx"" " = Some (JStr [x2f; xc3; xa9; xf0; x9f; x98; x80; xef; xbf; xbd; x78]).
Proof. vm_compute. reflexivity. Qed.

Example ex_decode_rejects :
  map decode ["01"; "1.5"; "1e3"; "-"; "[1,]"; "{""a"":1,}"; "[1] x"; """a"; "nul"; "[1 2]"; [x22; x0a; x22]; ""; "-0"; " [ 0 , -12 ] "]
  = [None; None; None; None; None; None; None; None; None; None; None; None; Some (JNum 0); Some (JArr [JNum 0; JNum (-12)])].
Proof. vm_compute. reflexivity. Qed.

(* ------------------------------------------------------------------ *)
(* Strings                                                              *)
(* ------------------------------------------------------------------ *)

Lemma in_range_lo lo hi b : in_range lo hi b = true -> (lo <= code b)%N.
Proof. unfold in_range. intros H. apply andb_true_iff in H. destruct H as [H1 H2]. apply N.leb_le in H1. exact H1. Qed.

Lemma is_cont_ge b : is_cont b = true -> (128 <= code b)%N.
Proof. apply in_range_lo. Qed.

(* destruct every [if] / list match in hypothesis-free goal position of [H] *)
Ltac rw_split H :=
  repeat match type of H with
         | context [if ?c then _ else _] => let E := fresh "E" in destruct c eqn:E
         | context [match ?r with [] => _ | _ :: _ => _ end] => destruct r
         end.

(* a raw byte >= 0x80 is copied by the decoder *)
Lemma dec_str_hi b acc r : (128 <= code b)%N -> dec_str acc (b :: r) = dec_str (b :: acc) r.
Proof.
  intros H. destruct b; try (exfalso; vm_compute in H; apply H; reflexivity); reflexivity.
Qed.

(* an escaped ASCII byte is decoded to itself *)
Lemma dec_str_ascii b acc k : (code b <? 128)%N = true -> dec_str acc (esc_ascii b k) = dec_str (b :: acc) k.
Proof.
  intros H. destruct b; try (vm_compute in H; discriminate H); reflexivity.
Qed.

Lemma rw2_cont b0 b1 r : rune_width (b0 :: b1 :: r) = 2 -> (128 <= code b1)%N.
Proof.
  unfold rune_width. intros H. rw_split H; try discriminate H.
  apply is_cont_ge; assumption.
Qed.

Lemma rw3_cont b0 b1 b2 r :
  rune_width (b0 :: b1 :: b2 :: r) = 3 -> (128 <= code b1)%N /\ (128 <= code b2)%N.
Proof.
  unfold rune_width. intros H. rw_split H; try discriminate H.
  all: match goal with E : (_ && _)%bool = true |- _ => apply andb_true_iff in E; destruct E as [Ea Eb] end.
  all: rw_split Ea.
  all: split; [ | apply is_cont_ge; assumption ].
  all: try (apply is_cont_ge; assumption).
  all: eapply N.le_trans; [ | eapply in_range_lo; eassumption ]; lia.
Qed.

Lemma rw4_cont b0 b1 b2 b3 r :
  rune_width (b0 :: b1 :: b2 :: b3 :: r) = 4 ->
  (128 <= code b1)%N /\ (128 <= code b2)%N /\ (128 <= code b3)%N.
Proof.
  unfold rune_width. intros H. rw_split H; try discriminate H.
  all: match goal with E : (_ && _ && _)%bool = true |- _ =>
         apply andb_true_iff in E; destruct E as [Ea Ec]; apply andb_true_iff in Ea; destruct Ea as [Ea Eb] end.
  all: rw_split Ea.
  all: split; [ | split; apply is_cont_ge; assumption ].
  all: try (apply is_cont_ge; assumption).
  all: eapply N.le_trans; [ | eapply in_range_lo; eassumption ]; lia.
Qed.

(* rune-step induction over valid UTF-8 strings *)
Lemma valid_utf8b_ind (P : bytes -> Prop) :
  P [] ->
  (forall b r, (code b <? 128)%N = true -> valid_utf8b r = true -> P r -> P (b :: r)) ->
  (forall b0 b1 r, (code b0 <? 128)%N = false -> rune_width (b0 :: b1 :: r) = 2 ->
                   valid_utf8b r = true -> P r -> P (b0 :: b1 :: r)) ->
  (forall b0 b1 b2 r, (code b0 <? 128)%N = false -> rune_width (b0 :: b1 :: b2 :: r) = 3 ->
                      valid_utf8b r = true -> P r -> P (b0 :: b1 :: b2 :: r)) ->
  (forall b0 b1 b2 b3 r, (code b0 <? 128)%N = false -> rune_width (b0 :: b1 :: b2 :: b3 :: r) = 4 ->
                         valid_utf8b r = true -> P r -> P (b0 :: b1 :: b2 :: b3 :: r)) ->
  forall s, valid_utf8b s = true -> P s.
Proof.
  intros H0 H1 H2 H3 H4 s.
  assert (G : forall n s, length s <= n -> valid_utf8b s = true -> P s).
  { clear s. induction n as [|n IH]; intros s Hlen Hv.
    - destruct s; [ exact H0 | cbn in Hlen; lia ].
    - destruct s as [|b0 r]; [ exact H0 | ].
      cbn [valid_utf8b] in Hv. cbn [length] in Hlen.
      destruct (code b0 <? 128)%N eqn:Ea.
      + apply H1; [ exact Ea | exact Hv | apply IH; [ lia | exact Hv ] ].
      + destruct (rune_width (b0 :: r)) as [|[|[|[|[|w]]]]] eqn:Ew; try discriminate Hv.
        * destruct r as [|b1 r2]; [ discriminate Hv | ].
          apply H2; try assumption. apply IH; [ cbn [length] in Hlen; lia | exact Hv ].
        * destruct r as [|b1 [|b2 r3]]; try discriminate Hv.
          apply H3; try assumption. apply IH; [ cbn [length] in Hlen; lia | exact Hv ].
        * destruct r as [|b1 [|b2 [|b3 r4]]]; try discriminate Hv.
          apply H4; try assumption. apply IH; [ cbn [length] in Hlen; lia | exact Hv ]. }
  intros Hv. apply (G (length s)); [ lia | exact Hv ].
Qed.

Lemma enc_str_ascii b r k : (code b <? 128)%N = true -> enc_str (b :: r) k = esc_ascii b (enc_str r k).
Proof. intros H. cbn [enc_str]. rewrite H. reflexivity. Qed.

Lemma enc_str_2 b0 b1 r k :
  (code b0 <? 128)%N = false -> rune_width (b0 :: b1 :: r) = 2 ->
  enc_str (b0 :: b1 :: r) k = b0 :: b1 :: enc_str r k.
Proof.
  intros Ha Hw.
  change (enc_str (b0 :: b1 :: r) k) with
    (if (code b0 <? 128)%N then esc_ascii b0 (enc_str (b1 :: r) k)
     else match rune_width (b0 :: b1 :: r) with
          | 2 => b0 :: b1 :: enc_str r k
          | 3 => match r with
                 | b2 :: r3 =>
                     if beqb b0 xe2 && beqb b1 x80 && beqb b2 xa8 then esc_202x x38 (enc_str r3 k)
                     else if beqb b0 xe2 && beqb b1 x80 && beqb b2 xa9 then esc_202x x39 (enc_str r3 k)
                     else b0 :: b1 :: b2 :: enc_str r3 k
                 | _ => esc_fffd (enc_str (b1 :: r) k)
                 end
          | 4 => match r with
                 | b2 :: b3 :: r4 => b0 :: b1 :: b2 :: b3 :: enc_str r4 k
                 | _ => esc_fffd (enc_str (b1 :: r) k)
                 end
          | _ => esc_fffd (enc_str (b1 :: r) k)
          end).
  rewrite Ha, Hw. reflexivity.
Qed.

Lemma enc_str_3 b0 b1 b2 r k :
  (code b0 <? 128)%N = false -> rune_width (b0 :: b1 :: b2 :: r) = 3 ->
  enc_str (b0 :: b1 :: b2 :: r) k =
    if beqb b0 xe2 && beqb b1 x80 && beqb b2 xa8 then esc_202x x38 (enc_str r k)
    else if beqb b0 xe2 && beqb b1 x80 && beqb b2 xa9 then esc_202x x39 (enc_str r k)
    else b0 :: b1 :: b2 :: enc_str r k.
Proof. intros Ha Hw. cbn [enc_str]. rewrite Ha, Hw. reflexivity. Qed.

Lemma enc_str_4 b0 b1 b2 b3 r k :
  (code b0 <? 128)%N = false -> rune_width (b0 :: b1 :: b2 :: b3 :: r) = 4 ->
  enc_str (b0 :: b1 :: b2 :: b3 :: r) k = b0 :: b1 :: b2 :: b3 :: enc_str r k.
Proof. intros Ha Hw. cbn [enc_str]. rewrite Ha, Hw. reflexivity. Qed.

Lemma beqb_true a b : beqb a b = true -> a = b.
Proof. apply Byte.byte_dec_bl. Qed.

Lemma and3_true a b c : a && b && c = true -> a = true /\ b = true /\ c = true.
Proof. destruct a, b, c; intros H; try discriminate H; auto. Qed.

(* decoding the body of an encoded valid string, up to and including the closing quote *)
Lemma dec_enc_str s :
  valid_utf8b s = true ->
  forall acc rest, dec_str acc (enc_str s (x22 :: rest)) = Some (rev acc ++ s, rest).
Proof.
  intros Hv. pattern s. revert s Hv. apply valid_utf8b_ind.
  - intros acc rest. cbn [enc_str dec_str].
    change (beqb x22 x22) with true. cbv iota.
    rewrite rev_append_rev, !app_nil_r. reflexivity.
  - intros b r Ha _ IH acc rest.
    rewrite enc_str_ascii by exact Ha. rewrite dec_str_ascii by exact Ha.
    rewrite IH. cbn [rev]. rewrite <- app_assoc. reflexivity.
  - intros b0 b1 r Ha Hw _ IH acc rest.
    rewrite enc_str_2 by assumption.
    apply N.ltb_ge in Ha. pose proof (rw2_cont _ _ _ Hw) as H1.
    rewrite !dec_str_hi by assumption. rewrite IH. cbn [rev]. rewrite <- !app_assoc. reflexivity.
  - intros b0 b1 b2 r Ha Hw _ IH acc rest.
    rewrite enc_str_3 by assumption.
    destruct (beqb b0 xe2 && beqb b1 x80 && beqb b2 xa8) eqn:E8.
    { apply and3_true in E8. destruct E8 as (E0 & E1 & E2).
      apply beqb_true in E0, E1, E2. subst b0 b1 b2.
      change (dec_str acc (esc_202x x38 (enc_str r (x22 :: rest))))
        with (dec_str (xa8 :: x80 :: xe2 :: acc) (enc_str r (x22 :: rest))).
      rewrite IH. cbn [rev]. rewrite <- !app_assoc. reflexivity. }
    destruct (beqb b0 xe2 && beqb b1 x80 && beqb b2 xa9) eqn:E9.
    { apply and3_true in E9. destruct E9 as (E0 & E1 & E2).
      apply beqb_true in E0, E1, E2. subst b0 b1 b2.
      change (dec_str acc (esc_202x x39 (enc_str r (x22 :: rest))))
        with (dec_str (xa9 :: x80 :: xe2 :: acc) (enc_str r (x22 :: rest))).
      rewrite IH. cbn [rev]. rewrite <- !app_assoc. reflexivity. }
    apply N.ltb_ge in Ha. destruct (rw3_cont _ _ _ _ Hw) as [H1 H2].
    rewrite !dec_str_hi by assumption. rewrite IH. cbn [rev]. rewrite <- !app_assoc. reflexivity.
  - intros b0 b1 b2 b3 r Ha Hw _ IH acc rest.
    rewrite enc_str_4 by assumption.
    apply N.ltb_ge in Ha. destruct (rw4_cont _ _ _ _ _ Hw) as (H1 & H2 & H3).
    rewrite !dec_str_hi by assumption. rewrite IH. cbn [rev]. rewrite <- !app_assoc. reflexivity.
Qed.

Lemma dec_enc_string s rest :
  valid_utf8b s = true -> dec_str [] (enc_str s (x22 :: rest)) = Some (s, rest).
Proof. intros Hv. rewrite dec_enc_str by exact Hv. reflexivity. Qed.

(* Theorem 3 *)
Theorem encode_string_injective s1 s2 :
  valid_utf8b s1 = true -> valid_utf8b s2 = true -> encode_string s1 = encode_string s2 -> s1 = s2.
Proof.
  intros H1 H2 E. unfold encode_string, enc_string in E. injection E as E.
  pose proof (dec_enc_string s1 [] H1) as D1. pose proof (dec_enc_string s2 [] H2) as D2.
  rewrite E in D1. rewrite D1 in D2. injection D2 as D2. exact D2.
Qed.
Print Assumptions encode_string_injective.

(* ------------------------------------------------------------------ *)
(* Numbers                                                              *)
(* ------------------------------------------------------------------ *)

(* what may follow a value: end of input, white space, or one of  , ] }  *)
Definition stop (rest : bytes) : bool :=
  match rest with
  | [] => true
  | c :: _ => is_ws c || beqb c x2c || beqb c x5d || beqb c x7d
  end.

Lemma stop_read_uint rest : stop rest = true -> read_uint rest = (Decimal.Nil, rest) /\ frac_start rest = false.
Proof.
  destruct rest as [|c t]; [ intros _; split; reflexivity | ].
  intros H. destruct c; try (vm_compute in H; discriminate H); split; reflexivity.
Qed.

Lemma read_uint_bytes u rest :
  read_uint rest = (Decimal.Nil, rest) -> read_uint (uint_bytes u ++ rest) = (u, rest).
Proof.
  intros H. induction u as [|u IH|u IH|u IH|u IH|u IH|u IH|u IH|u IH|u IH|u IH];
    cbn [uint_bytes app]; [ exact H | .. ];
    cbn [read_uint digit_ctor]; rewrite IH; reflexivity.
Qed.

Lemma to_uint_unorm n : Decimal.unorm (N.to_uint n) = N.to_uint n.
Proof.
  rewrite <- (DecimalN.Unsigned.to_of (N.to_uint n)). rewrite DecimalN.Unsigned.of_to. reflexivity.
Qed.

Lemma read_nat_dec n rest : stop rest = true -> read_nat (dec n ++ rest) = Some (n, rest).
Proof.
  intros H. destruct (stop_read_uint rest H) as [H1 H2].
  unfold read_nat, dec. rewrite read_uint_bytes by exact H1.
  rewrite to_uint_unorm. rewrite (Decimal.internal_uint_dec_lb _ _ eq_refl).
  rewrite H2. rewrite DecimalN.Unsigned.of_to. reflexivity.
Qed.

(* first byte of a number: a digit or '-' *)
Definition numstart (c : byte) : bool :=
  match digit_ctor c with Some _ => true | None => beqb c x2d end.

Lemma dec_head n : exists c t, dec n = c :: t /\ numstart c = true /\ beqb c x2d = false.
Proof.
  unfold dec. pose proof (to_uint_unorm n) as H.
  destruct (N.to_uint n) eqn:E;
    [ exfalso; exact (DecimalFacts.unorm_nonnil _ H) | .. ];
    cbn [uint_bytes]; eexists; eexists; (split; [ reflexivity | split; reflexivity ]).
Qed.

Lemma enc_num_head z : exists c t, enc_num z = c :: t /\ numstart c = true.
Proof.
  unfold enc_num. destruct (z <? 0)%Z.
  - eexists; eexists; split; reflexivity.
  - destruct (dec_head (Z.to_N z)) as (c & t & E & H & _). exists c, t. split; assumption.
Qed.

Lemma parse_number_enc z rest : stop rest = true -> parse_number (enc_num z ++ rest) = Some (z, rest).
Proof.
  intros H. unfold enc_num. destruct (z <? 0)%Z eqn:Ez.
  - cbn [app parse_number]. change (beqb x2d x2d) with true. cbv iota.
    rewrite read_nat_dec by exact H. f_equal. f_equal. lia.
  - pose proof (read_nat_dec (Z.to_N z) rest H) as R.
    destruct (dec_head (Z.to_N z)) as (c & t & E & _ & Hm). rewrite E in *.
    cbn [app parse_number] in *. rewrite Hm. rewrite R. f_equal. f_equal. lia.
Qed.

Lemma numstart_spec c :
  numstart c = true ->
  is_ws c = false /\ beqb c x5d = false /\ beqb c x7d = false /\
  forall f r, parse_value (S f) (c :: r) =
              match parse_number (c :: r) with Some (z, rest) => Some (JNum z, rest) | None => None end.
Proof.
  intros H. destruct c; try (vm_compute in H; discriminate H);
    (split; [ reflexivity | split; [ reflexivity | split; [ reflexivity | intros f r; reflexivity ] ] ]).
Qed.

Lemma parse_value_num f z rest :
  stop rest = true -> parse_value (S f) (enc_num z ++ rest) = Some (JNum z, rest).
Proof.
  intros H. pose proof (parse_number_enc z rest H) as P.
  destruct (enc_num_head z) as (c & t & E & Hc). rewrite E in *. cbn [app] in *.
  destruct (numstart_spec c Hc) as (_ & _ & _ & Hp). rewrite Hp, P. reflexivity.
Qed.

(* ------------------------------------------------------------------ *)
(* Values                                                               *)
(* ------------------------------------------------------------------ *)

(* Coq's generated principle gives no hypotheses for the nested lists *)
Lemma json_ind' (P : json -> Prop)
  (Hnull : P JNull) (Hbool : forall b, P (JBool b)) (Hnum : forall z, P (JNum z))
  (Hstr : forall s, P (JStr s))
  (Harr : forall l, Forall P l -> P (JArr l))
  (Hobj : forall l, Forall (fun kv => P (snd kv)) l -> P (JObj l)) :
  forall v, P v.
Proof.
  fix IH 1. intros [ | b | z | s | l | l ].
  - exact Hnull.
  - apply Hbool.
  - apply Hnum.
  - apply Hstr.
  - apply Harr.
    revert l. fix IHl 1. intros [|x l]; constructor; [ apply IH | apply IHl ].
  - apply Hobj.
    revert l. fix IHl 1. intros [|[k x] l]; constructor; [ apply IH | apply IHl ].
Qed.

(* fuel needed by [parse_value] *)
Fixpoint size (v : json) : nat :=
  match v with
  | JArr l => S (list_sum (map (fun x => S (size x)) l))
  | JObj l => S (list_sum (map (fun kv => S (size (snd kv))) l))
  | _ => 1
  end.

Lemma list_sum_cons a l : list_sum (a :: l) = a + list_sum l.
Proof. reflexivity. Qed.

Lemma parse_value_S f s :
  parse_value (S f) s =
  match skip_ws s with
  | [] => None
  | c :: r =>
      if beqb c x5b then
        match skip_ws r with
        | [] => None
        | c2 :: r2 => if beqb c2 x5d then Some (JArr [], r2) else parse_elems f [] (c2 :: r2)
        end
      else if beqb c x7b then
        match skip_ws r with
        | [] => None
        | c2 :: r2 => if beqb c2 x7d then Some (JObj [], r2) else parse_members f [] (c2 :: r2)
        end
      else if beqb c x22 then
        match dec_str [] r with
        | Some (str, rest) => Some (JStr str, rest)
        | None => None
        end
      else if beqb c x6e then
        if has_prefix lit_null (c :: r) then Some (JNull, skipn 3 r) else None
      else if beqb c x74 then
        if has_prefix lit_true (c :: r) then Some (JBool true, skipn 3 r) else None
      else if beqb c x66 then
        if has_prefix lit_false (c :: r) then Some (JBool false, skipn 4 r) else None
      else
        match parse_number (c :: r) with
        | Some (z, rest) => Some (JNum z, rest)
        | None => None
        end
  end.
Proof. reflexivity. Qed.

Lemma parse_elems_S f acc s :
  parse_elems (S f) acc s =
  match parse_value f s with
  | None => None
  | Some (v, rest) =>
      match skip_ws rest with
      | [] => None
      | c :: r =>
          if beqb c x2c then parse_elems f (v :: acc) r
          else if beqb c x5d then Some (JArr (rev_append acc [v]), r)
          else None
      end
  end.
Proof. reflexivity. Qed.

Lemma parse_members_S f acc s :
  parse_members (S f) acc s =
  match skip_ws s with
  | [] => None
  | q :: r0 =>
      if beqb q x22 then
        match dec_str [] r0 with
        | None => None
        | Some (key, rest0) =>
            match skip_ws rest0 with
            | [] => None
            | c0 :: r1 =>
                if beqb c0 x3a then
                  match parse_value f r1 with
                  | None => None
                  | Some (v, rest) =>
                      match skip_ws rest with
                      | [] => None
                      | c :: r =>
                          if beqb c x2c then parse_members f ((key, v) :: acc) r
                          else if beqb c x7d then Some (JObj (rev_append acc [(key, v)]), r)
                          else None
                      end
                  end
                else None
            end
        end
      else None
  end.
Proof. reflexivity. Qed.

Lemma skip_ws_spaces d k : skip_ws (spaces d k) = skip_ws k.
Proof. induction d as [|d IH]; [ reflexivity | exact IH ]. Qed.

Lemma skip_ws_nl m d k : skip_ws (nl m d k) = skip_ws k.
Proof. destruct m; [ apply skip_ws_spaces | reflexivity ]. Qed.

Lemma parse_value_skip f s s' : skip_ws s = skip_ws s' -> parse_value f s = parse_value f s'.
Proof. intros H. destruct f; [ reflexivity | ]. rewrite !parse_value_S, H. reflexivity. Qed.

Lemma parse_elems_skip f acc s s' : skip_ws s = skip_ws s' -> parse_elems f acc s = parse_elems f acc s'.
Proof.
  intros H. destruct f; [ reflexivity | ]. rewrite !parse_elems_S, (parse_value_skip f s s' H). reflexivity.
Qed.

Lemma parse_members_skip f acc s s' : skip_ws s = skip_ws s' -> parse_members f acc s = parse_members f acc s'.
Proof. intros H. destruct f; [ reflexivity | ]. rewrite !parse_members_S, H. reflexivity. Qed.

(* first byte of an encoded value *)
Definition vstart (c : byte) : bool :=
  numstart c || beqb c x5b || beqb c x7b || beqb c x22 || beqb c x6e || beqb c x74 || beqb c x66.

Lemma vstart_spec c : vstart c = true -> is_ws c = false /\ beqb c x5d = false /\ beqb c x7d = false.
Proof.
  intros H. destruct c; try (vm_compute in H; discriminate H); (split; [ reflexivity | split; reflexivity ]).
Qed.

Lemma pr_head m d v k : exists c t, pr m d v k = c :: t /\ vstart c = true.
Proof.
  destruct v as [ | [|] | z | s | [|x l] | [|[key x] l] ]; cbn [pr enc_string];
    try (eexists; eexists; split; reflexivity).
  destruct (enc_num_head z) as (c & t & E & Hc). rewrite E. cbn [app].
  exists c, (t ++ k). split; [ reflexivity | ]. unfold vstart. rewrite Hc. reflexivity.
Qed.

Lemma skip_ws_pr m d v k : skip_ws (pr m d v k) = pr m d v k.
Proof.
  destruct (pr_head m d v k) as (c & t & E & Hc). rewrite E.
  destruct (vstart_spec c Hc) as (Hw & _). cbn [skip_ws]. rewrite Hw. reflexivity.
Qed.

Lemma stop_nl m d c k : stop [c] = true -> stop (nl m d (c :: k)) = true.
Proof. destruct m; intros H; [ reflexivity | exact H ]. Qed.

Lemma stop_pr_elems p m d r k : stop (pr_elems p m d r k) = true.
Proof. destruct r; cbn [pr_elems]; [ apply stop_nl | ]; reflexivity. Qed.

Lemma stop_pr_members p m d r k : stop (pr_members p m d r k) = true.
Proof. destruct r as [|[key x] r]; cbn [pr_members]; [ apply stop_nl | ]; reflexivity. Qed.

(* the prefix-parsing statement, for an arbitrary continuation [rest] that cannot extend a number *)
Definition RT (v : json) : Prop :=
  forall m d f rest,
    wf_json v = true -> size v <= f -> stop rest = true ->
    parse_value f (pr m d v rest) = Some (v, rest).

Lemma elems_rt r :
  Forall RT r ->
  forall x, RT x ->
  forall m d f acc rest,
    wf_json x = true -> forallb wf_json r = true ->
    S (size x) + list_sum (map (fun y => S (size y)) r) <= f ->
    parse_elems f acc (pr m (S d) x (pr_elems (pr m (S d)) m d r rest)) = Some (JArr (rev acc ++ x :: r), rest).
Proof.
  intros HF. induction HF as [|y r Hy HF IH]; intros x Hx m d f acc rest Wx Wr Hf;
    (destruct f as [|f]; [ cbn in Hf; lia | ]); rewrite parse_elems_S.
  - rewrite Hx; [ | exact Wx | cbn in Hf; lia | apply stop_pr_elems ].
    cbn [pr_elems]. rewrite skip_ws_nl. cbn [skip_ws is_ws].
    change (beqb x5d x2c) with false. change (beqb x5d x5d) with true. cbv iota.
    rewrite rev_append_rev. reflexivity.
  - cbn [map] in Hf. rewrite list_sum_cons in Hf. cbn [forallb] in Wr. apply andb_true_iff in Wr. destruct Wr as [Wy Wr].
    rewrite Hx; [ | exact Wx | lia | apply stop_pr_elems ].
    cbn [pr_elems skip_ws is_ws]. change (beqb x2c x2c) with true. cbv iota.
    rewrite (parse_elems_skip f (x :: acc) _ _ (skip_ws_nl m (S d) _)).
    rewrite IH; [ | exact Hy | exact Wy | exact Wr | lia ].
    cbn [rev]. rewrite <- app_assoc. reflexivity.
Qed.

Lemma parse_value_colon f m s : parse_value f (match colon m s with _ :: t => t | [] => [] end) = parse_value f s.
Proof. destruct m; [ | reflexivity ]. apply parse_value_skip. reflexivity. Qed.

Lemma members_rt r :
  Forall (fun kv => RT (snd kv)) r ->
  forall key x, RT x ->
  forall m d f acc rest,
    valid_utf8b key = true -> wf_json x = true ->
    forallb (fun kv => valid_utf8b (fst kv) && wf_json (snd kv)) r = true ->
    S (size x) + list_sum (map (fun kv => S (size (snd kv))) r) <= f ->
    parse_members f acc (enc_string key (colon m (pr m (S d) x (pr_members (pr m (S d)) m d r rest))))
    = Some (JObj (rev acc ++ (key, x) :: r), rest).
Proof.
  intros HF. induction HF as [|[key' y] r Hy HF IH]; intros key x Hx m d f acc rest Wk Wx Wr Hf;
    (destruct f as [|f]; [ cbn in Hf; lia | ]); rewrite parse_members_S;
    unfold enc_string; cbn [skip_ws is_ws]; change (beqb x22 x22) with true; cbv iota;
    rewrite dec_enc_string by exact Wk.
  - assert (C : forall s, skip_ws (colon m s) = x3a :: match colon m s with _ :: t => t | [] => [] end)
      by (intros s; destruct m; reflexivity).
    rewrite C. change (beqb x3a x3a) with true. cbv iota. rewrite parse_value_colon.
    rewrite Hx; [ | exact Wx | cbn in Hf; lia | apply stop_pr_members ].
    cbn [pr_members]. rewrite skip_ws_nl. cbn [skip_ws is_ws].
    change (beqb x7d x2c) with false. change (beqb x7d x7d) with true. cbv iota.
    rewrite rev_append_rev. reflexivity.
  - assert (C : forall s, skip_ws (colon m s) = x3a :: match colon m s with _ :: t => t | [] => [] end)
      by (intros s; destruct m; reflexivity).
    rewrite C. change (beqb x3a x3a) with true. cbv iota. rewrite parse_value_colon.
    cbn [map snd] in Hf. rewrite list_sum_cons in Hf. cbn [forallb fst snd] in Wr.
    apply andb_true_iff in Wr. destruct Wr as [Wy Wr]. apply andb_true_iff in Wy. destruct Wy as [Wk' Wy].
    rewrite Hx; [ | exact Wx | lia | apply stop_pr_members ].
    cbn [pr_members skip_ws is_ws]. change (beqb x2c x2c) with true. cbv iota.
    rewrite (parse_members_skip f ((key, x) :: acc) _ _ (skip_ws_nl m (S d) _)).
    cbn [snd] in Hy.
    rewrite (IH key' y Hy m d f ((key, x) :: acc) rest Wk' Wy Wr); [ | lia ].
    cbn [rev]. rewrite <- app_assoc. reflexivity.
Qed.

Lemma parse_value_rt : forall v, RT v.
Proof.
  apply json_ind'.
  - intros m d f rest _ Hf _. destruct f as [|f]; [ cbn in Hf; lia | ]. reflexivity.
  - intros b m d f rest _ Hf _. destruct f as [|f]; [ cbn in Hf; lia | ]. destruct b; reflexivity.
  - intros z m d f rest _ Hf Hs. destruct f as [|f]; [ cbn in Hf; lia | ].
    cbn [pr]. apply parse_value_num. exact Hs.
  - intros s m d f rest W Hf _. destruct f as [|f]; [ cbn in Hf; lia | ].
    cbn [pr wf_json] in *. unfold enc_string. rewrite parse_value_S. cbn [skip_ws is_ws].
    change (beqb x22 x5b) with false. change (beqb x22 x7b) with false. change (beqb x22 x22) with true.
    cbv iota. rewrite dec_enc_string by exact W. reflexivity.
  - intros l HF m d f rest W Hf _. destruct f as [|f]; [ cbn in Hf; lia | ].
    destruct l as [|x r]; [ reflexivity | ].
    cbn [pr]. rewrite parse_value_S. cbn [skip_ws is_ws]. change (beqb x5b x5b) with true. cbv iota.
    rewrite skip_ws_nl, skip_ws_pr.
    destruct (pr_head m (S d) x (pr_elems (pr m (S d)) m d r rest)) as (c & t & E & Hc).
    destruct (vstart_spec c Hc) as (_ & H5d & _).
    rewrite E. rewrite H5d. rewrite <- E.
    inversion HF as [|x' r' Hx HF']; subst x' r'.
    cbn [wf_json forallb] in W. apply andb_true_iff in W. destruct W as [Wx Wr].
    cbn [size map] in Hf. rewrite list_sum_cons in Hf.
    rewrite (elems_rt r HF' x Hx m d f [] rest Wx Wr); [ reflexivity | lia ].
  - intros l HF m d f rest W Hf _. destruct f as [|f]; [ cbn in Hf; lia | ].
    destruct l as [|[key x] r]; [ reflexivity | ].
    cbn [pr]. rewrite parse_value_S. cbn [skip_ws is_ws].
    change (beqb x7b x5b) with false. change (beqb x7b x7b) with true. cbv iota.
    rewrite skip_ws_nl. unfold enc_string at 1. cbn [skip_ws is_ws].
    change (beqb x22 x7d) with false. cbv iota.
    inversion HF as [|x' r' Hx HF']; subst x' r'. cbn [snd] in Hx.
    cbn [wf_json forallb fst snd] in W. apply andb_true_iff in W. destruct W as [Wx Wr].
    apply andb_true_iff in Wx. destruct Wx as [Wk Wx].
    cbn [size map snd] in Hf. rewrite list_sum_cons in Hf.
    change (x22 :: enc_str key (x22 :: colon m (pr m (S d) x (pr_members (pr m (S d)) m d r rest))))
      with (enc_string key (colon m (pr m (S d) x (pr_members (pr m (S d)) m d r rest)))).
    rewrite (members_rt r HF' key x Hx m d f [] rest Wk Wx Wr); [ reflexivity | lia ].
Qed.

(* ------------------------------------------------------------------ *)
(* Fuel: the length of the text bounds [size]                           *)
(* ------------------------------------------------------------------ *)

Lemma esc_ascii_len b k : length k < length (esc_ascii b k).
Proof. destruct b; cbn; lia. Qed.

Lemma enc_str_len s : valid_utf8b s = true -> forall k, length k <= length (enc_str s k).
Proof.
  intros Hv. pattern s. revert s Hv. apply valid_utf8b_ind.
  - intros k. cbn [enc_str]. lia.
  - intros b r Ha _ IH k. rewrite enc_str_ascii by exact Ha.
    pose proof (esc_ascii_len b (enc_str r k)). specialize (IH k). lia.
  - intros b0 b1 r Ha Hw _ IH k. rewrite enc_str_2 by assumption. specialize (IH k). cbn [length]. lia.
  - intros b0 b1 b2 r Ha Hw _ IH k. rewrite enc_str_3 by assumption. specialize (IH k).
    destruct (beqb b0 xe2 && beqb b1 x80 && beqb b2 xa8);
      [ | destruct (beqb b0 xe2 && beqb b1 x80 && beqb b2 xa9) ]; cbn [length esc_202x]; lia.
  - intros b0 b1 b2 b3 r Ha Hw _ IH k. rewrite enc_str_4 by assumption. specialize (IH k). cbn [length]. lia.
Qed.

Lemma enc_string_len s k : valid_utf8b s = true -> 2 + length k <= length (enc_string s k).
Proof.
  intros Hv. unfold enc_string. pose proof (enc_str_len s Hv (x22 :: k)) as H. cbn [length] in *. lia.
Qed.

Lemma spaces_len d k : length k <= length (spaces d k).
Proof. induction d as [|d IH]; cbn [spaces length]; lia. Qed.

Lemma nl_len m d k : length k <= length (nl m d k).
Proof. destruct m; cbn [nl length]; [ pose proof (spaces_len d k); lia | lia ]. Qed.

Lemma colon_len m k : length k < length (colon m k).
Proof. destruct m; cbn [colon length]; lia. Qed.

Definition LEN (v : json) : Prop :=
  wf_json v = true -> forall m d k, size v + length k <= length (pr m d v k).

Lemma elems_len r :
  Forall LEN r -> forallb wf_json r = true ->
  forall m d k,
    list_sum (map (fun y => S (size y)) r) + 1 + length k <= length (pr_elems (pr m (S d)) m d r k).
Proof.
  intros HF. induction HF as [|y r Hy HF IH]; intros W m d k.
  - cbn [map pr_elems]. pose proof (nl_len m d (x5d :: k)) as H. cbn [length] in H. cbn. lia.
  - cbn [forallb] in W. apply andb_true_iff in W. destruct W as [Wy Wr].
    cbn [map pr_elems]. rewrite list_sum_cons. cbn [length].
    pose proof (nl_len m (S d) (pr m (S d) y (pr_elems (pr m (S d)) m d r k))) as H1.
    pose proof (Hy Wy m (S d) (pr_elems (pr m (S d)) m d r k)) as H2.
    specialize (IH Wr m d k). lia.
Qed.

Lemma members_len r :
  Forall (fun kv => LEN (snd kv)) r ->
  forallb (fun kv => valid_utf8b (fst kv) && wf_json (snd kv)) r = true ->
  forall m d k,
    list_sum (map (fun kv => S (size (snd kv))) r) + 1 + length k
    <= length (pr_members (pr m (S d)) m d r k).
Proof.
  intros HF. induction HF as [|[key y] r Hy HF IH]; intros W m d k.
  - cbn [map pr_members]. pose proof (nl_len m d (x7d :: k)) as H. cbn [length] in H. cbn. lia.
  - cbn [forallb fst snd] in W. apply andb_true_iff in W. destruct W as [Wy Wr].
    apply andb_true_iff in Wy. destruct Wy as [Wk Wy]. cbn [snd] in Hy.
    cbn [map pr_members snd]. rewrite list_sum_cons. cbn [length].
    specialize (IH Wr m d k).
    set (K := pr_members (pr m (S d)) m d r k) in *.
    pose proof (nl_len m (S d) (enc_string key (colon m (pr m (S d) y K)))) as H1.
    pose proof (enc_string_len key (colon m (pr m (S d) y K)) Wk) as H2.
    pose proof (colon_len m (pr m (S d) y K)) as H3.
    pose proof (Hy Wy m (S d) K) as H4. lia.
Qed.

Lemma size_le_len : forall v, LEN v.
Proof.
  apply json_ind'.
  - intros _ m d k. cbn. lia.
  - intros b _ m d k. destruct b; cbn; lia.
  - intros z _ m d k. cbn [pr size]. rewrite app_length.
    destruct (enc_num_head z) as (c & t & E & _). rewrite E. cbn [length]. lia.
  - intros s W m d k. cbn [pr size wf_json] in *. pose proof (enc_string_len s k W). lia.
  - intros l HF W m d k. destruct l as [|x r]; [ cbn; lia | ].
    inversion HF as [|x' r' Hx HF']; subst x' r'.
    cbn [wf_json forallb] in W. apply andb_true_iff in W. destruct W as [Wx Wr].
    cbn [pr size map]. rewrite list_sum_cons. cbn [length].
    set (K := pr_elems (pr m (S d)) m d r k).
    pose proof (nl_len m (S d) (pr m (S d) x K)) as H1.
    pose proof (Hx Wx m (S d) K) as H2.
    pose proof (elems_len r HF' Wr m d k) as H3. fold K in H3. lia.
  - intros l HF W m d k. destruct l as [|[key x] r]; [ cbn; lia | ].
    inversion HF as [|x' r' Hx HF']; subst x' r'. cbn [snd] in Hx.
    cbn [wf_json forallb fst snd] in W. apply andb_true_iff in W. destruct W as [Wx Wr].
    apply andb_true_iff in Wx. destruct Wx as [Wk Wx].
    cbn [pr size map snd]. rewrite list_sum_cons. cbn [length].
    set (K := pr_members (pr m (S d)) m d r k).
    pose proof (nl_len m (S d) (enc_string key (colon m (pr m (S d) x K)))) as H1.
    pose proof (enc_string_len key (colon m (pr m (S d) x K)) Wk) as H2.
    pose proof (colon_len m (pr m (S d) x K)) as H3.
    pose proof (Hx Wx m (S d) K) as H4.
    pose proof (members_len r HF' Wr m d k) as H5. fold K in H5. lia.
Qed.

(* ------------------------------------------------------------------ *)
(* Main theorems                                                        *)
(* ------------------------------------------------------------------ *)

Lemma decode_pr m v : wf_json v = true -> decode (pr m 0 v []) = Some v.
Proof.
  intros W. unfold decode.
  rewrite (parse_value_rt v m 0 _ [] W); [ reflexivity | | reflexivity ].
  pose proof (size_le_len v W m 0 []). lia.
Qed.

(* Theorem 1 *)
Theorem decode_encode : forall v, wf_json v = true -> decode (encode v) = Some v.
Proof. intros v W. apply decode_pr. exact W. Qed.
Print Assumptions decode_encode.

(* Theorem 2 *)
Theorem decode_encode_indent : forall v, wf_json v = true -> decode (encode_indent v) = Some v.
Proof. intros v W. apply decode_pr. exact W. Qed.
Print Assumptions decode_encode_indent.

(* the general prefix form: an encoded value followed by anything that cannot extend it *)
Theorem parse_value_encode :
  forall v m d f rest,
    wf_json v = true -> length (pr m d v rest) <= f -> stop rest = true ->
    parse_value f (pr m d v rest) = Some (v, rest).
Proof.
  intros v m d f rest W Hf Hs. apply parse_value_rt; [ exact W | | exact Hs ].
  pose proof (size_le_len v W m d rest). lia.
Qed.
Print Assumptions parse_value_encode.

Corollary encode_injective v1 v2 :
  wf_json v1 = true -> wf_json v2 = true -> encode v1 = encode v2 -> v1 = v2.
Proof.
  intros W1 W2 E. pose proof (decode_encode v1 W1) as D1. pose proof (decode_encode v2 W2) as D2.
  rewrite E in D1. rewrite D1 in D2. injection D2 as D2. exact D2.
Qed.
Print Assumptions encode_injective.

(* ------------------------------------------------------------------ *)
(* Fuel sufficiency on arbitrary input: if any amount of fuel makes the  *)
(* parser succeed, the fuel used by [decode] does                        *)
(* ------------------------------------------------------------------ *)

Ltac split_match H :=
  repeat match type of H with
         | context [match ?x with _ => _ end] =>
             first [ is_var x; destruct x | let E := fresh "E" in destruct x eqn:E ]
         end;
  try discriminate H.

Lemma skip_ws_len s : length (skip_ws s) <= length s.
Proof. induction s as [|b r IH]; cbn [skip_ws length]; [ lia | destruct (is_ws b); cbn [length]; lia ]. Qed.

Lemma dec_str_len n : forall s acc str rest,
  length s <= n -> dec_str acc s = Some (str, rest) -> length rest <= length s.
Proof.
  induction n as [|n IH]; intros s acc str rest Hn H.
  - destruct s; [ discriminate H | cbn in Hn; lia ].
  - destruct s as [|b r]; [ discriminate H | ].
    cbn [dec_str] in H. cbn [length] in Hn.
    split_match H;
      try (injection H as H1 H2; subst; cbn [length]; lia);
      (apply IH in H; [ cbn [length] in *; lia | cbn [length] in *; lia ]).
Qed.

Lemma read_uint_len s : forall u rest, read_uint s = (u, rest) -> length rest <= length s.
Proof.
  induction s as [|b r IH]; intros u rest H; cbn [read_uint] in H.
  - injection H as _ H. subst. lia.
  - destruct (digit_ctor b).
    + destruct (read_uint r) as [u' rest'] eqn:E. injection H as _ H. subst.
      specialize (IH _ _ eq_refl). cbn [length]. lia.
    + injection H as _ H. subst. lia.
Qed.

Lemma read_nat_len s n rest : read_nat s = Some (n, rest) -> length rest <= length s.
Proof.
  unfold read_nat. destruct (read_uint s) as [u rest'] eqn:E. intros H.
  apply read_uint_len in E. split_match H. injection H as _ H. subst. exact E.
Qed.

Lemma parse_number_len s z rest : parse_number s = Some (z, rest) -> length rest <= length s.
Proof.
  unfold parse_number. intros H. destruct s as [|c r]; [ discriminate H | ].
  destruct (beqb c x2d).
  - destruct (read_nat r) as [[n rest']|] eqn:E; [ | discriminate H ].
    injection H as _ H. subst. apply read_nat_len in E. cbn [length]. lia.
  - destruct (read_nat (c :: r)) as [[n rest']|] eqn:E; [ | discriminate H ].
    injection H as _ H. subst. apply read_nat_len in E. exact E.
Qed.

Definition FV (f : nat) : Prop :=
  forall s v rest, parse_value f s = Some (v, rest) ->
    length rest <= length s /\
    forall f', length s - length rest < f' -> parse_value f' s = Some (v, rest).
Definition FE (f : nat) : Prop :=
  forall acc s v rest, parse_elems f acc s = Some (v, rest) ->
    length rest < length s /\
    forall f', length s - length rest < f' -> parse_elems f' acc s = Some (v, rest).
Definition FM (f : nat) : Prop :=
  forall acc s v rest, parse_members f acc s = Some (v, rest) ->
    length rest < length s /\
    forall f', length s - length rest < f' -> parse_members f' acc s = Some (v, rest).

Lemma fuel_value f : FE f -> FM f -> FV (S f).
Proof.
  intros HE HM s v rest H. rewrite parse_value_S in H.
  pose proof (skip_ws_len s) as Ls.
  destruct (skip_ws s) as [|c r] eqn:Es; [ discriminate H | ]. cbn [length] in Ls.
  destruct (beqb c x5b) eqn:B1.
  { pose proof (skip_ws_len r) as Lr.
    destruct (skip_ws r) as [|c2 r2] eqn:Er; [ discriminate H | ]. cbn [length] in Lr.
    destruct (beqb c2 x5d) eqn:B2.
    - injection H as H1 H2. subst. split; [ lia | ]. intros f' Hf'.
      destruct f' as [|f']; [ lia | ]. rewrite parse_value_S, Es, B1, Er, B2. reflexivity.
    - apply HE in H. destruct H as [L H]. cbn [length] in L. split; [ lia | ]. intros f' Hf'.
      destruct f' as [|f']; [ lia | ]. rewrite parse_value_S, Es, B1, Er, B2.
      apply H. cbn [length]. lia. }
  destruct (beqb c x7b) eqn:B3.
  { pose proof (skip_ws_len r) as Lr.
    destruct (skip_ws r) as [|c2 r2] eqn:Er; [ discriminate H | ]. cbn [length] in Lr.
    destruct (beqb c2 x7d) eqn:B2.
    - injection H as H1 H2. subst. split; [ lia | ]. intros f' Hf'.
      destruct f' as [|f']; [ lia | ]. rewrite parse_value_S, Es, B1, B3, Er, B2. reflexivity.
    - apply HM in H. destruct H as [L H]. cbn [length] in L. split; [ lia | ]. intros f' Hf'.
      destruct f' as [|f']; [ lia | ]. rewrite parse_value_S, Es, B1, B3, Er, B2.
      apply H. cbn [length]. lia. }
  (* leaves: the result does not depend on the fuel *)
  assert (G : length rest <= length r + 1).
  { destruct (beqb c x22).
    - destruct (dec_str [] r) as [[str rest']|] eqn:E; [ | discriminate H ].
      injection H as _ H. subst. apply (dec_str_len _ _ _ _ _ (le_n _)) in E. lia.
    - destruct (beqb c x6e).
      { split_match H. injection H as _ H. subst.
        repeat match goal with |- context [match ?x with _ => _ end] => destruct x end; cbn [length]; lia. }
      destruct (beqb c x74).
      { split_match H. injection H as _ H. subst.
        repeat match goal with |- context [match ?x with _ => _ end] => destruct x end; cbn [length]; lia. }
      destruct (beqb c x66).
      { split_match H. injection H as _ H. subst.
        repeat match goal with |- context [match ?x with _ => _ end] => destruct x end; cbn [length]; lia. }
      destruct (parse_number (c :: r)) as [[z rest']|] eqn:E; [ | discriminate H ].
      injection H as _ H. subst. apply parse_number_len in E. cbn [length] in E. lia. }
  split; [ lia | ]. intros f' Hf'. destruct f' as [|f']; [ lia | ].
  rewrite parse_value_S, Es, B1, B3. exact H.
Qed.

Lemma fuel_elems f : FV f -> FE f -> FE (S f).
Proof.
  intros HV HE acc s v rest H. rewrite parse_elems_S in H.
  destruct (parse_value f s) as [[v1 rest1]|] eqn:E1; [ | discriminate H ].
  apply HV in E1. destruct E1 as [L1 E1].
  pose proof (skip_ws_len rest1) as Ls.
  destruct (skip_ws rest1) as [|c r] eqn:Es; [ discriminate H | ]. cbn [length] in Ls.
  destruct (beqb c x2c) eqn:B1.
  - apply HE in H. destruct H as [L H]. split; [ lia | ]. intros f' Hf'.
    destruct f' as [|f']; [ lia | ]. rewrite parse_elems_S.
    rewrite E1 by lia. rewrite Es, B1. apply H. lia.
  - destruct (beqb c x5d) eqn:B2; [ | discriminate H ].
    injection H as H1 H2. subst. split; [ lia | ]. intros f' Hf'.
    destruct f' as [|f']; [ lia | ]. rewrite parse_elems_S.
    rewrite E1 by lia. rewrite Es, B1, B2. reflexivity.
Qed.

Lemma fuel_members f : FV f -> FM f -> FM (S f).
Proof.
  intros HV HM acc s v rest H. rewrite parse_members_S in H.
  pose proof (skip_ws_len s) as Ls.
  destruct (skip_ws s) as [|q r0] eqn:Es; [ discriminate H | ]. cbn [length] in Ls.
  destruct (beqb q x22) eqn:B0; [ | discriminate H ].
  destruct (dec_str [] r0) as [[key rest0]|] eqn:Ek; [ | discriminate H ].
  pose proof (dec_str_len _ _ _ _ _ (le_n _) Ek) as Lk.
  pose proof (skip_ws_len rest0) as L0.
  destruct (skip_ws rest0) as [|c0 r1] eqn:E0; [ discriminate H | ]. cbn [length] in L0.
  destruct (beqb c0 x3a) eqn:B1; [ | discriminate H ].
  destruct (parse_value f r1) as [[v1 rest1]|] eqn:E1; [ | discriminate H ].
  apply HV in E1. destruct E1 as [L1 E1].
  pose proof (skip_ws_len rest1) as L2.
  destruct (skip_ws rest1) as [|c r] eqn:E2; [ discriminate H | ]. cbn [length] in L2.
  destruct (beqb c x2c) eqn:B2.
  - apply HM in H. destruct H as [L H]. split; [ lia | ]. intros f' Hf'.
    destruct f' as [|f']; [ lia | ]. rewrite parse_members_S, Es, B0, Ek, E0, B1.
    rewrite E1 by lia. rewrite E2, B2. apply H. lia.
  - destruct (beqb c x7d) eqn:B3; [ | discriminate H ].
    injection H as H1 H2. subst. split; [ lia | ]. intros f' Hf'.
    destruct f' as [|f']; [ lia | ]. rewrite parse_members_S, Es, B0, Ek, E0, B1.
    rewrite E1 by lia. rewrite E2, B2, B3. reflexivity.
Qed.

Lemma fuel_all f : FV f /\ FE f /\ FM f.
Proof.
  induction f as [|f (HV & HE & HM)].
  - repeat split; intros; discriminate.
  - split; [ apply fuel_value; assumption | ].
    split; [ apply fuel_elems; assumption | apply fuel_members; assumption ].
Qed.

(* the fuel [decode] supplies is enough whenever any fuel is *)
Theorem parse_value_fuel f s v rest :
  parse_value f s = Some (v, rest) -> parse_value (S (length s)) s = Some (v, rest).
Proof.
  intros H. destruct (fuel_all f) as (HV & _ & _). apply HV in H. destruct H as [L H]. apply H. lia.
Qed.
Print Assumptions parse_value_fuel.

Corollary decode_fuel f s v rest :
  parse_value f s = Some (v, rest) -> skip_ws rest = [] -> decode s = Some v.
Proof. intros H E. unfold decode. rewrite (parse_value_fuel f s v rest H), E. reflexivity. Qed.
Print Assumptions decode_fuel.
