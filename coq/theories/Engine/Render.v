(* Render.v -- what cmd.processQuery returns for an answer: the JSON document (--output json) and the text
   report.  Definitions only (facts in RenderFacts.v); compared byte for byte with the real processQuery.

   Go code being modelled (cmd/query.go, processQuery, after graph.QueryEntities):

     json:  results := map[string]interface{}{"result_set": [...], "output": formattedOutput}
            one {"file","line","code"} object per entity of every reported combination, in order;
            json.Marshal sorts the keys of a map: "output" < "result_set", "code" < "file" < "line"
     text:  for i, entity := range entities { for _, entityObject := range entity {
              "\tFile: %s, Line: %s \n"  ++  "\tResult: " ++ (FormatType(v) ++ " | ")* ++ "\n" ++ "\n"
              for j, line := range strings.Split(CodeSnippet, "\n"):  "\t\t" ++ "%4d"(LineNumber+j) ++ " | " ++ line ++ "\n"
              "\n" } }
            colours are off (fatih/color disables them when stdout is not a terminal). *)
From CPF Require Export Base.Json Engine.Query Engine.Process.
Open Scope bs_scope.

(* ---------- values ---------- *)
Fixpoint json_of_val (v : val) : option json :=
  match v with
  | VS s => Some (JStr s)
  | VI z => Some (JNum z)
  | VB b => Some (JBool b)
  | VNil => Some JNull
  | VL l => option_map JArr (all_some (List.map json_of_val l))
  | _ => None
  end.

(* graph.FormatType on the values of the fragment: string as is, int %d, everything else %v *)
Fixpoint format_val (v : val) : option bytes :=
  match v with
  | VS s => Some s
  | VI z => Some (enc_num z)
  | VB true => Some "true"
  | VB false => Some "false"
  | VNil => Some "<nil>"
  | VL l => option_map fmt_strs (all_some (List.map format_val l))
  | _ => None
  end.

(* ---------- JSON ---------- *)
Definition json_entity (e : node) : json :=
  JObj [("code", JStr (n_snippet e)); ("file", JStr (n_file e)); ("line", JNum (Z.of_N (n_line e)))].

Definition json_answer (rs : list (list node)) (rows : list (list json)) : json :=
  JObj [("output", JArr (List.map JArr rows)); ("result_set", JArr (List.map json_entity (concat rs)))].

Definition json_rows (rows : list (list (option val))) : option (list (list json)) :=
  all_some (List.map (fun r => all_some (List.map (fun ov => match ov with Some v => json_of_val v | None => None end) r)) rows).

Definition render_json (rs : list (list node)) (rows : list (list (option val))) : option bytes :=
  option_map (fun jr => encode (json_answer rs jr)) (json_rows rows).

(* ---------- text ---------- *)
Definition pad4 (n : N) : bytes := let d := dec n in repeat x20 (4 - length d) ++ d.

Definition numbered (n : N) (line : bytes) : bytes := [x09; x09] ++ pad4 n ++ " | " ++ line ++ [Bytes.nl].

Fixpoint numbered_from (n : N) (lines : list bytes) : list bytes :=
  match lines with
  | [] => []
  | l :: r => numbered n l :: numbered_from (n + 1) r
  end.

Definition numbered_lines (e : node) : list bytes := numbered_from (n_line e) (split_on Bytes.nl (n_snippet e)).

Definition header (e : node) : bytes := [x09] ++ "File: " ++ n_file e ++ ", Line: " ++ dec (n_line e) ++ " " ++ [Bytes.nl].

Definition row_text (row : list bytes) : bytes := concat (List.map (fun v => v ++ " | ") row).

Definition text_entity (row : list bytes) (e : node) : bytes :=
  header e ++ [x09] ++ "Result: " ++ row_text row ++ [Bytes.nl] ++ [Bytes.nl] ++ concat (numbered_lines e) ++ [Bytes.nl].

Definition text_tuple (t : list node) (row : list bytes) : bytes := concat (List.map (text_entity row) t).

Definition text_rows (rows : list (list (option val))) : option (list (list bytes)) :=
  all_some (List.map (fun r => all_some (List.map (fun ov => match ov with Some v => format_val v | None => None end) r)) rows).

Fixpoint text_answer (rs : list (list node)) (rows : list (list bytes)) : bytes :=
  match rs, rows with
  | t :: rs', r :: rows' => text_tuple t r ++ text_answer rs' rows'
  | _, _ => []
  end.

Definition render_text (rs : list (list node)) (rows : list (list (option val))) : option bytes :=
  option_map (text_answer rs) (text_rows rows).

(* the locations a reader of either output sees, in order *)
Definition location (e : node) : bytes * N := (n_file e, n_line e).
Definition locations (rs : list (list node)) : list (bytes * N) := List.map location (concat rs).

(* reading the locations back from the decoded JSON document *)
Definition json_field (k : bytes) (v : json) : option json :=
  match v with
  | JObj l => match List.find (fun kv => bytes_eqb (fst kv) k) l with Some kv => Some (snd kv) | None => None end
  | _ => None
  end.

Definition json_location (v : json) : option (bytes * N) :=
  match json_field "file" v, json_field "line" v with
  | Some (JStr f), Some (JNum z) => Some (f, Z.to_N z)
  | _, _ => None
  end.

Definition json_locations (doc : json) : option (list (bytes * N)) :=
  match json_field "result_set" doc with
  | Some (JArr l) => all_some (List.map json_location l)
  | _ => None
  end.
