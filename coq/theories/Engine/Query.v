(* Model of the query pipeline after parsing (cmd.processQuery -> parser.ExpandedCondition ->
   graph.QueryEntities) and its specification.  Definitions only.

   Impl side (mirrors the code):
     emit      : the text ExpandedCondition builds from the parse tree (tokens joined by spaces,
                 predicate calls expanded, formals replaced)                      [compared byte for byte]
     inline    : the same expansion on the AST; what expr-lang is assumed to read out of that text
     results   : cartesian product of the entities of each FROM kind, filtered by the condition
     rows      : one value per SELECT item
   Spec side (the meaning of the language):
     seval     : conditions evaluated with predicate calls interpreted by binding the formal
                 parameters to what the arguments denote: the entity of an alias, or the value
                 of a literal (call-by-value)
     spec_results *)
From CPF Require Export Engine.Eval.
From CPF Require Import gen.Tables.
Open Scope bs_scope.

(* predicates being expanded are tracked by "name/arity"; a recursive call is never expanded.  The
   fuel only serves Coq's termination check: nesting never exceeds the number of declarations. *)
Definition fuel_of (decls : list pred_decl) : nat := S (length decls).
Definition call_key (f : bytes) (arity : nat) : bytes := f ++ "/" ++ dec (N.of_nat arity).
Definition is_active (key : bytes) (active : list bytes) : bool := existsb (bytes_eqb key) active.

(* first declaration with this name and arity (declaration order) *)
Definition find_decl (decls : list pred_decl) (f : bytes) (arity : nat) : option pred_decl :=
  find (fun d => bytes_eqb (pd_name d) f && Nat.eqb (length (pd_params d)) arity) decls.

(* ---------- AST-level expansion ---------- *)
Definition subst := list (bytes * xexpr).

Definition head_of (sub : subst) (x : bytes) : xexpr :=
  match lookup x sub with Some a => a | None => XVar x end.

Fixpoint inline (d : nat) (decls : list pred_decl) (active : list bytes) : subst -> expr -> xexpr :=
  fix go (sub : subst) (e : expr) {struct e} : xexpr :=
    match e with
    | EVal v => XVal v
    | EList vs => XList vs
    | EChain x ms =>
        (fix chain (ms : list emov) (acc : xexpr) {struct ms} : xexpr :=
           match ms with
           | [] => acc
           | MVar f :: r => chain r (XMember acc f)
           | MCall f args :: r => chain r (XCall (XMember acc f) (List.map (go sub) args))
           end) ms (head_of sub x)
    | ECall f args =>
        let args' := List.map (go sub) args in
        let key := call_key f (length args) in
        match d with
        | S d' =>
            if is_active key active then XCall (head_of sub f) args' else
            match find_decl decls f (length args) with
            | Some decl =>
                XParen (inline d' decls (key :: active)
                          (combine (List.map snd (pd_params decl)) (List.map XParen args')) (pd_body decl))
            | None => XCall (head_of sub f) args'
            end
        | O => XCall (head_of sub f) args'
        end
    | EParen a => XParen (go sub a)
    | EUn o a => XUn o (go sub a)
    | EBin o a b => XBin o (go sub a) (go sub b)
    end.

Definition condition (q : query) : option xexpr :=
  match q_where q with
  | Some e => Some (inline (fuel_of (q_preds q)) (q_preds q) [] [] e)
  | None => None
  end.

(* ---------- text-level expansion: what ExpandedCondition returns ---------- *)
Definition unop_text (o : unop) : bytes := match o with UNot => "!" | UNeg => "-" end.
Definition binop_text (o : binop) : bytes :=
  match o with
  | BOr => "||" | BAnd => "&&" | BEq => "==" | BNe => "!=" | BLt => "<" | BGt => ">" | BLe => "<="
  | BGe => ">=" | BIn => " in " | BAdd => "+" | BSub => "-" | BMul => "*" | BDiv => "/"
  end.
(* a line feed / carriage return inside a STRING token is handed to the evaluator as the escape
   backslash-n / backslash-r *)
Definition escape_lf (t : bytes) : bytes :=
  flat_map (fun c => if beqb c x0a then [x5c; x6e] else if beqb c x0d then [x5c; x72] else [c]) t.
Definition value_text (v : value) : bytes := match v with VStr t => escape_lf t | VNum t => t end.

Fixpoint sep_pieces (sep : bytes) (l : list (list bytes)) : list bytes :=
  match l with
  | [] => []
  | [x] => x
  | x :: r => x ++ sep :: sep_pieces sep r
  end.

Definition tsubst := list (bytes * bytes).   (* formal -> "( <argument text> )" *)
Definition head_text (sub : tsubst) (x : bytes) : bytes :=
  match lookup x sub with Some t => t | None => x end.

Fixpoint emit (d : nat) (decls : list pred_decl) (active : list bytes) : tsubst -> expr -> list bytes :=
  fix go (sub : tsubst) (e : expr) {struct e} : list bytes :=
    match e with
    | EVal v => [value_text v]
    | EList vs => "[" :: sep_pieces "," (List.map (fun v => [value_text v]) vs) ++ ["]"]
    | EChain x ms =>
        head_text sub x ::
        (fix chain (ms : list emov) {struct ms} : list bytes :=
           match ms with
           | [] => []
           | MVar f :: r => "." :: f :: chain r
           | MCall f args :: r => "." :: f :: "(" :: sep_pieces "," (List.map (go sub) args) ++ ")" :: chain r
           end) ms
    | ECall f args =>
        let expanded :=
          match d with
          | S d' =>
              if is_active (call_key f (length args)) active then None else
              match find_decl decls f (length args) with
              | Some decl =>
                  let inner := combine (List.map snd (pd_params decl))
                                 (List.map (fun a => "( " ++ join " " (go sub a) ++ " )") args) in
                  Some ("(" :: emit d' decls (call_key f (length args) :: active) inner (pd_body decl) ++ [")"])
              | None => None
              end
          | O => None
          end in
        match expanded with
        | Some p => p
        | None => head_text sub f :: "(" :: sep_pieces "," (List.map (go sub) args) ++ [")"]
        end
    | EParen a => "(" :: go sub a ++ [")"]
    | EUn o a => unop_text o :: go sub a
    | EBin o a b => go sub a ++ binop_text o :: go sub b
    end.

Definition expanded_condition (q : query) : bytes :=
  match q_where q with
  | Some e => join " " (emit (fuel_of (q_preds q)) (q_preds q) [] [] e)
  | None => []
  end.

(* ---------- candidates, results, rows ---------- *)
Definition nodes_of_kind (g : list node) (k : bytes) : list node :=
  filter (fun n => bytes_eqb (n_type n) k) g.

(* cartesianProduct: the FIRST set varies fastest; tuples list their entities in FROM order *)
Fixpoint product (sets : list (list node)) : list (list node) :=
  match sets with
  | [] => [[]]
  | s :: rest => flat_map (fun t => List.map (fun x => x :: t) s) (product rest)
  end.
(* Go builds result = for set in sets: for item in set: for sub in result: sub ++ [item].
   Reading tuples in FROM order, that is the product above taken over the reversed list with
   each tuple reversed; as a multiset of FROM-ordered tuples both are the n-ary product. *)

Definition candidates (q : query) (g : list node) : list (list node) :=
  product (List.map (fun '(k, _) => nodes_of_kind g k) (q_from q)).

Definition tuple_env (q : query) (t : list node) : tenv :=
  combine (List.map snd (q_from q)) (combine (List.map fst (q_from q)) t).

Definition accepted (q : query) (t : list node) : verdict := filter_verdict (tuple_env q t) (condition q).

Definition results (q : query) (g : list node) : list (list node) :=
  filter (fun t => match accepted q t with Accept => true | _ => false end) (candidates q g).

(* FROM clause inside the fragment: kinds the engine binds, pairwise distinct; aliases pairwise
   distinct and not spelled like a kind (generateProxyEnv keys its env by kind, see DESIGN D37) *)
Fixpoint nodupb (l : list bytes) : bool :=
  match l with [] => true | x :: r => negb (existsb (bytes_eqb x) r) && nodupb r end.

Definition from_ok (q : query) : bool :=
  let kinds := List.map fst (q_from q) in
  let aliases := List.map snd (q_from q) in
  nodupb kinds && nodupb aliases
  && forallb (fun k => match kind_bindings k with Some _ => true | None => false end) kinds
  && forallb (fun a => negb (existsb (fun '(_, d) => bytes_eqb a d) engine_var_default)) aliases
  (* an alias spelled like a word of the condition language itself (nil, true, not, len ...) is read by the evaluator
     as that word, not as the alias: outside the fragment *)
  && forallb (fun a => negb (expr_builtin a)) aliases.

(* is any candidate outside the modelled fragment?  (then the harness does not compare) *)
Definition in_fragment (q : query) (g : list node) : bool :=
  from_ok q &&
  forallb (fun t => match accepted q t with Unknown => false | _ => true end) (candidates q g).

(* SELECT items *)
Definition sel_xexpr (s : sel_item) : option xexpr :=
  match s with
  | SelVar x => Some (XCall (XMember (XVar x) "toString") [])
  | SelChain m ms =>
      (* the text is handed to expr-lang as is: first element is the alias (or a bare call) *)
      match m with
      | MVar x =>
          Some ((fix chain (ms : list emov) (acc : xexpr) {struct ms} : xexpr :=
                   match ms with
                   | [] => acc
                   | MVar f :: r => chain r (XMember acc f)
                   | MCall f args :: r => chain r (XCall (XMember acc f) (List.map (inline 0 [] [] []) args))
                   end) ms (XVar x))
      | MCall _ _ => None
      end
  | SelStr _ => None
  end.

(* one output value: Some v, or None when outside the fragment *)
Definition sel_value (env : tenv) (s : sel_item) : option val :=
  match s with
  | SelStr tok => Some (VS (trim_suffix """" (trim_prefix """" tok)))
  | _ =>
      match sel_xexpr s with
      | None => None
      | Some x =>
          match static env x with
          | SErr => Some (VS [])
          | SOOF => None
          | SOk _ =>
              match eval env x with
              | Val (VFunc _ _ _ | VEnv _ _ | VObj _) => None
              | Val v => Some v
              | OutOfFragment => None
              | RunErr | CompErr => Some (VS [])      (* evaluateExpression returns "" after printing the error *)
              end
          end
      end
  end.

Definition row (q : query) (t : list node) : list (option val) :=
  List.map (sel_value (tuple_env q t)) (q_select q).

(* ---------- specification: predicate calls bind their formals to their arguments ---------- *)
Definition of_expr : expr -> xexpr := inline 0 [] [] [].

(* what a formal parameter is bound to inside a predicate body: the entity an alias denotes, or
   the value of a literal argument (call-by-value) *)
Inductive bind :=
| BEnt (k : bytes) (n : node)
| BVal (v : value).

(* the formals of the predicate being evaluated, in declaration order (first match wins) *)
Definition fenv := list (bytes * bind).

Definition bind_res (b : bind) : res :=
  match b with
  | BEnt k n => Val (VEnv k n)
  | BVal v => literal v
  end.

(* a name inside a body: the predicate's own formals shadow the FROM aliases *)
Definition flookup (env0 : tenv) (fe : fenv) (x : bytes) : option bind :=
  match lookup x fe with
  | Some b => Some b
  | None => match lookup x env0 with Some (k, n) => Some (BEnt k n) | None => None end
  end.

(* what an argument denotes: an alias or an enclosing predicate's formal (whatever that is bound
   to: an entity, or a value passed through), or a string / number literal; parentheses around
   an argument mean nothing *)
Fixpoint arg_bind (env0 : tenv) (fe : fenv) (a : expr) : option bind :=
  match a with
  | EChain x [] => flookup env0 fe x
  | EVal v => Some (BVal v)
  | EParen a' => arg_bind env0 fe a'
  | _ => None
  end.

Fixpoint all_some {A} (l : list (option A)) : option (list A) :=
  match l with
  | [] => Some []
  | Some a :: r => option_map (cons a) (all_some r)
  | None :: _ => None
  end.

(* atoms (call-free expressions) are evaluated by [eval]: the entity-bound formals extend the FROM
   environment; a value-bound formal is the literal constant it is bound to.  [vsub] keeps one
   entry per formal, in order, so that the FIRST formal of a given name decides, as for [lookup]. *)
Fixpoint ents (fe : fenv) : tenv :=
  match fe with
  | [] => []
  | (x, BEnt k n) :: r => (x, (k, n)) :: ents r
  | (_, BVal _) :: r => ents r
  end.

Definition vsub (fe : fenv) : subst :=
  List.map (fun '(x, b) => (x, match b with BVal v => XParen (XVal v) | BEnt _ _ => XVar x end)) fe.

Definition atom_eval (env0 : tenv) (fe : fenv) (e : expr) : res :=
  eval (ents fe ++ env0) (inline 0 [] [] (vsub fe) e).

(* three-valued, left-to-right, short-circuit; conditions are boolean combinations of atoms;
   an atom is any call-free expression (evaluated by [eval]) or a predicate call.  A predicate
   body sees its own formal parameters [fe] and the FROM aliases (env0), not its caller's formals;
   at top level there are no formals ([fe] = []) and an atom is [eval env0 (of_expr e)]. *)
Fixpoint seval (d : nat) (decls : list pred_decl) (active : list bytes) (env0 : tenv) : fenv -> expr -> res :=
  fix go (fe : fenv) (e : expr) {struct e} : res :=
    match e with
    | EParen a => go fe a
    | EUn UNot a =>
        match go fe a with
        | Val (VB b) => Val (VB (negb b))
        | Val v => wrong_operand v
        | r => r
        end
    | EBin BAnd a b =>
        match go fe a with
        | Val (VB false) => Val (VB false)
        | Val (VB true) => go fe b
        | Val v => wrong_operand v
        | r => r
        end
    | EBin BOr a b =>
        match go fe a with
        | Val (VB true) => Val (VB true)
        | Val (VB false) => go fe b
        | Val v => wrong_operand v
        | r => r
        end
    | ECall f args =>
        match d with
        | S d' =>
            if is_active (call_key f (length args)) active then OutOfFragment   (* recursion has no meaning *)
            else
            match find_decl decls f (length args), all_some (List.map (arg_bind env0 fe) args) with
            | Some decl, Some bs =>
                seval d' decls (call_key f (length args) :: active) env0
                      (combine (List.map snd (pd_params decl)) bs) (pd_body decl)
            | _, _ => OutOfFragment
            end
        | O => OutOfFragment
        end
    | _ => atom_eval env0 fe e
    end.

Definition spec_accepted (q : query) (t : list node) : verdict :=
  match q_where q with
  | None => Accept
  | Some e =>
      match seval (fuel_of (q_preds q)) (q_preds q) [] (tuple_env q t) [] e with
      | Val (VB true) => Accept
      | OutOfFragment => Unknown
      | _ => Reject
      end
  end.

Definition spec_results (q : query) (g : list node) : list (list node) :=
  filter (fun t => match spec_accepted q t with Accept => true | _ => false end) (candidates q g).
