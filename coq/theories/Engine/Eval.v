(* The evaluator side of the query engine: the fragment of expr-lang v1.16.9 the engine relies on,
   as an AST evaluator (values, dynamic typing, run-time errors), and the environment
   generateProxyEnvForSet builds (alias -> accessor table of the tuple's entity), driven by the
   tables the translator regenerates from graph/query.go.  Definitions only. *)
From Coq Require Export ZArith.
From CPF Require Export Base.Bytes Lang.Expr Scan.Build.
From CPF Require Import gen.Tables.
Open Scope bs_scope.

(* ---------- the AST expr-lang evaluates (its grammar allows any expression before '.') ---------- *)
Inductive xexpr :=
| XVal (v : value)
| XList (vs : list value)
| XVar (x : bytes)
| XMember (e : xexpr) (f : bytes)            (* e.f *)
| XCall (e : xexpr) (args : list xexpr)      (* e(args) *)
| XParen (e : xexpr)
| XUn (o : unop) (e : xexpr)
| XBin (o : binop) (a b : xexpr).

(* ---------- values ---------- *)
Inductive val :=
| VS (s : bytes) | VI (z : Z) | VB (b : bool) | VNil
| VL (l : list val)
| VFunc (acc : bytes) (kind : bytes) (n : node)     (* a bound accessor, not yet called *)
| VEnv (kind : bytes) (n : node)                    (* the accessor table an alias is bound to *)
| VObj (tag : bytes).                               (* a model.* object: opaque in this fragment *)

(* result of evaluating one expression on one tuple *)
Inductive res :=
| Val (v : val)
| RunErr                  (* expr-lang run-time error: this tuple is rejected, a message is printed *)
| CompErr                 (* expr-lang compile error (unknown name): every tuple is rejected *)
| OutOfFragment.          (* outside the modelled fragment: not compared, excluded by wf_query *)

Definition lookup {V} (k : bytes) (m : list (bytes * V)) : option V :=
  match find (fun '(k', _) => bytes_eqb k k') m with Some (_, v) => Some v | None => None end.

(* ---------- literals ---------- *)
(* STRING token text -> value: delimiters dropped, the escapes backslash-quote,
   backslash-backslash, backslash-n, -t, -r interpreted; any other escape is outside the fragment
   (expr-lang knows more escapes than are modelled, and rejects unknown ones) *)
Fixpoint unescape (s : bytes) : option bytes :=
  match s with
  | [] => Some []
  | x5c :: x22 :: r => option_map (cons x22) (unescape r)
  | x5c :: x5c :: r => option_map (cons x5c) (unescape r)
  | x5c :: x6e :: r => option_map (cons x0a) (unescape r)     (* \n *)
  | x5c :: x74 :: r => option_map (cons x09) (unescape r)     (* \t *)
  | x5c :: x72 :: r => option_map (cons x0d) (unescape r)     (* \r *)
  | x5c :: _ => None
  | c :: r => option_map (cons c) (unescape r)                (* a raw line feed is emitted as \n, same value *)
  end.

Definition string_literal (tok : bytes) : option bytes :=
  match tok with
  | x22 :: r => match rev r with
                | x22 :: body_rev => unescape (rev body_rev)
                | _ => None
                end
  | _ => None
  end.

Definition digit_val (c : byte) : option Z :=
  let n := Byte.to_N c in
  if ((48 <=? n) && (n <=? 57))%N then Some (Z.of_N (n - 48)) else None.

Fixpoint int_literal_aux (s : bytes) (acc : Z) : option Z :=
  match s with
  | [] => Some acc
  | c :: r => match digit_val c with
              | Some d => int_literal_aux r (acc * 10 + d)
              | None => None    (* a '.': float literal, outside the fragment *)
              end
  end.
(* expr-lang's integers are Go ints (64 bits): a literal outside that range is refused by its parser and arithmetic
   wraps around silently.  Neither is part of the documented language: the model stays inside the range and answers
   OutOfFragment at its border instead of guessing (found by probing numeric edge cases, round 8) *)
Definition in_int64 (z : Z) : bool := ((-9223372036854775808 <=? z) && (z <=? 9223372036854775807))%Z.
Definition int_literal (tok : bytes) : option Z :=
  match tok with
  | [] => None
  | _ => match int_literal_aux tok 0 with Some z => if in_int64 z then Some z else None | None => None end
  end.

Definition literal (v : value) : res :=
  match v with
  | VStr tok => match string_literal tok with Some s => Val (VS s) | None => OutOfFragment end
  | VNum tok => match int_literal tok with Some z => Val (VI z) | None => OutOfFragment end
  end.

Fixpoint literals (vs : list value) : option (list val) :=
  match vs with
  | [] => Some []
  | v :: r => match literal v, literals r with
              | Val a, Some l => Some (a :: l)
              | _, _ => None
              end
  end.

(* ---------- Node fields behind the Env methods ---------- *)
Definition strs (l : list bytes) : val := VL (List.map VS l).

(* fmt %v of a []string *)
Definition fmt_v (l : list bytes) : bytes := fmt_strs l.

(* Env.ToString; None when a pointer-valued part (JavaDoc / BinaryExpr) would print addresses *)
Definition to_string (n : node) : option bytes :=
  match n_doc n, n_bin n with
  | None, None =>
      Some ("Node{Type: " ++ n_type n ++ ", Name: " ++ n_name n ++ ", Modifier: " ++ n_mod n
            ++ ", Annotation: " ++ fmt_v (n_annot n) ++ ", ReturnType: " ++ n_ret n
            ++ ", MethodArgumentsType: " ++ fmt_v (n_argt n) ++ ", MethodArgumentsValue: " ++ fmt_v (n_argv n)
            ++ ", SuperClass: " ++ n_super n ++ ", Interface: " ++ fmt_v (n_iface n) ++ ", Scope: " ++ n_scope n
            ++ ", VariableValue: " ++ n_value n ++ ", DataType: " ++ n_dtype n
            ++ ", ThrowsExceptions: " ++ fmt_v (n_throws n)
            ++ ", hasAccess: " ++ (if n_access n then "true" else "false")
            ++ ", isJavaSourceFile: " ++ (if n_isjava n then "true" else "false")
            ++ ", JavaDoc: <nil>, BinaryExpr: <nil>}")
  | _, _ => None
  end.

(* value of `env.Node.<path>` for the field paths the translator extracts from the Env methods *)
Definition field_val (path : bytes) (n : node) : res :=
  if bytes_eqb path "Modifier" then Val (VS (n_mod n))
  else if bytes_eqb path "Annotation" then Val (strs (n_annot n))
  else if bytes_eqb path "ReturnType" then Val (VS (n_ret n))
  else if bytes_eqb path "Name" then Val (VS (n_name n))
  else if bytes_eqb path "MethodArgumentsType" then Val (strs (n_argt n))
  else if bytes_eqb path "MethodArgumentsValue" then Val (strs (n_argv n))
  else if bytes_eqb path "SuperClass" then Val (VS (n_super n))
  else if bytes_eqb path "Interface" then Val (strs (n_iface n))
  else if bytes_eqb path "Scope" then Val (VS (n_scope n))
  else if bytes_eqb path "VariableValue" then Val (VS (n_value n))
  else if bytes_eqb path "DataType" then Val (VS (n_dtype n))
  else if bytes_eqb path "ThrowsExceptions" then Val (strs (n_throws n))
  else if bytes_eqb path "hasAccess" then Val (VB (n_access n))
  else if bytes_eqb path "isJavaSourceFile" then Val (VB (n_isjava n))
  else if bytes_eqb path "BinaryExpr.LeftOperand.NodeString" then
    match n_bin n with Some (_, l, _) => Val (VS l) | None => RunErr end      (* nil dereference inside the call *)
  else if bytes_eqb path "BinaryExpr.RightOperand.NodeString" then
    match n_bin n with Some (_, _, r) => Val (VS r) | None => RunErr end
  else if bytes_eqb path "ClassInstanceExpr.ClassName" then
    match n_new n with Some (c, _) => Val (VS c) | None => RunErr end
  else if bytes_eqb path "<ToString>" then
    match to_string n with Some s => Val (VS s) | None => OutOfFragment end
  else if bytes_eqb path "BinaryExpr" then
    match n_bin n with Some _ => Val (VObj "BinaryExpr") | None => Val VNil end
  else if bytes_eqb path "ClassInstanceExpr" then
    match n_new n with Some _ => Val (VObj "ClassInstanceExpr") | None => Val VNil end
  else if bytes_eqb path "<JavaDocOrEmpty>" then Val (VObj "Javadoc")
  else if has_suffix "Stmt" path then
    match n_stmt n with Some _ => Val (VObj path) | None => Val VNil end
  else OutOfFragment.

(* the accessor table generateProxyEnv binds for an entity kind: accessor -> (binding kind, target) *)
Definition kind_bindings (kind : bytes) : option (list (bytes * bytes * bytes)) :=
  match lookup kind engine_kind_var with
  | Some v => lookup v engine_env_bind
  | None => None
  end.

Definition find_binding (acc : bytes) (bs : list (bytes * bytes * bytes)) : option (bytes * bytes) :=
  match find (fun '(a, _, _) => bytes_eqb a acc) bs with
  | Some (_, k, t) => Some (k, t)
  | None => None
  end.

(* env[alias][acc] : a bound method, a constant, or nil when the key is missing *)
Definition member_of_env (kind : bytes) (n : node) (acc : bytes) : res :=
  match kind_bindings kind with
  | None => OutOfFragment                                   (* kind without a binding: wf excludes *)
  | Some bs =>
      match find_binding acc bs with
      | None => Val VNil
      | Some (k, t) =>
          if bytes_eqb k "const" then Val (VS t)
          else Val (VFunc acc kind n)
      end
  end.

(* calling a bound accessor (no arguments) *)
Definition call_accessor (kind : bytes) (n : node) (acc : bytes) : res :=
  match kind_bindings kind with
  | None => OutOfFragment
  | Some bs =>
      match find_binding acc bs with
      | Some (k, t) =>
          if bytes_eqb k "method" then
            match lookup t engine_env_methods with
            | Some path => field_val path n
            | None => OutOfFragment
            end
          else RunErr
      | None => RunErr
      end
  end.

(* ---------- operators on dynamically typed values ---------- *)
Fixpoint val_eqb (a b : val) : bool :=
  match a, b with
  | VS x, VS y => bytes_eqb x y
  | VI x, VI y => Z.eqb x y
  | VB x, VB y => Bool.eqb x y
  | VNil, VNil => true
  | VL x, VL y =>
      (fix go (x y : list val) : bool :=
         match x, y with
         | [], [] => true
         | a :: x', b :: y' => val_eqb a b && go x' y'
         | _, _ => false
         end) x y
  | _, _ => false
  end.

Definition scalar (v : val) : bool :=
  match v with VS _ | VI _ | VB _ | VNil => true | _ => false end.

(* lexicographic order on byte strings (Go's string <) *)
Fixpoint bytes_ltb (a b : bytes) : bool :=
  match a, b with
  | _, [] => false
  | [], _ :: _ => true
  | x :: a', y :: b' =>
      if (Byte.to_N x <? Byte.to_N y)%N then true
      else if (Byte.to_N y <? Byte.to_N x)%N then false
      else bytes_ltb a' b'
  end.

(* values of the modelled fragment proper (no functions, tables or opaque objects) *)
Definition plain (v : val) : bool :=
  match v with VS _ | VI _ | VB _ | VNil | VL _ => true | _ => false end.

Definition cmp_lt (a b : val) : res :=
  match a, b with
  | VI x, VI y => Val (VB (Z.ltb x y))
  | VS x, VS y => Val (VB (bytes_ltb x y))
  | _, _ => if plain a && plain b then RunErr else OutOfFragment
  end.

Definition arith (f : Z -> Z -> Z) (a b : val) : res :=
  match a, b with
  | VI x, VI y => let r := f x y in if in_int64 r then Val (VI r) else OutOfFragment
  | _, _ => if plain a && plain b then RunErr else OutOfFragment
  end.

Definition binop_val (o : binop) (a b : val) : res :=
  match o with
  | BEq => if scalar a && scalar b then Val (VB (val_eqb a b)) else OutOfFragment
  | BNe => if scalar a && scalar b then Val (VB (negb (val_eqb a b))) else OutOfFragment
  | BLt => cmp_lt a b
  | BGt => cmp_lt b a
  | BLe => match cmp_lt b a with Val (VB r) => Val (VB (negb r)) | r => r end
  | BGe => match cmp_lt a b with Val (VB r) => Val (VB (negb r)) | r => r end
  | BIn => match b with
           | VL l => if scalar a then Val (VB (existsb (val_eqb a) l)) else OutOfFragment
           | _ => if scalar a && scalar b then RunErr else OutOfFragment
           end
  | BAdd => match a, b with
            | VS x, VS y => Val (VS (x ++ y))
            | _, _ => arith Z.add a b
            end
  | BSub => arith Z.sub a b
  | BMul => arith Z.mul a b
  | BDiv => OutOfFragment        (* float division in expr-lang *)
  | BOr | BAnd => OutOfFragment  (* handled with short-circuit in eval *)
  end.

(* what a connective or a unary operator does with an operand of the wrong dynamic type *)
Definition wrong_operand (v : val) : res := if plain v then RunErr else OutOfFragment.

(* ---------- evaluation ---------- *)
(* the per-tuple environment: alias -> (kind, entity), in FROM order *)
(* identifiers that expr-lang itself gives a meaning (constants, built-in functions, word operators): a name that is
   not bound by the query is a compile error only if it is none of these; with one of them the model does not guess *)
Definition expr_builtin (x : bytes) : bool :=
  existsb (bytes_eqb x)
    ["true"; "false"; "nil"; "len"; "all"; "any"; "one"; "none"; "map"; "filter"; "find"; "findIndex"; "findLast";
     "findLastIndex"; "count"; "sum"; "groupBy"; "sortBy"; "reduce"; "int"; "float"; "string"; "trim"; "trimPrefix";
     "trimSuffix"; "upper"; "lower"; "split"; "splitAfter"; "replace"; "repeat"; "indexOf"; "lastIndexOf"; "hasPrefix";
     "hasSuffix"; "max"; "min"; "abs"; "ceil"; "floor"; "round"; "mean"; "median"; "first"; "last"; "take"; "reverse";
     "sort"; "keys"; "values"; "toJSON"; "fromJSON"; "toBase64"; "fromBase64"; "now"; "duration"; "date"; "timezone";
     "type"; "get"; "join"; "concat"; "flatten"; "uniq"; "bitand"; "bitor"; "bitxor"; "bitnand"; "bitnot"; "bitshl";
     "bitshr"; "bitushr"; "not"; "and"; "or"; "matches"; "contains"; "startsWith"; "endsWith"; "let"; "$env"].

Definition tenv := list (bytes * (bytes * node)).

Fixpoint eval (env : tenv) (e : xexpr) : res :=
  match e with
  | XVal v => literal v
  | XList vs => match literals vs with Some l => Val (VL l) | None => OutOfFragment end
  | XVar x => match lookup x env with
              | Some (k, n) => Val (VEnv k n)
              | None => if expr_builtin x then OutOfFragment else CompErr
              end
  | XParen a => eval env a
  | XMember a f =>
      match eval env a with
      | Val (VEnv k n) => member_of_env k n f
      | Val _ => OutOfFragment
      | r => r
      end
  | XCall a args =>
      match args with
      | [] => match eval env a with
              | Val (VFunc acc k n) => call_accessor k n acc
              | Val v => if scalar v then RunErr else OutOfFragment      (* call of a non-function *)
              | r => r
              end
      | _ :: _ => match a with
                  | XVar _ => (match eval env a with CompErr => CompErr | _ => OutOfFragment end)
                  | _ => OutOfFragment
                  end
      end
  | XUn UNot a =>
      match eval env a with
      | Val (VB b) => Val (VB (negb b))
      | Val v => wrong_operand v
      | r => r
      end
  | XUn UNeg a =>
      match eval env a with
      | Val (VI z) => if in_int64 (- z) then Val (VI (- z)) else OutOfFragment
      | Val v => wrong_operand v
      | r => r
      end
  | XBin BAnd a b =>
      match eval env a with
      | Val (VB false) => Val (VB false)
      | Val (VB true) => eval env b
      | Val v => wrong_operand v
      | r => r
      end
  | XBin BOr a b =>
      match eval env a with
      | Val (VB true) => Val (VB true)
      | Val (VB false) => eval env b
      | Val v => wrong_operand v
      | r => r
      end
  | XBin o a b =>
      match eval env a with
      | Val va => match eval env b with
                  | Val vb => binop_val o va vb
                  | r => r
                  end
      | r => r
      end
  end.

(* a compile error does not depend on the tuple; it is detected before any evaluation, also in
   branches evaluation would skip: unknown top-level names *)
Fixpoint names_bound (env : tenv) (e : xexpr) : bool :=
  match e with
  | XVal _ | XList _ => true
  | XVar x => match lookup x env with Some _ => true | None => false end
  | XMember a _ | XParen a | XUn _ a => names_bound env a
  | XCall a args => names_bound env a && forallb (names_bound env) args
  | XBin _ a b => names_bound env a && names_bound env b
  end.

(* ---------- the part of expr-lang's static checker the fragment needs ---------- *)
(* Types known at compile time: literals, aliases (maps), results of operators.  Everything reached
   through the env map is dynamically typed (TAny).  An operator applied to operands of statically
   known, unsuitable types is a compile error: every tuple is rejected, even where evaluation
   would have short-circuited past it. *)
Inductive sty := TS | TI | TB | TL | TMap | TAny.
Inductive sres := SOk (t : sty) | SErr | SOOF.

Definition is_any (t : sty) : bool := match t with TAny => true | _ => false end.
Definition sty_eqb (a b : sty) : bool :=
  match a, b with
  | TS, TS | TI, TI | TB, TB | TL, TL | TMap, TMap | TAny, TAny => true
  | _, _ => false
  end.
Definition boolish (t : sty) : bool := match t with TB | TAny => true | _ => false end.

Definition sbin (o : binop) (a b : sty) : sres :=
  match a, b with
  | TMap, _ | _, TMap => SOOF
  | _, _ =>
    match o with
    | BAnd | BOr => if boolish a && boolish b then SOk TB else SErr
    | BEq | BNe => if is_any a || is_any b || sty_eqb a b then SOk TB else SErr
    | BLt | BGt | BLe | BGe =>
        if is_any a || is_any b then SOk TB
        else match a, b with TI, TI | TS, TS => SOk TB | _, _ => SErr end
    | BIn => match b with
             | TL | TAny => SOk TB
             | TS => if is_any a then SOk TB else SErr     (* dynamic left operand: accepted by the checker, fails when evaluated *)
             | _ => SErr
             end
    | BAdd => match a, b with
              | TI, TI => SOk TI | TS, TS => SOk TS
              | TAny, (TI | TS | TAny) | (TI | TS), TAny => SOk TAny
              | _, _ => SErr end
    | BSub | BMul => match a, b with
                     | TI, TI => SOk TI
                     | TAny, (TI | TAny) | TI, TAny => SOk TAny
                     | _, _ => SErr end
    | BDiv => SOOF
    end
  end.

(* Where the two grammars group differently, the text is read by expr-lang as another tree than
   Query.g4 gives it: expr-lang has == != < > <= >= in on ONE precedence level (Query.g4 puts the
   relational operators above equality), and reads a<b<c as a chain.  Such unparenthesised mixes
   are outside the fragment (the documented conditions are boolean combinations of single
   comparisons); DESIGN.md D36. *)
Definition relational (o : binop) : bool :=
  match o with BLt | BGt | BLe | BGe | BIn => true | _ => false end.
Definition regroups (o : binop) (a b : xexpr) : bool :=
  match o with
  | BEq | BNe => match b with XBin o' _ _ => relational o' | _ => false end
  | BLt | BGt | BLe | BGe | BIn => match a with XBin o' _ _ => relational o' | _ => false end
  | _ => false
  end.

Fixpoint static (env : tenv) (e : xexpr) : sres :=
  match e with
  | XVal (VStr t) => match string_literal t with Some _ => SOk TS | None => SOOF end
  | XVal (VNum t) => match int_literal t with Some _ => SOk TI | None => SOOF end
  | XList vs => match literals vs with Some _ => SOk TL | None => SOOF end
  | XVar x => match lookup x env with Some _ => SOk TMap | None => if expr_builtin x then SOOF else SErr end
  | XParen a => static env a
  | XMember a _ =>
      match static env a with
      | SOk (TMap | TAny) => SOk TAny
      | SOk _ => SOOF
      | r => r
      end
  | XCall a args =>
      match args with
      | [] => match static env a with
              | SOk TAny => SOk TAny
              | SOk _ => SOOF
              | r => r
              end
      | _ :: _ => match static env a with SErr => SErr | _ => SOOF end
      end
  | XUn UNot a => match static env a with SOk t => if boolish t then SOk TB else match t with TMap => SOOF | _ => SErr end | r => r end
  | XUn UNeg a => match static env a with SOk TI => SOk TI | SOk TAny => SOk TAny | SOk TMap => SOOF | SOk _ => SErr | r => r end
  | XBin o a b =>
      if regroups o a b then SOOF else
      match static env a, static env b with
      | SErr, _ | _, SErr => SErr
      | SOOF, _ | _, SOOF => SOOF
      | SOk ta, SOk tb => sbin o ta tb
      end
  end.

(* FilterEntities on one tuple: true exactly when the condition evaluates to the boolean true *)
Inductive verdict := Accept | Reject | Unknown.   (* Unknown: outside the fragment *)

Definition filter_verdict (env : tenv) (cond : option xexpr) : verdict :=
  match cond with
  | None => Accept
  | Some c =>
      match static env c with
      | SErr => Reject                 (* compile error: printed, tuple rejected *)
      | SOOF => Unknown
      | SOk _ =>
          match eval env c with
          | Val (VB true) => Accept
          | OutOfFragment => Unknown
          | _ => Reject
          end
      end
  end.
