(* cmd.processQuery and the console loop as functions.  Definitions only. *)
From CPF Require Export Lang.Lexer Lang.Ast Lang.Parser Engine.Query.
Open Scope bs_scope.

Record answer := { a_results : list (list node); a_rows : list (list (option val)) }.

(* the two ways a query ends: results (possibly empty, possibly after printed evaluation
   diagnostics), or a syntax diagnostic.  There is no third constructor: after the repairs the
   modelled code has no unchecked type assertion, nil dereference or process exit left; that the
   IMPLEMENTATION has none either is what the outcome-class correspondence checks. *)
Inductive outcome := Answer (a : answer) | SyntaxError.

Definition process_query (s : bytes) (g : list node) : outcome :=
  match parse_query s with
  | None => SyntaxError
  | Some aq =>
      let q := flatten_query aq in
      let rs := results q g in
      Answer {| a_results := rs; a_rows := List.map (row q) rs |}
  end.

(* one step of a session on a loaded project: the graph afterwards, and the answer *)
Definition step (g : list node) (s : bytes) : list node * outcome := (g, process_query s g).

(* ---------- the interactive console (cmd/query.go executeCLIQuery, stdin branch) ---------- *)
(* bufio.Reader.ReadString on a stream that arrives in chunks: the buffered bytes persist between
   calls.  Returns the line (terminator included), the new buffer and the remaining chunks; None at
   end of input without a terminator (ReadString returns an error and the console stops). *)
Fixpoint take_line (s : bytes) : option (bytes * bytes) :=
  match s with
  | [] => None
  | c :: r => if beqb c nl then Some ([c], r)
              else match take_line r with
                   | Some (l, rest) => Some (c :: l, rest)
                   | None => None
                   end
  end.

Fixpoint read_line (buf : bytes) (chunks : list bytes) : option (bytes * bytes * list bytes) :=
  match take_line buf with
  | Some (l, rest) => Some (l, rest, chunks)
  | None => match chunks with
            | [] => None
            | c :: cs => read_line (buf ++ c) cs
            end
  end.

Inductive console_end := Quit | InputError.

(* the transcript: one outcome per submitted line, in order, then how the session ended *)
Fixpoint console (fuel : nat) (g : list node) (buf : bytes) (chunks : list bytes)
  : list outcome * console_end :=
  match fuel with
  | O => ([], InputError)
  | S f =>
      match read_line buf chunks with
      | None => ([], InputError)
      | Some (l, buf', chunks') =>
          if has_prefix ":quit" l then ([], Quit)
          else let '(rest, e) := console f g buf' chunks' in (process_query l g :: rest, e)
      end
  end.

Definition console_session (g : list node) (chunks : list bytes) : list outcome * console_end :=
  console (S (length (concat chunks))) g [] chunks.
