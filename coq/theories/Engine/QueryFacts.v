(* Facts about the query pipeline model of Engine/Query.v.  Proofs only.

   T1  product_in, product_nodup, product_length           the n-ary cartesian product
   T2  results_sound, candidates_kinds, results_nodup,
       results_no_where, results_complete                  shape of the result set            [C02]
   T3  inline_seval, accepted_refines_spec,
       results_refine_spec                                  expansion by substitution implements
                                                            call-by-binding (formals bound to
                                                            entities or to literal values)     [C01 C13]
   T4  spec_and, spec_or, spec_not, spec_paren, spec_equiv,
       De Morgan, double negation, spec_or_needs_total      connectives as set operations      [C12]
   T5  emit_inline, expanded_condition_inline               text-level expansion = AST-level expansion *)
From Coq Require Import Lia.
From CPF Require Import Base.BytesFacts Engine.Query.
Open Scope bs_scope.

(* ====================================================================================== *)
(* Generic list lemmas                                                                    *)
(* ====================================================================================== *)
Lemma NoDup_app_intro {A} (l1 l2 : list A) :
  NoDup l1 -> NoDup l2 -> (forall x, In x l1 -> ~ In x l2) -> NoDup (l1 ++ l2).
Proof.
  induction l1 as [|a l1 IH]; cbn [app]; intros H1 H2 Hd; [exact H2|].
  inversion H1 as [|? ? Hna Hnd]; subst. constructor.
  - rewrite in_app_iff. intros [Hin|Hin]; [contradiction|]. apply (Hd a); [now left|exact Hin].
  - apply IH; [exact Hnd|exact H2|]. intros x Hx. apply Hd. now right.
Qed.

Lemma NoDup_flat_map {A B} (f : A -> list B) (l : list A) :
  NoDup l -> (forall x, In x l -> NoDup (f x)) ->
  (forall x y b, In x l -> In y l -> In b (f x) -> In b (f y) -> x = y) ->
  NoDup (flat_map f l).
Proof.
  induction l as [|a l IH]; cbn [flat_map]; intros Hl Hf Hd; [constructor|].
  inversion Hl as [|? ? Hna Hnd]; subst. apply NoDup_app_intro.
  - apply Hf. now left.
  - apply IH; [exact Hnd| |].
    + intros x Hx. apply Hf. now right.
    + intros x y b Hx Hy. apply Hd; now right.
  - intros b Hb Hb'. apply in_flat_map in Hb' as [y [Hy Hby]].
    assert (E : a = y) by (apply (Hd a y b); [now left|now right|exact Hb|exact Hby]).
    subst y. contradiction.
Qed.

Lemma NoDup_map_inj {A B} (f : A -> B) (l : list A) :
  (forall x y, f x = f y -> x = y) -> NoDup l -> NoDup (map f l).
Proof.
  intros Hinj. induction l as [|a l IH]; cbn [map]; intros Hl; [constructor|].
  inversion Hl as [|? ? Hna Hnd]; subst. constructor; [|now apply IH].
  intros Hin. apply in_map_iff in Hin as [x [E Hx]]. apply Hinj in E. subst x. contradiction.
Qed.

Lemma Forall2_map_r {A B C} (P : A -> C -> Prop) (f : B -> C) :
  forall (l' : list B) (l : list A), Forall2 P l (map f l') <-> Forall2 (fun a b => P a (f b)) l l'.
Proof.
  induction l' as [|b l' IH]; intros l; cbn [map].
  - split; intros H; inversion H; constructor.
  - split; intros H; inversion H; subst; constructor; try assumption; now apply IH.
Qed.

Lemma Forall2_imp {A B} (P Q : A -> B -> Prop) (l : list A) (l' : list B) :
  (forall a b, P a b -> Q a b) -> Forall2 P l l' -> Forall2 Q l l'.
Proof. intros HPQ H. induction H; constructor; auto. Qed.

Lemma filter_all_true {A} (f : A -> bool) (l : list A) :
  (forall x, In x l -> f x = true) -> filter f l = l.
Proof.
  induction l as [|a l IH]; cbn [filter]; intros H; [reflexivity|].
  rewrite (H a) by now left. f_equal. apply IH. intros x Hx. apply H. now right.
Qed.

(* ====================================================================================== *)
(* T1  cartesian product                                                                  *)
(* ====================================================================================== *)
Theorem product_in : forall (sets : list (list node)) (t : list node),
  In t (product sets) <-> Forall2 (fun x s => In x s) t sets.
Proof.
  induction sets as [|s rest IH]; intros t; cbn [product].
  - split.
    + intros [<-|[]]. constructor.
    + intros H. inversion H. now left.
  - rewrite in_flat_map. split.
    + intros [t' [Ht' Hin]]. apply in_map_iff in Hin as [x [<- Hx]].
      constructor; [exact Hx|]. now apply IH.
    + intros H. inversion H as [|x s' t' rest' Hx Hrest]; subst.
      exists t'. split; [now apply IH|]. apply in_map_iff. exists x. split; [reflexivity|exact Hx].
Qed.
Print Assumptions product_in.

Theorem product_nodup (sets : list (list node)) :
  Forall (@NoDup node) sets -> NoDup (product sets).
Proof.
  induction sets as [|s rest IH]; intros H; cbn [product].
  - constructor; [intros []|constructor].
  - inversion H as [|? ? Hs Hrest]; subst. apply NoDup_flat_map.
    + now apply IH.
    + intros t _. apply NoDup_map_inj; [|exact Hs]. intros x y E. now injection E.
    + intros t t' b _ _ Hb Hb'.
      apply in_map_iff in Hb as [x [<- _]]. apply in_map_iff in Hb' as [y [E _]]. now injection E.
Qed.
Print Assumptions product_nodup.

Theorem product_length (sets : list (list node)) :
  length (product sets) = fold_right (fun s acc => length s * acc) 1 sets.
Proof.
  induction sets as [|s rest IH]; cbn [product fold_right]; [reflexivity|].
  rewrite <- IH. generalize (product rest) as l. intros l.
  induction l as [|t l IHl]; cbn [flat_map length]; [lia|].
  rewrite app_length, map_length, IHl. lia.
Qed.
Print Assumptions product_length.

(* every tuple has one entity per set *)
Corollary product_tuple_length (sets : list (list node)) (t : list node) :
  In t (product sets) -> length t = length sets.
Proof. intros H. apply product_in in H. induction H; cbn [length]; congruence. Qed.

(* ====================================================================================== *)
(* T2  soundness and shape of the result set (C02)                                        *)
(* ====================================================================================== *)
Definition accepts (q : query) (t : list node) : bool :=
  match accepted q t with Accept => true | _ => false end.

Lemma accepts_true q t : accepts q t = true <-> accepted q t = Accept.
Proof. unfold accepts. destruct (accepted q t); split; congruence. Qed.

Theorem results_iff q g t :
  In t (results q g) <-> In t (candidates q g) /\ accepted q t = Accept.
Proof. unfold results. rewrite filter_In. fold (accepts q t). now rewrite accepts_true. Qed.

Theorem results_sound q g t :
  In t (results q g) -> In t (candidates q g) /\ accepted q t = Accept.
Proof. apply results_iff. Qed.
Print Assumptions results_sound.

Theorem results_complete q g t :
  In t (candidates q g) -> accepted q t = Accept -> In t (results q g).
Proof. intros H1 H2. apply results_iff. now split. Qed.
Print Assumptions results_complete.

Lemma nodes_of_kind_in g k n : In n (nodes_of_kind g k) <-> n_type n = k /\ In n g.
Proof.
  unfold nodes_of_kind. rewrite filter_In, bytes_eqb_true. tauto.
Qed.

(* a candidate tuple is exactly: one entity of the graph per FROM item, of that item's kind,
   in FROM order *)
Theorem candidates_iff q g t :
  In t (candidates q g) <-> Forall2 (fun n ka => n_type n = fst ka /\ In n g) t (q_from q).
Proof.
  unfold candidates. rewrite product_in, Forall2_map_r.
  split; apply Forall2_imp; intros n [k a]; cbn [fst]; apply nodes_of_kind_in.
Qed.

Theorem candidates_kinds q g t :
  In t (candidates q g) -> Forall2 (fun n ka => n_type n = fst ka /\ In n g) t (q_from q).
Proof. apply candidates_iff. Qed.
Print Assumptions candidates_kinds.

Corollary candidates_length q g t : In t (candidates q g) -> length t = length (q_from q).
Proof. intros H. apply product_tuple_length in H. now rewrite map_length in H. Qed.

Theorem candidates_nodup q g : NoDup g -> NoDup (candidates q g).
Proof.
  intros Hg. unfold candidates. apply product_nodup. apply Forall_forall.
  intros s Hs. apply in_map_iff in Hs as [[k a] [<- _]]. now apply NoDup_filter.
Qed.

Theorem results_nodup q g : NoDup g -> NoDup (results q g).
Proof. intros Hg. unfold results. apply NoDup_filter. now apply candidates_nodup. Qed.
Print Assumptions results_nodup.

Theorem results_no_where q g : q_where q = None -> results q g = candidates q g.
Proof.
  intros Hw. unfold results. apply filter_all_true. intros t _.
  unfold accepted, condition. rewrite Hw. reflexivity.
Qed.
Print Assumptions results_no_where.

(* the number of candidates is the product of the numbers of entities of each FROM kind *)
Corollary candidates_count q g :
  length (candidates q g)
  = fold_right (fun '(k, _) acc => length (nodes_of_kind g k) * acc) 1 (q_from q).
Proof.
  unfold candidates. rewrite product_length.
  induction (q_from q) as [|[k a] l IH]; cbn [map fold_right]; [reflexivity|]. now rewrite IH.
Qed.

(* ====================================================================================== *)
(* Induction principle for the nested inductive expr / emov                               *)
(* ====================================================================================== *)
Section ExprInd.
  Variable P : expr -> Prop.
  Definition Pmov (m : emov) : Prop :=
    match m with MVar _ => True | MCall _ args => Forall P args end.
  Hypothesis HVal : forall v, P (EVal v).
  Hypothesis HList : forall vs, P (EList vs).
  Hypothesis HChain : forall x ms, Forall Pmov ms -> P (EChain x ms).
  Hypothesis HCall : forall f args, Forall P args -> P (ECall f args).
  Hypothesis HParen : forall a, P a -> P (EParen a).
  Hypothesis HUn : forall o a, P a -> P (EUn o a).
  Hypothesis HBin : forall o a b, P a -> P b -> P (EBin o a b).
  Fixpoint expr_ind' (e : expr) : P e :=
    match e with
    | EVal v => HVal v
    | EList vs => HList vs
    | EChain x ms =>
        HChain x ms
          ((fix gm (ms : list emov) : Forall Pmov ms :=
              match ms with
              | [] => Forall_nil Pmov
              | m :: r =>
                  Forall_cons m
                    (match m return Pmov m with
                     | MVar _ => I
                     | MCall _ args =>
                         (fix ga (l : list expr) : Forall P l :=
                            match l with
                            | [] => Forall_nil P
                            | a :: r' => Forall_cons a (expr_ind' a) (ga r')
                            end) args
                     end) (gm r)
              end) ms)
    | ECall f args =>
        HCall f args
          ((fix ga (l : list expr) : Forall P l :=
              match l with
              | [] => Forall_nil P
              | a :: r' => Forall_cons a (expr_ind' a) (ga r')
              end) args)
    | EParen a => HParen a (expr_ind' a)
    | EUn o a => HUn o a (expr_ind' a)
    | EBin o a b => HBin o a b (expr_ind' a) (expr_ind' b)
    end.
End ExprInd.

(* ====================================================================================== *)
(* Unfolding equations for the nested fixpoints inline / seval                            *)
(* ====================================================================================== *)
Definition chain_of (g : expr -> xexpr) : list emov -> xexpr -> xexpr :=
  fix chain (ms : list emov) (acc : xexpr) {struct ms} : xexpr :=
    match ms with
    | [] => acc
    | MVar f :: r => chain r (XMember acc f)
    | MCall f args :: r => chain r (XCall (XMember acc f) (List.map g args))
    end.

Lemma chain_of_nil g acc : chain_of g [] acc = acc.
Proof. reflexivity. Qed.
Lemma chain_of_MVar g f r acc : chain_of g (MVar f :: r) acc = chain_of g r (XMember acc f).
Proof. reflexivity. Qed.
Lemma chain_of_MCall g f args r acc :
  chain_of g (MCall f args :: r) acc = chain_of g r (XCall (XMember acc f) (List.map g args)).
Proof. reflexivity. Qed.

Lemma inline_EVal d decls active sub v : inline d decls active sub (EVal v) = XVal v.
Proof. destruct d; reflexivity. Qed.
Lemma inline_EList d decls active sub vs : inline d decls active sub (EList vs) = XList vs.
Proof. destruct d; reflexivity. Qed.
Lemma inline_EChain d decls active sub x ms :
  inline d decls active sub (EChain x ms) = chain_of (inline d decls active sub) ms (head_of sub x).
Proof. destruct d; reflexivity. Qed.
Lemma inline_EParen d decls active sub a : inline d decls active sub (EParen a) = XParen (inline d decls active sub a).
Proof. destruct d; reflexivity. Qed.
Lemma inline_EUn d decls active sub o a : inline d decls active sub (EUn o a) = XUn o (inline d decls active sub a).
Proof. destruct d; reflexivity. Qed.
Lemma inline_EBin d decls active sub o a b :
  inline d decls active sub (EBin o a b) = XBin o (inline d decls active sub a) (inline d decls active sub b).
Proof. destruct d; reflexivity. Qed.
Lemma inline_ECall_O decls active sub f args :
  inline 0 decls active sub (ECall f args) = XCall (head_of sub f) (List.map (inline 0 decls active sub) args).
Proof. reflexivity. Qed.
Lemma inline_ECall_S d decls active sub f args :
  inline (S d) decls active sub (ECall f args) =
  if is_active (call_key f (length args)) active
  then XCall (head_of sub f) (List.map (inline (S d) decls active sub) args)
  else
  match find_decl decls f (length args) with
  | Some decl =>
      XParen (inline d decls (call_key f (length args) :: active)
                (combine (List.map snd (pd_params decl))
                         (List.map XParen (List.map (inline (S d) decls active sub) args)))
                (pd_body decl))
  | None => XCall (head_of sub f) (List.map (inline (S d) decls active sub) args)
  end.
Proof. reflexivity. Qed.

Definition connective (e : expr) : bool :=
  match e with
  | EParen _ | EUn UNot _ | EBin BAnd _ _ | EBin BOr _ _ | ECall _ _ => true
  | _ => false
  end.

Lemma seval_atom d decls active env0 env e :
  connective e = false -> seval d decls active env0 env e = atom_eval env0 env e.
Proof.
  destruct d; destruct e as [v|vs|x ms|f args|a|[|] a|[| | | | | | | | | | | |] a b];
    cbn [connective]; intros H; try discriminate H; reflexivity.
Qed.
Lemma seval_EParen d decls active env0 env a :
  seval d decls active env0 env (EParen a) = seval d decls active env0 env a.
Proof. destruct d; reflexivity. Qed.
Lemma seval_UNot d decls active env0 env a :
  seval d decls active env0 env (EUn UNot a) =
  match seval d decls active env0 env a with
  | Val (VB b) => Val (VB (negb b))
  | Val v => wrong_operand v
  | r => r
  end.
Proof. destruct d; reflexivity. Qed.
Lemma seval_BAnd d decls active env0 env a b :
  seval d decls active env0 env (EBin BAnd a b) =
  match seval d decls active env0 env a with
  | Val (VB false) => Val (VB false)
  | Val (VB true) => seval d decls active env0 env b
  | Val v => wrong_operand v
  | r => r
  end.
Proof. destruct d; reflexivity. Qed.
Lemma seval_BOr d decls active env0 env a b :
  seval d decls active env0 env (EBin BOr a b) =
  match seval d decls active env0 env a with
  | Val (VB true) => Val (VB true)
  | Val (VB false) => seval d decls active env0 env b
  | Val v => wrong_operand v
  | r => r
  end.
Proof. destruct d; reflexivity. Qed.
Lemma seval_ECall_O decls active env0 env f args :
  seval 0 decls active env0 env (ECall f args) = OutOfFragment.
Proof. reflexivity. Qed.
Lemma seval_ECall_S d decls active env0 env f args :
  seval (S d) decls active env0 env (ECall f args) =
  if is_active (call_key f (length args)) active then OutOfFragment else
  match find_decl decls f (length args), all_some (List.map (arg_bind env0 env) args) with
  | Some decl, Some bs =>
      seval d decls (call_key f (length args) :: active) env0
            (combine (List.map snd (pd_params decl)) bs) (pd_body decl)
  | _, _ => OutOfFragment
  end.
Proof. reflexivity. Qed.
(* at top level (no formals) an atom is evaluated as it stands *)
Lemma atom_eval_nil env0 e : atom_eval env0 [] e = eval env0 (of_expr e).
Proof. reflexivity. Qed.

(* ====================================================================================== *)
(* T3  expansion by substitution implements call-by-binding (C01, C13)                    *)
(* ====================================================================================== *)
(* no predicate call anywhere, method-call arguments included *)
Fixpoint call_free (e : expr) : bool :=
  match e with
  | EVal _ | EList _ => true
  | EChain _ ms =>
      forallb (fun m => match m with MVar _ => true | MCall _ args => forallb call_free args end) ms
  | ECall _ _ => false
  | EParen a | EUn _ a => call_free a
  | EBin _ a b => call_free a && call_free b
  end.

(* a boolean combination of atoms (call-free expressions) and predicate calls *)
Fixpoint skeleton (e : expr) : bool :=
  match e with
  | EParen a | EUn UNot a => skeleton a
  | EBin BAnd a b | EBin BOr a b => skeleton a && skeleton b
  | ECall _ _ => true
  | _ => call_free e
  end.

Lemma call_free_skeleton e : call_free e = true -> skeleton e = true.
Proof.
  induction e as [v|vs|x ms|f args|a IHa|o a IHa|o a IHa b IHb]; cbn [call_free skeleton]; auto.
  - destruct o; auto.
  - intros H. destruct o; auto; apply andb_prop in H as [Ha Hb]; rewrite IHa, IHb; auto.
Qed.

(* the implementation's substitution [sub] over the FROM environment [env0] represents the
   formals [fe] of the specification: the same names are bound, and the substituted expression
   evaluates (over env0) to what the formal is bound to -- the entity's accessor table, or the
   value of the literal *)
Definition R (env0 : tenv) (sub : subst) (fe : fenv) : Prop :=
  forall x,
    (forall a, lookup x sub = Some a ->
               exists b, lookup x fe = Some b /\ eval env0 a = bind_res b)
    /\ (lookup x sub = None -> lookup x fe = None).

Lemma R_nil env0 : R env0 [] [].
Proof. intros x. split; [intros a H; discriminate H|reflexivity]. Qed.

(* ---------- lookup ---------- *)
Lemma lookup_nil {V} x : @lookup V x [] = None.
Proof. reflexivity. Qed.
Lemma lookup_cons {V} x k (v : V) m :
  lookup x ((k, v) :: m) = if bytes_eqb x k then Some v else lookup x m.
Proof. unfold lookup. cbn [find]. destruct (bytes_eqb x k); reflexivity. Qed.
Lemma lookup_app {V} x (m1 m2 : list (bytes * V)) :
  lookup x (m1 ++ m2) = match lookup x m1 with Some v => Some v | None => lookup x m2 end.
Proof.
  induction m1 as [|[k v] m1 IH]; cbn [app]; [reflexivity|].
  rewrite !lookup_cons. destruct (bytes_eqb x k); [reflexivity|exact IH].
Qed.

(* two association lists over the same keys, with pointwise related values *)
Lemma lookup_combine2 {A B} (P : A -> B -> Prop) (l1 : list A) (l2 : list B) :
  Forall2 P l1 l2 -> forall (ps : list bytes) x,
  match lookup x (combine ps l1), lookup x (combine ps l2) with
  | Some a, Some b => P a b
  | None, None => True
  | _, _ => False
  end.
Proof.
  induction 1 as [|a b l1 l2 Hab Hl IH]; intros [|p ps] x; cbn [combine]; rewrite ?lookup_nil; auto.
  rewrite !lookup_cons. destruct (bytes_eqb x p); [exact Hab|apply IH].
Qed.

(* ---------- eval only looks at the values of the immediate operands ---------- *)
Lemma eval_XParen env a : eval env (XParen a) = eval env a.
Proof. reflexivity. Qed.
Lemma eval_XMember_congr env env' a a' f :
  eval env a = eval env' a' -> eval env (XMember a f) = eval env' (XMember a' f).
Proof. intros H. cbn [eval]. now rewrite H. Qed.
Lemma eval_XUn_congr env env' o a a' :
  eval env a = eval env' a' -> eval env (XUn o a) = eval env' (XUn o a').
Proof. intros H. destruct o; cbn [eval]; now rewrite H. Qed.
Lemma eval_XBin_congr env env' o a a' b b' :
  eval env a = eval env' a' -> eval env b = eval env' b' ->
  eval env (XBin o a b) = eval env' (XBin o a' b').
Proof. intros Ha Hb. destruct o; cbn [eval]; now rewrite Ha, Hb. Qed.
(* a call with arguments never looks at them; a call without arguments looks at the callee *)
Lemma eval_XCall_member_congr env env' a a' f (args args' : list xexpr) :
  eval env a = eval env' a' -> (args = [] <-> args' = []) ->
  eval env (XCall (XMember a f) args) = eval env' (XCall (XMember a' f) args').
Proof.
  intros H Hnil. destruct args as [|x r], args' as [|x' r'].
  - cbn [eval]. now rewrite H.
  - destruct Hnil as [Hn _]. discriminate (Hn eq_refl).
  - destruct Hnil as [_ Hn]. discriminate (Hn eq_refl).
  - reflexivity.
Qed.

Lemma map_nil_iff {A B C} (f : A -> B) (g : A -> C) (l : list A) : map f l = [] <-> map g l = [].
Proof. destruct l; cbn [map]; split; intros H; try discriminate H; reflexivity. Qed.

Lemma eval_chain_congr env env' g g' : forall ms acc acc',
  eval env acc = eval env' acc' ->
  eval env (chain_of g ms acc) = eval env' (chain_of g' ms acc').
Proof.
  induction ms as [|[f|f args] r IH]; intros acc acc' H.
  - exact H.
  - rewrite !chain_of_MVar. apply IH. now apply eval_XMember_congr.
  - rewrite !chain_of_MCall. apply IH. apply eval_XCall_member_congr; [exact H|apply map_nil_iff].
Qed.

(* ---------- names ---------- *)
(* the value of a name inside a body, in the specification: what [flookup] finds *)
Definition name_res (env0 : tenv) (fe : fenv) (x : bytes) : res :=
  match flookup env0 fe x with Some b => bind_res b | None => if expr_builtin x then OutOfFragment else CompErr end.

Lemma lookup_ents_none fe x : lookup x fe = None -> lookup x (ents fe) = None.
Proof.
  induction fe as [|[k [kd n|v]] fe IH]; cbn [ents]; [reflexivity| |];
    rewrite ?lookup_cons; destruct (bytes_eqb x k); try discriminate; exact IH.
Qed.

Lemma lookup_ents_some fe x kd n : lookup x fe = Some (BEnt kd n) -> lookup x (ents fe) = Some (kd, n).
Proof.
  induction fe as [|[k [kd' n'|v]] fe IH]; cbn [ents]; rewrite ?lookup_nil, ?lookup_cons;
    [discriminate| |]; destruct (bytes_eqb x k); try exact IH.
  - intros [= -> ->]. reflexivity.
  - discriminate.
Qed.

Lemma lookup_vsub fe x :
  lookup x (vsub fe)
  = option_map (fun b => match b with BVal v => XParen (XVal v) | BEnt _ _ => XVar x end) (lookup x fe).
Proof.
  induction fe as [|[k b] fe IH]; [reflexivity|].
  cbn [vsub map]. fold (vsub fe). rewrite !lookup_cons.
  destruct (bytes_eqb x k) eqn:E; [|exact IH].
  apply bytes_eqb_true in E. subst k. reflexivity.
Qed.

(* [atom_eval] reads a name as [flookup] does: the first formal of that name decides, then the
   FROM aliases *)
Lemma spec_head env0 fe x :
  eval (ents fe ++ env0) (head_of (vsub fe) x) = name_res env0 fe x.
Proof.
  unfold name_res, flookup, head_of. rewrite lookup_vsub.
  destruct (lookup x fe) as [[kd n|v]|] eqn:E; cbn [option_map eval bind_res].
  - now rewrite lookup_app, (lookup_ents_some fe x kd n E).
  - reflexivity.
  - rewrite lookup_app, (lookup_ents_none fe x E).
    destruct (lookup x env0) as [[kd n]|]; reflexivity.
Qed.

Lemma eval_head env0 sub fe x : R env0 sub fe -> eval env0 (head_of sub x) = name_res env0 fe x.
Proof.
  intros HR. destruct (HR x) as [HS HN]. unfold head_of, name_res, flookup.
  destruct (lookup x sub) as [a|].
  - destruct (HS a eq_refl) as [b [-> He]]. exact He.
  - rewrite (HN eq_refl). cbn [eval]. destruct (lookup x env0) as [[k n]|]; reflexivity.
Qed.

(* atoms: the substituted expression over the FROM environment has the value the specification
   gives the plain expression under the bindings of the formals *)
Lemma inline_atom d decls active env0 sub env e :
  call_free e = true -> R env0 sub env ->
  eval env0 (inline d decls active sub e) = atom_eval env0 env e.
Proof.
  intros Hcf HR. unfold atom_eval.
  induction e as [v|vs|x ms|f args|a IHa|o a IHa|o a IHa b IHb]; cbn [call_free] in Hcf.
  - now rewrite !inline_EVal.
  - now rewrite !inline_EList.
  - rewrite !inline_EChain. apply eval_chain_congr.
    rewrite spec_head. now apply eval_head.
  - discriminate Hcf.
  - rewrite !inline_EParen. cbn [eval]. now apply IHa.
  - rewrite !inline_EUn. apply eval_XUn_congr. now apply IHa.
  - apply andb_prop in Hcf as [Ha Hb]. rewrite !inline_EBin. apply eval_XBin_congr; auto.
Qed.

(* conservative over the entity-only reading: when every formal is bound to an entity, an atom is
   the plain expression evaluated in the FROM environment extended by the formals *)
Definition all_entities (fe : fenv) : bool :=
  forallb (fun '(_, b) => match b with BEnt _ _ => true | BVal _ => false end) fe.

Lemma lookup_in {V} x (m : list (bytes * V)) v : lookup x m = Some v -> exists k, In (k, v) m.
Proof.
  induction m as [|[k w] m IH]; rewrite ?lookup_nil, ?lookup_cons; [discriminate|].
  destruct (bytes_eqb x k).
  - intros [= ->]. exists k. now left.
  - intros H. destruct (IH H) as [k' Hk']. exists k'. now right.
Qed.

Lemma atom_eval_entities env0 fe e :
  call_free e = true -> all_entities fe = true ->
  atom_eval env0 fe e = eval (ents fe ++ env0) (of_expr e).
Proof.
  intros Hcf Hfe. unfold atom_eval, of_expr.
  induction e as [v|vs|x ms|f args|a IHa|o a IHa|o a IHa b IHb]; cbn [call_free] in Hcf.
  - now rewrite !inline_EVal.
  - now rewrite !inline_EList.
  - rewrite !inline_EChain. apply eval_chain_congr. rewrite spec_head.
    unfold head_of at 1. rewrite lookup_nil. unfold name_res, flookup. cbn [eval]. rewrite lookup_app.
    destruct (lookup x fe) as [[kd n|v]|] eqn:E.
    + now rewrite (lookup_ents_some fe x kd n E).
    + apply lookup_in in E as [k Hk]. unfold all_entities in Hfe. rewrite forallb_forall in Hfe.
      discriminate (Hfe _ Hk).
    + rewrite (lookup_ents_none fe x E). destruct (lookup x env0) as [[kd n]|]; reflexivity.
  - discriminate Hcf.
  - rewrite !inline_EParen. cbn [eval]. now apply IHa.
  - rewrite !inline_EUn. apply eval_XUn_congr. now apply IHa.
  - apply andb_prop in Hcf as [Ha Hb]. rewrite !inline_EBin. apply eval_XBin_congr; auto.
Qed.

(* what an argument denotes is what its substituted text evaluates to *)
Lemma arg_bind_eval d decls active env0 sub env : R env0 sub env -> forall a b,
  arg_bind env0 env a = Some b -> eval env0 (inline d decls active sub a) = bind_res b.
Proof.
  intros HR.
  induction a as [v|vs|x ms|f args|a IHa|o a IHa|o a IHa b' IHb]; intros b Ea; cbn [arg_bind] in Ea;
    try discriminate Ea.
  - injection Ea as <-. now rewrite inline_EVal.
  - destruct ms as [|m ms]; [|discriminate Ea].
    rewrite inline_EChain, chain_of_nil, (eval_head env0 sub env x HR).
    unfold name_res. now rewrite Ea.
  - rewrite inline_EParen, eval_XParen. now apply IHa.
Qed.

Lemma args_binds d decls active env0 sub env : R env0 sub env -> forall args bs,
  all_some (List.map (arg_bind env0 env) args) = Some bs ->
  Forall2 (fun a b => eval env0 a = bind_res b)
          (List.map XParen (List.map (inline d decls active sub) args)) bs.
Proof.
  intros HR. induction args as [|a args IH]; intros bs H; cbn [map all_some] in H |- *.
  - injection H as <-. constructor.
  - destruct (arg_bind env0 env a) as [b|] eqn:Ea; [|discriminate H].
    destruct (all_some (map (arg_bind env0 env) args)) as [bs'|]; [|discriminate H].
    cbn [option_map] in H. injection H as <-. constructor; [|now apply IH].
    rewrite eval_XParen. now apply arg_bind_eval with (env := env).
Qed.

Lemma R_call env0 (params : list bytes) (xs : list xexpr) (bs : list bind) :
  Forall2 (fun a b => eval env0 a = bind_res b) xs bs ->
  R env0 (combine params xs) (combine params bs).
Proof.
  intros HF x. pose proof (lookup_combine2 _ _ _ HF params x) as H.
  split.
  - intros a Ha. rewrite Ha in H. destruct (lookup x (combine params bs)) as [b|]; [|destruct H].
    exists b. split; [reflexivity|exact H].
  - intros Hn. rewrite Hn in H. destruct (lookup x (combine params bs)); [destruct H|reflexivity].
Qed.

Lemma find_decl_in decls f n decl : find_decl decls f n = Some decl -> In decl decls.
Proof. unfold find_decl. intros H. now apply find_some in H as [H _]. Qed.

Lemma inline_seval_step d decls env0
  (Hdecls : forall decl, In decl decls -> skeleton (pd_body decl) = true)
  (IHd : forall d', d = S d' -> forall active e sub env,
         skeleton e = true -> R env0 sub env ->
         seval d' decls active env0 env e <> OutOfFragment ->
         eval env0 (inline d' decls active sub e) = seval d' decls active env0 env e) :
  forall active e sub env,
    skeleton e = true -> R env0 sub env ->
    seval d decls active env0 env e <> OutOfFragment ->
    eval env0 (inline d decls active sub e) = seval d decls active env0 env e.
Proof.
  intros active.
  induction e as [v|vs|x ms|f args|a IHa|o a IHa|o a IHa b IHb]; intros sub env Hsk HR Hr.
  - rewrite seval_atom by reflexivity. now apply inline_atom.
  - rewrite seval_atom by reflexivity. now apply inline_atom.
  - rewrite seval_atom by reflexivity. now apply inline_atom.
  - destruct d as [|d']; [rewrite seval_ECall_O in Hr; now destruct Hr|].
    rewrite seval_ECall_S in Hr |- *. rewrite inline_ECall_S.
    destruct (is_active (call_key f (length args)) active); [now destruct Hr|].
    destruct (find_decl decls f (length args)) as [decl|] eqn:Ef; [|now destruct Hr].
    destruct (all_some (map (arg_bind env0 env) args)) as [bs|] eqn:Ea; [|now destruct Hr].
    rewrite eval_XParen. apply (IHd d' eq_refl).
    + apply Hdecls. eapply find_decl_in, Ef.
    + apply R_call. now apply args_binds with (env := env).
    + exact Hr.
  - rewrite seval_EParen in Hr |- *. rewrite inline_EParen, eval_XParen. now apply IHa.
  - destruct o.
    + cbn [skeleton] in Hsk. rewrite seval_UNot in Hr |- *. rewrite inline_EUn. cbn [eval].
      assert (Ha : seval d decls active env0 env a <> OutOfFragment).
      { intros E. rewrite E in Hr. now apply Hr. }
      now rewrite (IHa sub env Hsk HR Ha).
    + rewrite seval_atom by reflexivity. now apply inline_atom.
  - destruct o; try (rewrite seval_atom by reflexivity; now apply inline_atom).
    + cbn [skeleton] in Hsk. apply andb_prop in Hsk as [Ha Hb].
      rewrite seval_BOr in Hr |- *. rewrite inline_EBin. cbn [eval].
      assert (Hra : seval d decls active env0 env a <> OutOfFragment).
      { intros E. rewrite E in Hr. now apply Hr. }
      rewrite (IHa sub env Ha HR Hra).
      destruct (seval d decls active env0 env a) as [[s|z|[|]| |l|p q n|p n|tag]| | |]; try reflexivity.
      now apply IHb.
    + cbn [skeleton] in Hsk. apply andb_prop in Hsk as [Ha Hb].
      rewrite seval_BAnd in Hr |- *. rewrite inline_EBin. cbn [eval].
      assert (Hra : seval d decls active env0 env a <> OutOfFragment).
      { intros E. rewrite E in Hr. now apply Hr. }
      rewrite (IHa sub env Ha HR Hra).
      destruct (seval d decls active env0 env a) as [[s|z|[|]| |l|p q n|p n|tag]| | |]; try reflexivity.
      now apply IHb.
Qed.

Theorem inline_seval : forall d decls active env0,
  (forall decl, In decl decls -> skeleton (pd_body decl) = true) ->
  forall e sub env, skeleton e = true -> R env0 sub env ->
  forall r, seval d decls active env0 env e = r -> r <> OutOfFragment ->
  eval env0 (inline d decls active sub e) = r.
Proof.
  intros d decls active env0 Hdecls. revert active.
  assert (H : forall active e sub env, skeleton e = true -> R env0 sub env ->
              seval d decls active env0 env e <> OutOfFragment ->
              eval env0 (inline d decls active sub e) = seval d decls active env0 env e).
  { induction d as [|d IH]; apply inline_seval_step; try exact Hdecls.
    - intros d' E. discriminate E.
    - intros d' E. injection E as <-. exact IH. }
  intros active e sub env Hsk HR r <- Hr. now apply H.
Qed.
Print Assumptions inline_seval.

(* ---------- corollaries on queries ---------- *)
Definition wf_query (q : query) : bool :=
  match q_where q with Some e => skeleton e | None => true end
  && forallb (fun decl => skeleton (pd_body decl)) (q_preds q).

(* the specification value of a condition on a tuple *)
Definition sv (q : query) (t : list node) (e : expr) : res :=
  seval (fuel_of (q_preds q)) (q_preds q) [] (tuple_env q t) [] e.

(* the expanded condition passes the static checker on this tuple (no compile error, in fragment) *)
Definition static_ok (q : query) (t : list node) : Prop :=
  forall c, condition q = Some c -> exists ty, static (tuple_env q t) c = SOk ty.

Lemma condition_eval_sv q t e :
  wf_query q = true -> q_where q = Some e -> sv q t e <> OutOfFragment ->
  eval (tuple_env q t) (inline (fuel_of (q_preds q)) (q_preds q) [] [] e) = sv q t e.
Proof.
  unfold wf_query. intros Hwf Hw Hr. rewrite Hw in Hwf. apply andb_prop in Hwf as [Hsk Hd].
  rewrite forallb_forall in Hd.
  apply (inline_seval (fuel_of (q_preds q)) (q_preds q) [] (tuple_env q t) Hd e [] [] Hsk (R_nil _)
           (sv q t e) eq_refl Hr).
Qed.

Theorem accepted_refines_spec : forall q t,
  wf_query q = true -> spec_accepted q t <> Unknown -> static_ok q t ->
  accepted q t = spec_accepted q t.
Proof.
  intros q t Hwf Hu Hn. unfold accepted, spec_accepted, static_ok, condition in *.
  destruct (q_where q) as [e|] eqn:Hw; [|reflexivity].
  fold (sv q t e) in Hu |- *. unfold filter_verdict. destruct (Hn _ eq_refl) as [ty ->].
  rewrite (condition_eval_sv q t e Hwf Hw); [reflexivity|].
  intros E. rewrite E in Hu. now apply Hu.
Qed.
Print Assumptions accepted_refines_spec.

(* no missed matches, no spurious matches *)
Theorem results_refine_spec q g :
  wf_query q = true ->
  (forall t, In t (candidates q g) -> spec_accepted q t <> Unknown /\ static_ok q t) ->
  results q g = spec_results q g.
Proof.
  intros Hwf H. unfold results, spec_results. apply filter_ext_in. intros t Ht.
  destruct (H t Ht) as [Hu Hn]. now rewrite accepted_refines_spec.
Qed.
Print Assumptions results_refine_spec.

(* ====================================================================================== *)
(* T4  boolean connectives as set operations (C12), over the specification semantics      *)
(* ====================================================================================== *)
Definition with_where (q : query) (w : option expr) : query :=
  {| q_preds := q_preds q; q_from := q_from q; q_where := w; q_select := q_select q |}.

Lemma candidates_with_where q w g : candidates (with_where q w) g = candidates q g.
Proof. reflexivity. Qed.
Lemma tuple_env_with_where q w t : tuple_env (with_where q w) t = tuple_env q t.
Proof. reflexivity. Qed.
Lemma sv_with_where q w t e : sv (with_where q w) t e = sv q t e.
Proof. reflexivity. Qed.

(* A evaluates to a boolean on every candidate *)
Definition total (q : query) (g : list node) (A : expr) : Prop :=
  forall t, In t (candidates q g) -> exists b, sv q t A = Val (VB b).

Lemma spec_results_where q g A t :
  In t (spec_results (with_where q (Some A)) g) <-> In t (candidates q g) /\ sv q t A = Val (VB true).
Proof.
  unfold spec_results, spec_accepted. rewrite filter_In, candidates_with_where.
  cbn [q_where with_where]. fold (sv (with_where q (Some A)) t A). rewrite sv_with_where.
  destruct (sv q t A) as [[s|z|[|]| |l|p r n|p n|tag]| | |];
    split; intros [H1 H2]; split; auto; discriminate H2.
Qed.

Lemma spec_results_none q g : spec_results (with_where q None) g = candidates q g.
Proof. unfold spec_results. apply filter_all_true. intros t _. reflexivity. Qed.

Lemma sv_and q t A B :
  sv q t (EBin BAnd A B) = Val (VB true) <-> sv q t A = Val (VB true) /\ sv q t B = Val (VB true).
Proof.
  unfold sv. rewrite seval_BAnd.
  destruct (seval (fuel_of (q_preds q)) (q_preds q) [] (tuple_env q t) [] A)
    as [[s|z|[|]| |l|p r n|p n|tag]| | |]; cbn [wrong_operand plain];
    split; try (intros [H1 H2]); try intros H; try discriminate; auto.
Qed.

Lemma sv_or q t A B :
  sv q t (EBin BOr A B) = Val (VB true) <->
  sv q t A = Val (VB true) \/ (sv q t A = Val (VB false) /\ sv q t B = Val (VB true)).
Proof.
  unfold sv. rewrite seval_BOr.
  destruct (seval (fuel_of (q_preds q)) (q_preds q) [] (tuple_env q t) [] A)
    as [[s|z|[|]| |l|p r n|p n|tag]| | |]; cbn [wrong_operand plain];
    split; try (intros [H|[H1 H2]]); try intros H; try discriminate; auto.
Qed.

Lemma sv_not q t A : sv q t (EUn UNot A) = Val (VB true) <-> sv q t A = Val (VB false).
Proof.
  unfold sv. rewrite seval_UNot.
  destruct (seval (fuel_of (q_preds q)) (q_preds q) [] (tuple_env q t) [] A)
    as [[s|z|[|]| |l|p r n|p n|tag]| | |]; cbn [wrong_operand plain negb];
    split; intros H; try discriminate; auto.
Qed.

(* conjunction is intersection: no hypothesis needed *)
Theorem spec_and q g A B t :
  In t (spec_results (with_where q (Some (EBin BAnd A B))) g) <->
  In t (spec_results (with_where q (Some A)) g) /\ In t (spec_results (with_where q (Some B)) g).
Proof. rewrite !spec_results_where, sv_and. tauto. Qed.
Print Assumptions spec_and.

Definition spec_accepts (q : query) (t : list node) : bool :=
  match spec_accepted q t with Accept => true | _ => false end.

Lemma spec_accepts_where q A t :
  spec_accepts (with_where q (Some A)) t = true <-> sv q t A = Val (VB true).
Proof.
  unfold spec_accepts, spec_accepted. cbn [q_where with_where].
  fold (sv (with_where q (Some A)) t A). rewrite sv_with_where.
  destruct (sv q t A) as [[s|z|[|]| |l|p r n|p n|tag]| | |]; split; intros H; auto; discriminate H.
Qed.

Lemma filter_filter {A} (f h : A -> bool) (l : list A) :
  filter f (filter h l) = filter (fun x => h x && f x) l.
Proof.
  induction l as [|a l IH]; cbn [filter]; [reflexivity|].
  destruct (h a); cbn [andb filter]; [destruct (f a)|]; now rewrite IH.
Qed.

(* list form: the results of A && B are the results of A that B accepts, in the same order *)
Theorem spec_and_filter q g A B :
  spec_results (with_where q (Some (EBin BAnd A B))) g
  = filter (spec_accepts (with_where q (Some B))) (spec_results (with_where q (Some A)) g).
Proof.
  unfold spec_results at 1 2. fold (spec_accepts (with_where q (Some (EBin BAnd A B)))).
  fold (spec_accepts (with_where q (Some A))). rewrite filter_filter, !candidates_with_where.
  apply filter_ext. intros t. apply eq_true_iff_eq.
  rewrite andb_true_iff, !spec_accepts_where. apply sv_and.
Qed.
Print Assumptions spec_and_filter.

(* disjunction is union, provided the left operand is total *)
Theorem spec_or q g A B t :
  total q g A ->
  (In t (spec_results (with_where q (Some (EBin BOr A B))) g) <->
   In t (spec_results (with_where q (Some A)) g) \/ In t (spec_results (with_where q (Some B)) g)).
Proof.
  intros HA. rewrite !spec_results_where, sv_or. split.
  - intros [Hc [H|[_ H]]]; auto.
  - intros [[Hc H]|[Hc H]]; split; auto.
    destruct (HA t Hc) as [[|] Hb]; auto.
Qed.
Print Assumptions spec_or.

(* negation is complement in the candidates, provided the operand is total *)
Theorem spec_not q g A t :
  total q g A ->
  (In t (spec_results (with_where q (Some (EUn UNot A))) g) <->
   In t (candidates (with_where q None) g) /\ ~ In t (spec_results (with_where q (Some A)) g)).
Proof.
  intros HA. rewrite !spec_results_where, sv_not, candidates_with_where. split.
  - intros [Hc H]. split; [exact Hc|]. intros [_ H']. rewrite H in H'. discriminate H'.
  - intros [Hc H]. split; [exact Hc|]. destruct (HA t Hc) as [[|] Hb]; [|exact Hb].
    exfalso. apply H. now split.
Qed.
Print Assumptions spec_not.

(* conditions with the same specification value on every candidate select the same tuples *)
Theorem spec_equiv q g A B :
  (forall t, In t (candidates q g) -> sv q t A = sv q t B) ->
  spec_results (with_where q (Some A)) g = spec_results (with_where q (Some B)) g.
Proof.
  intros H. unfold spec_results. rewrite !candidates_with_where. apply filter_ext_in.
  intros t Ht. unfold spec_accepted. cbn [q_where with_where].
  fold (sv (with_where q (Some A)) t A). fold (sv (with_where q (Some B)) t B).
  rewrite !sv_with_where, (H t Ht). reflexivity.
Qed.
Print Assumptions spec_equiv.

(* it is enough that they are true on the same candidates *)
Theorem spec_equiv_true q g A B :
  (forall t, In t (candidates q g) -> sv q t A = Val (VB true) <-> sv q t B = Val (VB true)) ->
  spec_results (with_where q (Some A)) g = spec_results (with_where q (Some B)) g.
Proof.
  intros H. unfold spec_results. rewrite !candidates_with_where. apply filter_ext_in.
  intros t Ht. fold (spec_accepts (with_where q (Some A)) t). fold (spec_accepts (with_where q (Some B)) t).
  apply eq_true_iff_eq. rewrite !spec_accepts_where. now apply H.
Qed.

Theorem spec_paren q g A :
  spec_results (with_where q (Some (EParen A))) g = spec_results (with_where q (Some A)) g.
Proof. apply spec_equiv. intros t _. unfold sv. now rewrite seval_EParen. Qed.
Print Assumptions spec_paren.

(* ---------- De Morgan, double negation, commutativity ---------- *)
Ltac sv_cases q t A :=
  destruct (seval (fuel_of (q_preds q)) (q_preds q) [] (tuple_env q t) [] A)
    as [[?|?|[|]| |?|? ? ?|? ?|?]| | |]; cbn [wrong_operand plain negb]; try reflexivity.

(* pointwise, and unconditional: both sides evaluate A, then B, and fail alike *)
Lemma sv_de_morgan_and q t A B :
  sv q t (EUn UNot (EBin BAnd A B)) = sv q t (EBin BOr (EUn UNot A) (EUn UNot B)).
Proof.
  unfold sv. rewrite seval_UNot, seval_BAnd, seval_BOr, !seval_UNot.
  sv_cases q t A.
Qed.
Lemma sv_de_morgan_or q t A B :
  sv q t (EUn UNot (EBin BOr A B)) = sv q t (EBin BAnd (EUn UNot A) (EUn UNot B)).
Proof.
  unfold sv. rewrite seval_UNot, seval_BOr, seval_BAnd, !seval_UNot.
  sv_cases q t A.
Qed.

Corollary spec_de_morgan_and q g A B :
  spec_results (with_where q (Some (EUn UNot (EBin BAnd A B)))) g
  = spec_results (with_where q (Some (EBin BOr (EUn UNot A) (EUn UNot B)))) g.
Proof. apply spec_equiv. intros t _. apply sv_de_morgan_and. Qed.
Print Assumptions spec_de_morgan_and.

Corollary spec_de_morgan_or q g A B :
  spec_results (with_where q (Some (EUn UNot (EBin BOr A B)))) g
  = spec_results (with_where q (Some (EBin BAnd (EUn UNot A) (EUn UNot B)))) g.
Proof. apply spec_equiv. intros t _. apply sv_de_morgan_or. Qed.
Print Assumptions spec_de_morgan_or.

(* double negation: pointwise on a boolean, and for the result set unconditionally *)
Lemma sv_not_not q t A b : sv q t A = Val (VB b) -> sv q t (EUn UNot (EUn UNot A)) = sv q t A.
Proof.
  unfold sv. intros H. rewrite !seval_UNot, H. now rewrite negb_involutive.
Qed.

Corollary spec_not_not_total q g A :
  total q g A ->
  spec_results (with_where q (Some (EUn UNot (EUn UNot A)))) g = spec_results (with_where q (Some A)) g.
Proof.
  intros HA. apply spec_equiv. intros t Ht. destruct (HA t Ht) as [b Hb]. now apply sv_not_not with b.
Qed.

Corollary spec_not_not q g A :
  spec_results (with_where q (Some (EUn UNot (EUn UNot A)))) g = spec_results (with_where q (Some A)) g.
Proof.
  apply spec_equiv_true. intros t _. rewrite !sv_not. unfold sv. rewrite seval_UNot.
  sv_cases q t A; split; intros H; try discriminate H; reflexivity.
Qed.
Print Assumptions spec_not_not.

(* with both operands total the connectives commute (as sets of results) *)
Corollary spec_or_comm q g A B t :
  total q g A -> total q g B ->
  (In t (spec_results (with_where q (Some (EBin BOr A B))) g) <->
   In t (spec_results (with_where q (Some (EBin BOr B A))) g)).
Proof. intros HA HB. rewrite (spec_or q g A B t HA), (spec_or q g B A t HB). tauto. Qed.

Corollary spec_and_comm q g A B t :
  In t (spec_results (with_where q (Some (EBin BAnd A B))) g) <->
  In t (spec_results (with_where q (Some (EBin BAnd B A))) g).
Proof. rewrite !spec_and. tauto. Qed.

(* ====================================================================================== *)
(* T5  the text-level expansion prints the AST-level expansion                            *)
(* ====================================================================================== *)
(* an xexpr as the space-separable pieces ExpandedCondition would write *)
Fixpoint xprint (e : xexpr) : list bytes :=
  match e with
  | XVal v => [value_text v]
  | XList vs => "[" :: sep_pieces "," (List.map (fun v => [value_text v]) vs) ++ ["]"]
  | XVar x => [x]
  | XMember a f => xprint a ++ ["."; f]
  | XCall a args => xprint a ++ "(" :: sep_pieces "," (List.map xprint args) ++ [")"]
  | XParen a => "(" :: xprint a ++ [")"]
  | XUn o a => unop_text o :: xprint a
  | XBin o a b => xprint a ++ binop_text o :: xprint b
  end.

(* a substituted argument is ONE piece of text in [emit]: the pieces of its expansion joined *)
Definition tsub_of (sub : subst) : tsubst :=
  List.map (fun '(x, a) => (x, join " " (xprint a))) sub.

Lemma xprint_nonempty e : xprint e <> [].
Proof.
  destruct e; cbn [xprint]; try discriminate;
    match goal with |- ?a ++ _ <> [] => destruct a; discriminate end.
Qed.

(* ---------- join ---------- *)
Lemma join_cons sep x r : r <> [] -> join sep (x :: r) = x ++ sep ++ join sep r.
Proof. destruct r; [congruence|reflexivity]. Qed.

Lemma join_app sep l1 l2 :
  l1 <> [] -> l2 <> [] -> join sep (l1 ++ l2) = join sep l1 ++ sep ++ join sep l2.
Proof.
  intros H1 H2. induction l1 as [|x [|y r] IH]; [congruence| |].
  - cbn [app]. now rewrite join_cons.
  - change ((x :: y :: r) ++ l2) with (x :: (y :: r) ++ l2).
    rewrite join_cons by discriminate. rewrite IH by discriminate.
    rewrite (join_cons sep x (y :: r)) by discriminate. now rewrite <- !app_assoc.
Qed.

Lemma join_paren l : l <> [] -> join " " ("(" :: l ++ [")"]) = "( " ++ join " " l ++ " )".
Proof.
  intros H. rewrite join_cons by (destruct l; discriminate).
  rewrite join_app by (assumption || discriminate). reflexivity.
Qed.

(* two piece lists that read the same once joined by single spaces *)
Definition peq (l1 l2 : list bytes) : Prop :=
  (l1 = [] <-> l2 = []) /\ join " " l1 = join " " l2.

Lemma peq_refl l : peq l l.
Proof. split; [tauto|reflexivity]. Qed.

Lemma peq_app a a' b b' : peq a a' -> peq b b' -> peq (a ++ b) (a' ++ b').
Proof.
  intros [Na Ja] [Nb Jb].
  destruct a as [|x a].
  { rewrite (proj1 Na eq_refl). cbn [app]. now split. }
  destruct a' as [|x' a']; [destruct Na as [_ Na]; discriminate (Na eq_refl)|].
  destruct b as [|y b].
  { rewrite (proj1 Nb eq_refl), !app_nil_r. split; [split; discriminate|exact Ja]. }
  destruct b' as [|y' b']; [destruct Nb as [_ Nb]; discriminate (Nb eq_refl)|].
  split; [split; discriminate|].
  rewrite !join_app by discriminate. now rewrite Ja, Jb.
Qed.

Lemma peq_cons x l l' : peq l l' -> peq (x :: l) (x :: l').
Proof. intros H. apply (peq_app [x] [x] l l' (peq_refl _) H). Qed.

Lemma peq_single l : l <> [] -> peq [join " " l] l.
Proof. intros H. split; [split; [discriminate|congruence]|reflexivity]. Qed.

Lemma sep_pieces_cons2 sep x y r :
  sep_pieces sep (x :: y :: r) = x ++ sep :: sep_pieces sep (y :: r).
Proof. reflexivity. Qed.

Lemma sep_peq sep l l' : Forall2 peq l l' -> peq (sep_pieces sep l) (sep_pieces sep l').
Proof.
  induction 1 as [|x x' l l' Hx Hl IH]; [apply peq_refl|].
  destruct Hl as [|y y' r r' Hy Hr]; [exact Hx|].
  rewrite !sep_pieces_cons2. apply peq_app; [exact Hx|]. apply peq_cons. exact IH.
Qed.

Lemma Forall_Forall2_map {A B C} (P : B -> C -> Prop) (f : A -> B) (h : A -> C) (l : list A) :
  Forall (fun a => P (f a) (h a)) l -> Forall2 P (List.map f l) (List.map h l).
Proof. induction 1; cbn [map]; constructor; assumption. Qed.

(* ---------- unfolding equations for emit ---------- *)
Definition emit_chain (g : expr -> list bytes) : list emov -> list bytes :=
  fix chain (ms : list emov) {struct ms} : list bytes :=
    match ms with
    | [] => []
    | MVar f :: r => "." :: f :: chain r
    | MCall f args :: r => "." :: f :: "(" :: sep_pieces "," (List.map g args) ++ ")" :: chain r
    end.

Lemma emit_EVal d decls active sub v : emit d decls active sub (EVal v) = [value_text v].
Proof. destruct d; reflexivity. Qed.
Lemma emit_EList d decls active sub vs :
  emit d decls active sub (EList vs) = "[" :: sep_pieces "," (List.map (fun v => [value_text v]) vs) ++ ["]"].
Proof. destruct d; reflexivity. Qed.
Lemma emit_EChain d decls active sub x ms :
  emit d decls active sub (EChain x ms) = head_text sub x :: emit_chain (emit d decls active sub) ms.
Proof. destruct d; reflexivity. Qed.
Lemma emit_EParen d decls active sub a : emit d decls active sub (EParen a) = "(" :: emit d decls active sub a ++ [")"].
Proof. destruct d; reflexivity. Qed.
Lemma emit_EUn d decls active sub o a : emit d decls active sub (EUn o a) = unop_text o :: emit d decls active sub a.
Proof. destruct d; reflexivity. Qed.
Lemma emit_EBin d decls active sub o a b :
  emit d decls active sub (EBin o a b) = emit d decls active sub a ++ binop_text o :: emit d decls active sub b.
Proof. destruct d; reflexivity. Qed.
Lemma emit_ECall_O decls active sub f args :
  emit 0 decls active sub (ECall f args)
  = head_text sub f :: "(" :: sep_pieces "," (List.map (emit 0 decls active sub) args) ++ [")"].
Proof. reflexivity. Qed.
Lemma emit_ECall_S d decls active sub f args :
  emit (S d) decls active sub (ECall f args) =
  if is_active (call_key f (length args)) active
  then head_text sub f :: "(" :: sep_pieces "," (List.map (emit (S d) decls active sub) args) ++ [")"]
  else
  match find_decl decls f (length args) with
  | Some decl =>
      "(" :: emit d decls (call_key f (length args) :: active)
               (combine (List.map snd (pd_params decl))
                        (List.map (fun a => "( " ++ join " " (emit (S d) decls active sub a) ++ " )") args))
               (pd_body decl) ++ [")"]
  | None => head_text sub f :: "(" :: sep_pieces "," (List.map (emit (S d) decls active sub) args) ++ [")"]
  end.
Proof.
  change (emit (S d) decls active sub (ECall f args)) with
    (match
        (if is_active (call_key f (length args)) active then None else
        match find_decl decls f (length args) with
        | Some decl =>
            Some ("(" :: emit d decls (call_key f (length args) :: active)
                    (combine (List.map snd (pd_params decl))
                       (List.map (fun a => "( " ++ join " " (emit (S d) decls active sub a) ++ " )") args))
                    (pd_body decl) ++ [")"])
        | None => None
        end)
      with
      | Some p => p
      | None => head_text sub f :: "(" :: sep_pieces "," (List.map (emit (S d) decls active sub) args) ++ [")"]
      end).
  destruct (is_active (call_key f (length args)) active); [reflexivity|].
  destruct (find_decl decls f (length args)); reflexivity.
Qed.

(* ---------- substitutions ---------- *)
Lemma lookup_tsub_of sub x :
  lookup x (tsub_of sub) = option_map (fun a => join " " (xprint a)) (lookup x sub).
Proof.
  induction sub as [|[k a] sub IH]; [reflexivity|].
  cbn [tsub_of map]. fold (tsub_of sub). rewrite !lookup_cons.
  destruct (bytes_eqb x k); [reflexivity|exact IH].
Qed.

Lemma head_peq sub x : peq [head_text (tsub_of sub) x] (xprint (head_of sub x)).
Proof.
  unfold head_text, head_of. rewrite lookup_tsub_of.
  destruct (lookup x sub) as [a|]; cbn [option_map xprint]; [|apply peq_refl].
  apply peq_single, xprint_nonempty.
Qed.

Lemma tsub_of_combine (ps : list bytes) (xs : list xexpr) :
  tsub_of (combine ps xs) = combine ps (List.map (fun a => join " " (xprint a)) xs).
Proof.
  revert xs. induction ps as [|p ps IH]; intros [|a xs]; cbn [combine map tsub_of]; try reflexivity.
  f_equal. apply IH.
Qed.

(* what [inline] itself creates: every substituted expression is parenthesised, and its text
   is "( " ++ text ++ " )" *)
Lemma tsub_of_paren (sub : subst) :
  tsub_of (List.map (fun '(x, a) => (x, XParen a)) sub)
  = List.map (fun '(x, a) => (x, "( " ++ join " " (xprint a) ++ " )")) sub.
Proof.
  unfold tsub_of. rewrite map_map. apply map_ext. intros [x a]. f_equal.
  cbn [xprint]. apply join_paren, xprint_nonempty.
Qed.

(* ---------- the step ---------- *)
Section EmitInline.
  Variables (d : nat) (decls : list pred_decl) (active : list bytes).
  Let P (e : expr) : Prop :=
    forall sub, peq (emit d decls active (tsub_of sub) e) (xprint (inline d decls active sub e)).

  Lemma args_peq sub args : Forall P args ->
    peq (sep_pieces "," (List.map (emit d decls active (tsub_of sub)) args))
        (sep_pieces "," (List.map xprint (List.map (inline d decls active sub) args))).
  Proof.
    intros H. apply sep_peq. rewrite map_map.
    apply Forall_Forall2_map with (f := emit d decls active (tsub_of sub))
                                  (h := fun a => xprint (inline d decls active sub a)).
    revert H. apply Forall_impl. intros a Ha. apply Ha.
  Qed.

  Lemma chain_peq sub : forall ms, Forall (Pmov P) ms -> forall acc pre,
    peq pre (xprint acc) ->
    peq (pre ++ emit_chain (emit d decls active (tsub_of sub)) ms)
        (xprint (chain_of (inline d decls active sub) ms acc)).
  Proof.
    induction ms as [|[f|f args] r IH]; intros HF acc pre Hpre.
    - cbn [emit_chain]. rewrite app_nil_r. exact Hpre.
    - inversion HF as [|? ? _ Hr]; subst. rewrite chain_of_MVar.
      change (emit_chain (emit d decls active (tsub_of sub)) (MVar f :: r))
        with (["."; f] ++ emit_chain (emit d decls active (tsub_of sub)) r).
      rewrite app_assoc. apply (IH Hr). cbn [xprint]. apply peq_app; [exact Hpre|apply peq_refl].
    - inversion HF as [|? ? Hargs Hr]; subst. cbn [Pmov] in Hargs. rewrite chain_of_MCall.
      change (emit_chain (emit d decls active (tsub_of sub)) (MCall f args :: r))
        with ("." :: f :: "(" :: sep_pieces "," (List.map (emit d decls active (tsub_of sub)) args)
                ++ ")" :: emit_chain (emit d decls active (tsub_of sub)) r).
      replace (pre ++ "." :: f :: "(" :: sep_pieces "," (List.map (emit d decls active (tsub_of sub)) args)
                ++ ")" :: emit_chain (emit d decls active (tsub_of sub)) r)
        with ((pre ++ ["."; f] ++ "(" :: sep_pieces "," (List.map (emit d decls active (tsub_of sub)) args)
                ++ [")"]) ++ emit_chain (emit d decls active (tsub_of sub)) r)
        by (rewrite <- !app_assoc; cbn [app]; rewrite <- !app_assoc; reflexivity).
      apply (IH Hr). cbn [xprint]. rewrite <- app_assoc.
      apply peq_app; [exact Hpre|]. apply peq_app; [apply peq_refl|].
      apply peq_cons. apply peq_app; [|apply peq_refl]. now apply args_peq.
  Qed.
End EmitInline.

Lemma emit_inline_step d decls
  (IHd : forall d', d = S d' -> forall active e sub,
         peq (emit d' decls active (tsub_of sub) e) (xprint (inline d' decls active sub e))) :
  forall active e sub, peq (emit d decls active (tsub_of sub) e) (xprint (inline d decls active sub e)).
Proof.
  intros active.
  induction e as [v|vs|x ms Hms|f args Hargs|a IHa|o a IHa|o a b IHa IHb] using expr_ind'; intros sub.
  - rewrite emit_EVal, inline_EVal. apply peq_refl.
  - rewrite emit_EList, inline_EList. apply peq_refl.
  - rewrite emit_EChain, inline_EChain.
    change (head_text (tsub_of sub) x :: emit_chain (emit d decls active (tsub_of sub)) ms)
      with ([head_text (tsub_of sub) x] ++ emit_chain (emit d decls active (tsub_of sub)) ms).
    apply chain_peq; [exact Hms|apply head_peq].
  - assert (Hnone : peq (head_text (tsub_of sub) f :: "(" ::
                           sep_pieces "," (List.map (emit d decls active (tsub_of sub)) args) ++ [")"])
                        (xprint (XCall (head_of sub f) (List.map (inline d decls active sub) args)))).
    { cbn [xprint]. apply (peq_app [_] _ _ _ (head_peq sub f)). apply peq_cons.
      apply peq_app; [|apply peq_refl]. now apply args_peq. }
    destruct d as [|d']; [rewrite emit_ECall_O, inline_ECall_O; exact Hnone|].
    rewrite emit_ECall_S, inline_ECall_S.
    destruct (is_active (call_key f (length args)) active); [exact Hnone|].
    destruct (find_decl decls f (length args)) as [decl|]; [|exact Hnone].
    cbn [xprint]. apply peq_cons. apply peq_app; [|apply peq_refl].
    replace (combine (List.map snd (pd_params decl))
               (List.map (fun a => "( " ++ join " " (emit (S d') decls active (tsub_of sub) a) ++ " )") args))
      with (tsub_of (combine (List.map snd (pd_params decl))
                       (List.map XParen (List.map (inline (S d') decls active sub) args)))).
    { apply (IHd d' eq_refl). }
    rewrite tsub_of_combine. f_equal. rewrite !map_map.
    clear Hnone. induction Hargs as [|a args Ha Hargs IH]; cbn [map]; [reflexivity|].
    f_equal; [|exact IH]. cbn [xprint]. rewrite join_paren by apply xprint_nonempty.
    destruct (Ha sub) as [_ ->]. reflexivity.
  - rewrite emit_EParen, inline_EParen. cbn [xprint]. apply peq_cons.
    apply peq_app; [apply IHa|apply peq_refl].
  - rewrite emit_EUn, inline_EUn. cbn [xprint]. apply peq_cons, IHa.
  - rewrite emit_EBin, inline_EBin. cbn [xprint]. apply peq_app; [apply IHa|]. apply peq_cons, IHb.
Qed.

Theorem emit_inline_peq : forall d decls active e sub,
  peq (emit d decls active (tsub_of sub) e) (xprint (inline d decls active sub e)).
Proof.
  induction d as [|d IH]; intros decls; apply emit_inline_step.
  - intros d' E. discriminate E.
  - intros d' E. injection E as <-. apply IH.
Qed.

(* the text ExpandedCondition builds is the printed form of the AST-level expansion *)
Theorem emit_inline : forall d decls active e tsub sub,
  tsub_of sub = tsub ->
  join " " (emit d decls active tsub e) = join " " (xprint (inline d decls active sub e)).
Proof. intros d decls active e tsub sub <-. apply emit_inline_peq. Qed.
Print Assumptions emit_inline.

Corollary expanded_condition_inline q :
  expanded_condition q = match condition q with Some c => join " " (xprint c) | None => [] end.
Proof.
  unfold expanded_condition, condition. destruct (q_where q) as [e|]; [|reflexivity].
  now apply emit_inline.
Qed.
Print Assumptions expanded_condition_inline.

(* ====================================================================================== *)
(* Boolean checkers for the hypotheses (decidable on a concrete query and graph)          *)
(* ====================================================================================== *)
Definition refine_check (q : query) (g : list node) : bool :=
  forallb (fun t =>
             match spec_accepted q t with Unknown => false | _ => true end
             && match condition q with
                | Some c => match static (tuple_env q t) c with SOk _ => true | _ => false end
                | None => true
                end) (candidates q g).

Lemma refine_check_ok q g : refine_check q g = true ->
  forall t, In t (candidates q g) -> spec_accepted q t <> Unknown /\ static_ok q t.
Proof.
  unfold refine_check. rewrite forallb_forall. intros H t Ht.
  apply H in Ht. apply andb_prop in Ht as [H1 H2]. split.
  - intros E. rewrite E in H1. discriminate H1.
  - intros c Hc. rewrite Hc in H2. destruct (static (tuple_env q t) c) as [ty| |]; try discriminate H2.
    now exists ty.
Qed.

Definition total_check (q : query) (g : list node) (A : expr) : bool :=
  forallb (fun t => match sv q t A with Val (VB _) => true | _ => false end) (candidates q g).

Lemma total_check_ok q g A : total_check q g A = true -> total q g A.
Proof.
  unfold total_check, total. rewrite forallb_forall. intros H t Ht. apply H in Ht.
  destruct (sv q t A) as [[s|z|b| |l|p r n|p n|tag]| | |]; try discriminate Ht. now exists b.
Qed.

(* ====================================================================================== *)
(* Examples: the hypotheses are satisfiable on a concrete query with nested predicates    *)
(* ====================================================================================== *)
Module Examples.
  Definition md (name : bytes) : node :=
    mk_node ("md:" ++ name) "method_declaration" name "void f() {}" 1 false "A.java" true.
  Definition cd (name : bytes) : node :=
    mk_node ("cd:" ++ name) "class_declaration" name "class C {}" 1 false "A.java" true.
  Definition g : list node := [md "foo"; cd "C"; md "bar"; cd "D"].

  (* predicate named(method_declaration m, class_declaration c) { m.getName() == "foo" && !(c.getName() == m.getName()) } *)
  Definition named : pred_decl :=
    {| pd_name := "named";
       pd_params := [("method_declaration", "m"); ("class_declaration", "c")];
       pd_body := EBin BAnd (EBin BEq (EChain "m" [MCall "getName" []]) (EVal (VStr """foo""")))
                    (EUn UNot (EParen (EBin BEq (EChain "c" [MCall "getName" []])
                                         (EChain "m" [MCall "getName" []])))) |}.
  (* predicate both(class_declaration k, method_declaration m) { named(m, k) || k.getName() == "D" }
     : a call inside a body, with the formals passed on in swapped order *)
  Definition both : pred_decl :=
    {| pd_name := "both";
       pd_params := [("class_declaration", "k"); ("method_declaration", "m")];
       pd_body := EBin BOr (ECall "named" [EChain "m" []; EChain "k" []])
                    (EBin BEq (EChain "k" [MCall "getName" []]) (EVal (VStr """D"""))) |}.
  (* FROM method_declaration AS md, class_declaration AS cd
     WHERE (both(cd, md)) && !(md.getName() == "bar") SELECT md *)
  Definition q : query :=
    {| q_preds := [named; both];
       q_from := [("method_declaration", "md"); ("class_declaration", "cd")];
       q_where := Some (EBin BAnd (EParen (ECall "both" [EChain "cd" []; EChain "md" []]))
                          (EUn UNot (EParen (EBin BEq (EChain "md" [MCall "getName" []])
                                               (EVal (VStr """bar"""))))));
       q_select := [SelVar "md"] |}.

  Definition A : expr := EBin BLt (EChain "md" [MCall "getName" []]) (EVal (VNum "1")).  (* run-time error *)
  Definition B : expr := EBin BEq (EChain "md" [MCall "getName" []]) (EVal (VStr """foo""")).
  Definition C : expr := ECall "both" [EChain "cd" []; EChain "md" []].

  (* T1 *)
  Example g_nodup : NoDup g.
  Proof.
    apply NoDup_map_inv with (f := n_idpre). vm_compute.
    repeat (constructor; [cbn [In]; intuition discriminate|]). constructor.
  Qed.
  Example product_nodup_hyp : Forall (@NoDup node) [[md "foo"; md "bar"]; [cd "C"; cd "D"]].
  Proof.
    repeat constructor; cbn [In]; try (intros [H|H]; [discriminate H|exact H]); intros [].
  Qed.
  Example candidates_ex :
    List.map (List.map n_name) (candidates q g) = [["foo"; "C"]; ["bar"; "C"]; ["foo"; "D"]; ["bar"; "D"]].
  Proof. vm_compute. reflexivity. Qed.

  (* T2 *)
  Example results_ex : results q g = [[md "foo"; cd "C"]; [md "foo"; cd "D"]].
  Proof. vm_compute. reflexivity. Qed.
  Example results_sound_hyp : In [md "foo"; cd "D"] (results q g).
  Proof. rewrite results_ex. right. now left. Qed.
  Example results_complete_hyp :
    In [md "foo"; cd "C"] (candidates q g) /\ accepted q [md "foo"; cd "C"] = Accept.
  Proof. split; [vm_compute; now left|vm_compute; reflexivity]. Qed.
  Example results_no_where_hyp : q_where (with_where q None) = None.
  Proof. reflexivity. Qed.

  (* T3 *)
  Example wf : wf_query q = true.
  Proof. vm_compute. reflexivity. Qed.
  Example refine_hyp :
    forall t, In t (candidates q g) -> spec_accepted q t <> Unknown /\ static_ok q t.
  Proof. apply refine_check_ok. vm_compute. reflexivity. Qed.
  Example refine : results q g = spec_results q g.
  Proof. apply results_refine_spec; [exact wf|exact refine_hyp]. Qed.
  (* the hypotheses of inline_seval inside the call both(cd, md): the substitution and the
     specification environment the call creates are related *)
  Example R_hyp :
    let env0 := tuple_env q [md "foo"; cd "C"] in
    R env0 [("k", XParen (XVar "cd")); ("m", XParen (XVar "md"))]
      [("k", BEnt "class_declaration" (cd "C")); ("m", BEnt "method_declaration" (md "foo"))].
  Proof.
    intros env0.
    apply (R_call env0 ["k"; "m"] [XParen (XVar "cd"); XParen (XVar "md")]
             [BEnt "class_declaration" (cd "C"); BEnt "method_declaration" (md "foo")]).
    repeat constructor.
  Qed.
  (* the static-checker hypothesis is not gratuitous: a compile-time type error in a branch the
     specification never evaluates makes the implementation reject every tuple *)
  Definition q_static : query :=
    with_where q (Some (EBin BOr B (EBin BLt (EVal (VNum "1")) (EVal (VStr """s"""))))).
  Example static_ok_needed :
    wf_query q_static = true /\
    spec_accepted q_static [md "foo"; cd "C"] = Accept /\ accepted q_static [md "foo"; cd "C"] = Reject.
  Proof. vm_compute. auto. Qed.

  (* T4 *)
  Example total_B : total q g B.
  Proof. apply total_check_ok. vm_compute. reflexivity. Qed.
  Example total_C : total q g C.
  Proof. apply total_check_ok. vm_compute. reflexivity. Qed.
  Example not_total_A : ~ total q g A.
  Proof.
    intros H. destruct (H [md "foo"; cd "C"]) as [b Hb]; [vm_compute; now left|].
    vm_compute in Hb. discriminate Hb.
  Qed.
  Example or_ex t :
    In t (spec_results (with_where q (Some (EBin BOr C B))) g) <->
    In t (spec_results (with_where q (Some C)) g) \/ In t (spec_results (with_where q (Some B)) g).
  Proof. apply spec_or, total_C. Qed.
  Example not_ex :
    List.map (List.map n_name) (spec_results (with_where q (Some (EUn UNot C))) g) = [["bar"; "C"]].
  Proof. vm_compute. reflexivity. Qed.
  Example equiv_hyp :     (* two conditions with the same value on every candidate *)
    forall t, In t (candidates q g) ->
              sv q t (EBin BAnd B C) = sv q t (ECall "named" [EChain "md" []; EChain "cd" []]).
  Proof.
    intros t Ht. vm_compute in Ht.
    destruct Ht as [<-|[<-|[<-|[<-|[]]]]]; vm_compute; reflexivity.
  Qed.

  (* T3, value parameters: predicates declared with a value parameter, called with literals *)
  Module ValueParams.
    (* predicate hasName(method_declaration x, string s) { x.getName() == s } *)
    Definition hasName : pred_decl :=
      {| pd_name := "hasName";
         pd_params := [("method_declaration", "x"); ("string", "s")];
         pd_body := EBin BEq (EChain "x" [MCall "getName" []]) (EChain "s" []) |}.
    (* predicate first(method_declaration a, string t) { hasName(a, t) } : passes its value on *)
    Definition first : pred_decl :=
      {| pd_name := "first";
         pd_params := [("method_declaration", "a"); ("string", "t")];
         pd_body := ECall "hasName" [EChain "a" []; EChain "t" []] |}.
    Definition alpha : expr := EVal (VStr """alpha""").
    Definition delta : expr := EVal (VStr """delta""").
    (* FROM method_declaration AS m WHERE first(m, "alpha") || first(m, ("delta")) SELECT m *)
    Definition qv : query :=
      {| q_preds := [hasName; first];
         q_from := [("method_declaration", "m")];
         q_where := Some (EBin BOr (ECall "first" [EChain "m" []; alpha])
                            (ECall "first" [EChain "m" []; EParen delta]));
         q_select := [SelVar "m"] |}.
    Definition g2 : list node := [md "alpha"; md "beta"].
    Definition g3 : list node := [md "alpha"; md "beta"; md "delta"].

    Example wf_v : wf_query qv = true.
    Proof. vm_compute. reflexivity. Qed.
    (* (a) the specification gives the query a meaning on every candidate, the hypotheses of the
       refinement theorem hold, and the result is a non-empty strict subset of the candidates *)
    Example refine_hyp_v2 :
      forall t, In t (candidates qv g2) -> spec_accepted qv t <> Unknown /\ static_ok qv t.
    Proof. apply refine_check_ok. vm_compute. reflexivity. Qed.
    Example refine_hyp_v3 :
      forall t, In t (candidates qv g3) -> spec_accepted qv t <> Unknown /\ static_ok qv t.
    Proof. apply refine_check_ok. vm_compute. reflexivity. Qed.
    Example refine_v2 : results qv g2 = spec_results qv g2.
    Proof. apply results_refine_spec; [exact wf_v|exact refine_hyp_v2]. Qed.
    Example refine_v3 : results qv g3 = spec_results qv g3.
    Proof. apply results_refine_spec; [exact wf_v|exact refine_hyp_v3]. Qed.
    Example spec_results_v2 :
      candidates qv g2 = [[md "alpha"]; [md "beta"]] /\
      spec_results qv g2 = [[md "alpha"]] /\ results qv g2 = [[md "alpha"]].
    Proof. vm_compute. auto. Qed.
    Example spec_results_v3 :
      candidates qv g3 = [[md "alpha"]; [md "beta"]; [md "delta"]] /\
      spec_results qv g3 = [[md "alpha"]; [md "delta"]] /\ results qv g3 = [[md "alpha"]; [md "delta"]].
    Proof. vm_compute. auto. Qed.
    Example in_fragment_v : in_fragment qv g3 = true.
    Proof. vm_compute. reflexivity. Qed.
    Example expanded_v :
      expanded_condition qv =
      "( ( ( ( m ) ) . getName ( ) == ( ( ""alpha"" ) ) ) ) || ( ( ( ( m ) ) . getName ( ) == ( ( ( ""delta"" ) ) ) ) )".
    Proof. vm_compute. reflexivity. Qed.

    (* (b) the text of the inner call, hasName(a, t), is the same in both expansions of first;
       its value depends on what t is bound to (a memo keyed by the call text would be wrong) *)
    Definition inner : expr := ECall "hasName" [EChain "a" []; EChain "t" []].
    Definition env_m : tenv := tuple_env qv [md "alpha"].
    Definition fe (v : bytes) : fenv :=
      [("a", BEnt "method_declaration" (md "alpha")); ("t", BVal (VStr v))].
    Example same_call_two_bindings :
      seval 2 (q_preds qv) ["first/2"] env_m (fe """alpha""") inner = Val (VB true) /\
      seval 2 (q_preds qv) ["first/2"] env_m (fe """delta""") inner = Val (VB false).
    Proof. vm_compute. auto. Qed.
    (* ... and so does the implementation's expansion under the two related substitutions *)
    Definition sb (v : bytes) : subst :=
      [("a", XParen (XVar "m")); ("t", XParen (XVal (VStr v)))].
    Example R_hyp_v v : R env_m (sb v) (fe v).
    Proof.
      apply (R_call env_m ["a"; "t"] [XParen (XVar "m"); XParen (XVal (VStr v))]
               [BEnt "method_declaration" (md "alpha"); BVal (VStr v)]).
      repeat constructor.
    Qed.
    Example same_call_two_substitutions :
      eval env_m (inline 2 (q_preds qv) ["first/2"] (sb """alpha""") inner) = Val (VB true) /\
      eval env_m (inline 2 (q_preds qv) ["first/2"] (sb """delta""") inner) = Val (VB false).
    Proof. vm_compute. auto. Qed.

    (* shadowing: a value formal spelled like the FROM alias, and like another predicate's formal.
       predicate is(method_declaration x, string m) { x.getName() == m }
       FROM method_declaration AS m WHERE is(m, "beta") : inside the body m is the string *)
    Definition is_ : pred_decl :=
      {| pd_name := "is";
         pd_params := [("method_declaration", "x"); ("string", "m")];
         pd_body := EBin BEq (EChain "x" [MCall "getName" []]) (EChain "m" []) |}.
    Definition q_shadow : query :=
      {| q_preds := [is_];
         q_from := [("method_declaration", "m")];
         q_where := Some (ECall "is" [EChain "m" []; EVal (VStr """beta""")]);
         q_select := [SelVar "m"] |}.
    Example shadow_ex :
      wf_query q_shadow = true /\ refine_check q_shadow g3 = true /\
      spec_results q_shadow g3 = [[md "beta"]] /\ results q_shadow g3 = [[md "beta"]].
    Proof. vm_compute. auto. Qed.
    (* two formals of the same name: the first decides, in the specification as in the expansion.
       predicate dup(method_declaration x, string x) { x.getName() == "beta" } *)
    Definition dup : pred_decl :=
      {| pd_name := "dup";
         pd_params := [("method_declaration", "x"); ("string", "x")];
         pd_body := EBin BEq (EChain "x" [MCall "getName" []]) (EVal (VStr """beta""")) |}.
    Definition q_dup : query :=
      {| q_preds := [dup];
         q_from := [("method_declaration", "m")];
         q_where := Some (ECall "dup" [EChain "m" []; EVal (VStr """zeta""")]);
         q_select := [SelVar "m"] |}.
    Example dup_ex :
      wf_query q_dup = true /\ refine_check q_dup g3 = true /\
      spec_results q_dup g3 = [[md "beta"]] /\ results q_dup g3 = [[md "beta"]].
    Proof. vm_compute. auto. Qed.

    (* a value formal in alias position (s.getName()), or a number compared with a name: defined
       in the specification (outside the fragment, resp. false), same as the expansion *)
    Definition q_num : query :=
      {| q_preds := [hasName];
         q_from := [("method_declaration", "m")];
         q_where := Some (ECall "hasName" [EChain "m" []; EVal (VNum "7")]);
         q_select := [SelVar "m"] |}.
    Example num_ex :
      wf_query q_num = true /\ refine_check q_num g3 = true /\
      spec_results q_num g3 = [] /\ results q_num g3 = [].
    Proof. vm_compute. auto. Qed.

    (* the static-checker hypothesis matters more with value parameters: substitution makes the
       literal's type visible to expr-lang's checker inside the body, binding does not.
       predicate low(method_declaration x, string s) { x.getName() == "alpha" || s < 1 }
       low(m, "k"): the specification accepts alpha (|| short-circuits), the implementation
       rejects every tuple with a compile error ("k" < 1) *)
    Definition low : pred_decl :=
      {| pd_name := "low";
         pd_params := [("method_declaration", "x"); ("string", "s")];
         pd_body := EBin BOr (EBin BEq (EChain "x" [MCall "getName" []]) alpha)
                      (EBin BLt (EChain "s" []) (EVal (VNum "1"))) |}.
    Definition q_low : query :=
      {| q_preds := [low];
         q_from := [("method_declaration", "m")];
         q_where := Some (ECall "low" [EChain "m" []; EVal (VStr """k""")]);
         q_select := [SelVar "m"] |}.
    Example static_ok_needed_value :
      wf_query q_low = true /\
      spec_accepted q_low [md "alpha"] = Accept /\ accepted q_low [md "alpha"] = Reject /\
      spec_results q_low g3 = [[md "alpha"]] /\ results q_low g3 = [].
    Proof. vm_compute. auto. Qed.
  End ValueParams.

  (* T5 *)
  Example expanded_ex :
    expanded_condition q =
    "( ( ( ( ( md ) ) . getName ( ) == ""foo"" && ! ( ( ( cd ) ) . getName ( ) == ( ( md ) ) . getName ( ) ) ) || ( cd ) . getName ( ) == ""D"" ) ) && ! ( md . getName ( ) == ""bar"" )".
  Proof. vm_compute. reflexivity. Qed.
  Example expanded_ex' :
    match condition q with Some c => join " " (xprint c) = expanded_condition q | None => False end.
  Proof. vm_compute. reflexivity. Qed.
End Examples.

(* without totality of the left operand, disjunction is neither union nor commutative: with A a
   run-time error (a string accessor compared with < against an integer) and B true on the
   "foo" tuples, B || A selects them and A || B selects nothing *)
Lemma spec_or_needs_total :
  exists q g A B,
    total q g B /\ ~ total q g A /\
    spec_results (with_where q (Some (EBin BOr A B))) g = [] /\
    spec_results (with_where q (Some (EBin BOr B A))) g <> [] /\
    spec_results (with_where q (Some B)) g <> [].
Proof.
  exists Examples.q, Examples.g, Examples.A, Examples.B.
  split; [exact Examples.total_B|]. split; [exact Examples.not_total_A|].
  split; [vm_compute; reflexivity|]. split; vm_compute; discriminate.
Qed.
Print Assumptions spec_or_needs_total.

(* remaining statements used by the reports *)
Print Assumptions results_iff.
Print Assumptions candidates_iff.
Print Assumptions candidates_nodup.
Print Assumptions candidates_count.
Print Assumptions spec_equiv_true.
Print Assumptions spec_not_not_total.
Print Assumptions spec_or_comm.
Print Assumptions spec_and_comm.
Print Assumptions emit_inline_peq.
Print Assumptions tsub_of_paren.
Print Assumptions refine_check_ok.
Print Assumptions total_check_ok.
Print Assumptions Examples.refine.
Print Assumptions Examples.static_ok_needed.
Print Assumptions atom_eval_entities.
Print Assumptions Examples.ValueParams.refine_v3.
Print Assumptions Examples.ValueParams.same_call_two_bindings.
