(* Facts about processQuery and the console: layout, histories, chunking. *)
From CPF Require Import Base.BytesFacts Lang.LexerFacts Lang.ParserFacts Engine.Process.
From Coq Require Import Lia.
Open Scope bs_scope.

(* C14: the answer depends only on the token sequence *)
Theorem process_layout toks lay1 lay2 g :
  forallb tok_wfb toks = true -> separable toks lay1 = true -> separable toks lay2 = true ->
  process_query (render toks lay1) g = process_query (render toks lay2) g.
Proof.
  intros Hwf H1 H2. unfold process_query.
  rewrite (parse_layout_irrelevant toks lay1 lay2 Hwf H1 H2). reflexivity.
Qed.

(* a well-formed query in any separable layout is accepted, and is answered as its AST *)
Theorem process_rendered q lay g :
  aquery_wfb q = true -> separable (tokens_of_query q) lay = true ->
  process_query (render (tokens_of_query q) lay) g =
  Answer {| a_results := results (flatten_query q) g;
            a_rows := List.map (row (flatten_query q)) (results (flatten_query q) g) |}.
Proof. intros Hq Hs. unfold process_query. rewrite (C11_roundtrip q lay Hq Hs). reflexivity. Qed.

(* C16: a session never changes the graph, so every answer is the stand-alone answer *)
Definition run_history (g : list node) (hist : list bytes) : list node :=
  fold_left (fun g' s => fst (step g' s)) hist g.

Theorem history_graph g hist : run_history g hist = g.
Proof. unfold run_history. induction hist as [|s h IH]; [reflexivity|]. cbn [fold_left step fst]. exact IH. Qed.

Theorem history_answer g hist s :
  snd (step (run_history g hist) s) = snd (step g s).
Proof. rewrite history_graph. reflexivity. Qed.

(* ---------- console: the transcript depends only on the bytes, not on their chunking ---------- *)
Lemma take_line_app s l rest t : take_line s = Some (l, rest) -> take_line (s ++ t) = Some (l, rest ++ t).
Proof.
  revert l rest. induction s as [|c s IH]; intros l rest H; [discriminate|].
  cbn [take_line app] in *. destruct (beqb c nl); [injection H as <- <-; reflexivity|].
  destruct (take_line s) as [[l' r']|]; [|discriminate]. injection H as <- <-.
  rewrite (IH l' r' eq_refl). reflexivity.
Qed.

Lemma take_line_none_app s t : take_line s = None ->
  take_line (s ++ t) = match take_line t with Some (l, r) => Some (s ++ l, r) | None => None end.
Proof.
  induction s as [|c s IH]; intro H; [cbn; destruct (take_line t) as [[? ?]|]; reflexivity|].
  cbn [take_line app] in *. destruct (beqb c nl); [discriminate|].
  destruct (take_line s) as [[? ?]|]; [discriminate|]. rewrite (IH eq_refl).
  destruct (take_line t) as [[? ?]|]; reflexivity.
Qed.

(* reading a line from chunked input = reading it from the concatenation *)
Lemma read_line_concat : forall chunks buf,
  match read_line buf chunks with
  | Some (l, buf', chunks') => take_line (buf ++ concat chunks) = Some (l, buf' ++ concat chunks')
  | None => take_line (buf ++ concat chunks) = None
  end.
Proof.
  induction chunks as [|c cs IH]; intro buf; cbn [read_line concat].
  - rewrite app_nil_r. destruct (take_line buf) as [[l r]|]; [rewrite app_nil_r|]; reflexivity.
  - destruct (take_line buf) as [[l r]|] eqn:E.
    + cbn [concat]. apply take_line_app. exact E.
    + specialize (IH (buf ++ c)). rewrite <- app_assoc in IH. exact IH.
Qed.

Lemma take_line_length s l r : take_line s = Some (l, r) -> length r < length s.
Proof.
  revert l r. induction s as [|c s IH]; intros l r H; [discriminate|]. cbn [take_line] in H.
  destruct (beqb c nl); [injection H as _ <-; cbn; lia|].
  destruct (take_line s) as [[l' r']|]; [|discriminate]. injection H as _ <-.
  specialize (IH l' r' eq_refl). cbn [length]. lia.
Qed.

Lemma read_line_nil s : read_line s [] = match take_line s with Some (l, r) => Some (l, r, []) | None => None end.
Proof. reflexivity. Qed.

Theorem console_chunking g : forall fuel buf chunks,
  length (buf ++ concat chunks) < fuel ->
  console fuel g buf chunks = console fuel g (buf ++ concat chunks) [].
Proof.
  induction fuel as [|f IH]; intros buf chunks Hlen; [lia|].
  cbn [console]. rewrite read_line_nil. pose proof (read_line_concat chunks buf) as H1.
  destruct (read_line buf chunks) as [[[l b'] c']|]; rewrite H1; [|reflexivity].
  destruct (has_prefix ":quit" l); [reflexivity|].
  apply take_line_length in H1.
  rewrite (IH b' c') by lia. reflexivity.
Qed.

(* the console answers exactly the complete lines of its input, whatever the chunking *)
Corollary console_session_chunking g chunks :
  console_session g chunks = console_session g [concat chunks].
Proof.
  unfold console_session. cbn [concat]. rewrite app_nil_r.
  rewrite (console_chunking g _ [] chunks) by (cbn [app]; lia).
  rewrite (console_chunking g _ [] [concat chunks]) by (cbn [app concat]; rewrite app_nil_r; lia).
  cbn [app concat]. rewrite app_nil_r. reflexivity.
Qed.
