(* RenderFacts.v -- facts about the rendering of answers (Engine/Render.v). *)
From CPF Require Import Base.Bytes Base.BytesFacts Base.Json Base.JsonFacts Engine.Render.
From Coq Require Import List Lia NArith.
Import ListNotations.
Open Scope bs_scope.

(* ---------- JSON: the document decodes to the structure, and the structure lists the locations ---------- *)
Lemma all_some_map_some : forall (A B : Type) (f : A -> B) (l : list A),
  all_some (map (fun x => Some (f x)) l) = Some (map f l).
Proof. induction l as [|x l IH]; cbn; [reflexivity|]. rewrite IH. reflexivity. Qed.

Lemma json_location_entity : forall e, json_location (json_entity e) = Some (location e).
Proof. intro e. unfold json_location, json_entity, json_field, location. cbn. rewrite N2Z.id. reflexivity. Qed.

Theorem json_locations_answer : forall rs rows,
  json_locations (json_answer rs rows) = Some (locations rs).
Proof.
  intros rs rows. unfold json_locations, json_answer, json_field. cbn.
  unfold locations. rewrite map_map.
  rewrite (map_ext _ (fun e => Some (location e))) by (intro; apply json_location_entity).
  apply all_some_map_some.
Qed.

Theorem render_json_decodes : forall rs rows b jr,
  render_json rs rows = Some b -> json_rows rows = Some jr ->
  wf_json (json_answer rs jr) = true ->
  decode b = Some (json_answer rs jr) /\ json_locations (json_answer rs jr) = Some (locations rs).
Proof.
  intros rs rows b jr H Hr Hwf. unfold render_json in H. rewrite Hr in H. unfold option_map in H. injection H as <-.
  split; [apply decode_encode; exact Hwf | apply json_locations_answer].
Qed.

(* ---------- text: every entity block starts with its location, and numbers its snippet lines ---------- *)
Lemma text_entity_header : forall row e, exists rest, text_entity row e = header e ++ rest.
Proof. intros. unfold text_entity. eexists. reflexivity. Qed.

Lemma numbered_from_nth : forall lines n i l,
  nth_error lines i = Some l -> nth_error (numbered_from n lines) i = Some (numbered (n + N.of_nat i) l).
Proof.
  induction lines as [|x r IH]; intros n i l H; [destruct i; discriminate|].
  destruct i as [|i]; cbn [nth_error numbered_from] in *.
  - injection H as ->. rewrite N.add_0_r. reflexivity.
  - rewrite (IH _ _ _ H). replace (n + 1 + N.of_nat i)%N with (n + N.of_nat (S i))%N by lia. reflexivity.
Qed.

Lemma numbered_from_length : forall lines n, length (numbered_from n lines) = length lines.
Proof. induction lines; intros; cbn; [reflexivity|]. rewrite IHlines. reflexivity. Qed.

(* the i-th snippet line is printed next to the number [line + i], and is the i-th numbered line *)
Theorem numbered_lines_nth : forall e i l,
  nth_error (split_on Bytes.nl (n_snippet e)) i = Some l ->
  nth_error (numbered_lines e) i = Some (numbered (n_line e + N.of_nat i) l).
Proof. intros. unfold numbered_lines. apply numbered_from_nth. assumption. Qed.

(* the text report is the concatenation of the blocks of the reported combinations, in order *)
Theorem text_answer_app : forall rs1 rows1 rs2 rows2,
  length rs1 = length rows1 ->
  text_answer (rs1 ++ rs2) (rows1 ++ rows2) = text_answer rs1 rows1 ++ text_answer rs2 rows2.
Proof.
  induction rs1 as [|t rs1 IH]; intros [|r rows1] rs2 rows2 H; cbn in *; try discriminate; [reflexivity|].
  rewrite <- app_assoc. f_equal. apply IH. lia.
Qed.

(* ---------- text mode numbers real file lines (C04, third mechanism) ---------- *)
From CPF Require Import Scan.Cst Scan.Build Scan.BuildFacts.

Theorem text_numbering : forall path src t g k e i s_i,
  cst_wfb src t = true -> build_file path src t = Ok g -> In (k, e) (g_nodes g) ->
  nth_error (split_on Bytes.nl (n_snippet e)) i = Some s_i ->
  nth_error (numbered_lines e) i = Some (numbered (n_line e + N.of_nat i) s_i)
  /\ exists L a b,
       nth_error (split_on Bytes.nl src) (N.to_nat (n_line e + N.of_nat i) - 1) = Some L
       /\ L = a ++ s_i ++ b
       /\ (0 < i -> a = [])
       /\ (i < N.to_nat (count_nl (n_snippet e)) -> b = []).
Proof.
  intros path src t g k e i s_i Hwf Hb Hin Hn.
  split; [apply numbered_lines_nth; exact Hn|].
  destruct (build_file_location path src t g k e Hwf Hb Hin) as [_ [pre [post [Hsrc Hline]]]].
  destruct (snippet_lines pre (n_snippet e) post i s_i Hn) as [L [a [b [HL [Hab [Ha Hb']]]]]].
  exists L, a, b. repeat split; try assumption.
  rewrite Hsrc, Hline.
  replace (N.to_nat (count_nl pre + 1 + N.of_nat i) - 1) with (N.to_nat (count_nl pre) + i) by lia.
  exact HL.
Qed.

(* ---------- both outputs show the same locations, in the same order (C15) ---------- *)
Definition header_of (loc : bytes * N) : bytes :=
  [x09] ++ "File: " ++ fst loc ++ ", Line: " ++ dec (snd loc) ++ " " ++ [Bytes.nl].

Lemma header_location : forall e, header e = header_of (location e).
Proof. reflexivity. Qed.

Definition starts_with_header (blk : bytes) (loc : bytes * N) : Prop := exists rest, blk = header_of loc ++ rest.

Lemma text_tuple_blocks : forall row t,
  exists blocks, text_tuple t row = concat blocks /\ Forall2 starts_with_header blocks (map location t).
Proof.
  intros row t. exists (map (text_entity row) t). split; [reflexivity|].
  induction t as [|e t IH]; cbn [map]; constructor; [|exact IH].
  destruct (text_entity_header row e) as [rest E]. exists rest. rewrite E, header_location. reflexivity.
Qed.

Theorem text_answer_blocks : forall rs tr, length rs = length tr ->
  exists blocks, text_answer rs tr = concat blocks /\ Forall2 starts_with_header blocks (locations rs).
Proof.
  induction rs as [|t rs IH]; intros [|r tr] H; cbn in *; try discriminate.
  - exists []. split; [reflexivity|constructor].
  - destruct (IH tr) as [bl [E F]]; [lia|].
    destruct (text_tuple_blocks r t) as [bt [Et Ft]].
    exists (bt ++ bl). split.
    + rewrite concat_app, Et, E. reflexivity.
    + unfold locations in *. cbn [concat]. rewrite map_app. apply Forall2_app; assumption.
Qed.
