(* EvalFacts.v -- the evaluator model never leaves the 64-bit range of expr-lang's integers: every integer value it
   yields (literals, +, -, *, unary minus) lies in [-2^63, 2^63); where the true result would not, the model answers
   OutOfFragment instead of a number expr-lang would not produce (Go ints wrap around silently). *)
From CPF Require Import Base.Bytes Lang.Expr Engine.Eval.
From CPF.gen Require Import Tables.
From Coq Require Import List ZArith Bool.
Import ListNotations.

Lemma literal_range v z : literal v = Val (VI z) -> in_int64 z = true.
Proof.
  destruct v as [tok|tok]; cbn [literal].
  - destruct (string_literal tok); discriminate.
  - unfold int_literal. destruct tok as [|c r]; [discriminate|].
    destruct (int_literal_aux (c :: r) 0) as [z'|]; [|discriminate].
    destruct (in_int64 z') eqn:E; [|discriminate]. intros [= <-]. exact E.
Qed.

Lemma arith_range f a b z : arith f a b = Val (VI z) -> in_int64 z = true.
Proof.
  unfold arith. destruct a, b; try (destruct (plain _ && plain _); discriminate).
  destruct (in_int64 (f z0 z1)) eqn:E; [|discriminate]. intros [= <-]. exact E.
Qed.

Lemma field_val_no_int path n z : field_val path n <> Val (VI z).
Proof.
  unfold field_val, strs.
  repeat match goal with
         | |- (if ?c then _ else _) <> _ => destruct c; [try discriminate|]
         end;
  try discriminate;
  repeat match goal with
         | |- match ?x with _ => _ end <> _ => destruct x as [[[? ?] ?]|] || destruct x as [[? ?]|] || destruct x
         end; discriminate.
Qed.

Lemma member_no_int k n f z : member_of_env k n f <> Val (VI z).
Proof.
  unfold member_of_env. destruct (kind_bindings k); [|discriminate].
  destruct (find_binding f l) as [[a t]|]; [|discriminate].
  destruct (bytes_eqb a "const"); discriminate.
Qed.

Lemma call_no_int k n f z : call_accessor k n f <> Val (VI z).
Proof.
  unfold call_accessor. destruct (kind_bindings k); [|discriminate].
  destruct (find_binding f l) as [[a t]|]; [|discriminate].
  destruct (bytes_eqb a "method"); [|discriminate].
  destruct (lookup t engine_env_methods); [apply field_val_no_int|discriminate].
Qed.

Lemma cmp_lt_no_int a b z : cmp_lt a b <> Val (VI z).
Proof. unfold cmp_lt. destruct a, b; try discriminate; destruct (plain _ && plain _); discriminate. Qed.

Lemma wrong_operand_no_val v w : wrong_operand v <> Val w.
Proof. unfold wrong_operand. destruct (plain v); discriminate. Qed.

Lemma neg_result_int (r : res) z :
  (match r with Val (VB x) => Val (VB (negb x)) | r' => r' end) = Val (VI z) -> r = Val (VI z).
Proof. destruct r as [v| | |]; try discriminate. destruct v; try discriminate; auto. Qed.

Lemma binop_range o a b z : binop_val o a b = Val (VI z) -> in_int64 z = true.
Proof.
  destruct o; cbn [binop_val].
  - (* BOr *) discriminate.
  - (* BAnd *) discriminate.
  - destruct (scalar a && scalar b); discriminate.
  - destruct (scalar a && scalar b); discriminate.
  - intros H; exfalso; revert H; apply cmp_lt_no_int.
  - intros H; exfalso; revert H; apply cmp_lt_no_int.
  - destruct (cmp_lt b a) as [v| | |] eqn:E; try discriminate. destruct v; try discriminate. intros _. exfalso. exact (cmp_lt_no_int _ _ _ E).
  - destruct (cmp_lt a b) as [v| | |] eqn:E; try discriminate. destruct v; try discriminate. intros _. exfalso. exact (cmp_lt_no_int _ _ _ E).
  - destruct b; try (destruct (scalar a && scalar _)); try (destruct (scalar a)); discriminate.
  - destruct a, b; try apply arith_range. discriminate.
  - apply arith_range.
  - apply arith_range.
  - discriminate.
Qed.

(* the statement: whatever the environment and the expression, an integer the evaluator model yields is a 64-bit integer *)
Theorem eval_int_range : forall env e z, eval env e = Val (VI z) -> in_int64 z = true.
Proof.
  intros env e. induction e as [v|vs|x|a IHa f|a IHa args|a IHa|u a IHa|o a IHa b IHb]; intros z; cbn [eval].
  - apply literal_range.
  - destruct (literals vs); discriminate.
  - destruct (lookup x env) as [[k n]|]; [discriminate|]. destruct (expr_builtin x); discriminate.
  - destruct (eval env a) as [v| | |]; try discriminate.
    destruct v; try discriminate. intros H. exfalso. revert H. apply member_no_int.
  - destruct args as [|a0 args].
    + destruct (eval env a) as [v| | |]; try discriminate.
      destruct v; try (destruct (scalar _); discriminate). intros H. exfalso. revert H. apply call_no_int.
    + destruct a; try discriminate. match goal with |- match ?r with _ => _ end = _ -> _ => destruct r; discriminate end.
  - apply IHa.
  - destruct u.
    + destruct (eval env a) as [v| | |]; try discriminate.
      destruct v; try discriminate; intros H; exfalso; revert H; apply wrong_operand_no_val.
    + destruct (eval env a) as [v| | |]; try discriminate.
      destruct v; try (intros H; exfalso; revert H; apply wrong_operand_no_val).
      destruct (in_int64 (- z0)) eqn:E; [|discriminate]. intros [= <-]. exact E.
  - destruct o.
    all: try (destruct (eval env a) as [va| | |]; try discriminate; destruct (eval env b) as [vb| | |]; try discriminate; apply binop_range).
    + (* BOr *) destruct (eval env a) as [va| | |]; try discriminate.
      destruct va; try (intros H; exfalso; revert H; apply wrong_operand_no_val).
      destruct b0; [discriminate|apply IHb].
    + (* BAnd *) destruct (eval env a) as [va| | |]; try discriminate.
      destruct va; try (intros H; exfalso; revert H; apply wrong_operand_no_val).
      destruct b0; [apply IHb|discriminate].
Qed.
Print Assumptions eval_int_range.
