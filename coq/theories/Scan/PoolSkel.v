(* PoolSkel.v -- the tie between the hand-written transition system of Scan/Pool.v and the source of
   graph.Initialize: the translator extracts the goroutines of Initialize with every channel, wait-group
   and goroutine operation they perform (gen/Tables.v, pool_program, regenerated from /repo on every run);
   [pool_program_modelled] below is the program Pool.v was written against, statement by statement, with
   the transition of Pool.step that stands for it.  [pool_program_matches] is re-checked on every build:
   any change to the protocol (a channel's capacity, the order of the closes, a send moved after
   wg.Done(), a goroutine added or removed, an unknown call between two operations ...) breaks it.

   Correspondence of statements and transitions (Pool.v):
     Initialize   SErrReturn getFiles                 -- before [init]; no goroutine exists yet
                  SLen/SConst/SMake/SWaitGroup/SWgAdd -- [init]: capacities n n w n, w workers
                  SLoopN numWorkers [SGo worker]      -- [init]: w workers in Recv   (decision 1)
                  SForEach files [SSend fileChan]     -- step_m_send / step_m_sent_all
                  SClose fileChan                     -- step_m_close
                  SMake statusDone 0 ; SGo go#1       -- step_m_start_status
                  SGo go#2                            -- step_m_start_closer
                  SRange resultChan [hook]            -- step_m_collect / step_m_done
                  SRecv statusDone                    -- step_m_join   (enabled iff go#1 has returned:
                                                         statusDone is unbuffered, never sent on and
                                                         closed only by go#1's deferred close)
     worker       SRange fileChan                     -- step_w_recv / step_w_exit (closed and drained)
                  SSend statusChan                    -- step_w_status1
                  SErrContinue readFile, ParseCtx     -- step_w_read_ok / step_w_read_fail (decision 2)
                  SSend statusChan                    -- step_w_status2
                  SCall buildGraphFromAST             -- step_w_build   (total: C09_total)
                  SSend statusChan                    -- step_w_status3
                  SSend resultChan                    -- step_w_send_result
                  SSend progressChan                  -- step_w_send_progress
                  SWgDone                             -- step_w_exit
     go#1         SForever [SSelect ...]              -- step_g_status / step_g_progress /
                  SIfClosedReturn (both cases)           step_g_exit_status / step_g_exit_progress
                  SDeferClose statusDone              -- status := GExited
     go#2         SWgWait ; SClose x3                 -- step_c_wait / step_c_close_status /
                                                         step_c_close_progress *)
From CPF Require Import Base.Bytes Base.Skel.
From CPF.gen Require Import Tables.
From Coq Require Import List.
Import ListNotations.
Open Scope bs_scope.

Definition pool_program_modelled : list (bytes * list pstmt) :=
  [("Initialize",
    [SErrReturn "getFiles";
     SLen "totalFiles" "files";
     SConst "numWorkers" "5";
     SMake "fileChan" "totalFiles";
     SMake "resultChan" "totalFiles";
     SMake "statusChan" "numWorkers";
     SMake "progressChan" "totalFiles";
     SWaitGroup "wg";
     SWgAdd "numWorkers";
     SLoopN "numWorkers" [SGo "worker"];
     SForEach "files" [SSend "fileChan"];
     SClose "fileChan";
     SMake "statusDone" "0";
     SGo "go#1";
     SGo "go#2";
     SRange "resultChan" [SHook "verifOnMerge"];
     SRecv "statusDone";
     SReturn]);
   ("worker",
    [SRange "fileChan"
       [SHook "verifBeforeFile";
        SSend "statusChan";
        SErrContinue "readFile";
        SErrContinue "parser.ParseCtx";
        SSend "statusChan";
        SCall "buildGraphFromAST";
        SSend "statusChan";
        SSend "resultChan";
        SSend "progressChan"];
     SWgDone]);
   ("go#1",
    [SDeferClose "statusDone";
     SForever
       [SSelect [("statusChan", [SIfClosedReturn]);
                 ("progressChan", [SIfClosedReturn])]]]);
   ("go#2",
    [SWgWait;
     SClose "resultChan";
     SClose "statusChan";
     SClose "progressChan"])].

Lemma pool_program_matches : pool_program = pool_program_modelled.
Proof. reflexivity. Qed.

(* the number of workers the campaigns and the window characterisation of merge orders use *)
Lemma pool_workers_5 :
  In (SConst "numWorkers" "5") (snd (hd ("", []) pool_program)).
Proof. rewrite pool_program_matches. cbn. tauto. Qed.
